//! C06: drive the real FreeSpaceManager with call sequences (TLC-generated covering walks
//! or seeded random ones) and record every call with its result and the reported statistics.
use crate::util::{err_name, Opts};
use feoxdb::storage::free_space::FreeSpaceManager;
use rand::{rngs::StdRng, Rng, SeedableRng};
use serde_json::{json, Value};
use std::io::{BufRead, Write};

const BLOCK: u64 = 4096;

fn stats(m: &FreeSpaceManager) -> (u64, u64, u64) {
    (
        m.get_total_free() / BLOCK,
        m.get_largest_free_chunk() / BLOCK,
        m.get_free_chunks_count() as u64,
    )
}

/// `slack`: bytes beyond the last whole block (a device whose size is not a multiple of the block
/// size has `hi` usable blocks: the trailing partial block belongs to nobody).
fn fresh_with(hi: u64, slack: u64) -> FreeSpaceManager {
    use std::sync::atomic::{AtomicU64, Ordering};
    static BUILT: AtomicU64 = AtomicU64::new(0);
    let mut m = FreeSpaceManager::new();
    // the two ways the store builds its allocator: a fresh device (`initialize`), and the rebuild after a
    // recovery scan (`set_device_size`, then the gaps released one by one); alternating per reset
    if BUILT.fetch_add(1, Ordering::Relaxed) % 2 == 0 {
        m.initialize(hi * BLOCK + slack).expect("initialize");
    } else {
        m.set_device_size(hi * BLOCK + slack);
        let lo = 16u64;
        let mid = lo + (hi - lo) / 2;
        if mid > lo { m.release_sectors(lo, mid - lo).expect("release gap"); }
        m.release_sectors(mid, hi - mid).expect("release gap");
    }
    m
}

fn emit(out: &mut impl Write, m: &FreeSpaceManager, mut ev: Value) {
    let (t, l, c) = stats(m);
    ev["total"] = json!(t);
    ev["largest"] = json!(l);
    ev["chunks"] = json!(c);
    writeln!(out, "{}", ev).unwrap();
}

pub fn main(args: &[String]) -> i32 {
    let o = Opts::parse(args);
    let hi: u64 = o.num("hi", 22);
    let slack: u64 = o.num("slack", 0u64) % BLOCK;
    let out_path = o.req("out");
    let mut out = std::io::BufWriter::new(std::fs::File::create(out_path).expect("create out"));
    let mut m = fresh_with(hi, slack);
    emit(&mut out, &m, json!({"e": "reset"}));
    let mut calls = 0u64;
    if let Some(prog) = o.get("prog") {
        let f = std::io::BufReader::new(std::fs::File::open(prog).expect("open prog"));
        for line in f.lines() {
            let line = line.unwrap();
            if line.trim().is_empty() {
                continue;
            }
            let v: Value = serde_json::from_str(&line).expect("prog json");
            match v["op"].as_str().unwrap() {
                "reset" => {
                    m = fresh_with(hi, slack);
                    emit(&mut out, &m, json!({"e": "reset"}));
                }
                "alloc" => {
                    let n = v["n"].as_u64().unwrap();
                    do_alloc(&mut out, &mut m, n);
                }
                "release" => {
                    let s = v["s"].as_u64().unwrap();
                    let c = v["c"].as_u64().unwrap();
                    do_release(&mut out, &mut m, s, c);
                }
                other => panic!("unknown op {other}"),
            }
            calls += 1;
        }
    } else {
        let seed: u64 = o.num("seed", 1);
        let n_calls: u64 = o.num("calls", 1000);
        let max_req: u64 = o.num("maxreq", 8);
        let max_held: usize = o.num("maxheld", 0usize);
        let mut rng = StdRng::seed_from_u64(seed);
        let mut held: Vec<(u64, u64)> = Vec::new();
        for _ in 0..n_calls {
            let mut r = rng.random_range(0..100);
            // sparse use of a large device: few outstanding allocations, so the free space is one long
            // run next to a handful of small holes
            if max_held > 0 && held.len() >= max_held && r < 40 { r = 40 + r % 30; }
            if r < 40 {
                let n = if rng.random_range(0..20) == 0 { 0 } else { rng.random_range(1..=max_req) };
                if let Some(s) = do_alloc(&mut out, &mut m, n) {
                    held.push((s, n));
                }
            } else if r < 70 && !held.is_empty() {
                // valid release of a whole or partial outstanding allocation
                let i = rng.random_range(0..held.len());
                let (s, n) = held.swap_remove(i);
                if n > 1 && rng.random_range(0..4) == 0 {
                    let k = rng.random_range(1..n);
                    do_release(&mut out, &mut m, s, k);
                    held.push((s + k, n - k));
                } else {
                    do_release(&mut out, &mut m, s, n);
                }
            } else {
                // arbitrary (mostly invalid or overlapping) release
                let s = rng.random_range(14..hi + 2);
                let c = rng.random_range(0..=max_req + 1);
                let before = held.clone();
                if do_release(&mut out, &mut m, s, c) {
                    // an accepted arbitrary release returns part of outstanding allocations
                    held.clear();
                    for (hs, hn) in before {
                        let mut b = hs;
                        let mut run: Option<u64> = None;
                        while b < hs + hn {
                            let inside = b >= s && b < s + c;
                            match (inside, run) {
                                (false, None) => run = Some(b),
                                (true, Some(st)) => {
                                    held.push((st, b - st));
                                    run = None;
                                }
                                _ => {}
                            }
                            b += 1;
                        }
                        if let Some(st) = run {
                            held.push((st, hs + hn - st));
                        }
                    }
                }
            }
            calls += 1;
        }
    }
    out.flush().unwrap();
    println!("{}", json!({"calls": calls, "hi": hi}));
    0
}

fn do_alloc(out: &mut impl Write, m: &mut FreeSpaceManager, n: u64) -> Option<u64> {
    match m.allocate_sectors(n) {
        Ok(s) => {
            emit(out, m, json!({"e": "alloc", "n": n, "res": "ok", "start": s}));
            Some(s)
        }
        Err(e) => {
            emit(out, m, json!({"e": "alloc", "n": n, "res": err_name(&e), "start": 0}));
            None
        }
    }
}

fn do_release(out: &mut impl Write, m: &mut FreeSpaceManager, s: u64, c: u64) -> bool {
    match m.release_sectors(s, c) {
        Ok(()) => {
            emit(out, m, json!({"e": "release", "s": s, "c": c, "res": "ok"}));
            true
        }
        Err(e) => {
            emit(out, m, json!({"e": "release", "s": s, "c": c, "res": err_name(&e)}));
            false
        }
    }
}

//! Independent decoder/encoder of FeOxDB 0.6.0's on-disk device layout and the
//! "documented-layout reader" (`recover_view`) used as the oracle for crash images.
//! Nothing here calls into the `feoxdb` crate except `selftest`, which uses the real
//! store only as a producer/consumer of files to validate this module against.
//!
//! Device = N blocks of 4096 bytes.
//!   block 0, 7   metadata copies (136 encoded bytes, rest zero)
//!   block 1..=6  allocation journal: 2 slots x 3 blocks
//!   block 16..   data: record extents, retirement markers, zeros
#![allow(dead_code)]
use std::borrow::Cow;
use std::collections::BTreeMap;

pub const BLOCK: usize = 4096;
pub const DATA_START: u64 = 16;
pub const META_PRIMARY: usize = 0;
pub const META_BACKUP: usize = 7;
pub const JOURNAL_START: usize = 1;
pub const JOURNAL_SLOT_BLOCKS: usize = 3;
pub const JOURNAL_MAX_ENTRIES: usize = 1024;
pub const MAX_VALUE: u64 = 4 << 20;
pub const MAX_DEVICE: u64 = 1 << 40;
pub const HEAD_MARKER: u16 = 0xABCD;
pub const TAG: &[u8; 8] = b"\0DELETED";
pub const STATE_PENDING: u8 = 0;
pub const STATE_COMPLETE: u8 = 1;
const META_LEN: usize = 136;
const JOURNAL_MAGIC: &[u8; 8] = b"\0FEOXAJ1";
const JOURNAL_HEADER: usize = 40;

// ------------------------------------------------------------------ primitives

const fn crc_table() -> [u32; 256] {
    let mut t = [0u32; 256];
    let mut i = 0;
    while i < 256 {
        let (mut c, mut k) = (i as u32, 0);
        while k < 8 {
            c = if c & 1 != 0 { (c >> 1) ^ 0x82F6_3B78 } else { c >> 1 };
            k += 1;
        }
        t[i] = c;
        i += 1;
    }
    t
}
static CRC_TABLE: [u32; 256] = crc_table();

/// CRC-32C (Castagnoli, reflected). Same convention as the crate: the seed is the
/// finished CRC of the preceding bytes (inverted on entry and on exit), so
/// `crc32c(crc32c(0, a), b) == crc32c(0, a ++ b)` and `crc32c(0, b"123456789") == 0xE3069283`.
pub fn crc32c(seed: u32, data: &[u8]) -> u32 {
    let mut c = !seed;
    for &b in data {
        c = CRC_TABLE[((c ^ b as u32) & 0xFF) as usize] ^ (c >> 8);
    }
    !c
}

/// 16-bit fold of a CRC; never 0 (0 is the legacy "no token" value).
pub fn fold16(crc: u32) -> u16 {
    match ((crc >> 16) ^ (crc & 0xFFFF)) as u16 {
        0 => 1,
        t => t,
    }
}

/// FNV-1a 64 — the `value_hash` of `Blk::Head`.
pub fn hash64(data: &[u8]) -> u64 {
    data.iter().fold(0xcbf2_9ce4_8422_2325u64, |h, &b| (h ^ b as u64).wrapping_mul(0x0000_0100_0000_01b3))
}

fn rd<const N: usize>(b: &[u8], o: usize) -> Option<[u8; N]> {
    b.get(o..o.checked_add(N)?)?.try_into().ok()
}
fn u16at(b: &[u8], o: usize) -> Option<u16> { rd::<2>(b, o).map(u16::from_le_bytes) }
fn u32at(b: &[u8], o: usize) -> Option<u32> { rd::<4>(b, o).map(u32::from_le_bytes) }
fn u64at(b: &[u8], o: usize) -> Option<u64> { rd::<8>(b, o).map(u64::from_le_bytes) }
fn put(b: &mut [u8], o: usize, v: &[u8]) { b[o..o + v.len()].copy_from_slice(v) }
fn all_zero(b: &[u8]) -> bool { b.iter().all(|x| *x == 0) }
/// Block `s` of an image (None when out of range).
pub fn block_of(img: &[u8], s: u64) -> Option<&[u8]> {
    let o = usize::try_from(s).ok()?.checked_mul(BLOCK)?;
    img.get(o..o.checked_add(BLOCK)?)
}
fn blocks_of(img: &[u8], s: u64, n: u64) -> Option<&[u8]> {
    let o = usize::try_from(s).ok()?.checked_mul(BLOCK)?;
    let l = usize::try_from(n).ok()?.checked_mul(BLOCK)?;
    img.get(o..o.checked_add(l)?)
}

// ------------------------------------------------------------------ metadata
// 0 "FEOX_SIG" | 8 version u32 | 12 pad(4, unchecksummed) | 16 total_records u64 | 24 total_size u64
// | 32 device_size u64 | 40 block_size u32 | 44 fragmentation u32 | 48 creation u64 | 56 last_update u64
// | 64 reserved[68]: "FM3C" | 68 crc u32 | 72 !crc u32 | 76 generation u64 | 84.. zero
// crc = CRC32C(bytes[0..12] ++ bytes[16..64] ++ bytes[76..132]).

#[derive(Clone, Debug, PartialEq)]
pub struct Meta {
    pub valid: bool, // always true for a decoded copy
    pub version: u32,
    pub generation: u64,
    pub total_records: u64,
    pub total_size: u64,
    pub device_size: u64,
    pub block_size: u32,
    pub fragmentation: u32,
    pub creation_time: u64,
    pub last_update_time: u64,
    pub has_checksum: bool,
}

fn meta_crc(b: &[u8]) -> u32 {
    crc32c(crc32c(crc32c(0, &b[..12]), &b[16..64]), &b[76..132])
}

/// None = the reader rejects this copy. Legacy (v1/v2) copies without the `FM3C`
/// magic are accepted unchecked; v3 requires the checksum; a copy of any version
/// that carries the magic must verify.
pub fn decode_meta(block: &[u8]) -> Option<Meta> {
    if block.len() < META_LEN || &block[..8] != b"FEOX_SIG" {
        return None;
    }
    let m = Meta {
        valid: true,
        version: u32at(block, 8)?,
        total_records: u64at(block, 16)?,
        total_size: u64at(block, 24)?,
        device_size: u64at(block, 32)?,
        block_size: u32at(block, 40)?,
        fragmentation: u32at(block, 44)?,
        creation_time: u64at(block, 48)?,
        last_update_time: u64at(block, 56)?,
        has_checksum: &block[64..68] == b"FM3C",
        generation: u64at(block, 76)?,
    };
    if m.block_size != BLOCK as u32 || m.version == 0 || m.version > 3 || m.device_size == 0 || m.device_size > MAX_DEVICE {
        return None;
    }
    if m.version >= 3 && !m.has_checksum {
        return None;
    }
    if m.has_checksum {
        let (crc, inv) = (u32at(block, 68)?, u32at(block, 72)?);
        if inv != !crc || crc != meta_crc(block) {
            return None;
        }
    }
    Some(m)
}

/// Exact 4096-byte block for `m` (checksum stamped iff `m.has_checksum`).
pub fn encode_meta_full(m: &Meta) -> Vec<u8> {
    let mut b = vec![0u8; BLOCK];
    put(&mut b, 0, b"FEOX_SIG");
    put(&mut b, 8, &m.version.to_le_bytes());
    for (o, v) in [(16, m.total_records), (24, m.total_size), (32, m.device_size), (48, m.creation_time), (56, m.last_update_time), (76, m.generation)] {
        put(&mut b, o, &v.to_le_bytes());
    }
    put(&mut b, 40, &m.block_size.to_le_bytes());
    put(&mut b, 44, &m.fragmentation.to_le_bytes());
    if m.has_checksum {
        put(&mut b, 64, b"FM3C");
        let crc = meta_crc(&b);
        put(&mut b, 68, &crc.to_le_bytes());
        put(&mut b, 72, &(!crc).to_le_bytes());
    }
    b
}

/// Metadata block accepted by the real store. v3 is always checksummed; v1/v2 with
/// `generation == 0` is encoded the pre-0.6 way (no checksum, reserved bytes zero),
/// with `generation != 0` the way 0.6.0 rewrites a legacy store (checksummed).
pub fn encode_meta(version: u32, generation: u64, total_records: u64, total_size: u64, device_size: u64) -> Vec<u8> {
    let has_checksum = version >= 3 || generation != 0;
    let (block_size, fragmentation, creation_time, last_update_time) = (BLOCK as u32, 0, 0, 0);
    encode_meta_full(&Meta { valid: true, version, generation, total_records, total_size, device_size, block_size, fragmentation, creation_time, last_update_time, has_checksum })
}

/// The reader's choice: the backup (block 7) only if it is valid and either the
/// primary is invalid or the backup's generation is strictly larger.
pub fn pick_meta(img: &[u8]) -> Option<(usize, Meta)> {
    let p = block_of(img, META_PRIMARY as u64).and_then(decode_meta);
    let b = block_of(img, META_BACKUP as u64).and_then(decode_meta);
    match (p, b) {
        (Some(p), Some(b)) if b.generation > p.generation => Some((META_BACKUP, b)),
        (Some(p), _) => Some((META_PRIMARY, p)),
        (None, Some(b)) => Some((META_BACKUP, b)),
        (None, None) => None,
    }
}

// ------------------------------------------------------------------ allocation journal
// slot image: 0 "\0FEOXAJ1" | 8 version u32 (2; 1 = checksum over the whole slot) | 12 crc u32
// | 16 generation u64 (>0) | 24 state u32 (0 CLEAR, 1 ACTIVE) | 28 count u32 | 32 !crc u32 | 36 pad(4)
// | 40 count x (sector u32, blocks u32). crc = CRC32C over the used blocks with bytes 12..16 and
// 32..36 read as zero. CLEAR <=> count == 0. Only the used blocks are written.

#[derive(Clone, Debug, PartialEq)]
pub struct JournalSlot {
    pub valid: bool,
    pub zero: bool, // all bytes zero: never written (then valid == false)
    pub generation: u64,
    pub active: bool,
    pub extents: Vec<(u64, u64)>, // (sector, blocks) in journal order
}

fn journal_crc(d: &[u8]) -> u32 {
    let mut c = crc32c(0, &d[..12]);
    c = crc32c(c, &[0; 4]);
    c = crc32c(c, &d[16..32]);
    c = crc32c(c, &[0; 4]);
    crc32c(c, &d[36..])
}
fn journal_used(count: usize) -> usize {
    (JOURNAL_HEADER + count * 8).div_ceil(BLOCK) * BLOCK
}

pub fn decode_journal_slot(d: &[u8], total_blocks: u64) -> JournalSlot {
    let bad = |zero| JournalSlot { valid: false, zero, generation: 0, active: false, extents: Vec::new() };
    if d.len() != JOURNAL_SLOT_BLOCKS * BLOCK {
        return bad(false);
    }
    if all_zero(d) {
        return bad(true);
    }
    let inner = || -> Option<JournalSlot> {
        if &d[..8] != JOURNAL_MAGIC {
            return None;
        }
        let version = u32at(d, 8)?;
        let (generation, state, count) = (u64at(d, 16)?, u32at(d, 24)?, u32at(d, 28)? as usize);
        if !(version == 1 || version == 2) || generation == 0 || count > JOURNAL_MAX_ENTRIES || state > 1 {
            return None;
        }
        if (state == 0) != (count == 0) {
            return None;
        }
        let covered = if version == 1 { d.len() } else { journal_used(count) };
        let (crc, inv) = (u32at(d, 12)?, u32at(d, 32)?);
        if inv != !crc || journal_crc(d.get(..covered)?) != crc {
            return None;
        }
        let mut extents = Vec::with_capacity(count);
        for i in 0..count {
            let o = JOURNAL_HEADER + i * 8;
            let (s, n) = (u32at(d, o)? as u64, u32at(d, o + 4)? as u64);
            if s < DATA_START || n == 0 || s + n > total_blocks {
                return None;
            }
            extents.push((s, n));
        }
        let mut ord = extents.clone();
        ord.sort_unstable_by_key(|e| e.0);
        if ord.windows(2).any(|w| w[0].0 + w[0].1 > w[1].0) {
            return None; // overlapping extents
        }
        Some(JournalSlot { valid: true, zero: false, generation, active: state == 1, extents })
    };
    inner().unwrap_or_else(|| bad(false))
}

/// 3*4096 bytes, version 2, only the used blocks non-zero. `extents` is ignored for CLEAR.
pub fn encode_journal_slot(generation: u64, active: bool, extents: &[(u64, u64)]) -> Vec<u8> {
    let cap = (JOURNAL_SLOT_BLOCKS * BLOCK - JOURNAL_HEADER) / 8;
    let ext = if active { &extents[..extents.len().min(cap)] } else { &extents[..0] };
    let mut d = vec![0u8; JOURNAL_SLOT_BLOCKS * BLOCK];
    put(&mut d, 0, JOURNAL_MAGIC);
    put(&mut d, 8, &2u32.to_le_bytes());
    put(&mut d, 16, &generation.to_le_bytes());
    put(&mut d, 24, &(active as u32).to_le_bytes());
    put(&mut d, 28, &(ext.len() as u32).to_le_bytes());
    for (i, &(s, n)) in ext.iter().enumerate() {
        put(&mut d, JOURNAL_HEADER + i * 8, &(s as u32).to_le_bytes());
        put(&mut d, JOURNAL_HEADER + i * 8 + 4, &(n as u32).to_le_bytes());
    }
    let crc = journal_crc(&d[..journal_used(ext.len())]);
    put(&mut d, 12, &crc.to_le_bytes());
    put(&mut d, 32, &(!crc).to_le_bytes());
    d
}

/// The valid slot with the highest generation (the later slot on a tie); if no slot is
/// valid, the last all-zero slot stands for "never written" (generation 0, nothing
/// active); two non-zero invalid slots are an error. The store writes its next journal
/// image to slot `(picked + 1) % 2` with generation `picked.generation + 1`.
pub fn pick_journal(img: &[u8]) -> Result<(usize, JournalSlot), String> {
    let total = (img.len() / BLOCK) as u64;
    let mut best: Option<(usize, JournalSlot)> = None;
    let mut missing = None;
    for slot in 0..2usize {
        let start = (JOURNAL_START + slot * JOURNAL_SLOT_BLOCKS) as u64;
        let d = blocks_of(img, start, JOURNAL_SLOT_BLOCKS as u64).ok_or("CorruptedRecord")?;
        let js = decode_journal_slot(d, total);
        if js.zero {
            missing = Some((slot, js));
        } else if js.valid && best.as_ref().is_none_or(|b| js.generation >= b.1.generation) {
            best = Some((slot, js));
        }
    }
    best.or(missing).ok_or_else(|| "CorruptedRecord".to_string())
}

// ------------------------------------------------------------------ records
// head block: 0 0xABCD u16 | 2 token u16 | 4 key_len u16 | 6 key | value_len u64 | timestamp u64
// | expiry u64 (v2/v3 only) | value ... zero padded to whole blocks.

#[derive(Clone, Debug, PartialEq)]
pub struct Head {
    pub key: Vec<u8>,
    pub value_len: u64,
    pub timestamp: u64,
    pub expiry: u64,
    pub token: u16,
    pub blocks: u64,
    pub header_len: usize,
}

fn header_len(version: u32, key_len: usize) -> usize {
    6 + key_len + if version == 1 { 16 } else { 24 }
}

/// Structural parse: marker, non-empty key, header inside the block, value length in
/// 1..=4 MiB. The token is returned, not checked.
pub fn parse_head(block: &[u8], version: u32) -> Option<Head> {
    if u16at(block, 0)? != HEAD_MARKER {
        return None;
    }
    let key_len = u16at(block, 4)? as usize;
    let hl = header_len(version, key_len);
    if key_len == 0 || hl > BLOCK || hl > block.len() {
        return None;
    }
    let value_len = u64at(block, 6 + key_len)?;
    if value_len == 0 || value_len > MAX_VALUE {
        return None;
    }
    Some(Head {
        key: block[6..6 + key_len].to_vec(),
        value_len,
        timestamp: u64at(block, 14 + key_len)?,
        expiry: if version == 1 { 0 } else { u64at(block, 22 + key_len)? },
        token: u16at(block, 2)?,
        blocks: (hl as u64 + value_len).div_ceil(BLOCK as u64),
        header_len: hl,
    })
}

/// v3 token: fold of CRC32C(sector LE ++ extent with bytes 2..4 read as zero).
pub fn record_token(sector: u64, extent: &[u8]) -> u16 {
    let mut c = crc32c(0, &sector.to_le_bytes());
    if extent.len() >= 4 {
        c = crc32c(crc32c(crc32c(c, &extent[..2]), &[0, 0]), &extent[4..]);
    } else {
        c = crc32c(c, extent);
    }
    fold16(c)
}

/// The 16-bit fold before 0 is mapped to 1 (only to construct records whose fold is exactly 0).
pub fn record_fold_raw(sector: u64, extent: &[u8]) -> u16 {
    let mut c = crc32c(0, &sector.to_le_bytes());
    c = crc32c(crc32c(crc32c(c, &extent[..2]), &[0, 0]), &extent[4..]);
    ((c >> 16) ^ (c & 0xFFFF)) as u16
}

/// Padded extent as the store writes it. The token is stamped for `sector` when
/// `version >= 3` (and, like the store, only if the key is non-empty and the header
/// fits in one block); otherwise it stays 0.
pub fn encode_record(version: u32, sector: u64, key: &[u8], value: &[u8], timestamp: u64, expiry: u64) -> Vec<u8> {
    let hl = header_len(version, key.len());
    let mut d = Vec::with_capacity((hl + value.len()).div_ceil(BLOCK) * BLOCK);
    d.extend_from_slice(&HEAD_MARKER.to_le_bytes());
    d.extend_from_slice(&[0, 0]);
    d.extend_from_slice(&(key.len() as u16).to_le_bytes());
    d.extend_from_slice(key);
    d.extend_from_slice(&(value.len() as u64).to_le_bytes());
    d.extend_from_slice(&timestamp.to_le_bytes());
    if version != 1 {
        d.extend_from_slice(&expiry.to_le_bytes());
    }
    d.extend_from_slice(value);
    d.resize(d.len().div_ceil(BLOCK) * BLOCK, 0);
    if version >= 3 && !key.is_empty() && key.len() <= u16::MAX as usize && hl <= BLOCK {
        let t = record_token(sector, &d);
        d[2..4].copy_from_slice(&t.to_le_bytes());
    }
    d
}

// ------------------------------------------------------------------ retirement markers
// first 19 bytes of every block of a retired extent (rest of the block zero):
// 0 "\0DELETED" | 8 remaining blocks u64 (counting this one) | 16 token u16 | 18 state u8
// token = fold of CRC32C(sector LE ++ bytes[0..16] ++ state).

#[derive(Clone, Debug, PartialEq)]
pub struct Marker {
    pub remaining: u64,
    pub token: u16,
    pub state: u8,
    pub token_ok: bool,
    pub legacy_zero: bool,
}

fn marker_token(sector: u64, first16: &[u8], state: u8) -> u16 {
    let mut p = [0u8; 17];
    p[..16].copy_from_slice(&first16[..16]);
    p[16] = state;
    fold16(crc32c(crc32c(0, &sector.to_le_bytes()), &p))
}

/// Some if the block starts with the tag. `legacy_zero`: nothing but zeros after the
/// tag (a pre-0.6 tombstone; its token can never verify because tokens are non-zero).
pub fn parse_marker(block: &[u8], sector: u64) -> Option<Marker> {
    if block.len() < 19 || &block[..8] != TAG {
        return None;
    }
    let (token, state) = (u16at(block, 16)?, block[18]);
    Some(Marker {
        remaining: u64at(block, 8)?,
        token,
        state,
        token_ok: token == marker_token(sector, block, state),
        legacy_zero: all_zero(&block[8..]),
    })
}

pub fn encode_marker_block(sector: u64, remaining: u64, state: u8) -> Vec<u8> {
    let mut b = vec![0u8; BLOCK];
    b[..8].copy_from_slice(TAG);
    b[8..16].copy_from_slice(&remaining.to_le_bytes());
    b[18] = state;
    let t = marker_token(sector, &b, state);
    b[16..18].copy_from_slice(&t.to_le_bytes());
    b
}

// ------------------------------------------------------------------ shared head validation

enum HeadScan {
    /// The reader skips one block in v1/v2 and fails with CorruptedRecord in v3.
    Soft,
    /// CorruptedRecord in every version (token field inconsistent with the version, v3 token mismatch).
    Hard,
    Good(Head),
}

/// Validation of a block that starts with 0xABCD, in the order recovery applies it.
fn scan_head(img: &[u8], s: u64, total: u64, version: u32) -> HeadScan {
    let Some(b) = block_of(img, s) else { return HeadScan::Soft };
    let key_len = u16at(b, 4).unwrap_or(0) as usize;
    if key_len == 0 || header_len(version, key_len) > BLOCK {
        return HeadScan::Soft;
    }
    let token = u16at(b, 2).unwrap_or(0);
    if (version < 3) != (token == 0) {
        return HeadScan::Hard;
    }
    let Some(h) = parse_head(b, version) else { return HeadScan::Soft };
    let Some(end) = s.checked_add(h.blocks).filter(|e| *e <= total) else { return HeadScan::Soft };
    if version >= 3 {
        match blocks_of(img, s, end - s) {
            Some(ext) if record_token(s, ext) == token => {}
            _ => return HeadScan::Hard,
        }
    }
    HeadScan::Good(h)
}

// ------------------------------------------------------------------ per-block classification

#[derive(Clone, Debug, PartialEq)]
pub enum Blk {
    Zero,
    Head { key: Vec<u8>, ts: u64, exp: u64, vlen: u64, n: u64, token_ok: bool, value_hash: u64 },
    Tail { of: u64, i: u64 },
    Marker { rem: u64, state: u8, token_ok: bool },
    LegacyMarker,
    Other,
}

/// One entry per block from block 16 on. Markers cover their own block only. A head
/// accepted by the reader (structure, bounds, and in v3 the token over the whole extent;
/// in v1/v2 token == 0) claims its continuation blocks as `Tail`. A head that parses
/// structurally but is rejected is `Head{token_ok:false}` (value_hash over the bytes
/// available, 0 if out of bounds) and its followers are classified on their own.
/// Tag followed by zeros is `LegacyMarker` for v1/v2 and `Marker{token_ok:false}` for v3.
pub fn classify(img: &[u8], version: u32) -> Vec<Blk> {
    let total = (img.len() / BLOCK) as u64;
    let mut out = Vec::new();
    let mut s = DATA_START;
    while s < total {
        let b = block_of(img, s).unwrap_or(&[]);
        let mut n = 1;
        if all_zero(b) {
            out.push(Blk::Zero);
        } else if let Some(m) = parse_marker(b, s) {
            if m.legacy_zero && version < 3 {
                out.push(Blk::LegacyMarker);
            } else {
                out.push(Blk::Marker { rem: m.remaining, state: m.state, token_ok: m.token_ok });
            }
        } else if u16at(b, 0) == Some(HEAD_MARKER) {
            let scan = scan_head(img, s, total, version);
            let (h, ok) = match scan {
                HeadScan::Good(h) => (Some(h), true),
                _ => (parse_head(b, version), false),
            };
            match h {
                None => out.push(Blk::Other),
                Some(h) => {
                    let value = blocks_of(img, s, h.blocks).and_then(|e| e.get(h.header_len..h.header_len + h.value_len as usize));
                    out.push(Blk::Head {
                        key: h.key,
                        ts: h.timestamp,
                        exp: h.expiry,
                        vlen: h.value_len,
                        n: h.blocks,
                        token_ok: ok,
                        value_hash: value.map(hash64).unwrap_or(0),
                    });
                    if ok {
                        n = h.blocks;
                        out.extend((1..n).map(|i| Blk::Tail { of: s, i }));
                    }
                }
            }
        } else {
            out.push(Blk::Other);
        }
        s += n;
    }
    out
}

// ------------------------------------------------------------------ the documented-layout reader

#[derive(Clone, Debug, PartialEq)]
pub struct RecView {
    pub key: Vec<u8>,
    pub ts: u64,
    pub exp: u64,
    pub value: Vec<u8>,
    pub sector: u64,
    pub blocks: u64,
}

#[derive(Clone, Debug, Default)]
pub struct Recovered {
    pub ok: bool,
    /// "", "InvalidDevice", "InvalidMetadata", "CorruptedRecord" or "AmbiguousLegacyTombstone".
    pub err: String,
    pub version: u32,
    /// Winners after TTL filtering, sorted by key.
    pub records: Vec<RecView>,
    /// Extents of superseded generations (skipped older ones and replaced earlier winners).
    pub losers: Vec<(u64, u64)>,
    /// Winners dropped because `now > exp` (their extents are free).
    pub expired: Vec<(u64, u64)>,
    /// Free runs among the data blocks exactly as the store holds them after open.
    pub free: Vec<(u64, u64)>,
    /// Marker extents that are pending or whose tail blocks are not all complete markers.
    /// (A read-write open re-retires them; a read-only open only skips them.)
    pub pending_markers: Vec<(u64, u64)>,
    /// Extents of an ACTIVE journal image, in journal order.
    pub journal_active: Vec<(u64, u64)>,
    pub journal_slot: usize,
    pub journal_generation: u64,
    /// Pre-0.6 tombstones skipped under `allow_ambiguous`.
    pub ambiguous_markers: u64,
    pub fresh: bool,
    pub meta: Option<Meta>,
}

struct Win { ts: u64, exp: u64, sector: u64, blocks: u64, header_len: usize, value_len: usize }

/// The data-block writes of the store's journal replay: adjacent extents are coalesced and
/// every block of a run becomes a complete marker block (`remaining` counts down over the
/// whole run). Extents that leave the image are ignored (the slot decoder rejects them).
pub fn replay_journal(img: &mut [u8], extents: &[(u64, u64)]) {
    let mut sorted = extents.to_vec();
    sorted.sort_unstable_by_key(|e| e.0);
    let mut runs: Vec<(u64, u64)> = Vec::new();
    for (s, n) in sorted {
        match runs.last_mut() {
            Some(p) if p.0.checked_add(p.1) == Some(s) => p.1 = p.1.saturating_add(n),
            _ => runs.push((s, n)),
        }
    }
    for (s, n) in runs {
        if s.checked_add(n).is_none_or(|e| e > (img.len() / BLOCK) as u64) {
            continue;
        }
        for i in 0..n {
            put(img, (s + i) as usize * BLOCK, &encode_marker_block(s + i, n - i, STATE_COMPLETE));
        }
    }
}

/// What opening `img` yields. `now = Some(t)`: TTL enabled, winners with
/// `exp != 0 && t > exp` are dropped after the scan. `read_only` is the migration-source
/// open: an ACTIVE journal is not replayed; its extents are skipped and a record that
/// reaches into one is an error. Otherwise the replay is simulated (every block of the
/// coalesced journal extents becomes a complete marker block) before the scan.
pub fn recover_view(img: &[u8], now: Option<u64>, allow_ambiguous: bool, read_only: bool) -> Recovered {
    let mut r = Recovered::default();
    let fail = |mut r: Recovered, e: &str| {
        r.ok = false;
        r.err = e.to_string();
        r.records.clear();
        r.free.clear();
        r
    };
    let len = img.len() as u64;
    if len <= DATA_START * BLOCK as u64 || len > MAX_DEVICE || len % BLOCK as u64 != 0 {
        return fail(r, "InvalidDevice");
    }
    let total = len / BLOCK as u64;
    r.version = 3;
    if all_zero(img) {
        r.ok = true;
        r.fresh = true;
        r.free = vec![(DATA_START, total - DATA_START)];
        return r;
    }
    let Some((_, meta)) = pick_meta(img) else { return fail(r, "InvalidMetadata") };
    let version = meta.version;
    r.version = version;
    r.meta = Some(meta);
    let (slot, js) = match pick_journal(img) {
        Ok(x) => x,
        Err(e) => return fail(r, &e),
    };
    r.journal_slot = slot;
    r.journal_generation = js.generation;
    r.journal_active = js.extents.clone();

    let mut journal = js.extents;
    journal.sort_unstable_by_key(|e| e.0);
    let mut img = Cow::Borrowed(img);
    if !read_only && !journal.is_empty() {
        replay_journal(img.to_mut(), &journal);
    }
    let img: &[u8] = &img;

    let mut winners: BTreeMap<Vec<u8>, Win> = BTreeMap::new();
    let mut released: Vec<(u64, u64)> = Vec::new();
    let (mut s, mut ji, mut last_end) = (DATA_START, 0usize, DATA_START);
    'scan: while s < total {
        if read_only {
            while let Some(&(start, n)) = journal.get(ji) {
                if s < start {
                    break;
                }
                ji += 1;
                if s < start + n {
                    s = start + n;
                    continue 'scan;
                }
            }
        }
        let Some(b) = block_of(img, s) else { return fail(r, "CorruptedRecord") };
        if let Some(m) = parse_marker(b, s) {
            if version < 3 && m.legacy_zero {
                if !allow_ambiguous {
                    return fail(r, "AmbiguousLegacyTombstone");
                }
                r.ambiguous_markers += 1;
                s += 1;
                continue;
            }
            let end = match s.checked_add(m.remaining) {
                Some(e) if m.token_ok && m.remaining != 0 && e <= total => e,
                _ => return fail(r, "CorruptedRecord"),
            };
            let complete = m.state == STATE_COMPLETE
                && (s + 1..end).all(|t| {
                    block_of(img, t).and_then(|tb| parse_marker(tb, t)).is_some_and(|tm| {
                        tm.token_ok && tm.state == STATE_COMPLETE && tm.remaining == end - t
                    })
                });
            if !complete {
                r.pending_markers.push((s, m.remaining));
            }
            s = end;
            continue;
        }
        if u16at(b, 0) != Some(HEAD_MARKER) {
            s += 1;
            continue;
        }
        let h = match scan_head(img, s, total, version) {
            HeadScan::Good(h) => h,
            HeadScan::Soft if version < 3 => {
                s += 1;
                continue;
            }
            _ => return fail(r, "CorruptedRecord"),
        };
        let end = s + h.blocks;
        if read_only && journal.get(ji).is_some_and(|e| e.0 < end) {
            return fail(r, "CorruptedRecord");
        }
        // Strictly newer existing generation wins; on a tie the later position wins.
        if winners.get(&h.key).is_some_and(|w| w.ts > h.timestamp) {
            r.losers.push((s, h.blocks));
            s = end;
            continue;
        }
        if let Some(w) = winners.get(&h.key) {
            released.push((w.sector, w.blocks));
            r.losers.push((w.sector, w.blocks));
        }
        if s > last_end {
            released.push((last_end, s - last_end));
        }
        last_end = end;
        let w = Win { ts: h.timestamp, exp: h.expiry, sector: s, blocks: h.blocks, header_len: h.header_len, value_len: h.value_len as usize };
        winners.insert(h.key, w);
        s = end;
    }
    if let Some(t) = now {
        winners.retain(|_, w| {
            let dead = w.exp != 0 && t > w.exp;
            if dead {
                released.push((w.sector, w.blocks));
                r.expired.push((w.sector, w.blocks));
            }
            !dead
        });
    }
    if last_end < total {
        released.push((last_end, total - last_end));
    }
    released.sort_unstable();
    for (st, n) in released {
        match r.free.last_mut() {
            Some(p) if p.0 + p.1 > st => return fail(r, "FreeSpaceOverlap"), // unreachable by construction
            Some(p) if p.0 + p.1 == st => p.1 += n,
            _ => r.free.push((st, n)),
        }
    }
    for (key, w) in winners {
        let o = w.sector as usize * BLOCK + w.header_len;
        let value = img.get(o..o + w.value_len).map(|v| v.to_vec()).unwrap_or_default();
        r.records.push(RecView { key, ts: w.ts, exp: w.exp, value, sector: w.sector, blocks: w.blocks });
    }
    r.losers.sort_unstable();
    r.ok = true;
    r
}

// ------------------------------------------------------------------ selftest (uses the real store)

struct T {
    checks: u64,
    fails: Vec<String>,
}
impl T {
    fn ck(&mut self, cond: bool, msg: impl FnOnce() -> String) -> bool {
        self.checks += 1;
        if !cond {
            self.fails.push(msg());
            eprintln!("FAIL {}", self.fails.last().unwrap());
        }
        cond
    }
}
type Store = feoxdb::FeoxStore;

fn st_open(path: &str, ttl: bool, amb: bool) -> Result<Store, String> {
    let path = path.to_string();
    let b = move || Store::builder().device_path(path).file_size(160 * BLOCK as u64).hash_bits(6).enable_ttl(ttl).allow_ambiguous_legacy_recovery(amb).build();
    match std::panic::catch_unwind(b) {
        Ok(r) => r.map_err(|e| format!("{e:?}")),
        Err(_) => Err("PANIC".to_string()),
    }
}
/// Dropping a persistent store takes ~0.5 s: drop many in parallel.
fn st_drop_all(stores: &mut Vec<Store>) {
    std::thread::scope(|s| stores.drain(..).for_each(|st| drop(s.spawn(move || drop(st)))));
}
fn st_rng(seed: u64) -> impl FnMut(u64) -> u64 {
    let mut x = seed.wrapping_mul(0x9E37_79B9_7F4A_7C15) | 1;
    move |n| {
        x ^= x << 13;
        x ^= x >> 7;
        x ^= x << 17;
        (x >> 11) % n
    }
}
fn st_val(seed: u64, len: usize) -> Vec<u8> {
    let mut r = st_rng(seed);
    (0..len).map(|_| r(256) as u8).collect()
}
fn st_wall_ns() -> u64 {
    std::time::SystemTime::now().duration_since(std::time::UNIX_EPOCH).unwrap().as_nanos() as u64
}
fn st_put(img: &mut [u8], s: u64, bytes: &[u8]) {
    put(img, s as usize * BLOCK, bytes);
}
fn st_journal(img: &mut [u8], slot: usize, bytes: &[u8]) {
    st_put(img, (JOURNAL_START + slot * JOURNAL_SLOT_BLOCKS) as u64, bytes);
}

/// Real store state == prediction (keys, timestamps, expiries, positions, values, free runs).
fn st_compare(t: &mut T, tag: &str, st: &Store, rv: &Recovered) {
    if !t.ck(rv.ok, || format!("{tag}: predicted {} but the store opened", rv.err)) {
        return;
    }
    let snap = st.verif_snapshot();
    let show = |k: Vec<&Vec<u8>>| k.iter().map(|k| String::from_utf8_lossy(k).into_owned()).collect::<Vec<_>>();
    t.ck(snap.len() == rv.records.len() && st.len() == rv.records.len(), || {
        format!("{tag}: store holds {:?} (len {}), predicted {:?}", show(snap.iter().map(|r| &r.key).collect()), st.len(), show(rv.records.iter().map(|r| &r.key).collect()))
    });
    for (a, b) in snap.iter().zip(&rv.records) {
        let same = a.key == b.key && a.timestamp == b.ts && a.ttl_expiry == b.exp && a.value_len == b.value.len() && a.sector == b.sector;
        t.ck(same, || format!("{tag}: store {a:?} / predicted key={:?} ts={} exp={} len={} sector={}", String::from_utf8_lossy(&b.key), b.ts, b.exp, b.value.len(), b.sector));
        let got = st.get(&a.key);
        t.ck(got.as_ref().ok() == Some(&b.value), || format!("{tag}: get({:?}) = {:?} differs from the predicted value", String::from_utf8_lossy(&a.key), got.as_ref().map(|v| v.len())));
    }
    let free = st.verif_free_runs();
    t.ck(free == rv.free, || format!("{tag}: free runs store {free:?} / predicted {:?}", rv.free));
}

/// Write `img` to `path`, open it with the real store at time `now` and compare verdict and
/// contents with `recover_view`. Returns the store when it opened (the caller drops it).
fn st_differential(t: &mut T, tag: &str, path: &str, img: &[u8], now: u64, amb: bool) -> Option<Store> {
    std::fs::write(path, img).unwrap();
    let rv = recover_view(img, Some(now), amb, false);
    feoxdb::verif::set_now(now);
    match st_open(path, true, amb) {
        Ok(st) => {
            st_compare(t, tag, &st, &rv);
            Some(st)
        }
        Err(e) => {
            t.ck(!rv.ok && e.starts_with(&rv.err), || format!("{tag}: store failed with {e}, predicted ok={} err={:?}", rv.ok, rv.err));
            None
        }
    }
}

/// Every structure in a file left by the real store verifies and re-encodes byte-exactly.
/// Returns (record heads, marker blocks).
fn st_verify_image(t: &mut T, tag: &str, img: &[u8]) -> (usize, usize) {
    for blk in [META_PRIMARY, META_BACKUP] {
        let raw = block_of(img, blk as u64).unwrap();
        let m = decode_meta(raw);
        t.ck(m.as_ref().is_some_and(|m| m.has_checksum && encode_meta_full(m) == raw), || format!("{tag}: metadata block {blk} invalid or not re-encodable: {m:?}"));
    }
    for slot in 0..2 {
        let raw = blocks_of(img, (JOURNAL_START + slot * JOURNAL_SLOT_BLOCKS) as u64, 3).unwrap();
        let js = decode_journal_slot(raw, (img.len() / BLOCK) as u64);
        t.ck(js.zero || (js.valid && encode_journal_slot(js.generation, js.active, &js.extents) == raw), || format!("{tag}: journal slot {slot} does not verify/re-encode: {js:?}"));
    }
    t.ck(pick_journal(img).is_ok_and(|(_, js)| !js.active), || format!("{tag}: journal not CLEAR after a clean shutdown"));
    let (mut heads, mut markers) = (0, 0);
    for (i, b) in classify(img, 3).iter().enumerate() {
        let s = DATA_START + i as u64;
        match b {
            Blk::Zero | Blk::Tail { .. } => {}
            Blk::Head { key, ts, exp, vlen, n, token_ok: true, value_hash } => {
                heads += 1;
                let ext = blocks_of(img, s, *n).unwrap();
                let value = &ext[header_len(3, key.len())..][..*vlen as usize];
                let same = hash64(value) == *value_hash && encode_record(3, s, key, value, *ts, *exp) == ext && Some(record_token(s, ext)) == u16at(ext, 2);
                t.ck(same, || format!("{tag}: record at {s} does not re-encode"));
            }
            Blk::Marker { rem, state, token_ok: true } => {
                markers += 1;
                t.ck(encode_marker_block(s, *rem, *state) == block_of(img, s).unwrap(), || format!("{tag}: marker at {s} does not re-encode"));
            }
            other => drop(t.ck(false, || format!("{tag}: block {s} is {other:?}"))),
        }
    }
    (heads, markers)
}

/// A synthetic image exercising every scan rule (`version` 1, 2 or 3), to be opened at now = 2000.
fn st_synth(version: u32, active_journal: bool, legacy_tombstone: bool) -> Vec<u8> {
    let mut img = vec![0u8; 64 * BLOCK];
    let size = img.len() as u64;
    st_put(&mut img, 0, &encode_meta(version, if version >= 3 { 2 } else { 0 }, 5, 0, size));
    if version >= 3 {
        st_put(&mut img, 7, &encode_meta(version, 1, 99, 0, size));
    }
    let hl = header_len(version, 1);
    let recs: [(u64, &[u8], Vec<u8>, u64, u64); 10] = [
        (16, b"a", b"A1".to_vec(), 100, 0),
        (17, b"b", st_val(1, 9000), 100, 0),                  // 17..20
        (20, b"a", b"A0-older-after-the-winner".to_vec(), 50, 0),
        (21, b"c", b"C-older-before-the-winner".to_vec(), 10, 0),
        (25, b"c", st_val(2, BLOCK - hl), 20, 0),             // exactly one block
        (28, b"d", b"D-expired".to_vec(), 5, 1999),
        (29, b"e", b"E-expiry-equals-now-stays".to_vec(), 5, 2000),
        (33, b"a", b"A2-tie-later-position-wins".to_vec(), 100, 0),
        (36, b"g", st_val(4, BLOCK - hl + 1), 7, u64::MAX),   // 36..38, one byte in the 2nd block
        (30, b"f", st_val(3, 10000), 200, 0),                 // 30..33, torn below
    ];
    for (s, key, val, ts, exp) in &recs {
        st_put(&mut img, *s, &encode_record(version, *s, key, val, *ts, *exp));
    }
    img[32 * BLOCK..33 * BLOCK].fill(0); // the last block of f never reached the device
    // 22..24 retired; 26..28 pending; 40..43 complete head with a hole at 41; 44..46 complete head, pending tail
    for (s, rem, state) in [(22, 2, 1), (23, 1, 1), (26, 2, 0), (27, 1, 0), (40, 3, 1), (42, 1, 1), (44, 2, 1), (45, 1, 0)] {
        st_put(&mut img, s, &encode_marker_block(s, rem, state));
    }
    if version < 3 {
        st_put(&mut img, 47, &[0xCD, 0xAB, 0, 0, 0, 0, 9, 9]); // 0xABCD with key_len 0: skipped in v1/v2
        if legacy_tombstone {
            st_put(&mut img, 48, TAG);
        }
    }
    st_journal(&mut img, 0, &encode_journal_slot(3, false, &[]));
    if active_journal {
        st_journal(&mut img, 1, &encode_journal_slot(4, true, &[(31, 2), (30, 1)]));
    } else if version >= 3 {
        st_journal(&mut img, 1, &encode_journal_slot(4, false, &[]));
    }
    img
}

fn st_vectors(t: &mut T) {
    t.ck(crc32c(0, b"123456789") == 0xE306_9283 && crc32c(crc32c(0, b"1234"), b"56789") == 0xE306_9283, || "crc32c check value / chaining".into());
    t.ck(crc32c(0, &[0u8; 32]) == 0x8A91_36AA, || "crc32c of 32 zero bytes (RFC 3720 B.4)".into());
    let m = encode_marker_block(77, 3, 1);
    let pm = parse_marker(&m, 77).unwrap();
    t.ck(pm.token_ok && pm.remaining == 3 && pm.state == 1 && !parse_marker(&m, 78).unwrap().token_ok, || "marker round trip / sector binding".into());
    let js = encode_journal_slot(9, true, &[(20, 2), (16, 1)]);
    let d = decode_journal_slot(&js, 64);
    t.ck(d.valid && d.active && d.generation == 9 && d.extents == [(20, 2), (16, 1)] && all_zero(&js[BLOCK..]), || format!("journal round trip {d:?}"));
    t.ck(!decode_journal_slot(&js, 21).valid, || "journal extent beyond the device accepted".into());
    t.ck(!decode_journal_slot(&encode_journal_slot(9, true, &[(20, 2), (21, 1)]), 64).valid, || "overlapping journal accepted".into());
    t.ck(!decode_journal_slot(&encode_journal_slot(0, false, &[]), 64).valid, || "journal generation 0 accepted".into());
    for v in 1..=3 {
        let e = encode_record(v, 40, b"key", &st_val(5, 5000), 11, 22);
        let h = parse_head(&e, v).unwrap();
        let same = h.key == b"key" && h.value_len == 5000 && h.timestamp == 11 && h.expiry == (if v == 1 { 0 } else { 22 }) && h.blocks == 2;
        t.ck(same && (h.token != 0) == (v == 3) && (v < 3 || (h.token == record_token(40, &e) && h.token != record_token(41, &e))), || format!("head round trip v{v}: {h:?}"));
    }
}

/// A file produced by the real store: decode it, compare with the live store, reopen and compare again.
fn st_real(t: &mut T, dir: &str) -> Vec<u8> {
    let path = format!("{dir}/real.feox");
    feoxdb::verif::clear_now();
    let st = st_open(&path, true, false).expect("create store");
    let sizes = [10usize, 4063, 4064, 5000, 9000, 12000, 1]; // 4063 = last size that fits one block with a 3-byte key
    let key = |i: u64| format!("k{i:02}").into_bytes();
    for i in 0..14u64 {
        st.insert(&key(i), &st_val(i, sizes[i as usize % 7])).unwrap();
    }
    st.flush().unwrap();
    for i in 0..6u64 {
        st.insert(&key(i), &st_val(100 + i, sizes[(i as usize + 3) % 7])).unwrap();
    }
    st.delete(&key(6)).unwrap();
    st.delete(&key(7)).unwrap();
    for i in 20..24u64 {
        st.insert_with_ttl(&key(i), &st_val(i, 300 * (i as usize - 19)), 3600).unwrap();
    }
    st.flush().unwrap();
    for i in 0..3u64 {
        st.insert(&key(i), &st_val(200 + i, sizes[(i as usize + 5) % 7])).unwrap();
    }
    st.insert_with_ttl(&key(21), &st_val(300, 8200), 3600).unwrap();
    st.delete(&key(22)).unwrap();
    st.insert(&key(30), &st_val(30, 7000)).unwrap();
    st.flush().unwrap();
    let live: Vec<_> = st.verif_snapshot().into_iter().map(|r| (r.key.clone(), r.timestamp, r.ttl_expiry, st.get(&r.key).unwrap(), r.sector)).collect();
    let (live_len, live_free) = (st.len() as u64, st.verif_free_runs());
    for k in live.iter().map(|l| &l.0) {
        let v = st.verif_record(k).unwrap();
        t.ck(v.key == *k && v.sector >= DATA_START, || format!("real: {v:?} not on the device after flush"));
    }
    drop(st);

    let img = std::fs::read(&path).unwrap();
    let (heads, markers) = st_verify_image(t, "real", &img);
    let now = st_wall_ns();
    let rv = recover_view(&img, Some(now), false, false);
    let mine: Vec<_> = rv.records.iter().map(|r| (r.key.clone(), r.ts, r.exp, r.value.clone(), r.sector)).collect();
    t.ck(rv.ok && mine == live && live.len() == 16, || format!("real: decoded records differ from the live store's ({} vs {})", mine.len(), live.len()));
    t.ck(rv.free == live_free, || format!("real: free runs at shutdown {live_free:?} / decoded {:?}", rv.free));
    t.ck(heads == rv.records.len() && rv.losers.is_empty() && rv.pending_markers.is_empty() && markers > 0, || format!("real: {heads} heads, {markers} markers, losers {:?}", rv.losers));
    let used: u64 = rv.records.iter().map(|r| r.blocks * BLOCK as u64).sum();
    let picked = pick_meta(&img);
    let meta_ok = picked.as_ref().is_some_and(|(blk, m)| {
        *blk == (if m.generation % 2 == 0 { META_PRIMARY } else { META_BACKUP }) && m.total_records == live_len && m.total_size == used && m.device_size == img.len() as u64 && m.version == 3
    });
    t.ck(meta_ok, || format!("real: metadata {picked:?} vs len {live_len}, used {used}"));
    println!("real image: {} records, {markers} marker blocks, free {:?}, meta generation {}, journal generation {}", heads, rv.free, picked.map_or(0, |p| p.1.generation), rv.journal_generation);

    let mut stores: Vec<Store> = st_differential(t, "real/reopen", &path, &img, now, false).into_iter().collect();
    st_drop_all(&mut stores);
    // Two hours later every TTL record is expired: recovery drops and retires them.
    let far = now + 7_200_000_000_000;
    let img2 = std::fs::read(&path).unwrap();
    let rv2 = recover_view(&img2, Some(far), false, false);
    t.ck(rv2.expired.len() == 3 && rv2.records.len() == 13, || format!("real/expired: expired {:?}", rv2.expired));
    stores.extend(st_differential(t, "real/expired", &path, &img2, far, false));
    st_drop_all(&mut stores);
    let img3 = std::fs::read(&path).unwrap();
    let (_, markers3) = st_verify_image(t, "real/after-expiry", &img3);
    let rv3 = recover_view(&img3, Some(far), false, false);
    let retired = markers3 as u64 == markers as u64 + rv2.expired.iter().map(|e| e.1).sum::<u64>();
    t.ck(retired && rv3.expired.is_empty() && rv3.losers.is_empty() && rv3.pending_markers.is_empty() && rv3.free == rv2.free && rv3.records == rv2.records, || "real/after-expiry: expired extents were not retired as predicted".into());
    img
}

fn st_synthetic(t: &mut T, dir: &str) {
    let path = format!("{dir}/synth.feox");
    let mut stores: Vec<Store> = Vec::new();
    // v3 with an ACTIVE journal over a torn extent: replayed, everything else recovered.
    let img = st_synth(3, true, false);
    let rv = recover_view(&img, Some(2000), false, false);
    let at: Vec<(&[u8], u64)> = rv.records.iter().map(|r| (&r.key[..], r.sector)).collect();
    t.ck(rv.ok && at == [(&b"a"[..], 33), (b"b", 17), (b"c", 25), (b"e", 29), (b"g", 36)], || format!("synth v3: winners {at:?} {}", rv.err));
    t.ck(rv.losers == [(16, 1), (20, 1), (21, 1)] && rv.expired == [(28, 1)] && rv.pending_markers == [(26, 2), (40, 3), (44, 2)], || format!("synth v3: losers {:?} expired {:?} pending {:?}", rv.losers, rv.expired, rv.pending_markers));
    t.ck(rv.journal_active == [(31, 2), (30, 1)] && (rv.journal_slot, rv.journal_generation) == (1, 4), || format!("synth v3: journal {:?}", rv.journal_active));
    t.ck(rv.free == [(16, 1), (20, 5), (26, 3), (30, 3), (34, 2), (38, 26)], || format!("synth v3: free {:?}", rv.free));
    stores.extend(st_differential(t, "synth v3 active journal", &path, &img, 2000, false));
    st_drop_all(&mut stores);
    let after = std::fs::read(&path).unwrap();
    let rva = recover_view(&after, Some(2000), false, false);
    let settled = rva.ok && rva.records == rv.records && rva.free == rv.free && rva.losers.is_empty() && rva.pending_markers.is_empty() && rva.journal_active.is_empty() && rva.journal_generation > 4;
    t.ck(settled, || format!("synth v3: image left by the real store's recovery: {rva:?}"));
    let mut replayed = img.clone();
    replay_journal(&mut replayed, &rv.journal_active);
    t.ck(replayed[30 * BLOCK..33 * BLOCK] == after[30 * BLOCK..33 * BLOCK] && parse_marker(&after[30 * BLOCK..], 30).is_some_and(|m| m.remaining == 3), || "synth v3: replay wrote other marker blocks than predicted".into());
    st_verify_image(t, "synth v3 repaired", &after);
    // Variants: (tag, edit) — each must get the same verdict from the store and from recover_view.
    let clear = st_synth(3, false, false);
    t.ck(recover_view(&clear, Some(2000), false, false).err == "CorruptedRecord", || "synth v3 clear journal: the torn record must be CorruptedRecord".into());
    let mut variants: Vec<(&str, Vec<u8>)> = vec![("clear journal", clear.clone()), ("zero file", vec![0u8; 40 * BLOCK]), ("short file", vec![1u8; 16 * BLOCK])];
    let mut v = clear.clone();
    v[8] ^= 1;
    v[7 * BLOCK + 70] ^= 1;
    variants.push(("both metadata copies bad", v.clone()));
    v[8] ^= 1;
    variants.push(("backup metadata bad", v));
    let mut v = img.clone(); // equal generations: the later slot (CLEAR) wins, so the torn record is corruption
    st_journal(&mut v, 0, &encode_journal_slot(4, true, &[(30, 3)]));
    st_journal(&mut v, 1, &encode_journal_slot(4, false, &[]));
    t.ck(pick_journal(&v).is_ok_and(|p| p.0 == 1), || "journal tie must pick slot 1".into());
    variants.push(("journal generation tie", v.clone()));
    v[BLOCK + 50] ^= 1; // slot 0 corrupt, slot 1 valid CLEAR
    variants.push(("journal slot 0 corrupt", v.clone()));
    st_journal(&mut v, 1, &vec![0u8; 3 * BLOCK]); // slot 0 corrupt, slot 1 never written: treated as empty
    t.ck(pick_journal(&v).is_ok_and(|p| p.0 == 1 && p.1.zero), || "corrupt + zero journal must pick the zero slot".into());
    variants.push(("journal corrupt + zero", v.clone()));
    v[4 * BLOCK] = 1; // both slots corrupt
    t.ck(pick_journal(&v).is_err(), || "two corrupt journal slots must be an error".into());
    variants.push(("journal both corrupt", v));
    let mut v = img.clone(); // equal metadata generations: the primary (v3) wins over a v2 backup
    st_put(&mut v, 7, &encode_meta(2, 2, 0, 0, img.len() as u64));
    variants.push(("metadata generation tie", v));
    let mut v = img.clone(); // version-1 journal image: the checksum covers the whole slot
    let mut j = encode_journal_slot(4, true, &[(30, 3)]);
    put(&mut j, 8, &1u32.to_le_bytes());
    j[2 * BLOCK + 5] = 0xEE;
    let crc = journal_crc(&j);
    put(&mut j, 12, &crc.to_le_bytes());
    put(&mut j, 32, &(!crc).to_le_bytes());
    st_journal(&mut v, 1, &j);
    variants.push(("journal v1 full-slot checksum", v));
    for (tag, rem) in [("marker ends at the device end", 1), ("marker leaves the device", 2)] {
        let mut v = img.clone();
        st_put(&mut v, 63, &encode_marker_block(63, rem, 1));
        variants.push((tag, v));
    }
    for (tag, len) in [("value of 4 MiB", MAX_VALUE as usize), ("value of 4 MiB + 1", MAX_VALUE as usize + 1)] {
        let mut v = vec![0u8; 1100 * BLOCK];
        st_put(&mut v, 0, &encode_meta(3, 2, 1, 0, 1100 * BLOCK as u64));
        st_put(&mut v, 20, &encode_record(3, 20, b"big", &st_val(9, len), 1, 0));
        variants.push((tag, v));
    }
    let mut verdicts = Vec::new();
    for (tag, v) in &variants {
        stores.extend(st_differential(t, &format!("synth v3 {tag}"), &path, v, 2000, false));
        verdicts.push(format!("{tag}: {}", if stores.is_empty() { recover_view(v, Some(2000), false, false).err } else { "ok".into() }));
        st_drop_all(&mut stores);
    }
    println!("synthetic v3 variants (store and oracle agree): {}", verdicts.join("; "));
    t.ck(recover_view(&img[..img.len() - 1], None, false, false).err == "InvalidDevice", || "unaligned size".into());
    // Legacy formats, with and without a pre-0.6 tombstone.
    for v in [1u32, 2] {
        for (tomb, amb) in [(true, false), (true, true), (false, false)] {
            let img = st_synth(v, true, tomb);
            let tag = format!("synth v{v} tombstone={tomb} allow={amb}");
            let rv = recover_view(&img, Some(2000), amb, false);
            t.ck(rv.ok == (!tomb || amb) && rv.version == v && (rv.ok || rv.err == "AmbiguousLegacyTombstone"), || format!("{tag}: {} {}", rv.ok, rv.err));
            t.ck(!rv.ok || (rv.records.len() == (if v == 1 { 6 } else { 5 }) && rv.ambiguous_markers == tomb as u64), || format!("{tag}: {} records", rv.records.len()));
            stores.extend(st_differential(t, &tag, &path, &img, 2000, amb));
            st_drop_all(&mut stores);
        }
    }
    // Read-only open (migration source): the ACTIVE journal is skipped, not replayed; no TTL filtering.
    let (src, dst) = (format!("{dir}/mig_src.feox"), format!("{dir}/mig_dst.feox"));
    let img = st_synth(2, true, true);
    std::fs::write(&src, &img).unwrap();
    let rv = recover_view(&img, None, true, true);
    feoxdb::verif::clear_now();
    match feoxdb::migrate(feoxdb::MigrationOptions::new(&src, &dst).allow_ambiguous_legacy_recovery(true)) {
        Ok(rep) => {
            t.ck(rv.ok && rep.records == rv.records.len() as u64 && rep.ambiguous_legacy_markers == rv.ambiguous_markers && rep.source_version == 2, || format!("migrate: {rep:?} vs {} predicted records", rv.records.len()));
            t.ck(std::fs::read(&src).unwrap() == img, || "migrate: source modified".into());
            let d = st_open(&dst, false, false).expect("open migrated store");
            let got: Vec<_> = d.verif_snapshot().into_iter().map(|r| (r.key.clone(), r.timestamp, r.ttl_expiry, d.get(&r.key).unwrap())).collect();
            let want: Vec<_> = rv.records.iter().map(|r| (r.key.clone(), r.ts, r.exp, r.value.clone())).collect();
            t.ck(got == want && want.len() == 6, || format!("migrate: destination holds {} records, predicted {}", got.len(), want.len()));
            stores.push(d);
        }
        Err(e) => drop(t.ck(false, || format!("migrate failed: {e:?} (predicted ok={} {})", rv.ok, rv.err))),
    }
    let mut torn = img.clone();
    st_journal(&mut torn, 1, &encode_journal_slot(4, true, &[(18, 1)])); // journal extent inside record b
    t.ck(recover_view(&torn, None, true, true).err == "CorruptedRecord", || "read-only: a record reaching into the journal must fail".into());
    std::fs::write(&src, &torn).unwrap();
    let _ = std::fs::remove_file(&dst);
    let res = feoxdb::migrate(feoxdb::MigrationOptions::new(&src, &dst).allow_ambiguous_legacy_recovery(true));
    t.ck(matches!(&res, Err(e) if format!("{e:?}").contains("CorruptedRecord")), || format!("read-only overlap: the real store said {res:?}"));
    st_drop_all(&mut stores);
}

/// Differential fuzzing: mutated images must get the same verdict and contents from the real
/// store and from `recover_view`; no decoder may panic on garbage.
fn st_fuzz(t: &mut T, dir: &str, real: &[u8], rounds: u64) {
    let bases = [real.to_vec(), st_synth(3, true, false), st_synth(2, true, false), st_synth(1, false, true)];
    let now = st_wall_ns();
    let mut rnd = st_rng(7);
    let (mut opened, mut stores) = (0, Vec::new());
    for i in 0..rounds {
        let mut img = bases[(i % 4) as usize].clone();
        let total = (img.len() / BLOCK) as u64;
        let version = pick_meta(&img).map_or(3, |m| m.1.version);
        let used: Vec<u64> = (0..total).filter(|s| !all_zero(block_of(&img, *s).unwrap())).collect();
        for _ in 0..1 + rnd(3) {
            let s = used[rnd(used.len() as u64) as usize];
            let (o, d) = (s as usize * BLOCK, DATA_START + rnd(total - DATA_START - 3));
            match rnd(7) {
                0 => img[o + rnd(40) as usize] ^= 1 << rnd(8),
                1 => img[o + rnd(BLOCK as u64) as usize] ^= 1 << rnd(8),
                2 => img[o..o + BLOCK].fill(0),
                3 => img.copy_within(o..o + BLOCK, d as usize * BLOCK),
                4 => st_put(&mut img, d, &encode_marker_block(d + rnd(2), 1 + rnd(3), rnd(2) as u8)),
                5 => st_journal(&mut img, rnd(2) as usize, &encode_journal_slot(rnd(8), rnd(2) == 0, &[(d, 1 + rnd(2))])),
                _ => {
                    // a well-formed generation of an existing key elsewhere, timestamp nudged
                    if let (Some(h), true) = (parse_head(&img[o..o + BLOCK], version), s >= DATA_START) {
                        let value = img.get(o + h.header_len..o + h.header_len + h.value_len as usize).map(|v| v.to_vec());
                        let e = encode_record(version, d, &h.key, &value.unwrap_or_default(), (h.timestamp + rnd(3)).saturating_sub(1), h.expiry);
                        if !e.is_empty() && d as usize * BLOCK + e.len() <= img.len() {
                            st_put(&mut img, d, &e);
                        }
                    }
                }
            }
        }
        let _ = (classify(&img, 1 + rnd(3) as u32), recover_view(&img, None, true, true));
        let path = format!("{dir}/fuzz{i}.feox");
        stores.extend(st_differential(t, &format!("fuzz#{i}"), &path, &img, now, i % 3 == 0));
        if stores.len() >= 24 || i + 1 == rounds {
            opened += stores.len();
            st_drop_all(&mut stores);
        }
        let _ = std::fs::remove_file(&path);
    }
    for i in 0..64u64 {
        let g = st_val(i, 20 * BLOCK + (i as usize % 3) * 100);
        let _ = (decode_meta(&g), decode_journal_slot(&g[..3 * BLOCK], 20), pick_journal(&g), parse_head(&g, 3), parse_marker(&g, i));
        let _ = (classify(&g, 2), recover_view(&g, Some(i), true, i % 2 == 0));
    }
    println!("fuzz: {rounds} mutated images: {opened} opened, {} rejected by the real store", rounds as usize - opened);
}

/// Validates this module against the real store; files go under `dir`. Returns 0 on success.
/// `LAYOUT_FUZZ=<n>` sets the number of differential fuzz rounds (default 240).
pub fn selftest(dir: &str) -> i32 {
    let dir = format!("{dir}/layout_selftest_{}", std::process::id());
    let _ = std::fs::remove_dir_all(&dir);
    std::fs::create_dir_all(&dir).expect("create selftest dir");
    let mut t = T { checks: 0, fails: Vec::new() };
    let start = std::time::Instant::now();
    st_vectors(&mut t);
    let real = st_real(&mut t, &dir);
    st_synthetic(&mut t, &dir);
    st_fuzz(&mut t, &dir, &real, std::env::var("LAYOUT_FUZZ").ok().and_then(|v| v.parse().ok()).unwrap_or(240));
    feoxdb::verif::clear_now();
    let _ = std::fs::remove_dir_all(&dir);
    println!("layout selftest: {} checks, {} failures, {:.1}s", t.checks, t.fails.len(), start.elapsed().as_secs_f64());
    if t.fails.is_empty() { 0 } else { 1 }
}

//! C16 (cache part): drive the real `ClockCache` with call sequences (an ndjson program or a
//! seeded random driver) and record, after every call, what the implementation reports:
//! the call's result, `stats().memory_usage`, the watermarks, the clock hand and the full
//! entry list of `verif_entries()`.  TLC validates the recording against TraceCache.tla.
//!
//! Generations are real `Arc<Record>` objects; "retire" stores 0 into `refcount`, "dropgen"
//! drops the Arc (so `Weak::upgrade` fails).  Every cached value starts with a 16 byte header
//! (key id, generation id it was inserted for, insert serial number) so that a hit tells
//! which insert it serves.
//!
//! Keys are chosen so that key id i lives in real bucket (i-1) % nb: several keys share a
//! bucket (bucket order matters to the sweep) and all occupied buckets are 0 .. nb-1.
use crate::util::Opts;
use bytes::Bytes;
use feoxdb::constants::CACHE_BUCKETS;
use feoxdb::core::cache::ClockCache;
use feoxdb::core::record::Record;
use feoxdb::Statistics;
use rand::{rngs::StdRng, Rng, SeedableRng};
use serde_json::{json, Value};
use std::collections::HashMap;
use std::io::{BufRead, Write};
use std::sync::atomic::Ordering;
use std::sync::Arc;

const HEADER: usize = 16;

struct Gen {
    k: u32,
    arc: Option<Arc<Record>>,
    retired: bool,
}

struct Drv<W: Write> {
    cache: ClockCache,
    out: W,
    nb: usize,
    keys: Vec<Vec<u8>>,              // index = key id - 1
    key_id: HashMap<Vec<u8>, u32>,
    gens: HashMap<u32, Gen>,
    addr_gen: HashMap<usize, u32>,   // address of a Record -> id of the newest generation there
    next_gen: u32,
    serial: u64,
    calls: u64,
    hits: u64,
}

fn find_key(id: u32, bucket: usize) -> Vec<u8> {
    let mut n = 0u64;
    loop {
        let k = format!("vk{id}-{n}").into_bytes();
        if ClockCache::verif_bucket_of(&k) == bucket {
            return k;
        }
        n += 1;
    }
}

impl<W: Write> Drv<W> {
    fn new(out: W, nkeys: u32, nb: usize, high: usize, low: usize) -> Self {
        let cache = ClockCache::new(Arc::new(Statistics::new()));
        cache.verif_set_watermarks(high, low);
        let mut keys = Vec::new();
        let mut key_id = HashMap::new();
        for id in 1..=nkeys {
            let k = find_key(id, (id as usize - 1) % nb);
            key_id.insert(k.clone(), id);
            keys.push(k);
        }
        let mut d = Self {
            cache,
            out,
            nb,
            keys,
            key_id,
            gens: HashMap::new(),
            addr_gen: HashMap::new(),
            next_gen: 1,
            serial: 0,
            calls: 0,
            hits: 0,
        };
        d.emit(json!({"op": "init", "k": 0, "g": 0, "nb": nb, "nkeys": nkeys, "res": "ok", "vg": 0}));
        d
    }

    fn key(&self, k: u32) -> &Vec<u8> {
        self.keys.get(k as usize - 1).unwrap_or_else(|| {
            eprintln!("key id {k} out of range");
            std::process::exit(2)
        })
    }

    /// Append what the implementation reports after the call and write the event.
    fn emit(&mut self, mut ev: Value) {
        let st = self.cache.stats();
        let raw = self.cache.verif_clock_hand() % CACHE_BUCKETS;
        let ents: Vec<Value> = self
            .cache
            .verif_entries()
            .iter()
            .map(|e| {
                let g: i64 = if e.tag == 0 {
                    0
                } else {
                    self.addr_gen.get(&e.tag).map_or(-1, |g| *g as i64)
                };
                json!({
                    "k": self.key_id.get(&e.key).map_or(-1, |k| *k as i64),
                    "g": g,
                    "sz": e.size,
                    "ref": if e.referenced { 1 } else { 0 },
                    "b": ClockCache::verif_bucket_of(&e.key),
                    "alive": if e.tag_alive { 1 } else { 0 },
                })
            })
            .collect();
        ev["mem"] = json!(st.memory_usage);
        ev["high"] = json!(st.high_watermark);
        ev["low"] = json!(st.low_watermark);
        // buckets >= nb are empty: a hand there behaves like a hand at bucket 0
        ev["hand"] = json!(if raw < self.nb { raw } else { 0 });
        ev["rawhand"] = json!(raw);
        ev["ents"] = Value::Array(ents);
        writeln!(self.out, "{}", ev).unwrap();
    }

    fn arc(&self, g: u32) -> Arc<Record> {
        match self.gens.get(&g).and_then(|x| x.arc.clone()) {
            Some(a) => a,
            None => {
                eprintln!("generation {g} unknown or dropped");
                std::process::exit(2)
            }
        }
    }

    fn newgen(&mut self, k: u32, g: Option<u32>, ts: u64) -> u32 {
        let g = g.unwrap_or(self.next_gen);
        self.next_gen = self.next_gen.max(g + 1);
        let arc = Arc::new(Record::new(self.key(k).clone(), Vec::new(), ts));
        self.addr_gen.insert(Arc::as_ptr(&arc) as usize, g);
        self.gens.insert(g, Gen { k, arc: Some(arc), retired: false });
        self.emit(json!({"op": "newgen", "k": k, "g": g, "ts": ts, "res": "ok", "vg": 0}));
        g
    }

    fn retire(&mut self, g: u32) {
        let a = self.arc(g);
        a.refcount.store(0, Ordering::Release);
        let k = {
            let x = self.gens.get_mut(&g).unwrap();
            x.retired = true;
            x.k
        };
        self.emit(json!({"op": "retire", "k": k, "g": g, "res": "ok", "vg": 0}));
    }

    fn dropgen(&mut self, g: u32) {
        let k = match self.gens.get_mut(&g) {
            Some(x) => {
                x.arc = None; // the only strong reference
                x.k
            }
            None => {
                eprintln!("generation {g} unknown");
                std::process::exit(2)
            }
        };
        self.emit(json!({"op": "dropgen", "k": k, "g": g, "res": "ok", "vg": 0}));
    }

    fn insert(&mut self, k: u32, g: u32, vlen: usize) {
        let vlen = vlen.max(HEADER);
        self.serial += 1;
        let mut v = vec![(self.serial % 251) as u8; vlen];
        v[0..4].copy_from_slice(&k.to_le_bytes());
        v[4..8].copy_from_slice(&g.to_le_bytes());
        v[8..16].copy_from_slice(&self.serial.to_le_bytes());
        let key = self.key(k).clone();
        if g == 0 {
            self.cache.insert(key, Bytes::from(v));
        } else {
            let a = self.arc(g);
            self.cache.verif_insert_for_record(key, Bytes::from(v), &a);
        }
        self.calls += 1;
        self.emit(json!({"op": "insert", "k": k, "g": g, "vlen": vlen, "ser": self.serial,
                         "res": "done", "vg": 0}));
    }

    /// record_entry(key, generation).value(): the lookup update_ttl / persist take the value from
    fn peek(&mut self, k: u32, g: u32) {
        let key = self.key(k).clone();
        let a = self.arc(g);
        let r = self.cache.verif_record_entry_value(&key, &a);
        self.calls += 1;
        match r {
            Some(v) if v.len() >= HEADER => {
                let vg = u32::from_le_bytes(v[4..8].try_into().unwrap());
                self.emit(json!({"op": "peek", "k": k, "g": g, "res": "hit", "vg": vg, "vlen": v.len()}));
            }
            Some(v) => self.emit(json!({"op": "peek", "k": k, "g": g, "res": "hit", "vg": -1, "vlen": v.len()})),
            None => self.emit(json!({"op": "peek", "k": k, "g": g, "res": "miss", "vg": 0})),
        }
    }

    fn get(&mut self, k: u32, g: u32) -> bool {
        let key = self.key(k).clone();
        let r = if g == 0 {
            self.cache.get(&key)
        } else {
            let a = self.arc(g);
            self.cache.verif_get_for_record(&key, &a)
        };
        self.calls += 1;
        match r {
            Some(v) if v.len() >= HEADER => {
                let vk = u32::from_le_bytes(v[0..4].try_into().unwrap());
                let vg = u32::from_le_bytes(v[4..8].try_into().unwrap());
                let vser = u64::from_le_bytes(v[8..16].try_into().unwrap());
                self.hits += 1;
                self.emit(json!({"op": "get", "k": k, "g": g, "res": "hit", "vk": vk, "vg": vg,
                                 "vser": vser, "vlen": v.len()}));
                true
            }
            Some(v) => {
                self.emit(json!({"op": "get", "k": k, "g": g, "res": "hit", "vk": -1, "vg": -1,
                                 "vser": 0, "vlen": v.len()}));
                true
            }
            None => {
                self.emit(json!({"op": "get", "k": k, "g": g, "res": "miss", "vk": 0, "vg": 0,
                                 "vser": 0, "vlen": 0}));
                false
            }
        }
    }

    fn remove(&mut self, k: u32, g: u32) {
        let key = self.key(k).clone();
        if g == 0 {
            self.cache.remove(&key);
        } else {
            let a = self.arc(g);
            self.cache.verif_remove_for_record(&key, &a);
        }
        self.calls += 1;
        self.emit(json!({"op": "remove", "k": k, "g": g, "res": "done", "vg": 0}));
    }

    fn evict(&mut self) {
        self.cache.evict_entries();
        self.calls += 1;
        self.emit(json!({"op": "evict", "k": 0, "g": 0, "res": "ok", "vg": 0}));
    }

    fn clear(&mut self) {
        self.cache.clear();
        self.calls += 1;
        self.emit(json!({"op": "clear", "k": 0, "g": 0, "res": "ok", "vg": 0}));
    }

    fn setwm(&mut self, high: usize, low: usize) {
        self.cache.verif_set_watermarks(high, low);
        self.calls += 1;
        self.emit(json!({"op": "setwm", "k": 0, "g": 0, "res": "ok", "vg": 0}));
    }

    /// Public `adjust_watermarks` (whole megabytes; sweeps when usage exceeds the new high).
    fn adjust(&mut self, high_mb: usize, low_mb: usize) {
        self.cache.adjust_watermarks(high_mb, low_mb);
        self.calls += 1;
        self.emit(json!({"op": "adjust", "k": 0, "g": 0, "res": "ok", "vg": 0}));
    }

    fn usable(&self, k: u32) -> Vec<u32> {
        let mut v: Vec<u32> = self
            .gens
            .iter()
            .filter(|(_, x)| x.k == k && x.arc.is_some())
            .map(|(g, _)| *g)
            .collect();
        v.sort();
        v
    }
}

fn u(v: &Value, f: &str) -> u64 {
    v[f].as_u64().unwrap_or_else(|| {
        eprintln!("program line lacks numeric field {f}: {v}");
        std::process::exit(2)
    })
}

pub fn main(args: &[String]) -> i32 {
    let o = Opts::parse(args);
    let out_path = o.req("out");
    let out = std::io::BufWriter::new(std::fs::File::create(out_path).expect("create out"));
    let unit: usize = 64 * 1024;
    let high: usize = o.num("high", 4 * unit);
    let low: usize = o.num("low", 2 * unit);
    let nkeys: u32 = o.num("nkeys", 8);
    let nb: usize = o.num("nb", 3);
    if nb == 0 || nb > CACHE_BUCKETS || nkeys == 0 {
        eprintln!("bad --nb/--nkeys");
        return 2;
    }
    let mut d = Drv::new(out, nkeys, nb, high, low);

    if let Some(prog) = o.get("prog") {
        let f = std::io::BufReader::new(std::fs::File::open(prog).expect("open prog"));
        for line in f.lines() {
            let line = line.unwrap();
            if line.trim().is_empty() {
                continue;
            }
            let v: Value = serde_json::from_str(&line).expect("prog json");
            let g = v["g"].as_u64().unwrap_or(0) as u32;
            match v["op"].as_str().unwrap_or("") {
                "newgen" => {
                    let gid = v["g"].as_u64().map(|x| x as u32);
                    d.newgen(u(&v, "k") as u32, gid, v["ts"].as_u64().unwrap_or(1));
                }
                "retire" => d.retire(g),
                "dropgen" => d.dropgen(g),
                "insert" => d.insert(u(&v, "k") as u32, g, u(&v, "vlen") as usize),
                "get" => {
                    d.get(u(&v, "k") as u32, g);
                }
                "remove" => d.remove(u(&v, "k") as u32, g),
                "peek" => d.peek(u(&v, "k") as u32, g),
                "evict" => d.evict(),
                "clear" => d.clear(),
                "setwm" => d.setwm(u(&v, "high") as usize, u(&v, "low") as usize),
                "adjust" => d.adjust(u(&v, "high_mb") as usize, u(&v, "low_mb") as usize),
                other => {
                    eprintln!("unknown op {other:?}");
                    return 2;
                }
            }
        }
    } else {
        let seed: u64 = o.num("seed", 1);
        let n_calls: u64 = o.num("calls", 400);
        let mut rng = StdRng::seed_from_u64(seed);
        // value lengths: about a quarter, a half and a whole "unit" (= high/4, the largest
        // cacheable entry), and one that the high/4 rule refuses
        let q = high / 4;
        let vlens = [q / 4, q / 4, q / 4, q / 2, q / 2, q / 2, q.saturating_sub(512), q + 4096];
        let mut follow: Option<(u32, u32)> = None; // lookup right after a remove
        while d.calls < n_calls {
            let k = rng.random_range(1..=nkeys);
            if let Some((fk, fg)) = follow.take() {
                let g = if fg != 0 && d.gens.get(&fg).is_some_and(|x| x.arc.is_some())
                    && rng.random_range(0..3) > 0 { fg } else { 0 };
                d.get(fk, g);
                continue;
            }
            // lookups and removals prefer keys that are cached, and the generation they are
            // cached for, so that hits and effective removals are frequent
            let present: Vec<(u32, u32)> = d
                .cache
                .verif_entries()
                .iter()
                .filter_map(|e| {
                    let k = *d.key_id.get(&e.key)?;
                    let g = if e.tag == 0 { 0 } else { *d.addr_gen.get(&e.tag)? };
                    Some((k, g))
                })
                .collect();
            let (k, cached_gen) = if !present.is_empty() && rng.random_range(0..10) < 6 {
                let (pk, pg) = present[rng.random_range(0..present.len())];
                let usable = pg != 0 && d.gens.get(&pg).is_some_and(|x| x.arc.is_some());
                (pk, if usable { Some(pg) } else { None })
            } else {
                (k, None)
            };
            let us = d.usable(k);
            let pick_gen = |rng: &mut StdRng, us: &Vec<u32>| -> u32 {
                if let Some(g) = cached_gen {
                    if rng.random_range(0..2) == 0 {
                        return g;
                    }
                }
                if us.is_empty() || rng.random_range(0..4) == 0 {
                    0
                } else {
                    us[rng.random_range(0..us.len())]
                }
            };
            let r = rng.random_range(0..100);
            if rng.random_range(0..40) == 0 {
                // second-chance story: a sweep leaves the survivors unreferenced; some of them are
                // looked up again, small new entries push usage over the low watermark, and the next
                // sweep can reach it by evicting unreferenced entries only
                d.evict();
                let present: Vec<u32> = d.cache.verif_entries().iter().filter_map(|e| d.key_id.get(&e.key).copied()).collect();
                for pk in &present {
                    if rng.random_range(0..2) == 0 { d.get(*pk, 0); }
                }
                for _ in 0..rng.random_range(1..4) {
                    let nk = rng.random_range(1..=nkeys);
                    if !present.contains(&nk) { d.insert(nk, 0, q / 4); }
                }
                d.evict();
                continue;
            }
            if r < 34 {
                let g = pick_gen(&mut rng, &us);
                let vlen = vlens[rng.random_range(0..vlens.len())];
                d.insert(k, g, vlen);
            } else if r < 64 {
                let g = pick_gen(&mut rng, &us);
                if g != 0 && rng.random_range(0..4) == 0 { d.peek(k, g); } else { d.get(k, g); }
            } else if r < 71 {
                let g = pick_gen(&mut rng, &us);
                d.remove(k, g);
                if rng.random_range(0..2) == 0 {
                    follow = Some((k, g));
                }
            } else if r < 77 {
                d.evict();
            } else if r < 78 && rng.random_range(0..2) == 0 {
                d.clear();
            } else if r < 84 {
                // a new generation; timestamps are small so that equal and older ones occur
                if us.len() >= 3 {
                    d.dropgen(us[0]);
                }
                let ts = rng.random_range(1..8);
                d.newgen(k, None, ts);
            } else if r < 90 {
                let live: Vec<u32> = us.iter().copied().filter(|g| !d.gens[g].retired).collect();
                if !live.is_empty() {
                    d.retire(live[rng.random_range(0..live.len())]);
                }
            } else if r < 97 {
                if !us.is_empty() {
                    d.dropgen(us[rng.random_range(0..us.len())]);
                }
            } else {
                // switch between the configured watermarks and half of them
                let cur = d.cache.stats().high_watermark;
                if cur == high {
                    d.setwm(high / 2, low / 2);
                } else {
                    d.setwm(high, low);
                }
            }
        }
    }
    d.out.flush().unwrap();
    println!("{}", json!({"calls": d.calls, "hits": d.hits, "gens": d.next_gen - 1,
                          "mem": d.cache.stats().memory_usage}));
    0
}

//! Event sink: collects every hook event of the store (device writes with payload, fsyncs,
//! protocol events) and the harness's own API-level events in one global order.
use std::sync::Mutex;

#[derive(Clone, Debug)]
pub struct RawEv {
    pub seq: u64,
    pub tid: u64,
    pub kind: &'static str,
    pub key: Vec<u8>,
    pub a: u64,
    pub b: u64,
    pub c: u64,
    pub data: Vec<u8>,
}

static EVENTS: Mutex<Vec<RawEv>> = Mutex::new(Vec::new());

fn tid() -> u64 {
    // stable small integer per thread
    use std::sync::atomic::{AtomicU64, Ordering};
    static NEXT: AtomicU64 = AtomicU64::new(1);
    thread_local!(static ID: u64 = NEXT.fetch_add(1, Ordering::SeqCst));
    ID.with(|x| *x)
}

/// Set by drivers that steer fault injection by protocol phase: true between the first allocation of a
/// write batch and the batch's failure / publication.
thread_local!(static IN_BATCH_T: std::cell::Cell<bool> = const { std::cell::Cell::new(false) });

/// Is the CURRENT thread (a flush worker) between the first allocation of a write batch and the batch's
/// failure / publication?  Per thread: with several workers another worker's retirement writes must not
/// be mistaken for record writes of this batch.
pub fn in_batch() -> bool {
    IN_BATCH_T.with(|c| c.get())
}

pub fn install() {
    EVENTS.lock().unwrap().clear();
    feoxdb::verif::install(Box::new(|seq, ev| {
        match ev.kind {
            "alloc" => IN_BATCH_T.with(|c| c.set(true)),
            "batch_fail" | "publish" | "alloc_fail" => IN_BATCH_T.with(|c| c.set(false)),
            _ => {}
        }
        match ev.kind {
            "tick" if ev.a == 0 => { TICKS0.fetch_add(1, std::sync::atomic::Ordering::SeqCst); }
            "batch_fail" => { BATCH_FAILS.fetch_add(1, std::sync::atomic::Ordering::SeqCst); }
            "pin" => {
                let stall = PIN_STALL.lock().unwrap_or_else(|e| e.into_inner()).clone();
                if let Some((k, ms)) = stall {
                    if ev.key == k.as_slice() && !PIN_STALLED.swap(true, std::sync::atomic::Ordering::SeqCst) {
                        std::thread::sleep(std::time::Duration::from_millis(ms));
                    }
                }
            }
            _ => {}
        }
        let raw = RawEv {
            seq,
            tid: tid(),
            kind: ev.kind,
            key: ev.key.to_vec(),
            a: ev.a,
            b: ev.b,
            c: ev.c,
            // for a queued write buffer: where the deallocation log stood when it was queued
            data: if ev.kind == "ubp" { (crate::freelog::mark() as u64).to_le_bytes().to_vec() } else { ev.data.to_vec() },
        };
        EVENTS.lock().unwrap_or_else(|e| e.into_inner()).push(raw);
    }));
}

/// Steering state for free-running drivers (fxv coord): coordinator ticks naming worker 0, failed batches, and a
/// one-shot stall of the reader that pins a given key.
pub static TICKS0: std::sync::atomic::AtomicU64 = std::sync::atomic::AtomicU64::new(0);
pub static BATCH_FAILS: std::sync::atomic::AtomicU64 = std::sync::atomic::AtomicU64::new(0);
static PIN_STALL: Mutex<Option<(Vec<u8>, u64)>> = Mutex::new(None);
static PIN_STALLED: std::sync::atomic::AtomicBool = std::sync::atomic::AtomicBool::new(false);
pub fn batch_fails() -> u64 { BATCH_FAILS.load(std::sync::atomic::Ordering::SeqCst) }
pub fn set_pin_stall(key: Vec<u8>, ms: u64) {
    PIN_STALLED.store(false, std::sync::atomic::Ordering::SeqCst);
    *PIN_STALL.lock().unwrap_or_else(|e| e.into_inner()) = Some((key, ms));
}
pub fn pin_stalled() -> bool { PIN_STALLED.load(std::sync::atomic::Ordering::SeqCst) }

pub fn uninstall() {
    feoxdb::verif::uninstall();
}

/// Harness-side event through the same sequence counter.
pub fn api(kind: &'static str, key: &[u8], a: u64, b: u64, c: u64) {
    feoxdb::verif::emit(kind, key, a, b, c);
}

pub fn take() -> Vec<RawEv> {
    let mut v = std::mem::take(&mut *EVENTS.lock().unwrap_or_else(|e| e.into_inner()));
    v.sort_by_key(|e| e.seq);
    v
}

static HANG_LOCKOUT: Mutex<Option<String>> = Mutex::new(None);

/// Where the lock-ownership events collected so far go if the watchdog ends the process (the
/// nesting that led into a deadlock is the interesting part of such a run).
pub fn set_hang_lockout(path: Option<&str>) {
    *HANG_LOCKOUT.lock().unwrap_or_else(|e| e.into_inner()) = path.map(String::from);
}

pub fn hang_dump() {
    use std::io::Write as _;
    let path = HANG_LOCKOUT.lock().unwrap_or_else(|e| e.into_inner()).clone();
    if let Some(p) = path {
        let evs = take();
        if let Ok(f) = std::fs::OpenOptions::new().create(true).append(true).open(&p) {
            let mut f = std::io::BufWriter::new(f);
            for e in &evs {
                if e.kind == "lk" {
                    let _ = writeln!(f, "{}", serde_json::json!({"tid": e.tid + 900_000, "lock": String::from_utf8_lossy(&e.key), "acq": e.a, "mode": e.b}));
                }
            }
            let _ = f.flush();
        }
    }
}

pub fn snapshot_len() -> usize {
    EVENTS.lock().unwrap_or_else(|e| e.into_inner()).len()
}

/// Restrict the process to `n` CPUs so that the store builds `max(1, n/2)` shards/workers.
pub fn set_cpus(n: usize) {
    unsafe {
        let mut set: libc::cpu_set_t = std::mem::zeroed();
        libc::CPU_ZERO(&mut set);
        for i in 0..n {
            libc::CPU_SET(i, &mut set);
        }
        libc::sched_setaffinity(0, std::mem::size_of::<libc::cpu_set_t>(), &set);
    }
}

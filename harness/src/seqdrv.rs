//! Sequential contract engine (C01, C11, C12, C13, C14, C16): run a seeded random program of
//! public API calls against a real store under the virtual clock and record every call with
//! its result and the full projected state. TLC validates the trace against Store.tla.
use crate::util::{err_name, limbs, Opts};
use feoxdb::{FeoxError, FeoxStore};
use rand::{rngs::StdRng, Rng, SeedableRng};
use serde_json::{json, Value};
use std::collections::HashMap;
use std::io::Write;
use std::sync::Arc;

const E9: u64 = 1_000_000_000;

#[derive(Clone)]
pub struct Cfg {
    pub pers: bool,
    pub ttl: bool,
    pub cache: bool,
    pub fmt: u32,
    pub lim: i64,
    pub blocks: u64,
}

pub struct ValTable {
    ids: HashMap<Vec<u8>, u64>,
}

impl ValTable {
    pub fn new() -> Self {
        Self { ids: HashMap::new() }
    }
    /// Content-keyed bijection bytes <-> abstract value.
    pub fn val(&mut self, bytes: &[u8]) -> Value {
        if bytes.len() == 8 {
            let n = i64::from_le_bytes(bytes.try_into().unwrap());
            if n.abs() < 1_000_000_000 {
                return json!({"k": "i", "id": 0, "len": 8, "n": n});
            }
        }
        if bytes.len() >= 7 && bytes.len() <= 9 && bytes.starts_with(b"{\"n\":") && bytes.ends_with(b"}") {
            if let Ok(s) = std::str::from_utf8(&bytes[5..bytes.len() - 1]) {
                if let Ok(n) = s.parse::<u32>() {
                    if n < 1000 && format!("{{\"n\":{n}}}").as_bytes() == bytes {
                        return json!({"k": "d", "id": 0, "len": bytes.len(), "n": n});
                    }
                }
            }
        }
        // a counter document with a padding member: {"n":N,"p":"aaa...a"}
        if bytes.len() > 16 && bytes.starts_with(b"{\"n\":") && bytes.ends_with(b"\"}") {
            if let Some(c) = bytes.iter().position(|b| *b == b',') {
                if c <= 8 && bytes[c..].starts_with(b",\"p\":\"") {
                    let pad = &bytes[c + 6..bytes.len() - 2];
                    if let Ok(n) = std::str::from_utf8(&bytes[5..c]).unwrap_or("x").parse::<u32>() {
                        if n < 1000 && pad.iter().all(|b| *b == b'a') {
                            return json!({"k": "d", "id": pad.len(), "len": bytes.len(), "n": n});
                        }
                    }
                }
            }
        }
        let next = self.ids.len() as u64 + 1;
        let id = *self.ids.entry(bytes.to_vec()).or_insert(next);
        json!({"k": "b", "id": id, "len": bytes.len(), "n": 0})
    }
}

pub fn noval() -> Value {
    json!({"k": "none", "id": 0, "len": 0, "n": 0})
}

pub fn res_err(e: &FeoxError) -> Value {
    json!({"tag": err_name(e), "n": 0, "val": noval(), "tt": [0, 0, 0]})
}
pub fn res(tag: &str, n: i64, val: Value, tt: u64) -> Value {
    json!({"tag": tag, "n": n, "val": val, "tt": limbs(tt)})
}

pub fn build_store(cfg: &Cfg, path: &str) -> Result<FeoxStore, FeoxError> {
    let mut b = FeoxStore::builder().hash_bits(6).enable_ttl(cfg.ttl);
    b = if cfg.lim >= 0 { b.max_memory(cfg.lim as usize) } else { b.no_memory_limit() };
    if cfg.pers {
        b = b
            .device_path(path.to_string())
            .file_size(cfg.blocks * 4096)
            .enable_caching(cfg.cache);
    } else {
        b = b.enable_caching(cfg.cache);
    }
    b.build()
}

/// A legacy (v1/v2) device is a file whose metadata copy announces the old version; the
/// real store then writes it in compatibility mode.
pub fn create_legacy_device(path: &str, version: u32, blocks: u64) {
    let mut img = vec![0u8; (blocks * 4096) as usize];
    let meta = crate::layout::encode_meta(version, 0, 0, 0, blocks * 4096);
    img[..4096].copy_from_slice(&meta);
    std::fs::write(path, &img).expect("write legacy device");
}

pub fn post_state(store: &FeoxStore, keys: &[Vec<u8>]) -> Value {
    let recs: Vec<Value> = keys
        .iter()
        .map(|k| match store.verif_record(k) {
            Some(r) => json!({"p": true, "ts": limbs(r.timestamp), "exp": limbs(r.ttl_expiry),
                "vlen": r.value_len, "disk": r.sector != 0, "res": r.resident,
                "cached": store.verif_cache_entries_for(k).iter().any(|e| e.1)}),
            None => json!({"p": false, "ts": [0,0,0], "exp": [0,0,0], "vlen": 0, "disk": false,
                "res": false, "cached": false}),
        })
        .collect();
    json!({"len": store.len(), "mem": store.memory_usage(), "ttlkeys": store.verif_keys_with_ttl(),
           "recs": recs})
}

fn key_universe(rng: &mut StdRng, cfg: &Cfg, long_key: bool) -> Vec<Vec<u8>> {
    let mut pool: Vec<Vec<u8>> = vec![
        b"a".to_vec(), b"ab".to_vec(), b"abc".to_vec(), b"b".to_vec(), b"b\xff".to_vec(),
        b"b\xff\x00".to_vec(), b"c".to_vec(), b"\x00".to_vec(), b"\xff\xff".to_vec(),
        b"key:0001".to_vec(), b"key:0002".to_vec(), b"key:001".to_vec(), b"zz".to_vec(),
    ];
    let n = rng.random_range(4..=9);
    let mut keys = Vec::new();
    while keys.len() < n {
        let i = rng.random_range(0..pool.len());
        keys.push(pool.swap_remove(i));
    }
    if long_key {
        // recoverable on v1 (<= 4074) but not on v2/v3 (<= 4066)
        keys.push(vec![b'L'; 4070]);
        if cfg.pers {
            // the longest key this format can recover (its header fills the head block exactly),
            // one shorter, and one too long
            let max = if cfg.fmt == 1 { 4074 } else { 4066 };
            keys.push(vec![b'N'; max]);
            keys.push(vec![b'O'; max - 1]);
            keys.push(vec![b'P'; max + 1]);
        }
        if !cfg.pers {
            keys.push(vec![b'M'; 20_000]);
            // beyond 65 535 bytes (a 16-bit length would wrap)
            keys.push(vec![b'Q'; 70_000]);
        }
    }
    keys.sort();
    keys
}

fn rank_lo(keys: &[Vec<u8>], start: &[u8]) -> usize {
    keys.iter().position(|k| k.as_slice() >= start).map(|i| i + 1).unwrap_or(keys.len() + 1)
}
fn rank_hi(keys: &[Vec<u8>], end: &[u8]) -> usize {
    keys.iter().rposition(|k| k.as_slice() <= end).map(|i| i + 1).unwrap_or(0)
}

struct Ctx {
    out: std::io::BufWriter<std::fs::File>,
    vals: ValTable,
    now: u64,
    events: u64,
}

impl Ctx {
    fn emit(&mut self, v: Value) {
        writeln!(self.out, "{}", v).unwrap();
        self.events += 1;
    }
}

fn call_event(op: &str, k: usize) -> Value {
    json!({"e": "call", "op": op, "k": k, "v": noval(), "x": noval(), "d": 0, "auto": true,
           "ts": [0,0,0], "ttl": [0,0,0], "wttl": false, "lo": 0, "hi": 0, "lim": 0,
           "pt": -1, "ps": 0, "items": [], "explicit_max": false})
}

pub fn main(args: &[String]) -> i32 {
    let o = Opts::parse(args);
    let seed: u64 = o.num("seed", 1);
    let steps: usize = o.num("steps", 500);
    let cfg = Cfg {
        pers: o.get("mode").unwrap_or("mem") == "pers",
        ttl: o.num("ttl", 1u32) == 1,
        cache: o.num("cache", 0u32) == 1,
        fmt: o.num("fmt", 3),
        lim: o.num("lim", -1i64),
        blocks: o.num("blocks", 300),
    };
    let long_key = o.num("longkey", 0u32) == 1;
    let saturate = o.num("saturate", 0u32) == 1;
    let highpct = o.num("highpct", 0u32);
    let bias = o.get("bias").unwrap_or("").to_string();
    let cachebias = o.num("cachebias", 0u32) == 1;
    let dir = o.get("dir").unwrap_or("/dev/shm").to_string();
    let path = format!("{dir}/seq_{}_{}.feox", std::process::id(), seed);
    let _ = std::fs::remove_file(&path);
    let out = std::io::BufWriter::new(std::fs::File::create(o.req("out")).expect("create out"));
    let mut cx = Ctx { out, vals: ValTable::new(), now: 1_000 * E9, events: 0 };
    let mut rng = StdRng::seed_from_u64(seed);
    feoxdb::verif::set_now(cx.now);
    if cfg.pers && cfg.fmt < 3 {
        create_legacy_device(&path, cfg.fmt, cfg.blocks);
    }
    let keys = key_universe(&mut rng, &cfg, long_key);
    let mut store = Arc::new(build_store(&cfg, &path).expect("build store"));
    let overhead = FeoxStore::verif_record_overhead();
    let cfgj = |c: &Cfg| json!({"pers": c.pers, "ttl": c.ttl, "cache": c.cache, "fmt": c.fmt, "lim": c.lim});
    cx.emit(json!({"e": "reset", "cfg": cfgj(&cfg), "now": limbs(cx.now), "overhead": overhead,
        "klen": keys.iter().map(|k| k.len()).collect::<Vec<_>>(),
        "post": post_state(&store, &keys)}));
    let mut reopens = 0;
    let mut forced: std::collections::VecDeque<(u32, u64)> = std::collections::VecDeque::new();
    let mut forced_key: Option<usize> = None;
    crate::util::watchdog::start(o.num("watchdog", 25));
    for step in 0..steps {
        crate::util::watchdog::beat(&format!("step {step} after {} events", cx.events));
        let ki = match (forced_key, forced.front()) {
            (Some(fk), Some((100 | 101 | 103 | 104 | 105 | 106 | 107, _))) => fk,
            _ => rng.random_range(0..keys.len()),
        };
        let key = keys[ki].clone();
        let k = ki + 1;
        let cur = store.verif_record(&key);
        // ---- argument choices
        let ts_choice: Option<u64> = match rng.random_range(0..14) {
            0..=6 => None,
            7 => Some(rng.random_range(1..50)),
            8 => Some(cx.now - rng.random_range(0..3) * E9),
            9 => Some(cx.now + rng.random_range(1..4) * E9),
            10 => Some(cur.as_ref().map(|r| r.timestamp).unwrap_or(5)),
            11 => Some(cur.as_ref().map(|r| r.timestamp.saturating_add(1)).unwrap_or(cx.now)),
            12 => if saturate { Some(u64::MAX - rng.random_range(1..4)) } else { Some(u64::MAX) },
            _ => Some(0), // Some(0) means automatic
        };
        // explicit timestamps from the WHOLE 64-bit range (upper half, around 2^63, far from the wall clock and far
        // from the u64::MAX pin): accepted timestamps are versions whatever their magnitude
        let ts_choice = if highpct > 0 && rng.random_range(0..100) < highpct {
            let r = rng.random_range(0..1000u64);
            Some(match rng.random_range(0..5) {
                0 => (1u64 << 63) + r,
                1 => (1u64 << 63) - 1 - r,
                2 => 3 * (1u64 << 62) + r,
                3 => u64::MAX - (1u64 << 40) - r,
                _ => (1u64 << 63) + (1u64 << 32) * (r + 1),
            })
        } else {
            ts_choice
        };
        let auto = ts_choice.map_or(true, |t| t == 0);
        let ts_val = ts_choice.unwrap_or(0);
        let ttl: u64 = match rng.random_range(0..12) {
            0..=4 => 0,
            5 | 6 => 1,
            7 => 2,
            8 => 3,
            9 => 30,
            10 => 18_446_744_074, // ttl * 1e9 overflows: saturating arithmetic
            _ => 7,
        };
        // TTL-bearing calls are issued on TTL-disabled stores too: insert_with_ttl / update_ttl / get_ttl are refused
        // (TtlNotEnabled); compare-and-swap and increment accept the argument and stamp an expiry that no call may act
        // on while TTL is disabled (Store.tla: Expired needs cfg.ttl)
        let val: Vec<u8> = match rng.random_range(0..10) {
            0 | 1 => (rng.random_range(-5i64..50)).to_le_bytes().to_vec(),
            2 | 3 => format!("{{\"n\":{}}}", rng.random_range(0..9)).into_bytes(),
            4 if rng.random_range(0..6) == 0 => Vec::new(),
            // a counter document padded up to the value size limit (exactly, or a few bytes short): a later patch that
            // writes a longer number would cross it (memory mode only: such a value does not fit the small test devices)
            6 if !cfg.pers && rng.random_range(0..2) == 0 => {
                let total = 4 * 1024 * 1024 - [0usize, 1, 2, 3][rng.random_range(0..4)];
                let mut v = format!("{{\"n\":{},\"p\":\"", rng.random_range(0..9)).into_bytes();
                v.resize(total - 2, b'a');
                v.extend_from_slice(b"\"}");
                v
            }
            5 if rng.random_range(0..60) == 0 => vec![7u8; 4 * 1024 * 1024 + 1],
            _ => {
                let max = if cfg.pers { 9000 } else { 80 };
                let mut n = rng.random_range(1..max);
                if n == 8 { n = 9; }
                let mut v = vec![b'a' + (step % 26) as u8; n];
                v[0] = (step % 251) as u8;
                if n > 2 { v[1] = (step / 251 % 251) as u8; }
                v
            }
        };
        let mut op = rng.random_range(0..26);
        let mut ttl = ttl;
        let mut ts_choice = ts_choice;
        let mut auto = auto;
        let mut ts_val = ts_val;
        let mut forced_lim: Option<usize> = None;
        let mut long_set = false;
        let mut force_reopen = false;
        // targeted burst: short-lived keys, time passes, small-limit scans and reads
        if forced.is_empty() && cfg.ttl && rng.random_range(0..(if bias == "ttl" || bias == "range" { 15 } else { 45 })) == 0 {
            for _ in 0..rng.random_range(1..4) {
                forced.push_back((3, 1));
            }
            forced.push_back((21, 0));
            for _ in 0..3 {
                forced.push_back((19, 0));
            }
            forced.push_back((4, 0));
            forced.push_back((8, 0));
            forced.push_back((10, 0));
        }
        // targeted burst under a memory limit: an overwrite carrying a FUTURE explicit timestamp that
        // must fail with OutOfMemory, then automatic writes to the same key (a failed call's timestamp
        // is never absorbed into the version clock)
        if forced.is_empty() && cfg.lim >= 0 && key.len() < 100 && rng.random_range(0..30) == 0 {
            forced_key = Some(ki);
            forced.push_back((100, 0));
            forced.push_back((101, 0));
            forced.push_back((100, 0));
            forced.push_back((100, 0));
        }
        // targeted burst: a short-lived key is written and flushed (its value leaves memory), its TTL is renewed or
        // removed BEFORE the next flush (the new generation borrows the bytes on the device), time passes beyond
        // the ORIGINAL deadline, then reads and scans
        if forced.is_empty() && cfg.ttl && !(cfg.pers && cfg.fmt == 1) && key.len() < 100 && rng.random_range(0..(if bias == "ttl" || bias == "range" { 25 } else { 60 })) == 0 {
            forced_key = Some(ki);
            forced.push_back((103, 2));
            forced.push_back((22, 0));
            forced.push_back((104, if rng.random_bool(0.5) { 30 } else { 0 }));
            if rng.random_bool(0.3) { forced.push_back((22, 0)); }
            for _ in 0..3 { forced.push_back((21, 0)); }
            forced.push_back((19, 50));
            forced.push_back((105, 0));
            forced.push_back((19, 0));
        }
        // targeted burst: a generation whose VERSION is far ahead of the wall clock while its EXPIRY is near (explicit
        // future timestamp, then a TTL counted from now), the expiry passes, the store is closed and reopened (recovery
        // reads the expired newest generation and drops it), then automatic writes to that key: they exceed every
        // timestamp recovered from the device
        if forced.is_empty() && cfg.pers && cfg.ttl && cfg.fmt != 1 && key.len() < 100 && reopens < 6 && rng.random_range(0..35) == 0 {
            forced_key = Some(ki);
            forced.push_back((107, 0));
            forced.push_back((104, 1));
            forced.push_back((21, 0));
            forced.push_back((108, 0));
            forced.push_back((100, 0));
            forced.push_back((105, 0));
        }
        // targeted burst (C16, store level; drawn only when asked for, so every other workload keeps its programs): a
        // short-lived key is written and flushed (its value leaves memory), read twice while alive (the bytes enter the
        // read cache when it is on), time passes beyond the deadline, then reads and a scan - what the cache holds for
        // a generation must not outlive that generation's expiry
        if cachebias && forced.is_empty() && cfg.pers && cfg.ttl && cfg.fmt != 1 && key.len() < 100 && rng.random_range(0..40) == 0 {
            forced_key = Some(ki);
            forced.push_back((103, 2));
            forced.push_back((22, 0));
            forced.push_back((105, 0));
            forced.push_back((105, 0));
            for _ in 0..3 { forced.push_back((21, 0)); }
            forced.push_back((105, 0));
            forced.push_back((19, 50));
            forced.push_back((105, 0));
        }
        match bias.as_str() {
            "range" if forced.is_empty() && rng.random_range(0..3) == 0 => op = 19,
            "ttl" if forced.is_empty() && rng.random_range(0..4) == 0 => op = [3, 15, 16, 21, 23, 10][rng.random_range(0..6)],
            "mem" if forced.is_empty() && rng.random_range(0..3) == 0 => op = [0, 1, 6, 8, 10, 12][rng.random_range(0..6)],
            _ => {}
        }
        let mut val = val;
        if let Some((fop, fttl)) = forced.pop_front() {
            op = fop;
            if fop == 100 {
                op = 0;
                ts_choice = None;
                auto = true;
                ts_val = 0;
                val = vec![b'q'; 3];
            }
            if fop == 101 {
                op = [0, 3][rng.random_range(0..2)];
                ts_val = cx.now + 50 * E9;
                ts_choice = Some(ts_val);
                auto = false;
                val = vec![b'Q'; cfg.lim as usize + 1];
            }
            if fop == 103 {
                op = 3;
                ttl = fttl;
                ts_choice = None;
                auto = true;
                ts_val = 0;
                val = vec![b'r'; 40];
            }
            if fop == 104 {
                op = 15;
                ttl = fttl;
            }
            if fop == 105 {
                op = 4;
            }
            if fop == 107 {
                op = 0;
                ts_val = cx.now + 50 * E9;
                ts_choice = Some(ts_val);
                auto = false;
                val = vec![b'f'; 33];
            }
            if fop == 108 {
                op = 25;
                force_reopen = true;
            }
            if fop == 106 {
                // a patch that writes a longer number into the document just stored at the size limit
                op = 13;
                long_set = true;
                ts_choice = None;
                auto = true;
                ts_val = 0;
            }
            if fop == 3 {
                ttl = fttl;
                ts_choice = None;
                auto = true;
                ts_val = 0;
            }
            if fop == 19 {
                forced_lim = Some(if fttl > 0 { fttl as usize } else { rng.random_range(1..3) });
            }
        }
        let mut ev;
        match op {
            0..=3 => {
                let with_ttl = op == 3;
                ev = call_event("insert", k);
                // every public variant of the call: slice / Bytes payload, with and without the explicit
                // timestamp parameter (the short forms are the automatic-timestamp calls)
                let short = ts_choice.is_none() && rng.random_bool(0.5);
                let as_bytes = if with_ttl { rng.random_bool(0.5) } else { op == 2 };
                let b = || bytes::Bytes::from(val.clone());
                let r = match (with_ttl, as_bytes, short) {
                    (true, false, false) => store.insert_with_ttl_and_timestamp(&key, &val, ttl, ts_choice),
                    (true, false, true) => store.insert_with_ttl(&key, &val, ttl),
                    (true, true, false) => store.insert_bytes_with_ttl_and_timestamp(&key, b(), ttl, ts_choice),
                    (true, true, true) => store.insert_bytes_with_ttl(&key, b(), ttl),
                    (false, true, false) => store.insert_bytes_with_timestamp(&key, b(), ts_choice),
                    (false, true, true) => store.insert_bytes(&key, b()),
                    (false, false, false) => store.insert_with_timestamp(&key, &val, ts_choice),
                    (false, false, true) => store.insert(&key, &val),
                };
                if r.is_ok() && val.len() > 4_000_000 && val.starts_with(b"{\"n\":") && forced.is_empty() {
                    forced_key = Some(ki);
                    forced.push_back((106, 0));
                    forced.push_back((105, 0));
                }
                ev["v"] = cx.vals.val(&val);
                ev["ttl"] = json!(limbs(if with_ttl { ttl } else { 0 }));
                ev["wttl"] = json!(with_ttl);
                ev["res"] = match &r { Ok(b) => res("bool", *b as i64, noval(), 0), Err(e) => res_err(e) };
            }
            4 | 5 => {
                ev = call_event("get", k);
                let r = if op == 4 { store.get(&key) } else { store.get_bytes(&key).map(|b| b.to_vec()) };
                ev["res"] = match &r { Ok(v) => res("val", 0, cx.vals.val(v), 0), Err(e) => res_err(e) };
            }
            6 | 7 => {
                ev = call_event("delete", k);
                let r = if ts_choice.is_none() && rng.random_bool(0.5) { store.delete(&key) } else { store.delete_with_timestamp(&key, ts_choice) };
                ev["res"] = match &r { Ok(()) => res("unit", 0, noval(), 0), Err(e) => res_err(e) };
            }
            8 | 9 => {
                ev = call_event("cas", k);
                let expected: Vec<u8> = if rng.random_bool(0.75) {
                    store.get(&key).unwrap_or_else(|_| b"x".to_vec())
                } else {
                    b"nope".to_vec()
                };
                let r = match (ts_choice.is_none() && rng.random_bool(0.5), ttl == 0 && rng.random_bool(0.5)) {
                    (true, true) => store.compare_and_swap(&key, &expected, &val),
                    (true, false) if ttl > 0 => store.compare_and_swap_with_ttl(&key, &expected, &val, ttl),
                    (false, true) => store.compare_and_swap_with_timestamp(&key, &expected, &val, ts_choice),
                    _ => store.compare_and_swap_with_timestamp_and_ttl(&key, &expected, &val, ts_choice, ttl),
                };
                ev["x"] = cx.vals.val(&expected);
                ev["v"] = cx.vals.val(&val);
                ev["ttl"] = json!(limbs(ttl));
                ev["res"] = match &r { Ok(b) => res("bool", *b as i64, noval(), 0), Err(e) => res_err(e) };
            }
            10 | 11 => {
                ev = call_event("incr", k);
                let d = rng.random_range(-3i64..10);
                let r = match (ts_choice.is_none() && rng.random_bool(0.5), ttl == 0 && rng.random_bool(0.5)) {
                    (true, true) => store.atomic_increment(&key, d),
                    (true, false) if ttl > 0 => store.atomic_increment_with_ttl(&key, d, ttl),
                    (false, true) => store.atomic_increment_with_timestamp(&key, d, ts_choice),
                    _ => store.atomic_increment_with_timestamp_and_ttl(&key, d, ts_choice, ttl),
                };
                ev["d"] = json!(d);
                ev["ttl"] = json!(limbs(ttl));
                ev["res"] = match &r { Ok(n) => res("num", *n, noval(), 0), Err(e) => res_err(e) };
            }
            12 => {
                ev = call_event("iia", k);
                let r = store.insert_if_absent(&key, &val);
                ev["v"] = cx.vals.val(&val);
                ev["res"] = match &r { Ok(b) => res("bool", *b as i64, noval(), 0), Err(e) => res_err(e) };
            }
            13 | 14 => {
                ev = call_event("patch", k);
                // (three digits: a two-digit number would make the document 8 bytes long, which the store also reads as a counter)
                let set = if long_set || rng.random_range(0..4) == 0 { [100, 500, 999, 123][rng.random_range(0..4)] } else { rng.random_range(0..9) };
                let (pt, patch) = if rng.random_bool(0.4) {
                    let t = rng.random_range(0..9);
                    (t as i64, format!("[{{\"op\":\"test\",\"path\":\"/n\",\"value\":{t}}},{{\"op\":\"replace\",\"path\":\"/n\",\"value\":{set}}}]"))
                } else {
                    (-1, format!("[{{\"op\":\"replace\",\"path\":\"/n\",\"value\":{set}}}]"))
                };
                let r = if ts_choice.is_none() && rng.random_bool(0.5) { store.json_patch(&key, patch.as_bytes()) } else { store.json_patch_with_timestamp(&key, patch.as_bytes(), ts_choice) };
                ev["pt"] = json!(pt);
                ev["ps"] = json!(set);
                ev["res"] = match &r { Ok(()) => res("unit", 0, noval(), 0), Err(e) => res_err(e) };
            }
            15 => {
                ev = call_event("update_ttl", k);
                let r = if ttl == 0 && rng.random_bool(0.5) { store.persist(&key) } else { store.update_ttl(&key, ttl) };
                ev["ttl"] = json!(limbs(ttl));
                ev["res"] = match &r { Ok(()) => res("unit", 0, noval(), 0), Err(e) => res_err(e) };
            }
            16 => {
                ev = call_event("get_ttl", k);
                let r = store.get_ttl(&key);
                ev["res"] = match &r {
                    Ok(None) => res("none", 0, noval(), 0),
                    Ok(Some(s)) => res("secs", 0, noval(), *s),
                    Err(e) => res_err(e),
                };
            }
            17 => {
                ev = call_event("get_size", k);
                let r = store.get_size(&key);
                ev["res"] = match &r { Ok(n) => res("num", *n as i64, noval(), 0), Err(e) => res_err(e) };
            }
            18 => {
                ev = call_event("contains", k);
                ev["res"] = res("bool", store.contains_key(&key) as i64, noval(), 0);
            }
            19 | 20 => {
                ev = call_event("range", 1);
                let lim = forced_lim.unwrap_or_else(|| rng.random_range(0..keys.len() + 2));
                let pick = |rng: &mut StdRng| -> Vec<u8> {
                    match rng.random_range(0..8) {
                        0 => Vec::new(),
                        1 => vec![0xff; 3],
                        2 => { let mut b = keys[rng.random_range(0..keys.len())].clone(); b.push(0); b }
                        3 => { let mut b = keys[rng.random_range(0..keys.len())].clone(); b.pop(); b }
                        _ => keys[rng.random_range(0..keys.len())].clone(),
                    }
                };
                let (s, e) = if forced_lim.is_some() { (Vec::new(), vec![0xff; 3]) } else { (pick(&mut rng), pick(&mut rng)) };
                let r = store.range_query(&s, &e, lim);
                ev["lo"] = json!(rank_lo(&keys, &s));
                ev["hi"] = json!(rank_hi(&keys, &e));
                ev["lim"] = json!(lim);
                match &r {
                    Ok(items) => {
                        let it: Vec<Value> = items.iter().map(|(kk, vv)| {
                            let id = keys.iter().position(|x| x == kk).map(|i| i + 1).unwrap_or(0);
                            json!({"k": id, "val": cx.vals.val(vv)})
                        }).collect();
                        ev["items"] = json!(it);
                        ev["res"] = res("list", items.len() as i64, noval(), 0);
                    }
                    Err(e) => ev["res"] = res_err(e),
                }
            }
            21 => {
                // time passes
                let d = if !forced.is_empty() { E9 + 1 } else { match rng.random_range(0..4) { 0 => 1, 1 => E9 / 2, 2 => E9, _ => rng.random_range(1..30) * (E9 / 10) } };
                cx.now += d;
                feoxdb::verif::set_now(cx.now);
                cx.emit(json!({"e": "tick", "now": limbs(cx.now)}));
                continue;
            }
            22 => {
                ev = call_event("flush", 1);
                let r = store.flush();
                ev["res"] = match &r { Ok(()) => res("unit", 0, noval(), 0), Err(e) => res_err(e) };
            }
            23 => {
                if !cfg.ttl { continue; }
                ev = call_event("sweep", 1);
                let (_sampled, expired) = store.verif_sweep_once(rng.random_range(1..6));
                ev["res"] = res("num", expired as i64, noval(), 0);
            }
            24 => {
                // an empty key is rejected by every keyed call
                ev = call_event(["get", "insert", "delete"][rng.random_range(0..3)], 0);
                let opn = ev["op"].as_str().unwrap().to_string();
                ev["v"] = cx.vals.val(b"zz9");
                ev["res"] = match opn.as_str() {
                    "get" => match store.get(b"") { Ok(v) => res("val", 0, cx.vals.val(&v), 0), Err(e) => res_err(&e) },
                    "insert" => match store.insert(b"", b"zz9") { Ok(b) => res("bool", b as i64, noval(), 0), Err(e) => res_err(&e) },
                    _ => match store.delete(b"") { Ok(()) => res("unit", 0, noval(), 0), Err(e) => res_err(&e) },
                };
            }
            _ => {
                if !cfg.pers || (!force_reopen && (reopens >= 6 || rng.random_range(0..4) != 0)) { continue; }
                reopens += 1;
                let _ = store.flush();
                match Arc::try_unwrap(store) {
                    Ok(s) => drop(s),
                    Err(_) => panic!("store still shared"),
                }
                store = match build_store(&cfg, &path) {
                    Ok(s) => Arc::new(s),
                    Err(e) => {
                        // a file the store wrote itself and closed cleanly does not open any more
                        cx.emit(json!({"e": "reopen_fail", "err": crate::util::err_name(&e)}));
                        println!("{}", json!({"events": cx.events, "keys": keys.len(), "reopens": reopens, "reopen_failed": true}));
                        return 0;
                    }
                };
                cx.emit(json!({"e": "reopen", "cfg": cfgj(&cfg), "now": limbs(cx.now),
                    "post": post_state(&store, &keys)}));
                continue;
            }
        }
        ev["auto"] = json!(auto);
        ev["ts"] = json!(limbs(ts_val));
        ev["explicit_max"] = json!(!auto && ts_val == u64::MAX);
        ev["now"] = json!(limbs(cx.now));
        ev["post"] = post_state(&store, &keys);
        cx.emit(ev);
    }
    // final sanity read of every key (also exercises every tier once more)
    for (i, key) in keys.iter().enumerate() {
        let mut ev = call_event("get", i + 1);
        ev["res"] = match store.get(key) { Ok(v) => res("val", 0, cx.vals.val(&v), 0), Err(e) => res_err(&e) };
        ev["now"] = json!(limbs(cx.now));
        ev["post"] = post_state(&store, &keys);
        cx.emit(ev);
    }
    cx.out.flush().unwrap();
    println!("{}", json!({"events": cx.events, "keys": keys.len(), "reopens": reopens}));
    // dropping a persistent store costs 0.5 s; the process ends here anyway
    std::mem::forget(store);
    let _ = std::fs::remove_file(&path);
    0
}

/// C02/C05/C10/C19 story "delete while the first write is in flight": a fresh key is inserted, the
/// write-behind worker has its batch in hand (held there by a stall at its scheduling points, as an
/// involuntary preemption would) when the key is deleted; then flush, clean close, reopen.  Judged as a
/// sequential history by TraceStore.tla: the deleted keys stay deleted, the kept key keeps its value.
pub fn inflightstory(args: &[String]) -> i32 {
    let o = Opts::parse(args);
    let dir = o.get("dir").unwrap_or("/dev/shm").to_string();
    std::fs::create_dir_all(&dir).ok();
    crate::obs::set_cpus(o.num("cpus", 2));
    crate::util::watchdog::start(o.num("watchdog", 60));
    let rounds: usize = o.num("rounds", 4);
    let cfg = Cfg { pers: true, ttl: false, cache: o.num("cache", 0u32) == 1, fmt: 3, lim: -1, blocks: 64 };
    let cfgj = |c: &Cfg| json!({"pers": c.pers, "ttl": c.ttl, "cache": c.cache, "fmt": c.fmt, "lim": c.lim});
    let now = 1_000 * E9;
    feoxdb::verif::set_now(now);
    let path = format!("{dir}/inflight_{}.feox", std::process::id());
    let _ = std::fs::remove_file(&path);
    let mut keys: Vec<Vec<u8>> = vec![b"a-keep".to_vec()];
    for i in 0..rounds { keys.push(format!("b-gone{i}").into_bytes()); }
    let store = Arc::new(build_store(&cfg, &path).expect("build store"));
    let mut vals = ValTable::new();
    let mut evs: Vec<Value> = Vec::new();
    evs.push(json!({"e": "reset", "cfg": cfgj(&cfg), "now": limbs(now), "overhead": FeoxStore::verif_record_overhead(),
        "klen": keys.iter().map(|k| k.len()).collect::<Vec<_>>(), "post": post_state(&store, &keys)}));
    let step = |store: &FeoxStore, vals: &mut ValTable, evs: &mut Vec<Value>, op: &str, k: usize, val: &[u8]| {
        let mut ev = call_event(op, k);
        match op {
            "insert" => {
                let r = store.insert(&keys[k - 1], val);
                ev["v"] = vals.val(val);
                ev["res"] = match &r { Ok(b) => res("bool", *b as i64, noval(), 0), Err(e) => res_err(e) };
            }
            "delete" => {
                let r = store.delete(&keys[k - 1]);
                ev["res"] = match &r { Ok(()) => res("unit", 0, noval(), 0), Err(e) => res_err(e) };
            }
            "get" => {
                let r = store.get(&keys[k - 1]);
                ev["res"] = match &r { Ok(v) => res("val", 0, vals.val(v), 0), Err(e) => res_err(e) };
            }
            _ => {
                let r = store.flush();
                ev["res"] = match &r { Ok(()) => res("unit", 0, noval(), 0), Err(e) => res_err(e) };
            }
        }
        ev["now"] = json!(limbs(now));
        ev["post"] = post_state(store, &keys);
        evs.push(ev);
    };
    step(&store, &mut vals, &mut evs, "insert", 1, b"kept-value");
    step(&store, &mut vals, &mut evs, "flush", 1, b"");
    for i in 0..rounds {
        let k = i + 2;
        let val = vec![b'g'; 200 + 3000 * (i % 2)];
        step(&store, &mut vals, &mut evs, "insert", k, &val);
        // the worker is preempted in the middle of its batch: right after it allocated the blocks of this
        // key's first write (the hook event `alloc` is emitted there) it is held for 40 ms
        static IN_WINDOW: std::sync::atomic::AtomicBool = std::sync::atomic::AtomicBool::new(false);
        IN_WINDOW.store(false, std::sync::atomic::Ordering::SeqCst);
        let gone = keys[k - 1].clone();
        feoxdb::verif::install(Box::new(move |_seq, ev| {
            if ev.kind == "alloc" && ev.key == gone.as_slice() {
                IN_WINDOW.store(true, std::sync::atomic::Ordering::SeqCst);
                std::thread::sleep(std::time::Duration::from_millis(40));
            }
        }));
        let s2 = store.clone();
        let flusher = std::thread::spawn(move || s2.flush());
        let t0 = std::time::Instant::now();
        while !IN_WINDOW.load(std::sync::atomic::Ordering::SeqCst) && t0.elapsed().as_millis() < 2000 {
            std::thread::sleep(std::time::Duration::from_micros(200));
        }
        let sector_at_delete = store.verif_record(&keys[k - 1]).map(|r| r.sector);
        step(&store, &mut vals, &mut evs, "delete", k, b"");
        if o.num("debug", 0u32) == 1 { eprintln!("round {i}: sector at delete {sector_at_delete:?}, flusher finished {}", flusher.is_finished()); }
        // the concurrent flush has no logical effect: it is recorded where it returned
        let r = flusher.join().expect("flusher");
        feoxdb::verif::uninstall();
        let mut ev = call_event("flush", 1);
        ev["res"] = match &r { Ok(()) => res("unit", 0, noval(), 0), Err(e) => res_err(e) };
        ev["now"] = json!(limbs(now));
        ev["post"] = post_state(&store, &keys);
        evs.push(ev);
        step(&store, &mut vals, &mut evs, "flush", 1, b"");
    }
    match Arc::try_unwrap(store) { Ok(s) => drop(s), Err(_) => panic!("store still shared") }
    match build_store(&cfg, &path) {
        Ok(s) => {
            evs.push(json!({"e": "reopen", "cfg": cfgj(&cfg), "now": limbs(now), "post": post_state(&s, &keys)}));
            for k in 1..=keys.len() { step(&s, &mut vals, &mut evs, "get", k, b""); }
            std::mem::forget(s);
        }
        Err(e) => evs.push(json!({"e": "reopen_fail", "err": crate::util::err_name(&e)})),
    }
    let mut out = std::io::BufWriter::new(std::fs::File::create(o.req("out")).expect("create out"));
    for e in &evs { writeln!(out, "{}", e).unwrap(); }
    out.flush().unwrap();
    let _ = std::fs::remove_file(&path);
    println!("{}", json!({"events": evs.len(), "rounds": rounds}));
    0
}

/// C08/C11 story "renewed twice while the first renewal is being written": a value lives only on the device; a
/// TTL-only update creates a generation that borrows those bytes; the write-behind worker has that generation's batch
/// in hand (held right after it allocated its blocks, as an involuntary preemption would) when the TTL is renewed
/// AGAIN; then the batch lands, the first extent is retired, flush, reads, clean close, reopen.  One sequential
/// history judged by TraceStore.tla: every read returns the value, the key stays in range scans, every flush succeeds,
/// the expiry after the reopen is the second renewal's.
pub fn renewstory(args: &[String]) -> i32 {
    let o = Opts::parse(args);
    let dir = o.get("dir").unwrap_or("/dev/shm").to_string();
    std::fs::create_dir_all(&dir).ok();
    crate::obs::set_cpus(o.num("cpus", 2));
    crate::util::watchdog::start(o.num("watchdog", 60));
    let rounds: usize = o.num("rounds", 3);
    let cfg = Cfg { pers: true, ttl: true, cache: o.num("cache", 0u32) == 1, fmt: 3, lim: -1, blocks: 64 };
    let cfgj = |c: &Cfg| json!({"pers": c.pers, "ttl": c.ttl, "cache": c.cache, "fmt": c.fmt, "lim": c.lim});
    let now = 1_000 * E9;
    feoxdb::verif::set_now(now);
    let path = format!("{dir}/renew_{}.feox", std::process::id());
    let _ = std::fs::remove_file(&path);
    let keys: Vec<Vec<u8>> = (0..rounds).map(|i| format!("r-key{i}").into_bytes()).collect();
    let store = Arc::new(build_store(&cfg, &path).expect("build store"));
    let mut vals = ValTable::new();
    let mut evs: Vec<Value> = Vec::new();
    evs.push(json!({"e": "reset", "cfg": cfgj(&cfg), "now": limbs(now), "overhead": FeoxStore::verif_record_overhead(),
        "klen": keys.iter().map(|k| k.len()).collect::<Vec<_>>(), "post": post_state(&store, &keys)}));
    let step = |store: &FeoxStore, vals: &mut ValTable, evs: &mut Vec<Value>, op: &str, k: usize, val: &[u8], ttl: u64| {
        let mut ev = call_event(if op == "range" { "range" } else { op }, if op == "range" || op == "flush" { 1 } else { k });
        match op {
            "insert" => {
                let r = store.insert(&keys[k - 1], val);
                ev["v"] = vals.val(val);
                ev["res"] = match &r { Ok(b) => res("bool", *b as i64, noval(), 0), Err(e) => res_err(e) };
            }
            "update_ttl" => {
                let r = store.update_ttl(&keys[k - 1], ttl);
                ev["ttl"] = json!(limbs(ttl));
                ev["res"] = match &r { Ok(()) => res("unit", 0, noval(), 0), Err(e) => res_err(e) };
            }
            "get_ttl" => {
                let r = store.get_ttl(&keys[k - 1]);
                ev["res"] = match &r { Ok(None) => res("none", 0, noval(), 0), Ok(Some(s)) => res("secs", 0, noval(), *s), Err(e) => res_err(e) };
            }
            "get" => {
                let r = store.get(&keys[k - 1]);
                ev["res"] = match &r { Ok(v) => res("val", 0, vals.val(v), 0), Err(e) => res_err(e) };
            }
            "range" => {
                let r = store.range_query(b"", &[0xffu8; 3], keys.len() + 1);
                ev["lo"] = json!(1);
                ev["hi"] = json!(keys.len());
                ev["lim"] = json!(keys.len() + 1);
                match &r {
                    Ok(items) => {
                        let it: Vec<Value> = items.iter().map(|(kk, vv)| json!({"k": keys.iter().position(|x| x == kk).map(|i| i + 1).unwrap_or(0), "val": vals.val(vv)})).collect();
                        ev["items"] = json!(it);
                        ev["res"] = res("list", items.len() as i64, noval(), 0);
                    }
                    Err(e) => ev["res"] = res_err(e),
                }
            }
            _ => {
                let r = store.flush();
                ev["res"] = match &r { Ok(()) => res("unit", 0, noval(), 0), Err(e) => res_err(e) };
            }
        }
        ev["now"] = json!(limbs(now));
        ev["post"] = post_state(store, &keys);
        evs.push(ev);
    };
    let mut windows = 0usize;
    for i in 0..rounds {
        let k = i + 1;
        let val = vec![b'r'; 300 + 2500 * (i % 2)];
        step(&store, &mut vals, &mut evs, "insert", k, &val, 0);
        step(&store, &mut vals, &mut evs, "flush", k, b"", 0);
        step(&store, &mut vals, &mut evs, "update_ttl", k, b"", 60);
        static IN_WINDOW: std::sync::atomic::AtomicBool = std::sync::atomic::AtomicBool::new(false);
        IN_WINDOW.store(false, std::sync::atomic::Ordering::SeqCst);
        let mine = keys[k - 1].clone();
        feoxdb::verif::install(Box::new(move |_seq, ev| {
            if ev.kind == "alloc" && ev.key == mine.as_slice() {
                IN_WINDOW.store(true, std::sync::atomic::Ordering::SeqCst);
                std::thread::sleep(std::time::Duration::from_millis(40));
            }
        }));
        let s2 = store.clone();
        let flusher = std::thread::spawn(move || s2.flush());
        let t0 = std::time::Instant::now();
        while !IN_WINDOW.load(std::sync::atomic::Ordering::SeqCst) && t0.elapsed().as_millis() < 2000 {
            std::thread::sleep(std::time::Duration::from_micros(200));
        }
        if IN_WINDOW.load(std::sync::atomic::Ordering::SeqCst) && !flusher.is_finished() { windows += 1; }
        step(&store, &mut vals, &mut evs, "update_ttl", k, b"", 120);
        let r = flusher.join().expect("flusher");
        feoxdb::verif::uninstall();
        let mut ev = call_event("flush", 1);
        ev["res"] = match &r { Ok(()) => res("unit", 0, noval(), 0), Err(e) => res_err(e) };
        ev["now"] = json!(limbs(now));
        ev["post"] = post_state(&store, &keys);
        evs.push(ev);
        step(&store, &mut vals, &mut evs, "flush", k, b"", 0);
        step(&store, &mut vals, &mut evs, "get", k, b"", 0);
        step(&store, &mut vals, &mut evs, "get_ttl", k, b"", 0);
        step(&store, &mut vals, &mut evs, "range", k, b"", 0);
        step(&store, &mut vals, &mut evs, "flush", k, b"", 0);
    }
    match Arc::try_unwrap(store) { Ok(s) => drop(s), Err(_) => panic!("store still shared") }
    match build_store(&cfg, &path) {
        Ok(s) => {
            evs.push(json!({"e": "reopen", "cfg": cfgj(&cfg), "now": limbs(now), "post": post_state(&s, &keys)}));
            for k in 1..=keys.len() {
                step(&s, &mut vals, &mut evs, "get", k, b"", 0);
                step(&s, &mut vals, &mut evs, "get_ttl", k, b"", 0);
            }
            std::mem::forget(s);
        }
        Err(e) => evs.push(json!({"e": "reopen_fail", "err": crate::util::err_name(&e)})),
    }
    let mut out = std::io::BufWriter::new(std::fs::File::create(o.req("out")).expect("create out"));
    for e in &evs { writeln!(out, "{}", e).unwrap(); }
    out.flush().unwrap();
    let _ = std::fs::remove_file(&path);
    println!("{}", json!({"events": evs.len(), "rounds": rounds, "windows": windows}));
    if windows == 0 { return 3; }
    0
}

/// C09/C02 story "flush while a background batch is in the worker's hand": a key is written without flush; the
/// periodic coordinator wakes the worker, which drains the shard and allocates (held there for a moment, as an
/// involuntary preemption would); the record write of that batch fails once (determinate failure, the batch is
/// scrubbed and queued again); meanwhile the application calls flush().  Whatever flush() answers, it is the truth:
/// if it returned Ok, a copy of the device file taken at that instant (a crash right after the acknowledgement)
/// recovers to a store that has the key; if it returned an error, the next flush on the healthy device succeeds and
/// a clean reopen has the key.  One sequential history judged by TraceStore.tla.
pub fn ackstory(args: &[String]) -> i32 {
    use std::sync::atomic::{AtomicBool, Ordering};
    let o = Opts::parse(args);
    let dir = o.get("dir").unwrap_or("/dev/shm").to_string();
    std::fs::create_dir_all(&dir).ok();
    crate::obs::set_cpus(o.num("cpus", 2));
    crate::util::watchdog::start(o.num("watchdog", 60));
    feoxdb::verif::force_sync(true);
    let cfg = Cfg { pers: true, ttl: false, cache: o.num("cache", 0u32) == 1, fmt: 3, lim: -1, blocks: 64 };
    let cfgj = |c: &Cfg| json!({"pers": c.pers, "ttl": c.ttl, "cache": c.cache, "fmt": c.fmt, "lim": c.lim});
    let now = 1_000 * E9;
    feoxdb::verif::set_now(now);
    let path = format!("{dir}/ack_{}.feox", std::process::id());
    let copy = format!("{dir}/ack_{}_copy.feox", std::process::id());
    let _ = std::fs::remove_file(&path);
    let keys: Vec<Vec<u8>> = vec![b"a-base".to_vec(), b"b-late".to_vec()];
    let store = build_store(&cfg, &path).expect("build store");
    let mut vals = ValTable::new();
    let mut evs: Vec<Value> = Vec::new();
    evs.push(json!({"e": "reset", "cfg": cfgj(&cfg), "now": limbs(now), "overhead": FeoxStore::verif_record_overhead(),
        "klen": keys.iter().map(|k| k.len()).collect::<Vec<_>>(), "post": post_state(&store, &keys)}));
    let step = |store: &FeoxStore, vals: &mut ValTable, evs: &mut Vec<Value>, op: &str, k: usize, val: &[u8], faulted: bool| -> bool {
        let mut ev = call_event(op, k);
        let ok;
        match op {
            "insert" => {
                let r = store.insert(&keys[k - 1], val);
                ev["v"] = vals.val(val);
                ok = r.is_ok();
                ev["res"] = match &r { Ok(b) => res("bool", *b as i64, noval(), 0), Err(e) => res_err(e) };
            }
            "get" => {
                let r = store.get(&keys[k - 1]);
                ok = r.is_ok();
                ev["res"] = match &r { Ok(v) => res("val", 0, vals.val(v), 0), Err(e) => res_err(e) };
            }
            _ => {
                let r = store.flush();
                ok = r.is_ok();
                ev["res"] = match &r { Ok(()) => res("unit", 0, noval(), 0), Err(e) => res_err(e) };
                ev["faulted"] = json!(faulted);
            }
        }
        ev["now"] = json!(limbs(now));
        ev["post"] = post_state(store, &keys);
        evs.push(ev);
        ok
    };
    step(&store, &mut vals, &mut evs, "insert", 1, b"base-value", false);
    step(&store, &mut vals, &mut evs, "flush", 1, b"", false);
    static IN_WINDOW: AtomicBool = AtomicBool::new(false);
    static ARMED: AtomicBool = AtomicBool::new(false);
    static FAILS: std::sync::atomic::AtomicUsize = std::sync::atomic::AtomicUsize::new(0);
    let mine = keys[1].clone();
    feoxdb::verif::install(Box::new(move |_seq, ev| {
        if ev.kind == "alloc" && ev.key == mine.as_slice() && !IN_WINDOW.load(Ordering::SeqCst) {
            IN_WINDOW.store(true, Ordering::SeqCst);
            std::thread::sleep(std::time::Duration::from_millis(120));
        }
    }));
    feoxdb::verif::set_fault_fn(Some(Box::new(|_idx, kind, sector, _len| {
        // the first record write after the window opened fails (before anything is written)
        // (three consecutive failures: the batch's own retries are used up, it is scrubbed and queued again)
        if kind == "write" && sector >= 16 && IN_WINDOW.load(Ordering::SeqCst) && ARMED.load(Ordering::SeqCst)
            && FAILS.fetch_add(1, Ordering::SeqCst) < 3 { 1 } else { 0 }
    })));
    ARMED.store(true, Ordering::SeqCst);
    step(&store, &mut vals, &mut evs, "insert", 2, &vec![b'L'; 700], false);
    // no flush: the periodic coordinator wakes the worker within its interval
    let t0 = std::time::Instant::now();
    while !IN_WINDOW.load(Ordering::SeqCst) && t0.elapsed().as_millis() < 3000 {
        std::thread::sleep(std::time::Duration::from_micros(200));
    }
    let in_window = IN_WINDOW.load(Ordering::SeqCst);
    let ok = step(&store, &mut vals, &mut evs, "flush", 1, b"", true);
    if ok {
        // a crash right after the acknowledgement: what the file holds now
        std::fs::copy(&path, &copy).expect("copy device file");
    }
    ARMED.store(false, Ordering::SeqCst);
    feoxdb::verif::set_fault_fn(None);
    feoxdb::verif::uninstall();
    let reopened = if ok {
        std::mem::forget(store);
        build_store(&cfg, &copy)
    } else {
        step(&store, &mut vals, &mut evs, "flush", 1, b"", false);
        drop(store);
        build_store(&cfg, &path)
    };
    match reopened {
        Ok(s) => {
            evs.push(json!({"e": "reopen", "cfg": cfgj(&cfg), "now": limbs(now), "post": post_state(&s, &keys)}));
            for k in 1..=keys.len() { step(&s, &mut vals, &mut evs, "get", k, b"", false); }
            std::mem::forget(s);
        }
        Err(e) => evs.push(json!({"e": "reopen_fail", "err": crate::util::err_name(&e)})),
    }
    let mut out = std::io::BufWriter::new(std::fs::File::create(o.req("out")).expect("create out"));
    for e in &evs { writeln!(out, "{}", e).unwrap(); }
    out.flush().unwrap();
    let _ = std::fs::remove_file(&path);
    let _ = std::fs::remove_file(&copy);
    println!("{}", json!({"events": evs.len(), "in_window": in_window, "flush_ok": ok}));
    if !in_window { return 3; }
    0
}

/// C19 story "a retirement that has to wait": a reader holds its pin on an offloaded generation for seconds (a slow
/// consumer), the key is deleted meanwhile (its retirement stays queued), and a handful of small writes go to OTHER keys
/// - spread over all shards - without any flush.  2.5 s later a copy of the device file (a crash at that instant) is
/// recovered: every one of those writes is there.  Sequential history over the probe keys only, judged by TraceStore.tla.
pub fn pinstory(args: &[String]) -> i32 {
    use std::sync::atomic::{AtomicBool, Ordering};
    let o = Opts::parse(args);
    let dir = o.get("dir").unwrap_or("/dev/shm").to_string();
    std::fs::create_dir_all(&dir).ok();
    crate::obs::set_cpus(o.num("cpus", 8));
    crate::util::watchdog::start(o.num("watchdog", 60));
    let cfg = Cfg { pers: true, ttl: false, cache: false, fmt: 3, lim: -1, blocks: 128 };
    let cfgj = |c: &Cfg| json!({"pers": c.pers, "ttl": c.ttl, "cache": c.cache, "fmt": c.fmt, "lim": c.lim});
    let now = 1_000 * E9;
    feoxdb::verif::set_now(now);
    let path = format!("{dir}/pin_{}.feox", std::process::id());
    let copy = format!("{dir}/pin_{}_copy.feox", std::process::id());
    let _ = std::fs::remove_file(&path);
    let nprobe: usize = o.num("probes", 24);
    let keys: Vec<Vec<u8>> = (0..nprobe).map(|i| format!("probe{i:02}").into_bytes()).collect();
    let victim = b"zz-victim".to_vec();
    let store = Arc::new(build_store(&cfg, &path).expect("build store"));
    let mut vals = ValTable::new();
    let mut evs: Vec<Value> = Vec::new();
    store.insert(&victim, &vec![b'V'; 5000]).expect("insert victim");
    store.flush().expect("flush victim");
    evs.push(json!({"e": "reset", "cfg": cfgj(&cfg), "now": limbs(now), "overhead": FeoxStore::verif_record_overhead(),
        "klen": keys.iter().map(|k| k.len()).collect::<Vec<_>>(), "post": post_state(&store, &keys)}));
    static PINNED: AtomicBool = AtomicBool::new(false);
    let vk = victim.clone();
    feoxdb::verif::install(Box::new(move |_seq, ev| {
        if ev.kind == "pin" && ev.key == vk.as_slice() && !PINNED.swap(true, Ordering::SeqCst) {
            std::thread::sleep(std::time::Duration::from_millis(4800));
        }
    }));
    let s2 = store.clone();
    let v2 = victim.clone();
    let reader = std::thread::spawn(move || s2.get(&v2).map(|v| v.len()));
    let t0 = std::time::Instant::now();
    while !PINNED.load(Ordering::SeqCst) && t0.elapsed().as_millis() < 2000 {
        std::thread::sleep(std::time::Duration::from_micros(200));
    }
    let pinned = PINNED.load(Ordering::SeqCst);
    let _ = store.delete(&victim);
    std::thread::sleep(std::time::Duration::from_millis(350));
    for (i, k) in keys.iter().enumerate() {
        let val = vec![b'p'; 60 + i];
        let mut ev = call_event("insert", i + 1);
        let r = store.insert(k, &val);
        ev["v"] = vals.val(&val);
        ev["res"] = match &r { Ok(b) => res("bool", *b as i64, noval(), 0), Err(e) => res_err(e) };
        ev["now"] = json!(limbs(now));
        ev["post"] = post_state(&store, &keys);
        evs.push(ev);
    }
    let t1 = std::time::Instant::now();
    while t1.elapsed().as_millis() < 2500 {
        crate::util::watchdog::beat("pinstory: waiting for the write-behind");
        std::thread::sleep(std::time::Duration::from_millis(100));
    }
    std::fs::copy(&path, &copy).expect("copy device file");
    let still_pinned = !reader.is_finished();
    let _ = reader.join();
    feoxdb::verif::uninstall();
    match build_store(&cfg, &copy) {
        Ok(s) => {
            evs.push(json!({"e": "reopen", "cfg": cfgj(&cfg), "now": limbs(now), "post": post_state(&s, &keys)}));
            std::mem::forget(s);
        }
        Err(e) => evs.push(json!({"e": "reopen_fail", "err": crate::util::err_name(&e)})),
    }
    let mut out = std::io::BufWriter::new(std::fs::File::create(o.req("out")).expect("create out"));
    for e in &evs { writeln!(out, "{}", e).unwrap(); }
    out.flush().unwrap();
    if let Ok(s) = Arc::try_unwrap(store) { std::mem::forget(s); }
    let _ = std::fs::remove_file(&path);
    let _ = std::fs::remove_file(&copy);
    println!("{}", json!({"events": evs.len(), "pinned": pinned, "still_pinned_at_copy": still_pinned}));
    if !pinned || !still_pinned { return 3; }
    0
}

thread_local!(static STORY_VICTIM_ALLOCATED: std::cell::Cell<bool> = const { std::cell::Cell::new(false) });

/// C09/C02 story "failed batch next to an acknowledged one": a retired two-block extent [s, s+1] leaves
/// the marker chain M(2), M(1) in the free space.  Two write-behind workers then allocate from it in one
/// flush: the batch that owns block s fails at its journal-intent write (determinate failure, before any
/// byte of the batch reaches the device), the other batch writes its record at s+1.  The failed key is
/// deleted, the device works again, a flush succeeds (acknowledging the survivor), the store is closed
/// and reopened.  The whole story is one sequential history judged by TraceStore.tla (the flush that met
/// the injected failure is marked `faulted`; every other result and the contents after the reopen must be
/// the reference map's).
pub fn faultstory(args: &[String]) -> i32 {
    use std::sync::atomic::{AtomicBool, Ordering};
    let o = Opts::parse(args);
    let dir = o.get("dir").unwrap_or("/dev/shm").to_string();
    std::fs::create_dir_all(&dir).ok();
    crate::obs::set_cpus(o.num("cpus", 4));
    feoxdb::verif::force_sync(true);
    crate::util::watchdog::start(o.num("watchdog", 60));
    static ARMED: AtomicBool = AtomicBool::new(false);
    let attempts: usize = o.num("attempts", 40);
    let cfg = Cfg { pers: true, ttl: false, cache: o.num("cache", 0u32) == 1, fmt: 3, lim: -1, blocks: 64 };
    let cfgj = |c: &Cfg| json!({"pers": c.pers, "ttl": c.ttl, "cache": c.cache, "fmt": c.fmt, "lim": c.lim});
    let now = 1_000 * E9;
    feoxdb::verif::set_now(now);
    let out_path = o.req("out").to_string();
    for attempt in 0..attempts {
        let path = format!("{dir}/story_{}_{attempt}.feox", std::process::id());
        let _ = std::fs::remove_file(&path);
        // keys in byte order (TraceStore ranks them): survivor, victim, x
        let keys: Vec<Vec<u8>> = vec![format!("a-survivor{attempt}").into_bytes(), format!("b-victim{attempt}").into_bytes(), b"x".to_vec()];
        let (sk, vk, xk) = (1usize, 2usize, 3usize);
        let store = build_store(&cfg, &path).expect("build store");
        let mut vals = ValTable::new();
        let mut evs: Vec<Value> = Vec::new();
        evs.push(json!({"e": "reset", "cfg": cfgj(&cfg), "now": limbs(now), "overhead": FeoxStore::verif_record_overhead(),
            "klen": keys.iter().map(|k| k.len()).collect::<Vec<_>>(), "post": post_state(&store, &keys)}));
        let mut step = |store: &FeoxStore, vals: &mut ValTable, evs: &mut Vec<Value>, op: &str, k: usize, val: &[u8], faulted: bool| -> bool {
            let mut ev = call_event(op, k);
            let ok;
            match op {
                "insert" => {
                    let r = store.insert(&keys[k - 1], val);
                    ev["v"] = vals.val(val);
                    ok = r.is_ok();
                    ev["res"] = match &r { Ok(b) => res("bool", *b as i64, noval(), 0), Err(e) => res_err(e) };
                }
                "delete" => {
                    let r = store.delete(&keys[k - 1]);
                    ok = r.is_ok();
                    ev["res"] = match &r { Ok(()) => res("unit", 0, noval(), 0), Err(e) => res_err(e) };
                }
                "get" => {
                    let r = store.get(&keys[k - 1]);
                    ok = r.is_ok();
                    ev["res"] = match &r { Ok(v) => res("val", 0, vals.val(v), 0), Err(e) => res_err(e) };
                }
                _ => {
                    let r = store.flush();
                    ok = r.is_ok();
                    ev["res"] = match &r { Ok(()) => res("unit", 0, noval(), 0), Err(e) => res_err(e) };
                    ev["faulted"] = json!(faulted);
                }
            }
            ev["now"] = json!(limbs(now));
            ev["post"] = post_state(store, &keys);
            evs.push(ev);
            ok
        };
        let big = vec![b'X'; 5000];
        step(&store, &mut vals, &mut evs, "insert", xk, &big, false);
        step(&store, &mut vals, &mut evs, "flush", 1, b"", false);
        let xs = store.verif_record(&keys[xk - 1]).map(|r| r.sector).unwrap_or(0);
        step(&store, &mut vals, &mut evs, "delete", xk, b"", false);
        step(&store, &mut vals, &mut evs, "flush", 1, b"", false);
        // the failure: the journal write of the batch that has just allocated the victim
        let vkey = keys[vk - 1].clone();
        STORY_VICTIM_ALLOCATED.with(|c| c.set(false));
        feoxdb::verif::install(Box::new(move |_seq, ev| {
            if ev.kind == "alloc" && ev.key == vkey.as_slice() { STORY_VICTIM_ALLOCATED.with(|c| c.set(true)); }
        }));
        feoxdb::verif::set_fault_fn(Some(Box::new(|_idx, kind, sector, _len| {
            if ARMED.load(Ordering::SeqCst) && kind == "write" && (1..7).contains(&sector) && STORY_VICTIM_ALLOCATED.with(|c| c.get()) {
                STORY_VICTIM_ALLOCATED.with(|c| c.set(false));
                // the failing call takes a while: the other worker allocates next to the victim meanwhile
                std::thread::sleep(std::time::Duration::from_millis(40));
                1
            } else { 0 }
        })));
        ARMED.store(true, Ordering::SeqCst);
        step(&store, &mut vals, &mut evs, "insert", vk, b"victim-value", false);
        step(&store, &mut vals, &mut evs, "insert", sk, b"survivor-value", false);
        let first_ok = step(&store, &mut vals, &mut evs, "flush", 1, b"", true);
        ARMED.store(false, Ordering::SeqCst);
        feoxdb::verif::set_fault_fn(None);
        feoxdb::verif::uninstall();
        let vs = store.verif_record(&keys[vk - 1]).map(|r| r.sector).unwrap_or(0);
        let ss = store.verif_record(&keys[sk - 1]).map(|r| r.sector).unwrap_or(0);
        if first_ok || vs != 0 || ss != xs + 1 {
            if o.num("debug", 0u32) == 1 { eprintln!("attempt {attempt}: first_ok={first_ok} vs={vs} ss={ss} xs={xs}"); }
            // both keys on one worker, or the survivor was placed first: not the layout of the story
            std::mem::forget(store);
            let _ = std::fs::remove_file(&path);
            continue;
        }
        step(&store, &mut vals, &mut evs, "delete", vk, b"", false);
        step(&store, &mut vals, &mut evs, "flush", 1, b"", false);
        drop(store);   // clean close
        match build_store(&cfg, &path) {
            Ok(s) => {
                evs.push(json!({"e": "reopen", "cfg": cfgj(&cfg), "now": limbs(now), "post": post_state(&s, &keys)}));
                step(&s, &mut vals, &mut evs, "get", sk, b"", false);
                step(&s, &mut vals, &mut evs, "get", vk, b"", false);
                std::mem::forget(s);
            }
            Err(e) => evs.push(json!({"e": "reopen_fail", "err": crate::util::err_name(&e)})),
        }
        let mut out = std::io::BufWriter::new(std::fs::File::create(&out_path).expect("create out"));
        for e in &evs { writeln!(out, "{}", e).unwrap(); }
        out.flush().unwrap();
        let _ = std::fs::remove_file(&path);
        println!("{}", json!({"events": evs.len(), "attempt": attempt, "retired_extent": [xs, 2], "survivor_sector": ss}));
        return 0;
    }
    println!("{}", json!({"events": 0, "inconclusive": true}));
    3
}

/// C12 clock-saturation scenario: an accepted explicit timestamp next to u64::MAX on one key,
/// followed by automatic writes to another key that shares its clock shard.
pub fn clocksat(args: &[String]) -> i32 {
    let o = Opts::parse(args);
    let out = std::io::BufWriter::new(std::fs::File::create(o.req("out")).expect("create out"));
    let mut cx = Ctx { out, vals: ValTable::new(), now: 1_000 * E9, events: 0 };
    feoxdb::verif::set_now(cx.now);
    let cfg = Cfg { pers: false, ttl: true, cache: false, fmt: 3, lim: -1, blocks: 0 };
    let store = Arc::new(build_store(&cfg, "").expect("build"));
    let a = b"pin".to_vec();
    let shard = store.verif_clock_shard(&a);
    let mut same = None;
    let mut other = None;
    for i in 0..5000 {
        let k = format!("q{i:04}").into_bytes();
        if store.verif_clock_shard(&k) == shard {
            if same.is_none() { same = Some(k); }
        } else if other.is_none() {
            other = Some(k);
        }
        if same.is_some() && other.is_some() { break; }
    }
    let mut keys = vec![a.clone(), same.expect("colliding key"), other.expect("other key")];
    keys.sort();
    let idx = |k: &Vec<u8>| keys.iter().position(|x| x == k).unwrap() + 1;
    cx.emit(json!({"e": "reset", "cfg": {"pers": false, "ttl": true, "cache": false, "fmt": 3, "lim": -1},
        "now": limbs(cx.now), "overhead": FeoxStore::verif_record_overhead(),
        "klen": keys.iter().map(|k| k.len()).collect::<Vec<_>>(), "post": post_state(&store, &keys)}));
    let near = u64::MAX - o.num("below", 1u64);
    let mut do_insert = |cx: &mut Ctx, key: &Vec<u8>, ts: Option<u64>, val: &[u8]| {
        let mut ev = call_event("insert", idx(key));
        let r = store.insert_with_timestamp(key, val, ts);
        ev["v"] = cx.vals.val(val);
        ev["res"] = match &r { Ok(b) => res("bool", *b as i64, noval(), 0), Err(e) => res_err(e) };
        ev["auto"] = json!(ts.is_none());
        ev["ts"] = json!(limbs(ts.unwrap_or(0)));
        ev["now"] = json!(limbs(cx.now));
        ev["post"] = post_state(&store, &keys);
        cx.emit(ev);
    };
    let colliding: Vec<Vec<u8>> = keys.iter().filter(|k| **k != a).cloned().collect();
    do_insert(&mut cx, &a, Some(near), b"pinned");
    for round in 0..3 {
        for k in &colliding {
            do_insert(&mut cx, k, None, format!("v{round}").as_bytes());
        }
    }
    cx.out.flush().unwrap();
    println!("{}", json!({"events": cx.events, "keys": keys.len()}));
    0
}


/// C14 story: every value is on the device only (flushed, no cache); then the medium loses its tail under the open store
/// (the file is truncated in the middle of the data area, as a failing device or a shrunk volume would look): device reads
/// of the extents behind the cut come back short.  A range query over all keys either FAILS or answers with every live
/// key - judged by TraceStore.tla (RangeExact; the scans after the cut are marked `faulted`: an error is acceptable).
pub fn scanstory(args: &[String]) -> i32 {
    let o = Opts::parse(args);
    let dir = o.get("dir").unwrap_or("/dev/shm").to_string();
    std::fs::create_dir_all(&dir).ok();
    crate::obs::set_cpus(o.num("cpus", 2));
    crate::util::watchdog::start(o.num("watchdog", 60));
    let seed: u64 = o.num("seed", std::process::id() as u64);
    let mut rng = StdRng::seed_from_u64(seed);
    let nkeys: usize = o.num("keys", 14);
    let cfg = Cfg { pers: true, ttl: false, cache: false, fmt: 3, lim: -1, blocks: 128 };
    let cfgj = |c: &Cfg| json!({"pers": c.pers, "ttl": c.ttl, "cache": c.cache, "fmt": c.fmt, "lim": c.lim});
    let now = 1_000 * E9;
    feoxdb::verif::set_now(now);
    let path = format!("{dir}/scan_{}.feox", std::process::id());
    let _ = std::fs::remove_file(&path);
    let keys: Vec<Vec<u8>> = (0..nkeys).map(|i| format!("s-key{i:02}").into_bytes()).collect();
    let store = build_store(&cfg, &path).expect("build store");
    let mut vals = ValTable::new();
    let mut evs: Vec<Value> = Vec::new();
    evs.push(json!({"e": "reset", "cfg": cfgj(&cfg), "now": limbs(now), "overhead": FeoxStore::verif_record_overhead(),
        "klen": keys.iter().map(|k| k.len()).collect::<Vec<_>>(), "post": post_state(&store, &keys)}));
    for (i, k) in keys.iter().enumerate() {
        let n = [300usize, 5000, 900, 9000, 60, 2500][rng.random_range(0..6)];
        let val = vec![b'a' + (i % 26) as u8; n];
        let mut ev = call_event("insert", i + 1);
        let r = store.insert(k, &val);
        ev["v"] = vals.val(&val);
        ev["res"] = match &r { Ok(b) => res("bool", *b as i64, noval(), 0), Err(e) => res_err(e) };
        ev["now"] = json!(limbs(now));
        ev["post"] = post_state(&store, &keys);
        evs.push(ev);
    }
    let scan = |store: &FeoxStore, vals: &mut ValTable, evs: &mut Vec<Value>, lim: usize, faulted: bool| {
        let mut ev = call_event("range", 1);
        let r = store.range_query(b"", &[0xffu8; 3], lim);
        ev["lo"] = json!(1);
        ev["hi"] = json!(keys.len());
        ev["lim"] = json!(lim);
        ev["faulted"] = json!(faulted);
        match &r {
            Ok(items) => {
                let it: Vec<Value> = items.iter().map(|(kk, vv)| json!({"k": keys.iter().position(|x| x == kk).map(|i| i + 1).unwrap_or(0), "val": vals.val(vv)})).collect();
                ev["items"] = json!(it);
                ev["res"] = res("list", items.len() as i64, noval(), 0);
            }
            Err(e) => ev["res"] = res_err(e),
        }
        ev["now"] = json!(limbs(now));
        ev["post"] = post_state(store, &keys);
        evs.push(ev);
        r.is_ok()
    };
    {
        let mut ev = call_event("flush", 1);
        let r = store.flush();
        ev["res"] = match &r { Ok(()) => res("unit", 0, noval(), 0), Err(e) => res_err(e) };
        ev["now"] = json!(limbs(now));
        ev["post"] = post_state(&store, &keys);
        evs.push(ev);
    }
    scan(&store, &mut vals, &mut evs, nkeys + 1, false);
    // the medium loses its tail: cut at the extent of a key in the middle (or inside it)
    let mut sectors: Vec<u64> = keys.iter().filter_map(|k| store.verif_record(k)).map(|r| r.sector).filter(|s| *s != 0).collect();
    sectors.sort();
    let mut answered = 0;
    if sectors.len() >= 4 {
        let cut_block = sectors[sectors.len() / 2] + rng.random_range(0..2);
        let f = std::fs::OpenOptions::new().write(true).open(&path).expect("open device");
        f.set_len(cut_block * 4096 + [0u64, 512, 100][rng.random_range(0..3)]).expect("truncate");
        drop(f);
        for lim in [nkeys + 1, nkeys / 2, 3] {
            crate::util::watchdog::beat("scanstory: scan over the damaged medium");
            if scan(&store, &mut vals, &mut evs, lim, true) { answered += 1; }
        }
    }
    let out = o.req("out").to_string();
    let mut f = std::io::BufWriter::new(std::fs::File::create(&out).expect("create out"));
    for e in &evs {
        writeln!(f, "{e}").unwrap();
    }
    f.flush().unwrap();
    // the store cannot be closed cleanly on this medium: leave it to the process exit
    std::mem::forget(store);
    let _ = std::fs::remove_file(&path);
    println!("{}", json!({"ok": true, "events": evs.len(), "answered_after_cut": answered}));
    0
}

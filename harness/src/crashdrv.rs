//! Crash engine (C02, C03, C05, C10, C11-crash, C19): run a workload on a persistent store under
//! the device observer, project every device write onto the abstract contents of Disk.tla,
//! enumerate crash images (subsets of the un-synced blocks) at every device event, recover
//! each materialised image with the REAL recovery code in short-lived child processes, and
//! emit one ndjson trace that TLC validates against TraceDisk.tla.
use crate::absdev::{self, ConcreteDev, GenTable};
use crate::layout as L;
use crate::obs::{self, RawEv};
use crate::util::Opts;
use feoxdb::FeoxStore;
use rand::{rngs::StdRng, Rng, SeedableRng};
use serde_json::{json, Value};
use std::collections::{BTreeSet, HashMap};
use std::io::Write;

const E9: u64 = 1_000_000_000;
static OUTAGE_ARMED: std::sync::atomic::AtomicBool = std::sync::atomic::AtomicBool::new(false);
static HEALED: std::sync::atomic::AtomicBool = std::sync::atomic::AtomicBool::new(false);

struct CallInfo {
    kid: usize,
    key: Vec<u8>,
    /// Some((ts, exp, value)) = new generation accepted; None with `deleted` = accepted delete
    gen: Option<(u64, u64, Vec<u8>)>,
    deleted: bool,
}

struct FlushInfo {
    ok: bool,
    snap: Value,
}

fn build(path: &str, blocks: u64, ttl: bool, cache: bool) -> Result<FeoxStore, feoxdb::FeoxError> {
    FeoxStore::builder()
        .hash_bits(6)
        .enable_ttl(ttl)
        .no_memory_limit()
        .device_path(path.to_string())
        .file_size(blocks * 4096)
        .enable_caching(cache)
        .build()
}

fn snapshot(store: &FeoxStore, keys: &[Vec<u8>]) -> Value {
    let recs: Vec<Value> = store
        .verif_snapshot()
        .iter()
        .map(|r| {
            let kid = keys.iter().position(|k| *k == r.key).map(|i| i + 1).unwrap_or(0);
            json!({"k": kid, "ts": r.timestamp, "exp": r.ttl_expiry, "vlen": r.value_len,
                   "at": r.sector, "klen": r.key.len(), "resident": r.resident})
        })
        .collect();
    json!({"recs": recs, "free": store.verif_free_runs(), "disk_usage": crate::absdev::blocks_exact(store.verif_disk_usage()),
           "len": store.len()})
}

/// A value whose second block is a byte-exact one-block record (or marker) image valid for the
/// sector it is predicted to land on.
fn ghost_value(rng: &mut StdRng, version: u32, key: &[u8], predicted_sector: u64, marker: bool) -> Vec<u8> {
    let header = if version == 1 { 4 + 2 + key.len() + 8 + 8 } else { 4 + 2 + key.len() + 8 + 8 + 8 };
    let mut v = vec![b'g'; L::BLOCK - header];
    v[0] = rng.random();
    let img = if marker {
        L::encode_marker_block(predicted_sector + 1, 1, L::STATE_COMPLETE)
    } else {
        L::encode_record(version, predicted_sector + 1, b"ghost", b"never written by the application", 77, 0)
    };
    let used = img.iter().rposition(|b| *b != 0).map(|i| i + 1).unwrap_or(1);
    v.extend_from_slice(&img[..used]);
    v
}

/// A one-block value for which the 16-bit fold of the record's CRC is exactly 0 at the predicted sector
/// (the stamped token is then the reserved replacement value 1): writer and reader must agree on it.
fn fold_zero_value(key: &[u8], predicted_sector: u64, ts: u64) -> Option<Vec<u8>> {
    let header = 4 + 2 + key.len() + 8 + 8 + 8;
    let mut val = vec![b'z'; L::BLOCK - header];
    let n = val.len();
    let ext = L::encode_record(3, predicted_sector, key, &val, ts, 0);
    if ext.len() != L::BLOCK {
        return None;
    }
    // CRC state over everything but the last four bytes (the value ends exactly at the block end)
    let mut c = L::crc32c(0, &predicted_sector.to_le_bytes());
    c = L::crc32c(L::crc32c(L::crc32c(c, &ext[..2]), &[0, 0]), &ext[4..L::BLOCK - 4]);
    for i in 0..400_000u32 {
        let tail = i.to_le_bytes();
        let f = L::crc32c(c, &tail);
        if ((f >> 16) ^ (f & 0xFFFF)) as u16 == 0 {
            val[n - 4..].copy_from_slice(&tail);
            let check = L::encode_record(3, predicted_sector, key, &val, ts, 0);
            return if L::record_fold_raw(predicted_sector, &check) == 0 { Some(val) } else { None };
        }
    }
    None
}

fn predict_alloc(free: &[(u64, u64)], n: u64) -> u64 {
    let mut best: Option<(u64, u64)> = None;
    for (s, l) in free {
        if *l >= n && best.map_or(true, |(bs, bl)| (*l, *s) < (bl, bs)) {
            best = Some((*s, *l));
        }
    }
    best.map(|b| b.0).unwrap_or(16)
}

pub fn main(args: &[String]) -> i32 {
    let o = Opts::parse(args);
    let seed: u64 = o.num("seed", 1);
    let steps: usize = o.num("steps", 30);
    let blocks: u64 = o.num("blocks", 44);
    let fmt: u32 = o.num("fmt", 3);
    let ttl = o.num("ttl", 1u32) == 1;
    let cache = o.num("cache", 0u32) == 1;
    let cpus: usize = o.num("cpus", 2);
    let nkeys: usize = o.num("keys", 4);
    let max_exh: usize = o.num("maxexh", 6);
    let max_images: usize = o.num("maximages", 2500);
    let end_mode = o.get("end").unwrap_or("drop").to_string();
    let noflush = o.num("noflush", 0u32) == 1;
    let flushpct: u32 = o.num("flushpct", 14);
    let settle_ms: u64 = o.num("settle", 3000);
    // 0: crash images at acknowledgements only; 1: at every device event; 3: as 1, judged only by what
    // the real recovery returned; 4: at acknowledgements and at journal writes (torn journal slots)
    let cc: u32 = o.num("cc", 1u32);
    let fault_at: i64 = o.num("faultat", -1i64);
    let fault_mode: u8 = o.num("faultmode", 1u8);
    let fault_from = o.num("faultfrom", 0u32) == 1;
    // mode 3 only: the outage begins after the first acknowledged flush (there are durable generations to lose)
    let outage_after_flush = o.num("outageafterflush", 0u32) == 1;
    OUTAGE_ARMED.store(false, std::sync::atomic::Ordering::SeqCst);
    let fault_count: i64 = o.num("faultcount", 1i64);
    let nested_max: usize = o.num("nested", 0);
    if o.num("forcesync", 0u32) == 1 {
        feoxdb::verif::force_sync(true);
    }
    if fault_at >= 0 {
        feoxdb::verif::set_fault_fn(Some(Box::new(move |idx, _kind, _sector, _len| {
            let hit = if fault_from { idx as i64 >= fault_at } else { idx as i64 >= fault_at && (idx as i64) < fault_at + fault_count };
            if fault_mode == 3 {
                // determinate outage: every record write of a batch fails, clean-up, journal, marker and
                // metadata writes succeed
                return if idx as i64 >= fault_at && _kind == "write" && _sector >= 16 && obs::in_batch()
                    && (!outage_after_flush || OUTAGE_ARMED.load(std::sync::atomic::Ordering::SeqCst))
                    && !HEALED.load(std::sync::atomic::Ordering::SeqCst) { 1 } else { 0 };
            }
            if hit && !HEALED.load(std::sync::atomic::Ordering::SeqCst) { fault_mode } else { 0 }
        })));
    }
    let dir = o.req("dir").to_string();
    let out_path = o.req("out").to_string();
    std::fs::create_dir_all(&dir).ok();
    obs::set_cpus(cpus);
    crate::util::watchdog::start(o.num("watchdog", 40));
    obs::set_hang_lockout(o.get("lockout"));
    let mut rng = StdRng::seed_from_u64(seed);
    let mut path = format!("{dir}/dev.feox");
    let _ = std::fs::remove_file(&path);
    if fmt < 3 {
        crate::seqdrv::create_legacy_device(&path, fmt, blocks);
    }
    let mut now: u64 = 1_000 * E9;
    feoxdb::verif::set_now(now);
    let mut keys: Vec<Vec<u8>> = (1..=nkeys).map(|i| format!("k{i}").into_bytes()).collect();
    if o.num("longkeys", 0u32) == 1 {
        // the longest key a persistent store of this format can recover, and a medium one
        keys[0] = vec![b'L'; if fmt == 1 { 4074 } else { 4066 }];
        if nkeys > 2 { keys[1] = vec![b'm'; 300]; }
        // a length inside the window that only the OTHER header size can recover (v1: 4067..=4074; v2/v3 refuse
        // it, v1 accepts it), and on v1 one beyond its own maximum: each format's bound is tried on every format
        if nkeys > 3 { keys[2] = vec![b'W'; if fmt == 1 { 4075 } else { 4067 + (seed % 8) as usize }]; }
    }
    let mut nows: Vec<(u64, u64)> = Vec::new(); // (seq position marker via api event index, now)
    obs::install();
    feoxdb::verif::reset_io_calls();
    let mut store = match build(&path, blocks, ttl, cache) {
        Ok(s) => s,
        Err(e) if fault_at >= 0 => {
            // the injected failure hit the start-up writes: the open reports it; once the device
            // works again the same file must open
            obs::api("open_failed", &[], 0, 0, 0);
            HEALED.store(true, std::sync::atomic::Ordering::SeqCst);
            match build(&path, blocks, ttl, cache) {
                Ok(s) => s,
                Err(e2) => {
                    eprintln!("build failed after heal: {e:?} then {e2:?}");
                    return 2;
                }
            }
        }
        Err(e) => {
            eprintln!("build failed: {e:?}");
            return 2;
        }
    };
    let mut calls: Vec<CallInfo> = Vec::new();
    let mut flushes: Vec<FlushInfo> = Vec::new();
    let mut cur_val: HashMap<usize, Vec<u8>> = HashMap::new();
    let sizes = [20usize, 300, 3000, 4000, 4100, 7000, 8300];
    let edge_pct: u32 = o.num("edges", 25u32);
    // `--exact 1`: the boundary sizes are those of THIS format's header, mostly the exact fit
    let exact_own = o.num("exact", 0u32) == 1;
    let huge_pct: u32 = o.num("huge", 0u32);
    let readcheck = o.num("readcheck", 0u32) == 1;
    let trickle_ms: u64 = o.num("trickle", 0u64);
    // threads (application and background alike) are held for a while at scheduling points now and then: a
    // paused VM, a debugger, CPU starvation.  The store has to pick up where it left off.
    let stall_mask: u64 = o.num("stallmask", 0u64);
    if stall_mask > 0 {
        feoxdb::verif::sched::set_random_stall(stall_mask, o.num("stallus", 250_000u64));
    }
    let foldzero_pct: u32 = o.num("foldzero", 4u32);
    let wide: usize = o.num("wide", 0);
    let wide_every: usize = o.num("wideevery", 12usize).max(2);
    let wide_first = o.num("widefirst", 0u32) == 1;
    // backlog of untracked filler records (keys outside the universe of the trace): more than one
    // allocation-journal batch (1024 entries) queued in front of the tracked writes
    let fillers: usize = o.num("fillers", 0);
    for i in 0..fillers {
        let _ = store.insert(format!("zf{i:05}").as_bytes(), format!("filler-{i}").as_bytes());
    }
    // buffer-filling burst: more than WRITE_BUFFER_SIZE entries into one shard
    let burst: usize = o.num("burst", 0);
    if burst > 0 {
        let key = keys[0].clone();
        let mut last = Vec::new();
        let first_idx = calls.len() as u64;
        obs::api("api_call", &key, first_idx, 0, 0);
        for i in 0..burst {
            last = format!("burst-{i}").into_bytes();
            let _ = store.insert(&key, &last);
        }
        let r = store.verif_record(&key).expect("burst record");
        cur_val.insert(1, last.clone());
        calls.push(CallInfo { kid: 1, key: key.clone(), gen: Some((r.timestamp, r.ttl_expiry, last)), deleted: false });
        obs::api("api_ret", &key, first_idx, 0, 0);
    }
    // --idlefirst: the open store sits idle (no call, nothing queued) for a while before the first write: whatever
    // the background threads do to save work while there is none, the write-behind bound holds for what comes next
    let idle_first: u64 = o.num("idlefirst", 0u64);
    if idle_first > 0 {
        let t0 = std::time::Instant::now();
        while (t0.elapsed().as_millis() as u64) < idle_first {
            crate::util::watchdog::beat("idle before the first write");
            std::thread::sleep(std::time::Duration::from_millis(100));
        }
    }
    let sessions: usize = o.num("sessions", 1);
    let futurepct: u32 = o.num("futurepct", 0);
    let bytes_pct: u32 = o.num("bytespct", 40u32).min(100);
    let mut prev_raw: Vec<RawEv> = Vec::new();
    let mut restart_reports: Vec<Value> = Vec::new();
    for session in 0..sessions {
    for step in 0..steps {
        crate::util::watchdog::beat(&format!("crash workload step {step}"));
        if trickle_ms > 0 && step > 0 {
            // one call per coordinator period: every write sits alone in its shard when the tick comes
            std::thread::sleep(std::time::Duration::from_millis(trickle_ms));
        }
        // --widefirst: the wide batch is the FIRST thing every session writes (the first allocation-journal image after
        // an open is a multi-sector one: which slot it goes to, and what the other slot still holds, matters when it tears)
        if wide > 0 && (step % wide_every == wide_every / 2 || (wide_first && step == 0)) {
            // one batch with many records (allocation journal longer than one 512-byte sector),
            // then an acknowledged flush
            for round in 0..2 {
            for j in 0..wide.min(keys.len()) {
                let ki = (j + step + round) % keys.len();
                let (key, kid) = (keys[ki].clone(), ki + 1);
                let call_idx = calls.len() as u64;
                let val = vec![b'A' + ((step + j) % 26) as u8; 24 + (j % 7) * 40];
                obs::api("api_call", &key, call_idx, 0, 0);
                let res = store.insert_with_timestamp(&key, &val, None);
                if matches!(res, Err(feoxdb::FeoxError::OlderTimestamp)) { obs::api("autorej", &key, kid as u64, 0, 0); }
                calls.push(match res {
                    Ok(_) => {
                        let r = store.verif_record(&key).expect("record after insert");
                        cur_val.insert(kid, val.clone());
                        CallInfo { kid, key: key.clone(), gen: Some((r.timestamp, r.ttl_expiry, val)), deleted: false }
                    }
                    Err(_) => CallInfo { kid, key: key.clone(), gen: None, deleted: false },
                });
                obs::api("api_ret", &key, call_idx, 0, 0);
            }
            if !noflush {
                let id = flushes.len() as u64;
                obs::api("flush_begin", &[], id, 0, 0);
                let res = store.flush();
                flushes.push(FlushInfo { ok: res.is_ok(), snap: snapshot(&store, &keys) });
                obs::api("flush_end", &[], id, res.is_ok() as u64, 0);
            }
            }
        }
        let ki = rng.random_range(0..keys.len());
        let key = keys[ki].clone();
        let kid = ki + 1;
        let hugemax = o.num("hugemax", 0u32) == 1;
        // --hugemax: every third step is a put (of the largest sizes), the step after it a flush
        let r = if hugemax && step % 3 == 0 { 0 } else if hugemax && step % 3 == 1 { 74 } else { rng.random_range(0..100) };
        // --hugepair: a cycle over three neighbouring extents of about 100, 200 and 257..336 blocks: all acknowledged, the
        // middle one deleted (acknowledged), the large one replaced twice - its old extent and the deleted neighbour merge into
        // one long free run headed by the neighbour's retirement marker, and the next large record goes into that run: where
        // in the run it is placed decides whether stale markers stay in front of it
        let hugepair = o.num("hugepair", 0u32) == 1 && keys.len() >= 3;
        let (ki, r) = if hugepair {
            match step % 9 { 0 => (0, 0), 1 => (1, 0), 2 => (2, 0), 4 => (1, 50), 6 => (2, 0), 8 => (2, 0), _ => (ki, 74) }
        } else { (ki, r) };
        let (key, kid) = if hugepair { (keys[ki].clone(), ki + 1) } else { (key, kid) };
        let call_idx = calls.len() as u64;
        if r < 45 {
            // put (plain, TTL, explicit lower/higher timestamp, ghost-embedding value)
            // on a v1 device (no expiry field) every TTL write must be refused: tried now and then
            let use_ttl = ttl && rng.random_range(0..4) == 0;
            let mut val: Vec<u8> = {
                let mut n = sizes[rng.random_range(0..sizes.len())];
                if huge_pct > 0 && rng.random_range(0..100) < huge_pct {
                    // an extent longer than the 256 blocks the retirement markers are written in at a time
                    n = (257 + rng.random_range(0..80usize)) * 4096 - rng.random_range(0..5000usize);
                    // --hugemax: the largest value the API accepts, exactly, and its neighbours (the write side and the
                    // recovery side each have their own comparison with MAX_VALUE_SIZE)
                    if hugemax && step % 3 == 0 {
                        n = 4 * 1024 * 1024 - [0usize, 1, 0, 2][(step / 3) % 4];
                    }
                }
                if hugepair && step % 9 < 2 {
                    n = [100usize, 200][step % 9] * 4096 - 300 - rng.random_range(0..3000usize);
                }
                if edge_pct > 0 && rng.random_range(0..100) < edge_pct && key.len() < 1000 {
                    // record sizes at a block boundary, for the header of this AND of the other formats
                    // (v1: 22 bytes + key, v2/v3: 30 bytes + key): exact fit, one short, one over
                    let own = if fmt == 1 { 22usize } else { 30 };
                    let header = if exact_own { own } else { [22usize, 30][rng.random_range(0..2)] } + key.len();
                    let k = rng.random_range(1..4usize);
                    let d = if exact_own { [0i64, 0, 0, 0, -1, 1][rng.random_range(0..6)] } else { [-9i64, -8, -7, -1, 0, 0, 1][rng.random_range(0..7)] };
                    n = ((k * 4096) as i64 + d - header as i64).max(1) as usize;
                }
                let mut v = vec![b'a' + (step % 26) as u8; n];
                v[0] = (step % 251) as u8;
                if n > 8 { v[1] = kid as u8; v[2] = (step / 251) as u8; }
                v
            };
            if !hugepair && rng.random_range(0..6) == 0 && key.len() < 1000 {
                let free = store.verif_free_runs();
                let at = predict_alloc(&free, 2);
                let as_marker = rng.random_bool(0.3);
                val = ghost_value(&mut rng, fmt, &key, at, as_marker);
            }
            let mut ts_choice = match rng.random_range(0..8) {
                0 => Some(rng.random_range(5..40)),
                1 => Some(now + rng.random_range(1..3) * E9),
                _ => None,
            };
            if futurepct > 0 && rng.random_range(0..100) < futurepct {
                // C12: explicit versions ahead of the wall clock, so that recovery alone can know them
                ts_choice = Some(now + rng.random_range(1..30) * E9 + step as u64);
            }
            if fmt == 3 && key.len() < 100 && foldzero_pct > 0 && rng.random_range(0..100) < foldzero_pct {
                let ts = now + 4 * E9 + step as u64;
                let at = predict_alloc(&store.verif_free_runs(), 1);
                if let Some(v) = fold_zero_value(&key, at, ts) {
                    val = v;
                    ts_choice = Some(ts);
                }
            }
            obs::api("api_call", &key, call_idx, 0, 0);
            let as_bytes = rng.random_bool(if bytes_pct != 40 { bytes_pct as f64 / 100.0 } else if fmt == 1 && use_ttl { 0.5 } else { 0.4 });
            if fmt == 1 && use_ttl && rng.random_bool(0.5) { ts_choice = None; }
            let short = ts_choice.is_none() && rng.random_bool(0.5);
            let res = match (use_ttl, as_bytes) {
                (true, false) if short => store.insert_with_ttl(&key, &val, rng.random_range(1..3)),
                (true, true) if short => store.insert_bytes_with_ttl(&key, bytes::Bytes::from(val.clone()), rng.random_range(1..3)),
                (true, false) => store.insert_with_ttl_and_timestamp(&key, &val, rng.random_range(1..3), ts_choice),
                (true, true) => store.insert_bytes_with_ttl_and_timestamp(&key, bytes::Bytes::from(val.clone()), rng.random_range(1..3), ts_choice),
                (false, true) => store.insert_bytes_with_timestamp(&key, bytes::Bytes::from(val.clone()), ts_choice),
                (false, false) => store.insert_with_timestamp(&key, &val, ts_choice),
            };
            if ts_choice.is_none() && matches!(res, Err(feoxdb::FeoxError::OlderTimestamp)) {
                // C12: an automatically versioned write is never rejected as older
                obs::api("autorej", &key, kid as u64, 0, 0);
            }
            let info = match res {
                Ok(_) => {
                    let r = store.verif_record(&key).expect("record after insert");
                    cur_val.insert(kid, val.clone());
                    CallInfo { kid, key: key.clone(), gen: Some((r.timestamp, r.ttl_expiry, val)), deleted: false }
                }
                Err(_) => CallInfo { kid, key: key.clone(), gen: None, deleted: false },
            };
            calls.push(info);
            obs::api("api_ret", &key, call_idx, 0, 0);
        } else if r < 60 {
            obs::api("api_call", &key, call_idx, 0, 0);
            let res = store.delete(&key);
            let ok = res.is_ok();
            if ok { cur_val.remove(&kid); }
            calls.push(CallInfo { kid, key: key.clone(), gen: None, deleted: ok });
            obs::api("api_ret", &key, call_idx, 0, 0);
        } else if r < 68 && ttl && fmt >= 2 {
            // TTL-only update: the new generation borrows the (possibly offloaded) value
            obs::api("api_call", &key, call_idx, 0, 0);
            let res = store.update_ttl(&key, rng.random_range(0..3));
            let info = match (res, cur_val.get(&kid)) {
                (Ok(()), Some(v)) => {
                    let r = store.verif_record(&key).expect("record after update_ttl");
                    CallInfo { kid, key: key.clone(), gen: Some((r.timestamp, r.ttl_expiry, v.clone())), deleted: false }
                }
                _ => CallInfo { kid, key: key.clone(), gen: None, deleted: false },
            };
            calls.push(info);
            obs::api("api_ret", &key, call_idx, 0, 0);
        } else if r < 74 {
            obs::api("api_call", &key, call_idx, 0, 0);
            let res = store.atomic_increment(&key, 3);
            let info = match res {
                Ok(n) => {
                    let r = store.verif_record(&key).expect("record after incr");
                    let v = n.to_le_bytes().to_vec();
                    cur_val.insert(kid, v.clone());
                    CallInfo { kid, key: key.clone(), gen: Some((r.timestamp, r.ttl_expiry, v)), deleted: false }
                }
                Err(_) => {
                    // an expired counter may have been lazily retired on the way to the error
                    if store.verif_record(&key).is_none() && cur_val.contains_key(&kid) {
                        cur_val.remove(&kid);
                        CallInfo { kid, key: key.clone(), gen: None, deleted: true }
                    } else {
                        CallInfo { kid, key: key.clone(), gen: None, deleted: false }
                    }
                }
            };
            calls.push(info);
            obs::api("api_ret", &key, call_idx, 0, 0);
        } else if r < 74 + flushpct {
            if noflush { continue; }
            let id = flushes.len() as u64;
            obs::api("flush_begin", &[], id, 0, 0);
            let res = store.flush();
            flushes.push(FlushInfo { ok: res.is_ok(), snap: snapshot(&store, &keys) });
            obs::api("flush_end", &[], id, res.is_ok() as u64, 0);
            if res.is_ok() && outage_after_flush && !cur_val.is_empty() { OUTAGE_ARMED.store(true, std::sync::atomic::Ordering::SeqCst); }
            if fault_at >= 0 || readcheck {
                // C09: reads keep returning the latest accepted values from memory
                // (C08, --readcheck: on a device that runs full, offloaded and deferred values too)
                let mut bad = 0u64;
                for (i, k) in keys.iter().enumerate() {
                    match (store.get(k), cur_val.get(&(i + 1))) {
                        (Ok(v), Some(w)) if v == *w => {}
                        (Err(feoxdb::FeoxError::KeyNotFound), None) => {}
                        // a TTL key may have expired meanwhile
                        (Err(feoxdb::FeoxError::KeyNotFound), Some(_)) if store.verif_record(k).map_or(true, |r| r.ttl_expiry != 0) => {}
                        _ => bad += 1,
                    }
                }
                obs::api("reads", &[], bad, 0, 0);
            }
        } else if r < 74 + flushpct + 6 {
            // let the periodic coordinator run
            std::thread::sleep(std::time::Duration::from_millis(130));
        } else {
            now += rng.random_range(1..4) * (E9 / 2) + 1;
            feoxdb::verif::set_now(now);
            nows.push((0, now));
            obs::api("vtick", &[], now, 0, 0);
        }
    }
    // --cleanrestart: every second restart happens on a quiescent device (an acknowledged flush, then the process is
    // killed): the recovery that follows has nothing to repair, so the first thing written after the open is the next
    // session's own first batch
    let clean_restart = o.num("cleanrestart", 0u32) == 1 && session % 2 == 0;
    if session + 1 < sessions && clean_restart {
        // the last thing the device sees before it goes quiet is a batch of FRESH records (their keys were deleted and
        // the deletions retired first): the allocation-journal slot that is not the newest keeps that batch's intent,
        // which lists live records
        let victims: Vec<usize> = (0..keys.len()).filter(|i| cur_val.contains_key(&(i + 1)) && keys[*i].len() < 100).take(3).collect();
        for round in 0..2 {
            for &ki in &victims {
                let (key, kid) = (keys[ki].clone(), ki + 1);
                let call_idx = calls.len() as u64;
                obs::api("api_call", &key, call_idx, 0, 0);
                if round == 0 {
                    let ok = store.delete(&key).is_ok();
                    if ok { cur_val.remove(&kid); }
                    calls.push(CallInfo { kid, key: key.clone(), gen: None, deleted: ok });
                } else {
                    let val = vec![b'v'; 40 + ki];
                    calls.push(match store.insert(&key, &val) {
                        Ok(_) => {
                            let r = store.verif_record(&key).expect("record after insert");
                            cur_val.insert(kid, val.clone());
                            CallInfo { kid, key: key.clone(), gen: Some((r.timestamp, r.ttl_expiry, val)), deleted: false }
                        }
                        Err(_) => CallInfo { kid, key: key.clone(), gen: None, deleted: false },
                    });
                }
                obs::api("api_ret", &key, call_idx, 0, 0);
            }
            let id = flushes.len() as u64;
            obs::api("flush_begin", &[], id, 0, 0);
            let res = store.flush();
            flushes.push(FlushInfo { ok: res.is_ok(), snap: snapshot(&store, &keys) });
            obs::api("flush_end", &[], id, res.is_ok() as u64, 0);
        }
        let id = flushes.len() as u64;
        obs::api("flush_begin", &[], id, 0, 0);
        let res = store.flush();
        flushes.push(FlushInfo { ok: res.is_ok(), snap: snapshot(&store, &keys) });
        obs::api("flush_end", &[], id, res.is_ok() as u64, 0);
    }
    if session + 1 < sessions {
        // ---- crash and restart: the process "dies" at a random device event of this session, some
        // subset of the un-synced blocks reaches the platter, and the next session recovers that image
        obs::uninstall();
        let mut raw1 = obs::take();
        drop(store);                       // (unobserved; the old file is abandoned)
        let dev_idx: Vec<usize> = raw1.iter().enumerate().filter(|(_, e)| e.kind == "w" || e.kind == "fsync").map(|(i, _)| i).collect();
        // crash points of particular interest: right after a journal write became durable (the
        // intent of a batch / retirement, or its clear: data durable but old generations not yet retired)
        let mut jpoints: Vec<usize> = Vec::new();
        for w in dev_idx.windows(2) {
            let (a, b) = (&raw1[w[0]], &raw1[w[1]]);
            if a.kind == "w" && (a.a == 1 || a.a == 4) && b.kind == "fsync" && w[1] > raw1.len() / 4 { jpoints.push(w[1]); }
        }
        let cut = if dev_idx.is_empty() || clean_restart { raw1.len() }
            else if !jpoints.is_empty() && rng.random_bool(0.6) { jpoints[rng.random_range(0..jpoints.len())] + 1 }
            else { dev_idx[dev_idx.len() * 2 / 3 + rng.random_range(0..(dev_idx.len() - dev_idx.len() * 2 / 3))] + 1 };
        raw1.truncate(cut);
        let mut all = prev_raw.clone();
        all.extend(raw1.iter().cloned());
        let mut dev = ConcreteDev::new((blocks as usize) * L::BLOCK);
        if fmt < 3 {
            let meta = L::encode_meta(fmt, 0, 0, 0, blocks * 4096);
            dev.durable[..4096].copy_from_slice(&meta);
        }
        for e in &all {
            match e.kind {
                "w" => dev.write(e.a, &e.data),
                "fsync" => dev.fsync(),
                "crash" => {
                    let units: Vec<(usize, usize)> = serde_json::from_slice::<Vec<(usize, usize)>>(&e.data).unwrap_or_default();
                    dev.durable = dev.image(&units);
                    dev.pending.clear();
                }
                _ => {}
            }
        }
        let units = dev.units();
        let chosen: Vec<(usize, usize)> = match rng.random_range(0..3) {
            0 => Vec::new(),
            1 => units.clone(),
            _ => units.iter().copied().filter(|_| rng.random_bool(0.5)).collect(),
        };
        let img = dev.image(&chosen);
        path = format!("{dir}/dev_s{}.feox", session + 1);
        std::fs::write(&path, &img).expect("write restart image");
        raw1.push(RawEv { seq: 0, tid: 0, kind: "crash", key: Vec::new(), a: 0, b: 0, c: 0, data: serde_json::to_vec(&chosen).unwrap() });
        prev_raw.extend(raw1);
        if ttl && rng.random_range(0..100) < o.num("closedpct", 50u32) {
            // the store stays closed for a while: records with a TTL expire before it is reopened
            now += 5 * E9;
            feoxdb::verif::set_now(now);
        }
        prev_raw.push(RawEv { seq: 0, tid: 0, kind: "vtick", key: Vec::new(), a: now, b: 0, c: 0, data: Vec::new() });
        obs::install();
        store = match build(&path, blocks, ttl, cache) {
            Ok(s) => s,
            Err(e) => {
                // the crash image cannot be reopened: the trace up to here shows it (CrashOpens)
                eprintln!("restart failed: {e:?}");
                obs::uninstall();
                let raw: Vec<RawEv> = prev_raw.clone();
                let code = emit_trace(&o, &raw, &calls, &flushes, &keys, fmt, ttl, blocks, &dir, &out_path, max_exh, max_images, 1_000 * E9, cc, nested_max, &restart_reports);
                return code;
            }
        };
        cur_val.clear();
        for (i, k) in keys.iter().enumerate() {
            if let Ok(v) = store.get(k) { cur_val.insert(i + 1, v); }
        }
        restart_reports.push(store_report(&store, &keys));
        obs::api("restarted", &[], restart_reports.len() as u64 - 1, now, 0);
        if rng.random_bool(0.6) && !wide_first {
            // acknowledged deletes right after a restart: anything stale that recovery left on the
            // device would come back after the next crash
            for (i, k) in keys.iter().enumerate() {
                if rng.random_bool(0.7) {
                    let call_idx = calls.len() as u64;
                    obs::api("api_call", k, call_idx, 0, 0);
                    let ok = store.delete(k).is_ok();
                    if ok { cur_val.remove(&(i + 1)); }
                    calls.push(CallInfo { kid: i + 1, key: k.clone(), gen: None, deleted: ok });
                    obs::api("api_ret", k, call_idx, 0, 0);
                }
            }
            let id = flushes.len() as u64;
            obs::api("flush_begin", &[], id, 0, 0);
            let res = store.flush();
            flushes.push(FlushInfo { ok: res.is_ok(), snap: snapshot(&store, &keys) });
            obs::api("flush_end", &[], id, res.is_ok() as u64, 0);
        }
    }
    }
    if o.num("squeeze", 0u32) == 1 && keys.len() >= 11 {
        // C19: the device runs full in the background, later writes fail to be allocated, then deletes
        // make room: the waiting writes must reach the device without any further call
        let nfill = keys.len() - 3;
        let mut put = |ki: usize, tag: u8, calls: &mut Vec<CallInfo>, cur_val: &mut HashMap<usize, Vec<u8>>| {
            let (key, kid) = (keys[ki].clone(), ki + 1);
            let call_idx = calls.len() as u64;
            let val = vec![tag; 100 + ki];
            obs::api("api_call", &key, call_idx, 0, 0);
            let res = store.insert_with_timestamp(&key, &val, None);
            calls.push(match res {
                Ok(_) => {
                    let r = store.verif_record(&key).expect("record after insert");
                    cur_val.insert(kid, val.clone());
                    CallInfo { kid, key: key.clone(), gen: Some((r.timestamp, r.ttl_expiry, val)), deleted: false }
                }
                Err(_) => CallInfo { kid, key: key.clone(), gen: None, deleted: false },
            });
            obs::api("api_ret", &key, call_idx, 0, 0);
        };
        for ki in 0..nfill { put(ki, b'F', &mut calls, &mut cur_val); }
        std::thread::sleep(std::time::Duration::from_millis(600));
        crate::util::watchdog::beat("squeeze: late writes");
        for ki in nfill..keys.len() { put(ki, b'L', &mut calls, &mut cur_val); }
        std::thread::sleep(std::time::Duration::from_millis(450));
        for ki in 0..3 {
            let (key, kid) = (keys[ki].clone(), ki + 1);
            let call_idx = calls.len() as u64;
            obs::api("api_call", &key, call_idx, 0, 0);
            let ok = store.delete(&key).is_ok();
            if ok { cur_val.remove(&kid); }
            calls.push(CallInfo { kid, key: key.clone(), gen: None, deleted: ok });
            obs::api("api_ret", &key, call_idx, 0, 0);
        }
    }
    if noflush {
        // C19: no explicit flush; everything acknowledged `settle` ms ago must be durable
        for _ in 0..(settle_ms / 200).max(1) {
            crate::util::watchdog::beat("settling");
            std::thread::sleep(std::time::Duration::from_millis(200));
        }
        let id = flushes.len() as u64;
        flushes.push(FlushInfo { ok: true, snap: snapshot(&store, &keys) });
        obs::api("settled", &[], id, 0, 0);
    }
    let mut heal: Option<Value> = None;
    if fault_at >= 0 && o.num("noheal", 0u32) == 0 {
        // C09: once the device works again a flush succeeds - or, after an indeterminate
        // failure, once the file is reopened (the poison is process wide: a child reopens)
        HEALED.store(true, std::sync::atomic::Ordering::SeqCst);
        let id = flushes.len() as u64;
        obs::api("flush_begin", &[], id, 0, 0);
        let res = store.flush();
        flushes.push(FlushInfo { ok: res.is_ok(), snap: snapshot(&store, &keys) });
        obs::api("flush_end", &[], id, res.is_ok() as u64, 0);
        let io_total = feoxdb::verif::io_calls();
        heal = Some(match &res {
            Ok(()) => json!({"e": "heal", "ok": true, "how": "flush", "io_calls": io_total, "mode": fault_mode}),
            Err(feoxdb::FeoxError::IndeterminateWrite(_)) => json!({"e": "heal", "ok": true, "how": "needs-reopen", "io_calls": io_total, "mode": fault_mode}),
            Err(e) => json!({"e": "heal", "ok": false, "how": format!("flush on a healthy device failed: {e:?}"), "io_calls": io_total, "mode": fault_mode}),
        });
    }
    let mut refill_res: Option<Value> = None;
    if o.num("refill", 0u32) == 1 {
        obs::api("abandon", &[], 0, 0, 0);
        obs::uninstall();
        refill_res = Some(do_refill(&store, &keys, blocks));
    }
    match end_mode.as_str() {
        "drop" => {
            drop(store);
        }
        _ => {
            obs::api("abandon", &[], 0, 0, 0);
            std::mem::forget(store);
        }
    }
    obs::uninstall();
    let mut raw = prev_raw;
    raw.extend(obs::take());
    if let Some(lp) = o.get("lockout") {
        // C18: lock-ownership events per thread, for the lock-order model
        use std::io::Write as _;
        let mut f = std::io::BufWriter::new(std::fs::File::create(lp).expect("lockout"));
        for e in &raw {
            if e.kind == "lk" {
                writeln!(f, "{}", json!({"tid": e.tid, "lock": String::from_utf8_lossy(&e.key), "acq": e.a, "mode": e.b})).unwrap();
            }
        }
    }
    let total_blocks = blocks;
    let io_calls = feoxdb::verif::io_calls();
    let code = emit_trace(&o, &raw, &calls, &flushes, &keys, fmt, ttl, total_blocks, &dir, &out_path, max_exh, max_images, 1_000 * E9, cc, nested_max, &restart_reports);
    println!("{}", json!({"io_calls": io_calls}));
    if let Some(h) = heal {
        use std::io::Write as _;
        let mut f = std::fs::OpenOptions::new().append(true).open(&out_path).expect("append");
        writeln!(f, "{}", h).unwrap();
    }
    if let Some(r) = refill_res {
        use std::io::Write as _;
        let mut f = std::fs::OpenOptions::new().append(true).open(&out_path).expect("append");
        writeln!(f, "{}", r).unwrap();
    }
    let _ = std::fs::remove_file(&path);
    code
}

/// C05: a device emptied by deletes accepts again everything a fresh one does.
fn do_refill(store: &FeoxStore, keys: &[Vec<u8>], blocks: u64) -> Value {
    for k in keys {
        let _ = store.delete(k);
    }
    if let Err(e) = store.flush() {
        return json!({"e": "refill", "ok": false, "why": format!("flush after deletes failed: {e:?}")});
    }
    let data = blocks - 16;
    let (total, largest, chunks) = store.verif_free_stats();
    if total != data * 4096 || largest != data * 4096 || chunks != 1 {
        return json!({"e": "refill", "ok": false, "why": "space not fully returned to the free pool",
                      "free_blocks": total / 4096, "largest": largest / 4096, "chunks": chunks, "data_blocks": data,
                      "free_runs": store.verif_free_runs()});
    }
    let mut written: Vec<(Vec<u8>, Vec<u8>)> = Vec::new();
    let mut left = data;
    let mut i = 0;
    while left > 0 {
        let n = if left >= 2 { 2 } else { 1 };
        let key = format!("rf{i}").into_bytes();
        let val = vec![b'r' ^ (i as u8); if n == 2 { 5000 } else { 1000 }];
        if let Err(e) = store.insert(&key, &val) {
            return json!({"e": "refill", "ok": false, "why": format!("insert {i} refused: {e:?}")});
        }
        written.push((key, val));
        left -= n;
        i += 1;
    }
    if let Err(e) = store.flush() {
        return json!({"e": "refill", "ok": false, "why": format!("flush of the refill failed: {e:?}"), "records": written.len()});
    }
    for (k, v) in &written {
        match store.get(k) {
            Ok(got) if got == *v => {}
            other => return json!({"e": "refill", "ok": false, "why": format!("read back of {:?} differs: {:?}", String::from_utf8_lossy(k), other.map(|x| x.len()))}),
        }
    }
    let (total, _, _) = store.verif_free_stats();
    json!({"e": "refill", "ok": total == 0, "why": if total == 0 { "" } else { "free space left after an exact refill" }, "records": written.len(), "data_blocks": data})
}

struct Cut {
    at_event: usize, // index in `events` after which the rec events are spliced
    now: u64,
    units: Vec<(usize, usize)>,
    torn: Vec<(usize, usize)>,
    img: String,
}

#[allow(clippy::too_many_arguments)]
fn emit_trace(
    o: &Opts,
    raw: &[RawEv],
    calls: &[CallInfo],
    flushes: &[FlushInfo],
    keys: &[Vec<u8>],
    fmt: u32,
    ttl: bool,
    total_blocks: u64,
    dir: &str,
    out_path: &str,
    max_exh: usize,
    max_images: usize,
    start_now: u64,
    cc_mode: u32,
    nested_max: usize,
    restart_reports: &[Value],
) -> i32 {
    // ---- time ranks
    let mut times: BTreeSet<u64> = BTreeSet::new();
    times.insert(start_now);
    for c in calls {
        if let Some((ts, exp, _)) = &c.gen {
            times.insert(*ts);
            if *exp != 0 { times.insert(*exp); }
        }
    }
    for e in raw {
        if e.kind == "vtick" { times.insert(e.a); }
    }
    let rank: HashMap<u64, usize> = times.iter().enumerate().map(|(i, t)| (*t, i + 1)).collect();
    let rk = |t: u64| -> usize { if t == 0 { 0 } else { *rank.get(&t).unwrap_or(&0) } };

    let cc = cc_mode == 1 || cc_mode == 3;
    let mut gens = GenTable::default();
    let mut call_gid: Vec<i64> = vec![-1; calls.len()]; // -1 no change, 0 delete, >0 gen id
    let mut events: Vec<Value> = Vec::new();
    events.push(json!({"e": "init", "ds": 16, "de": total_blocks, "fmt": fmt, "ttl": ttl, "nk": keys.len(),
                        "now": rk(start_now), "cc": cc_mode}));
    let mut dev = ConcreteDev::new((total_blocks as usize) * L::BLOCK);
    if fmt < 3 {
        // the legacy device was created by the harness before the store opened it
        let meta = L::encode_meta(fmt, 0, 0, 0, total_blocks * 4096);
        dev.durable[..4096].copy_from_slice(&meta);
        events.push(json!({"e": "w", "w": absdev::classify_write(0, &meta, fmt, total_blocks, &gens)}));
        events.push(json!({"e": "fsync"}));
    }
    let mut now = start_now;
    let mut flush_pos: HashMap<u64, u64> = HashMap::new();
    let mut drops: u64 = 0;
    let mut cuts: Vec<Cut> = Vec::new();
    let mut nimg = 0usize;
    let mut stats_pending_max = 0usize;
    for e in raw {
        match e.kind {
            "api_call" => {
                let c = &calls[e.a as usize];
                if let Some((ts, exp, val)) = &c.gen {
                    let known = gens.gens.len();
                    let g = gens.add(c.kid, &c.key, *ts, *exp, val, fmt);
                    call_gid[e.a as usize] = g as i64;
                    let gi = &gens.gens[g - 1];
                    if g > known {
                        events.push(json!({"e": "gen", "g": g, "k": c.kid, "ts": rk(*ts), "exp": rk(*exp), "n": gi.blocks}));
                    }
                    events.push(json!({"e": "call", "k": c.kid, "g": g}));
                } else if c.deleted {
                    call_gid[e.a as usize] = 0;
                    events.push(json!({"e": "call", "k": c.kid, "g": 0}));
                }
            }
            "api_ret" => {
                if call_gid[e.a as usize] >= 0 {
                    events.push(json!({"e": "ret", "k": calls[e.a as usize].kid}));
                }
            }
            "flush_begin" => {
                flush_pos.insert(e.a, flush_pos.len() as u64 + drops);
                events.push(json!({"e": "flush_begin", "id": flush_pos[&e.a]}));
            }
            "flush_end" | "settled" => {
                let f = &flushes[e.a as usize];
                let mut snap = f.snap.clone();
                // map snapshot records to generation ids
                let recs: Vec<Value> = snap["recs"].as_array().unwrap().iter().map(|r| {
                    let kid = r["k"].as_u64().unwrap() as usize;
                    let key = if kid > 0 { keys[kid - 1].clone() } else { Vec::new() };
                    let ts = r["ts"].as_u64().unwrap();
                    let exp = r["exp"].as_u64().unwrap();
                    let mut g = 0;
                    for gi in gens.gens.iter().rev() {
                        if gi.key == key && gi.ts == ts && gi.exp == exp { g = gi.id; break; }
                    }
                    let n = (L::encode_record(fmt, 16, &key, &vec![0u8; r["vlen"].as_u64().unwrap() as usize], ts, exp).len() / L::BLOCK) as u64;
                    json!({"k": kid, "g": g, "at": r["at"], "n": n, "resident": r["resident"]})
                }).collect();
                snap["recs"] = json!(recs);
                events.push(json!({"e": e.kind, "id": flush_pos.get(&e.a).copied().unwrap_or(0), "ok": f.ok, "snap": snap}));
            }
            "reads" => events.push(json!({"e": "reads", "bad": e.a})),
            "autorej" => events.push(json!({"e": "autorej", "k": e.a})),
            "fault" => events.push(json!({"e": "fault", "io": e.a, "mode": e.b})),
            "vtick" => {
                now = e.a;
                events.push(json!({"e": "tick", "now": rk(now)}));
            }
            "drop_begin" => {
                drops += 1;
                events.push(json!({"e": "drop_begin"}));
            }
            "final_flush_fail" => events.push(json!({"e": "final_flush_fail", "which": e.b})),
            "drop_end" => events.push(json!({"e": "drop_end"})),
            "abandon" => events.push(json!({"e": "abandon"})),
            "restarted" => {
                // what the restarted store exposes: judged like any real recovery, then adopted as
                // the current state of every key
                let c = Cut { at_event: 0, now: e.b, units: Vec::new(), torn: Vec::new(), img: String::new() };
                let ev = rec_event(&c, &restart_reports[e.a as usize], keys, &gens, &rk);
                let kv = ev["res"]["kv"].clone();
                events.push(ev);
                events.push(json!({"e": "adopt", "kv": kv}));
            }
            "crash" => {
                let units: Vec<(usize, usize)> = serde_json::from_slice::<Vec<(usize, usize)>>(&e.data).unwrap_or_default();
                dev.durable = dev.image(&units);
                dev.pending.clear();
                events.push(json!({"e": "crash", "units": units.iter().map(|(a, b)| vec![*a, *b]).collect::<Vec<_>>()}));
            }
            "w" => {
                dev.write(e.a, &e.data);
                let mut w = absdev::classify_write(e.a, &e.data, fmt, total_blocks, &gens);
                if w["kind"] == "d" { w["tear"] = json!(dev.last_tear_flags()); }
                events.push(json!({"e": "w", "w": w}));
            }
            "fsync" => {
                dev.fsync();
                events.push(json!({"e": "fsync"}));
            }
            _ => continue,
        }
        let journal_write = e.kind == "w" && e.a >= L::JOURNAL_START as u64 && e.a < L::META_BACKUP as u64;
        if (cc && (e.kind == "w" || e.kind == "fsync")) || e.kind == "settled" || (!cc && e.kind == "flush_end")
            || (cc_mode == 4 && journal_write) {
            let units = dev.units();
            stats_pending_max = stats_pending_max.max(units.len());
            let subs = absdev::subsets(&units, max_exh);
            for s in subs {
                if nimg >= max_images { break; }
                // the full set right after an fsync equals the empty set of the next state
                if e.kind == "w" && s.is_empty() && !cuts.is_empty() { continue; }
                let img = dev.image(&s);
                let p = format!("{dir}/img_{nimg}.bin");
                std::fs::write(&p, &img).expect("write image");
                let tearable = dev.tearable(&s);
                cuts.push(Cut { at_event: events.len() - 1, now, units: s.clone(), torn: Vec::new(), img: p });
                nimg += 1;
                for t in tearable {
                    let img = dev.image_torn(&s, &[t]);
                    let p = format!("{dir}/img_{nimg}.bin");
                    std::fs::write(&p, &img).expect("write image");
                    cuts.push(Cut { at_event: events.len() - 1, now, units: s.clone(), torn: vec![t], img: p });
                    nimg += 1;
                }
            }
        }
    }
    // ---- real recoveries in child processes
    let results = recover_images(&cuts, keys, ttl, dir, o.num("jobs", 6), nested_max > 0);
    // ---- splice rec events
    let mut by_event: HashMap<usize, Vec<Value>> = HashMap::new();
    for (c, r) in cuts.iter().zip(results.iter()) {
        by_event.entry(c.at_event).or_default().push(rec_event(c, r, keys, &gens, &rk));
    }
    let mut out = std::io::BufWriter::new(std::fs::File::create(out_path).expect("create out"));
    let mut n_out = 0;
    for (i, ev) in events.iter().enumerate() {
        writeln!(out, "{}", ev).unwrap();
        n_out += 1;
        if let Some(v) = by_event.get(&i) {
            for r in v {
                writeln!(out, "{}", r).unwrap();
                n_out += 1;
            }
        }
    }
    out.flush().unwrap();
    let mut nested_files = 0;
    let mut nested_images = 0;
    if nested_max > 0 {
        // C04: cut recovery's own writes and recover again
        let mut picked = 0;
        let mut seen_logs: std::collections::HashSet<String> = std::collections::HashSet::new();
        for (ci, (c, r)) in cuts.iter().zip(results.iter()).enumerate() {
            if picked >= nested_max { break; }
            let wl = match r.get("wlog").and_then(|w| w.as_array()) { Some(w) if !w.is_empty() => w, _ => continue };
            if r["ok"].as_bool() != Some(true) { continue; }
            let sig: String = wl.iter().map(|w| format!("{}{}", w["k"].as_str().unwrap_or(""), w["s"].as_u64().unwrap_or(0))).collect();
            if !seen_logs.insert(format!("{}:{}", sig, r["len"])) { continue; }
            let base = match std::fs::read(&c.img) { Ok(b) => b, Err(_) => continue };
            // the same recovery on a device that refuses its first data-area write (C04: recovery can be
            // restarted after it failed, too): what it wrote before giving up is a second write log
            let faulted = recover_images_f(std::slice::from_ref(c), keys, ttl, dir, 1, true, Some(0));
            let wl_f: Vec<Value> = faulted.first().and_then(|r| r.get("wlog")).and_then(|w| w.as_array()).cloned().unwrap_or_default();
            let variants: Vec<(&[Value], &str)> = if wl_f.is_empty() || faulted[0]["ok"].as_bool() == Some(true) { vec![(wl.as_slice(), "")] } else { vec![(wl.as_slice(), ""), (wl_f.as_slice(), "f")] };
            for (wl, suffix) in variants {
            let mut ev2: Vec<Value> = Vec::new();
            ev2.push(json!({"e": "init", "ds": 16, "de": total_blocks, "fmt": fmt, "ttl": ttl, "nk": keys.len(),
                            "now": rk(c.now), "cc": 1}));
            for g in &gens.gens {
                ev2.push(json!({"e": "gen", "g": g.id, "k": g.kid, "ts": rk(g.ts), "exp": rk(g.exp), "n": g.blocks}));
            }
            ev2.push(json!({"e": "image", "img": absdev::classify_image(&base, fmt, &gens)}));
            let mut dev2 = ConcreteDev::new(base.len());
            dev2.durable = base.clone();
            let mut cuts2: Vec<Cut> = Vec::new();
            for w in wl {
                if w["k"] == "w" {
                    let data = absdev::unhex(w["hex"].as_str().unwrap_or(""));
                    let sec = w["s"].as_u64().unwrap_or(0);
                    dev2.write(sec, &data);
                    let mut wj = absdev::classify_write(sec, &data, fmt, total_blocks, &gens);
                    if wj["kind"] == "d" { wj["tear"] = json!(dev2.last_tear_flags()); }
                    ev2.push(json!({"e": "w", "w": wj}));
                } else {
                    dev2.fsync();
                    ev2.push(json!({"e": "fsync"}));
                }
                for s in absdev::subsets(&dev2.units(), max_exh) {
                    if cuts2.len() >= 400 { break; }
                    let p = format!("{dir}/n{ci}{suffix}_{}.bin", cuts2.len());
                    std::fs::write(&p, dev2.image(&s)).expect("write nested image");
                    let tearable = dev2.tearable(&s);
                    cuts2.push(Cut { at_event: ev2.len() - 1, now: c.now, units: s.clone(), torn: Vec::new(), img: p });
                    // recovery's own writes tear as well (a marker over a stale head, a multi-sector journal image)
                    for t in tearable {
                        if cuts2.len() >= 400 { break; }
                        let p = format!("{dir}/n{ci}{suffix}_{}.bin", cuts2.len());
                        std::fs::write(&p, dev2.image_torn(&s, &[t])).expect("write nested image");
                        cuts2.push(Cut { at_event: ev2.len() - 1, now: c.now, units: s.clone(), torn: vec![t], img: p });
                    }
                }
            }
            let res2 = recover_images(&cuts2, keys, ttl, dir, o.num("jobs", 6), false);
            let mut by2: HashMap<usize, Vec<Value>> = HashMap::new();
            for (c2, r2) in cuts2.iter().zip(res2.iter()) {
                by2.entry(c2.at_event).or_default().push(rec_event(c2, r2, keys, &gens, &rk));
            }
            let np = format!("{}.nested{}{}.ndjson", out_path.trim_end_matches(".ndjson"), picked, suffix);
            let mut f = std::io::BufWriter::new(std::fs::File::create(&np).expect("nested out"));
            for (i, ev) in ev2.iter().enumerate() {
                writeln!(f, "{}", ev).unwrap();
                if let Some(v) = by2.get(&i) {
                    for r in v { writeln!(f, "{}", r).unwrap(); }
                }
            }
            f.flush().unwrap();
            for c2 in &cuts2 { let _ = std::fs::remove_file(&c2.img); }
            nested_images += cuts2.len();
            nested_files += 1;
            }
            picked += 1;
        }
    }
    for c in &cuts {
        let _ = std::fs::remove_file(&c.img);
    }
    println!("{}", json!({"nested_traces": nested_files, "nested_images": nested_images}));
    println!("{}", json!({"events": n_out, "images": cuts.len(), "gens": gens.gens.len(),
        "max_pending_units": stats_pending_max, "flushes": flushes.len(), "calls": calls.len()}));
    0
}

fn recover_images(cuts: &[Cut], keys: &[Vec<u8>], ttl: bool, dir: &str, jobs: usize, writes: bool) -> Vec<Value> {
    recover_images_f(cuts, keys, ttl, dir, jobs, writes, None)
}

/// `rfault`: the recovery itself runs on a failing device - its k-th write into the data area is refused
/// (the journal and metadata regions stay writable).
fn recover_images_f(cuts: &[Cut], keys: &[Vec<u8>], ttl: bool, dir: &str, jobs: usize, writes: bool, rfault: Option<u64>) -> Vec<Value> {
    let exe = std::env::current_exe().expect("current exe");
    let chunk = 40;
    let groups: Vec<&[Cut]> = cuts.chunks(chunk).collect();
    let mut results: Vec<Value> = vec![Value::Null; cuts.len()];
    let mut base = 0;
    let mut gi = 0;
    while gi < groups.len() {
        let mut children = Vec::new();
        for _ in 0..jobs {
            if gi >= groups.len() { break; }
            let g = groups[gi];
            let list = format!("{dir}/list_{gi}.json");
            let outp = format!("{dir}/res_{gi}.json");
            let items: Vec<Value> = g.iter().map(|c| match rfault {
                Some(k) => json!({"img": c.img, "now": c.now, "rfault": k}),
                None => json!({"img": c.img, "now": c.now}),
            }).collect();
            std::fs::write(&list, serde_json::to_string(&json!({"ttl": ttl, "items": items, "writes": writes,
                "keys": keys.iter().map(|k| String::from_utf8_lossy(k).to_string()).collect::<Vec<_>>()})).unwrap()).unwrap();
            let child = std::process::Command::new(&exe)
                .args(["recover", "--list", &list, "--out", &outp])
                .stdout(std::process::Stdio::null())
                .stderr(std::process::Stdio::null())
                .spawn()
                .expect("spawn recover child");
            children.push((child, base, g.len(), outp, list));
            base += g.len();
            gi += 1;
        }
        for (mut child, b, n, outp, list) in children {
            let _ = child.wait();
            let lines: Vec<Value> = std::fs::read_to_string(&outp)
                .unwrap_or_default()
                .lines()
                .filter_map(|l| serde_json::from_str(l).ok())
                .collect();
            for i in 0..n {
                results[b + i] = lines.get(i).cloned().unwrap_or_else(|| json!({"ok": false, "err": "ChildDied", "recs": [], "len": 0, "extra": 0}));
            }
            let _ = std::fs::remove_file(&outp);
            let _ = std::fs::remove_file(&list);
        }
    }
    results
}

/// Child: recover each listed image with the real code and report what the store exposes.
pub fn recover_main(args: &[String]) -> i32 {
    let o = Opts::parse(args);
    let list: Value = serde_json::from_str(&std::fs::read_to_string(o.req("list")).expect("list")).expect("json");
    let ttl = list["ttl"].as_bool().unwrap_or(false);
    let keys: Vec<Vec<u8>> = list["keys"].as_array().unwrap().iter().map(|k| k.as_str().unwrap().as_bytes().to_vec()).collect();
    let mut out = std::io::BufWriter::new(std::fs::File::create(o.req("out")).expect("out"));
    crate::util::watchdog::start(30);
    for item in list["items"].as_array().unwrap() {
        let orig = item["img"].as_str().unwrap();
        let work = format!("{orig}.work");
        let _ = std::fs::copy(orig, &work);
        let img = work.as_str();
        crate::util::watchdog::beat(img);
        let want_writes = list["writes"].as_bool().unwrap_or(false);
        if want_writes {
            obs::install();
        }
        feoxdb::verif::set_now(item["now"].as_u64().unwrap());
        if let Some(k) = item.get("rfault").and_then(|x| x.as_u64()) {
            let seen = std::sync::Arc::new(std::sync::atomic::AtomicU64::new(0));
            feoxdb::verif::set_fault_fn(Some(Box::new(move |_idx, kind, sector, _len| {
                if kind == "write" && sector >= 16 && seen.fetch_add(1, std::sync::atomic::Ordering::SeqCst) == k { 1 } else { 0 }
            })));
        }
        let size = std::fs::metadata(img).map(|m| m.len()).unwrap_or(0);
        let res = std::panic::catch_unwind(|| {
            FeoxStore::builder()
                .hash_bits(6)
                .enable_ttl(ttl)
                .no_memory_limit()
                .device_path(img.to_string())
                .file_size(size)
                .enable_caching(false)
                .build()
        });
        let line = match res {
            Err(_) => json!({"ok": false, "err": "Panic", "recs": [], "len": 0, "extra": 0}),
            Ok(Err(e)) => json!({"ok": false, "err": crate::util::err_name(&e), "recs": [], "len": 0, "extra": 0}),
            Ok(Ok(store)) => {
                let line = store_report(&store, &keys);
                std::mem::forget(store);
                line
            }
        };
        feoxdb::verif::set_fault_fn(None);
        let mut line = line;
        if want_writes {
            obs::uninstall();
            let wl: Vec<Value> = obs::take().iter().filter_map(|e| match e.kind {
                "w" => Some(json!({"k": "w", "s": e.a, "hex": absdev::hex(&e.data)})),
                "fsync" => Some(json!({"k": "f"})),
                _ => None,
            }).collect();
            line["wlog"] = json!(wl);
        }
        let _ = std::fs::remove_file(&work);
        writeln!(out, "{}", line).unwrap();
    }
    out.flush().unwrap();
    0
}

fn rec_event(c: &Cut, r: &Value, keys: &[Vec<u8>], gens: &GenTable, rk: &dyn Fn(u64) -> usize) -> Value {
    let kv: Vec<i64> = keys.iter().enumerate().map(|(i, _)| {
        match r["recs"].get(i) {
            Some(x) if x["p"].as_bool() == Some(true) => {
                let ts = x["ts"].as_u64().unwrap();
                let exp = x["exp"].as_u64().unwrap();
                let hash = x["vhash"].as_u64().unwrap();
                let vlen = x["vlen"].as_u64().unwrap() as usize;
                let mut g: i64 = -1;
                for gi in &gens.gens {
                    if gi.kid == i + 1 && gi.ts == ts && gi.exp == exp && gi.value.len() == vlen && L::hash64(&gi.value) == hash {
                        g = gi.id as i64;
                    }
                }
                g
            }
            _ => 0,
        }
    }).collect();
    json!({"e": "rec", "units": c.units.iter().map(|(a, b)| vec![*a, *b]).collect::<Vec<_>>(),
        "torn": c.torn.iter().map(|(a, b)| vec![*a, *b]).collect::<Vec<_>>(),
        "now": rk(c.now),
        "res": {"ok": r["ok"], "err": r["err"], "kv": kv, "len": r["len"], "extra": r["extra"],
                "memok": r.get("mem").and_then(|m| m.as_u64()) == r.get("memsum").and_then(|m| m.as_u64()),
                "mem": r.get("mem").cloned().unwrap_or(json!(0)), "memsum": r.get("memsum").cloned().unwrap_or(json!(0)),
                "at": keys.iter().enumerate().map(|(i, _)| r["recs"].get(i).and_then(|x| x["at"].as_u64()).unwrap_or(0)).collect::<Vec<_>>(),
                "nb": keys.iter().enumerate().map(|(i, _)| r["recs"].get(i).and_then(|x| x["nb"].as_u64()).unwrap_or(0)).collect::<Vec<_>>(),
                "free": r.get("free").cloned().unwrap_or(json!([]))}})
}

/// C04/C11: a recovery with more than 1024 non-adjacent repairs (journal chunking): expired newest
/// generations at lower sectors than their older generations. Recovery's own writes are cut at every
/// fsync boundary and each durable state is recovered again by the real code.
pub fn chunkrec_main(args: &[String]) -> i32 {
    let o = Opts::parse(args);
    let n: usize = o.num("keys", 1100);
    let dir = o.req("dir").to_string();
    let out_path = o.req("out").to_string();
    std::fs::create_dir_all(&dir).ok();
    let now: u64 = 1_000 * E9;
    let total_blocks: u64 = 16 + 4 * n as u64 + 8;
    let mut img = vec![0u8; total_blocks as usize * L::BLOCK];
    let meta = L::encode_meta(3, 2, 0, 0, total_blocks * 4096);
    img[..4096].copy_from_slice(&meta);
    let keys: Vec<Vec<u8>> = (0..n).map(|i| format!("c{i:05}").into_bytes()).collect();
    let mut gens = GenTable::default();
    let base2 = 16u64;                 // newest (expired) generations, every second block
    let base1 = 16 + 2 * n as u64;     // older generations
    for (i, k) in keys.iter().enumerate() {
        let v2 = format!("new-{i}").into_bytes();
        let v1 = format!("old-{i}").into_bytes();
        let (ts2, exp2) = (now - 50 * E9 + i as u64, now - E9);
        let ts1 = now - 90 * E9 + i as u64;
        let s2 = base2 + 2 * i as u64;
        let s1 = base1 + 2 * i as u64;
        let r2 = L::encode_record(3, s2, k, &v2, ts2, exp2);
        let r1 = L::encode_record(3, s1, k, &v1, ts1, 0);
        img[s2 as usize * L::BLOCK..s2 as usize * L::BLOCK + r2.len()].copy_from_slice(&r2);
        img[s1 as usize * L::BLOCK..s1 as usize * L::BLOCK + r1.len()].copy_from_slice(&r1);
        gens.add(i + 1, k, ts1, 0, &v1, 3);
        gens.add(i + 1, k, ts2, exp2, &v2, 3);
    }
    // ranks
    let mut times: BTreeSet<u64> = BTreeSet::new();
    times.insert(now);
    for g in &gens.gens { times.insert(g.ts); if g.exp != 0 { times.insert(g.exp); } }
    let rank: HashMap<u64, usize> = times.iter().enumerate().map(|(i, t)| (*t, i + 1)).collect();
    let rk = move |t: u64| -> usize { if t == 0 { 0 } else { *rank.get(&t).unwrap_or(&0) } };
    let base_path = format!("{dir}/base.bin");
    std::fs::write(&base_path, &img).expect("write base");
    let cut0 = vec![Cut { at_event: 0, now, units: vec![], torn: Vec::new(), img: base_path.clone() }];
    let r0 = recover_images(&cut0, &keys, true, &dir, 1, true);
    let wl = match r0[0].get("wlog").and_then(|w| w.as_array()) { Some(w) => w.clone(), None => Vec::new() };
    let mut ev: Vec<Value> = Vec::new();
    ev.push(json!({"e": "init", "ds": 16, "de": total_blocks, "fmt": 3, "ttl": true, "nk": keys.len(), "now": rk(now), "cc": o.num("cc", 2u32)}));
    for g in &gens.gens {
        ev.push(json!({"e": "gen", "g": g.id, "k": g.kid, "ts": rk(g.ts), "exp": rk(g.exp), "n": g.blocks}));
    }
    ev.push(json!({"e": "image", "img": absdev::classify_image(&img, 3, &gens)}));
    ev.push(rec_event(&cut0[0], &r0[0], &keys, &gens, &rk));
    let mut dev = ConcreteDev::new(img.len());
    dev.durable = img.clone();
    let mut cuts: Vec<Cut> = Vec::new();
    let mut nf = 0;
    for w in &wl {
        if w["k"] == "w" {
            let data = absdev::unhex(w["hex"].as_str().unwrap_or(""));
            let sec = w["s"].as_u64().unwrap_or(0);
            dev.write(sec, &data);
            ev.push(json!({"e": "w", "w": absdev::classify_write(sec, &data, 3, total_blocks, &gens)}));
        } else {
            dev.fsync();
            ev.push(json!({"e": "fsync"}));
            let p = format!("{dir}/f{nf}.bin");
            std::fs::write(&p, dev.image(&[])).expect("write nested image");
            cuts.push(Cut { at_event: ev.len() - 1, now, units: vec![], torn: Vec::new(), img: p });
            nf += 1;
        }
    }
    let res = recover_images(&cuts, &keys, true, &dir, 4, false);
    let mut by: HashMap<usize, Value> = HashMap::new();
    for (c, r) in cuts.iter().zip(res.iter()) {
        by.insert(c.at_event, rec_event(c, r, &keys, &gens, &rk));
    }
    let mut f = std::io::BufWriter::new(std::fs::File::create(&out_path).expect("out"));
    for (i, e) in ev.iter().enumerate() {
        writeln!(f, "{}", e).unwrap();
        if let Some(r) = by.get(&i) { writeln!(f, "{}", r).unwrap(); }
    }
    f.flush().unwrap();
    for c in &cuts { let _ = std::fs::remove_file(&c.img); }
    let _ = std::fs::remove_file(&base_path);
    let exposed: Vec<usize> = res.iter().map(|r| r["len"].as_u64().unwrap_or(0) as usize).collect();
    println!("{}", json!({"keys": n, "recovery_writes": wl.len(), "fsync_cuts": cuts.len(),
        "first_recovery_len": r0[0]["len"], "len_after_each_cut": exposed}));
    0
}

/// What a freshly opened store exposes (per key: version, expiry, value hash, sector) and its free runs.
fn store_report(store: &FeoxStore, keys: &[Vec<u8>]) -> Value {
    let snap = store.verif_snapshot();
    let recs: Vec<Value> = keys.iter().map(|k| {
        match store.verif_record(k) {
            Some(r) => {
                let (vh, vl) = match store.get(k) {
                    Ok(v) => (L::hash64(&v), v.len()),
                    Err(_) => (0, usize::MAX >> 8),
                };
                let nb = L::encode_record(store.verif_format_version(), r.sector.max(16), k, &vec![0u8; r.value_len], 1, 0).len() / L::BLOCK;
                json!({"p": true, "ts": r.timestamp, "exp": r.ttl_expiry, "vlen": vl, "vhash": vh, "at": r.sector, "nb": nb})
            }
            None => json!({"p": false}),
        }
    }).collect();
    let extra = snap.iter().filter(|r| !keys.contains(&r.key)).count();
    let memsum: usize = snap.iter().map(|r| FeoxStore::verif_record_overhead() + r.key.len() + r.value_len).sum();
    json!({"ok": true, "err": "", "recs": recs, "len": store.len(), "extra": extra, "free": store.verif_free_runs(),
           "mem": store.memory_usage(), "memsum": memsum})
}


thread_local!(static ALLOCATED_VICTIM: std::cell::Cell<bool> = const { std::cell::Cell::new(false) });

/// C02/C03/C09 scenario "stale marker chain": a retired two-block extent [s, s+1] leaves the markers
/// M(remaining 2), M(remaining 1).  Two workers then allocate concurrently: one reserves block s for a
/// record whose batch fails (journal write error, determinate: the reservation is released and the
/// record is deleted before any retry), the other writes a record at s+1 that is acknowledged by a
/// later successful flush.  Block s is free again and still says "two blocks retired from here".
pub fn stalechain_main(args: &[String]) -> i32 {
    use std::sync::atomic::{AtomicBool, Ordering};
    let o = Opts::parse(args);
    let dir = o.req("dir").to_string();
    std::fs::create_dir_all(&dir).ok();
    obs::set_cpus(4);
    feoxdb::verif::force_sync(true);
    crate::util::watchdog::start(60);
    static ARMED: AtomicBool = AtomicBool::new(false);
    let attempts: usize = o.num("attempts", 40);
    for attempt in 0..attempts {
        let path = format!("{dir}/stale_{attempt}.feox");
        let _ = std::fs::remove_file(&path);
        let build = || FeoxStore::builder().device_path(path.clone()).file_size(64 * 4096).enable_caching(false).enable_ttl(false).hash_bits(4).build();
        let store = build().expect("build");
        store.insert(b"x", &vec![b'X'; 5000]).unwrap();
        store.flush().unwrap();
        let xs = store.verif_record(b"x").unwrap().sector;
        store.delete(b"x").unwrap();
        store.flush().unwrap();
        // victim (one block, its batch fails) and survivor, on different workers
        let victim = format!("victim{attempt}").into_bytes();
        let survivor = format!("survivor{attempt}").into_bytes();
        let vk = victim.clone();
        ALLOCATED_VICTIM.with(|c| c.set(false));
        feoxdb::verif::install(Box::new(move |_seq, ev| {
            if ev.kind == "alloc" && ev.key == vk.as_slice() { ALLOCATED_VICTIM.with(|c| c.set(true)); }
        }));
        feoxdb::verif::set_fault_fn(Some(Box::new(|_idx, kind, sector, _len| {
            if ARMED.load(Ordering::SeqCst) && kind == "write" && (1..7).contains(&sector) && ALLOCATED_VICTIM.with(|c| c.get()) {
                ALLOCATED_VICTIM.with(|c| c.set(false));
                1
            } else { 0 }
        })));
        ARMED.store(true, Ordering::SeqCst);
        store.insert(&victim, b"victim-value").unwrap();
        store.insert(&survivor, b"survivor-value").unwrap();
        let first = store.flush();
        ARMED.store(false, Ordering::SeqCst);
        feoxdb::verif::set_fault_fn(None);
        feoxdb::verif::uninstall();
        let vs = store.verif_record(&victim).map(|r| r.sector).unwrap_or(0);
        let ss = store.verif_record(&survivor).map(|r| r.sector).unwrap_or(0);
        if first.is_ok() || vs != 0 || ss != xs + 1 {
            // same worker, or the survivor was placed first: not the layout of the scenario
            std::mem::forget(store);
            continue;
        }
        store.delete(&victim).unwrap();
        let second = store.flush();
        let acked = second.is_ok() && store.get(&survivor).map(|v| v == b"survivor-value").unwrap_or(false);
        drop(store);   // clean close
        let reopened = build();
        let after = match &reopened {
            Ok(s) => match s.get(&survivor) { Ok(v) => String::from_utf8_lossy(&v).to_string(), Err(e) => format!("Err({})", crate::util::err_name(&e)) },
            Err(e) => format!("open failed: {}", crate::util::err_name(e)),
        };
        println!("{}", json!({"attempt": attempt, "retired_extent": [xs, 2], "survivor_sector": ss, "first_flush": format!("{:?}", first.as_ref().err().map(|e| crate::util::err_name(e))),
                              "second_flush_ok": second.is_ok(), "acknowledged": acked, "after_clean_reopen": after,
                              "lost": acked && after != "survivor-value"}));
        if let Ok(s) = reopened { std::mem::forget(s); }
        return 0;
    }
    println!("{}", json!({"attempt": attempts, "inconclusive": true}));
    0
}


/// C20 scenario "failed submit with writes in flight": a record batch goes through io_uring; the
/// `io_uring_enter` that should wait for the completions fails (not EINTR) while the kernel already
/// owns the queued write buffers.  Recorded: which buffers were queued, which completions were
/// reaped, and what happened to each buffer when the batch gave up (freed or leaked).
pub fn uringfault_main(args: &[String]) -> i32 {
    use std::io::Write as _;
    use std::sync::atomic::{AtomicI64, Ordering};
    let o = Opts::parse(args);
    let dir = o.req("dir").to_string();
    std::fs::create_dir_all(&dir).ok();
    obs::set_cpus(o.num("cpus", 2));
    crate::util::watchdog::start(60);
    let nvals: usize = o.num("values", 6);
    let vlen: usize = o.num("vlen", 3 << 20);
    let at: i64 = o.num("at", 0);
    let path = format!("{dir}/uring_{}.feox", std::process::id());
    let _ = std::fs::remove_file(&path);
    let store = FeoxStore::builder().device_path(path.clone()).file_size(((nvals * (vlen / 4096 + 2) + 64) * 4096) as u64)
        .enable_caching(false).enable_ttl(false).hash_bits(4).build().expect("build");
    static SEEN: AtomicI64 = AtomicI64::new(0);
    SEEN.store(0, Ordering::SeqCst);
    feoxdb::verif::set_fault_fn(Some(Box::new(move |_idx, kind, _sector, _len| {
        if kind == "uring_enter" && SEEN.fetch_add(1, Ordering::SeqCst) == at { 1 } else { 0 }
    })));
    obs::install();
    for i in 0..nvals {
        store.insert(format!("big{i}").as_bytes(), &vec![b'a' + i as u8; vlen]).unwrap();
    }
    crate::freelog::N.store(0, Ordering::SeqCst);
    crate::freelog::ON.store(true, Ordering::SeqCst);
    let res = store.flush();
    crate::freelog::ON.store(false, Ordering::SeqCst);
    feoxdb::verif::set_fault_fn(None);
    obs::uninstall();
    let raw = obs::take();
    let mut out = std::io::BufWriter::new(std::fs::File::create(o.req("out")).expect("out"));
    let mut n = 0;
    // address of every queued buffer (the `ubp` event precedes its `ubq`) and the position of the
    // deallocation log at that moment: only later deallocations can concern this buffer
    let mut queued: Vec<(u64, u64, usize, usize, usize)> = Vec::new(); // inst, i, ptr, len, log position
    let mut last_ptr: Option<(usize, usize, usize)> = None;
    for e in &raw {
        if e.kind == "ubp" {
            let pos = e.data.get(..8).map(|b| u64::from_le_bytes(b.try_into().unwrap()) as usize).unwrap_or(0);
            last_ptr = Some((e.a as usize, e.b as usize, pos));
            continue;
        }
        let kind = match e.kind { "ubq" => "q", "ubu" => "u", "ubc" => "c", "ubd" => "d", _ => continue };
        if kind == "q" {
            if let Some((p, l, pos)) = last_ptr.take() { queued.push(((e.a % 1_000_000_007) as u64, e.b, p, l, pos)); }
        }
        writeln!(out, "{}", json!({"e": kind, "inst": (e.a % 1_000_000_007) as u64, "i": e.b, "f": e.c})).unwrap();
        n += 1;
    }
    // memory a queued write points into that went back to the allocator before the flush call returned
    let logged = crate::freelog::mark();
    let mut freed_events = 0;
    for (inst, i, p, l, pos) in &queued {
        for j in *pos..logged {
            let (fp, fl) = (crate::freelog::PTR[j].load(Ordering::SeqCst), crate::freelog::LEN[j].load(Ordering::SeqCst));
            if fl > 0 && fp <= *p && *p < fp + fl && *l > 0 {
                writeln!(out, "{}", json!({"e": "f", "inst": inst, "i": i, "f": 0})).unwrap();
                n += 1;
                freed_events += 1;
                break;
            }
        }
    }
    out.flush().unwrap();
    let enters = SEEN.load(Ordering::SeqCst);
    println!("{}", json!({"events": n, "enter_calls": enters, "deallocations_logged": logged, "queued": queued.len(), "freed_while_queued": freed_events, "flush": match &res { Ok(()) => "Ok".to_string(), Err(e) => crate::util::err_name(e) }}));
    std::mem::forget(store);
    let _ = std::fs::remove_file(&path);
    0
}

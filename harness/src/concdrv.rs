//! Concurrency engine (C07, C08; concurrent parts of C11, C13, C14, C16; schedules re-used for
//! C18/C20): executes small multi-threaded programs on the real store either under the
//! controlled scheduler (every interleaving at scheduling-point granularity, memory-only mode)
//! or free-running with random yields (memory-only and persistent with the flusher running),
//! and records invocation / publication / response histories for TLC (LinTrace.tla).
use crate::obs::{self, RawEv};
use crate::seqdrv::{noval, res, res_err, ValTable};
use crate::util::{limbs, Opts};
use feoxdb::FeoxStore;
use rand::{rngs::StdRng, Rng, SeedableRng};
use serde_json::{json, Value};
use std::collections::HashMap;
use std::io::Write;
use std::sync::{Arc, Mutex};
use std::time::Duration;

const E9: u64 = 1_000_000_000;
const NOW: u64 = 1_000 * E9;

/// C16, concurrent part: programs with `cfg.cachemode` run their `c_*` ops on a standalone `ClockCache` whose keys all
/// live in bucket 0; the lock acquisitions on that bucket (hook `cache_point`) are scheduling points.  The controller
/// logs one TraceCache.tla event per critical section: every call when it returns (its last section ran in the same
/// scheduler step), plus an "evict" event when a sweep inside `insert` has run.
pub struct CacheCtx {
    cache: feoxdb::core::cache::ClockCache,
    keys: Vec<Vec<u8>>,
    key_id: HashMap<Vec<u8>, u32>,
    gens: HashMap<u32, Arc<feoxdb::core::record::Record>>,
    addr_gen: HashMap<usize, u32>,
    serial: std::sync::atomic::AtomicU64,
    events: Mutex<Vec<Value>>,
}
static CACHE: Mutex<Option<Arc<CacheCtx>>> = Mutex::new(None);

fn cache_ctx() -> Option<Arc<CacheCtx>> {
    CACHE.lock().unwrap().clone()
}

fn cache_key_in_bucket0(id: u32) -> Vec<u8> {
    let mut n = 0u64;
    loop {
        let k = format!("ck{id}-{n}").into_bytes();
        if feoxdb::core::cache::ClockCache::verif_bucket_of(&k) == 0 { return k; }
        n += 1;
    }
}

impl CacheCtx {
    fn new(cfg: &Value, gens: &Value) -> Self {
        let cache = feoxdb::core::cache::ClockCache::new(Arc::new(feoxdb::Statistics::new()));
        cache.verif_set_watermarks(cfg["high"].as_u64().unwrap_or(1 << 20) as usize, cfg["low"].as_u64().unwrap_or(1 << 19) as usize);
        let nkeys = cfg["nkeys"].as_u64().unwrap_or(3) as u32;
        let keys: Vec<Vec<u8>> = (1..=nkeys).map(cache_key_in_bucket0).collect();
        let key_id = keys.iter().enumerate().map(|(i, k)| (k.clone(), i as u32 + 1)).collect();
        let mut g = HashMap::new();
        let mut addr = HashMap::new();
        for x in gens.as_array().unwrap_or(&Vec::new()) {
            let (gid, k, ts) = (x[0].as_u64().unwrap() as u32, x[1].as_u64().unwrap() as usize, x[2].as_u64().unwrap());
            let arc = Arc::new(feoxdb::core::record::Record::new(keys[k - 1].clone(), Vec::new(), ts));
            addr.insert(Arc::as_ptr(&arc) as usize, gid);
            g.insert(gid, arc);
        }
        Self { cache, keys, key_id, gens: g, addr_gen: addr, serial: std::sync::atomic::AtomicU64::new(0), events: Mutex::new(Vec::new()) }
    }

    /// What the implementation reports right now, appended to `ev` (the vocabulary of TraceCache.tla).
    fn log(&self, mut ev: Value) {
        let st = self.cache.stats();
        let ents: Vec<Value> = self.cache.verif_entries().iter().map(|e| {
            let g: i64 = if e.tag == 0 { 0 } else { self.addr_gen.get(&e.tag).map_or(-1, |g| *g as i64) };
            json!({"k": self.key_id.get(&e.key).map_or(-1, |k| *k as i64), "g": g, "sz": e.size,
                   "ref": if e.referenced { 1 } else { 0 }, "b": feoxdb::core::cache::ClockCache::verif_bucket_of(&e.key),
                   "alive": if e.tag_alive { 1 } else { 0 }})
        }).collect();
        ev["mem"] = json!(st.memory_usage);
        ev["high"] = json!(st.high_watermark);
        ev["low"] = json!(st.low_watermark);
        ev["hand"] = json!(0);      // one occupied bucket: a hand anywhere else behaves like a hand at bucket 0
        ev["ents"] = Value::Array(ents);
        self.events.lock().unwrap().push(ev);
    }

    /// One cache call; returns the TraceCache event of the call (without the state, which the controller adds).
    fn exec(&self, op: &Value) -> Value {
        let k = op["k"].as_u64().unwrap_or(0) as u32;
        let g = op["g"].as_u64().unwrap_or(0) as u32;
        let key = if k > 0 { self.keys[k as usize - 1].clone() } else { Vec::new() };
        match op["op"].as_str().unwrap_or("") {
            "c_ins" => {
                let vlen = (op["vlen"].as_u64().unwrap_or(16) as usize).max(16);
                let ser = self.serial.fetch_add(1, std::sync::atomic::Ordering::SeqCst) + 1;
                let mut v = vec![(ser % 251) as u8; vlen];
                v[0..4].copy_from_slice(&k.to_le_bytes());
                v[4..8].copy_from_slice(&g.to_le_bytes());
                v[8..16].copy_from_slice(&ser.to_le_bytes());
                if g == 0 { self.cache.insert(key, bytes::Bytes::from(v)); }
                else { self.cache.verif_insert_for_record(key, bytes::Bytes::from(v), &self.gens[&g]); }
                json!({"op": "insert", "k": k, "g": g, "vlen": vlen, "ser": ser, "res": "done", "vg": 0})
            }
            "c_get" => {
                let r = if g == 0 { self.cache.get(&key) } else { self.cache.verif_get_for_record(&key, &self.gens[&g]) };
                match r {
                    Some(v) if v.len() >= 16 => json!({"op": "get", "k": k, "g": g, "res": "hit",
                        "vk": u32::from_le_bytes(v[0..4].try_into().unwrap()), "vg": u32::from_le_bytes(v[4..8].try_into().unwrap()),
                        "vser": u64::from_le_bytes(v[8..16].try_into().unwrap()), "vlen": v.len()}),
                    Some(v) => json!({"op": "get", "k": k, "g": g, "res": "hit", "vk": -1, "vg": -1, "vser": 0, "vlen": v.len()}),
                    None => json!({"op": "get", "k": k, "g": g, "res": "miss", "vk": 0, "vg": 0, "vser": 0, "vlen": 0}),
                }
            }
            "c_rem" => {
                if g == 0 { self.cache.remove(&key); } else { self.cache.verif_remove_for_record(&key, &self.gens[&g]); }
                json!({"op": "remove", "k": k, "g": g, "res": "done", "vg": 0})
            }
            "c_evict" => {
                self.cache.evict_entries();
                json!({"op": "evict", "k": 0, "g": 0, "res": "ok", "vg": 0})
            }
            "c_clear" => {
                self.cache.clear();
                json!({"op": "clear", "k": 0, "g": 0, "res": "ok", "vg": 0})
            }
            other => panic!("unknown cache op {other}"),
        }
    }
}

fn bytes_of(v: &Value) -> Vec<u8> {
    match v["k"].as_str().unwrap_or("b") {
        "i" => v["n"].as_i64().unwrap_or(0).to_le_bytes().to_vec(),
        "d" => format!("{{\"n\":{}}}", v["n"].as_u64().unwrap_or(0)).into_bytes(),
        _ => {
            let id = v["id"].as_u64().unwrap_or(1) as u8;
            let len = v["len"].as_u64().unwrap_or(3) as usize;
            let mut b = vec![b'A' + (id % 26); len.max(1)];
            b[0] = id;
            b
        }
    }
}

/// Inverse of `bytes_of` (content keyed, independent of the order in which values are seen).
fn val_of(vals: &Mutex<ValTable>, bytes: &[u8]) -> Value {
    let v = vals.lock().unwrap().val(bytes);
    if v["k"] == "b" && !bytes.is_empty() && bytes[1..].iter().all(|b| *b == b'A' + (bytes[0] % 26)) {
        return json!({"k": "b", "id": bytes[0], "len": bytes.len(), "n": 0});
    }
    if v["k"] == "b" {
        // bytes the program never wrote
        return json!({"k": "b", "id": 1000 + v["id"].as_u64().unwrap_or(0), "len": bytes.len(), "n": 0});
    }
    v
}

fn ts_of(op: &Value) -> Option<u64> {
    if op["auto"].as_bool().unwrap_or(true) { None } else { Some(op["tsv"].as_u64().unwrap_or(0)) }
}

/// Execute one op description on the store; returns (result json, items for range).
fn exec(store: &Arc<FeoxStore>, keys: &[Vec<u8>], op: &Value, vals: &Mutex<ValTable>) -> (Value, Value) {
    if op["op"].as_str().map_or(false, |n| n.starts_with("c_")) {
        let cx = cache_ctx().expect("cache op outside a cache program");
        return (json!({"tag": "cache", "n": 0, "val": noval(), "tt": [0, 0, 0], "cev": cx.exec(op)}), json!([]));
    }
    let k = op["k"].as_u64().unwrap_or(1) as usize;
    let key: &[u8] = if k == 0 { b"" } else { &keys[k - 1] };
    let ttl = op["ttlv"].as_u64().unwrap_or(0);
    let ts = ts_of(op);
    let name = op["op"].as_str().unwrap_or("");
    let r = match name {
        "insert" => {
            let v = bytes_of(&op["v"]);
            let as_bytes = op["bytes"].as_bool().unwrap_or(false);
            let r = match (op["wttl"].as_bool().unwrap_or(false), as_bytes) {
                (true, false) => store.insert_with_ttl_and_timestamp(key, &v, ttl, ts),
                (true, true) => store.insert_bytes_with_ttl_and_timestamp(key, bytes::Bytes::from(v.clone()), ttl, ts),
                (false, true) => store.insert_bytes_with_timestamp(key, bytes::Bytes::from(v.clone()), ts),
                (false, false) => store.insert_with_timestamp(key, &v, ts),
            };
            match r { Ok(b) => res("bool", b as i64, noval(), 0), Err(e) => res_err(&e) }
        }
        "get" => match store.get(key) { Ok(v) => res("val", 0, val_of(vals, &v), 0), Err(e) => res_err(&e) },
        "get_size" => match store.get_size(key) { Ok(n) => res("num", n as i64, noval(), 0), Err(e) => res_err(&e) },
        "contains" => res("bool", store.contains_key(key) as i64, noval(), 0),
        "delete" => match store.delete_with_timestamp(key, ts) { Ok(()) => res("unit", 0, noval(), 0), Err(e) => res_err(&e) },
        "cas" => match store.compare_and_swap_with_timestamp_and_ttl(key, &bytes_of(&op["x"]), &bytes_of(&op["v"]), ts, ttl) {
            Ok(b) => res("bool", b as i64, noval(), 0), Err(e) => res_err(&e) },
        "incr" => match store.atomic_increment_with_timestamp_and_ttl(key, op["d"].as_i64().unwrap_or(1), ts, ttl) {
            Ok(n) => res("num", n, noval(), 0), Err(e) => res_err(&e) },
        "iia" => match store.insert_if_absent(key, &bytes_of(&op["v"])) { Ok(b) => res("bool", b as i64, noval(), 0), Err(e) => res_err(&e) },
        "patch" => {
            let set = op["ps"].as_u64().unwrap_or(0);
            let pt = op["pt"].as_i64().unwrap_or(-1);
            let patch = if pt >= 0 {
                format!("[{{\"op\":\"test\",\"path\":\"/n\",\"value\":{pt}}},{{\"op\":\"replace\",\"path\":\"/n\",\"value\":{set}}}]")
            } else { format!("[{{\"op\":\"replace\",\"path\":\"/n\",\"value\":{set}}}]") };
            match store.json_patch_with_timestamp(key, patch.as_bytes(), ts) { Ok(()) => res("unit", 0, noval(), 0), Err(e) => res_err(&e) }
        }
        "update_ttl" => match store.update_ttl(key, ttl) { Ok(()) => res("unit", 0, noval(), 0), Err(e) => res_err(&e) },
        "get_ttl" => match store.get_ttl(key) { Ok(None) => res("none", 0, noval(), 0), Ok(Some(s)) => res("secs", 0, noval(), s), Err(e) => res_err(&e) },
        "sweep" => {
            let (_s, e) = store.verif_sweep_once(4);
            res("num", e as i64, noval(), 0)
        }
        "flush" => match store.flush() { Ok(()) => res("unit", 0, noval(), 0), Err(e) => res_err(&e) },
        "range" => {
            let lo = op["lo"].as_u64().unwrap_or(1) as usize;
            let hi = op["hi"].as_u64().unwrap_or(keys.len() as u64) as usize;
            let start: Vec<u8> = if lo >= 1 && lo <= keys.len() { keys[lo - 1].clone() } else if lo == 0 { Vec::new() } else { vec![0xff; 4] };
            let end: Vec<u8> = if hi >= 1 && hi <= keys.len() { keys[hi - 1].clone() } else if hi == 0 { Vec::new() } else { vec![0xff; 4] };
            match store.range_query(&start, &end, op["lim"].as_u64().unwrap_or(10) as usize) {
                Ok(items) => {
                    let it: Vec<Value> = items.iter().map(|(kk, vv)| {
                        let id = keys.iter().position(|x| x == kk).map(|i| i + 1).unwrap_or(0);
                        json!({"k": id, "val": val_of(vals, vv)})
                    }).collect();
                    return (res("list", items.len() as i64, noval(), 0), json!(it));
                }
                Err(e) => res_err(&e),
            }
        }
        other => panic!("unknown op {other}"),
    };
    (r, json!([]))
}

/// inv event body: the op description with the fields LinTrace reads (uniform shape).
fn inv_event(t: usize, op: &Value) -> Value {
    json!({"e": "inv", "t": t, "op": op["op"], "k": op["k"].as_u64().unwrap_or(1),
        "v": if op["v"].is_object() { op["v"].clone() } else { noval() },
        "x": if op["x"].is_object() { op["x"].clone() } else { noval() },
        "d": op["d"].as_i64().unwrap_or(0), "auto": op["auto"].as_bool().unwrap_or(true),
        "ts": limbs(op["tsv"].as_u64().unwrap_or(0)), "ttl": limbs(op["ttlv"].as_u64().unwrap_or(0)),
        "wttl": op["wttl"].as_bool().unwrap_or(false), "pt": op["pt"].as_i64().unwrap_or(-1),
        "ps": op["ps"].as_u64().unwrap_or(0), "lo": op["lo"].as_u64().unwrap_or(0),
        "hi": op["hi"].as_u64().unwrap_or(0), "lim": op["lim"].as_u64().unwrap_or(0)})
}

struct Shared {
    store: Arc<FeoxStore>,
    keys: Vec<Vec<u8>>,
    vals: Mutex<ValTable>,
    /// call index -> (thread, inv json) and results
    invs: Mutex<Vec<(usize, Value)>>,
    ress: Mutex<HashMap<u64, (Value, Value)>>,
    tids: Mutex<HashMap<u64, usize>>, // obs tid -> logical thread
}

fn run_thread(sh: &Arc<Shared>, t: usize, ops: &[Value], controlled: bool) {
    if controlled {
        feoxdb::verif::sched::register_current();
        feoxdb::verif::sched("start");
    }
    for op in ops {
        let idx = {
            let mut invs = sh.invs.lock().unwrap();
            invs.push((t, inv_event(t, op)));
            (invs.len() - 1) as u64
        };
        obs::api("inv", &[], idx, t as u64, 0);
        let (r, items) = exec(&sh.store, &sh.keys, op, &sh.vals);
        if controlled && op["op"] == "flush" && r["tag"] == "unit" && sh.store.verif_device_size() > 0 {
            // C02: what is on the device when flush() returns Ok: blocks offered by the allocator, blocks
            // of the live generations, generations not yet written
            let e = settled_event(&sh.store, sh.store.verif_device_size() / 4096);
            obs::api("fst", &[], e["free"].as_u64().unwrap_or(0), e["live"].as_u64().unwrap_or(0),
                     e["unwritten"].as_u64().unwrap_or(0) * 1_000_000 + e["data"].as_u64().unwrap_or(0));
        }
        if !controlled {
            // what the caller itself can see right after its call returned (C13: an admitted write never
            // leaves usage above the limit); kept undecimated (b = 1)
            obs::api("mem", &[], sh.store.memory_usage() as u64, 1, 0);
        }
        obs::api("res", &[], idx, t as u64, 0);
        sh.ress.lock().unwrap().insert(idx, (r, items));
        if controlled {
            feoxdb::verif::sched("between_ops");
        }
    }
    if controlled {
        feoxdb::verif::sched::finish_current();
    }
}

fn build_store(cfg: &Value, path: &str) -> FeoxStore {
    let mut b = FeoxStore::builder().hash_bits(4).enable_ttl(cfg["ttl"].as_bool().unwrap_or(true));
    let lim = cfg["lim"].as_i64().unwrap_or(-1);
    b = if lim >= 0 { b.max_memory(lim as usize) } else { b.no_memory_limit() };
    if cfg["pers"].as_bool().unwrap_or(false) {
        let fmt = cfg["fmt"].as_u64().unwrap_or(3) as u32;
        if fmt < 3 && !std::path::Path::new(path).exists() {
            // a legacy (v1/v2) device: the real store then writes it in compatibility mode
            crate::seqdrv::create_legacy_device(path, fmt, cfg["blocks"].as_u64().unwrap_or(64));
        }
        b = b.device_path(path.to_string()).file_size(cfg["blocks"].as_u64().unwrap_or(64) * 4096)
            .enable_caching(cfg["cache"].as_bool().unwrap_or(false));
    }
    b.build().expect("build store")
}

fn reset_event(cfg: &Value, keys: &[Vec<u8>], store: &FeoxStore, threads: usize, vals: &Mutex<ValTable>, init_ops: &[Value]) -> Value {
    let init: Vec<Value> = keys.iter().enumerate().map(|(i, k)| match store.verif_record(k) {
        Some(r) => {
            // the value is the one the last initialising insert wrote (a get would hide expired ones)
            let v = init_ops.iter().rev().find(|o| o["k"].as_u64() == Some(i as u64 + 1) && o["v"].is_object())
                .map(|o| o["v"].clone()).unwrap_or_else(|| val_of(vals, &store.get(k).unwrap_or_default()));
            json!({"p": true, "ts": limbs(r.timestamp), "exp": limbs(r.ttl_expiry), "val": v})
        }
        None => json!({"p": false, "ts": [0,0,0], "exp": [0,0,0], "val": noval()}),
    }).collect();
    json!({"e": "reset", "cfg": {"pers": cfg["pers"].as_bool().unwrap_or(false), "ttl": cfg["ttl"].as_bool().unwrap_or(true),
            "cache": cfg["cache"].as_bool().unwrap_or(false), "fmt": cfg["fmt"].as_u64().unwrap_or(3), "lim": cfg["lim"].as_i64().unwrap_or(-1)},
        "now": limbs(NOW), "klen": keys.iter().map(|k| k.len()).collect::<Vec<_>>(),
        "overhead": FeoxStore::verif_record_overhead(), "threads": threads, "init": init})
}

fn final_event(store: &FeoxStore, keys: &[Vec<u8>]) -> Value {
    let tree: Vec<Vec<u8>> = store.verif_tree().iter().map(|r| r.key.clone()).collect();
    let hash: Vec<Value> = keys.iter().map(|k| match store.verif_record(k) {
        Some(r) => json!({"p": true, "ts": limbs(r.timestamp), "vlen": r.value_len}),
        None => json!({"p": false, "ts": [0,0,0], "vlen": 0}),
    }).collect();
    json!({"e": "final", "hash": hash, "tree": keys.iter().map(|k| tree.contains(k)).collect::<Vec<_>>(),
           "len": store.len(), "mem": store.memory_usage()})
}

/// After the last reader left and a flush returned: blocks the free-space manager offers, blocks
/// the live generations occupy (from the documented layout), size of the data area.
fn settled_event(store: &FeoxStore, blocks: u64) -> Value {
    let fmt = store.verif_format_version();
    let live: u64 = store.verif_snapshot().iter().filter(|r| r.sector != 0)
        .map(|r| (crate::layout::encode_record(fmt, r.sector, &r.key, &vec![0u8; r.value_len], 1, 0).len() / crate::layout::BLOCK) as u64).sum();
    let unwritten = store.verif_snapshot().iter().filter(|r| r.sector == 0).count();
    json!({"e": "settled", "free": store.verif_free_runs().iter().map(|r| r.1).sum::<u64>(), "live": live, "data": blocks - crate::layout::DATA_START, "unwritten": unwritten})
}

/// Turn the raw event list of one run into history events.
fn history(raw: &[RawEv], sh: &Shared, keys: &[Vec<u8>]) -> Vec<Value> {
    let invs = sh.invs.lock().unwrap();
    let ress = sh.ress.lock().unwrap();
    let mut tid_thread: HashMap<u64, usize> = sh.tids.lock().unwrap().clone();
    let mut out = Vec::new();
    for e in raw {
        match e.kind {
            "inv" => {
                tid_thread.insert(e.tid, e.b as usize);
                out.push(invs[e.a as usize].1.clone());
            }
            "res" => {
                if let Some((r, items)) = ress.get(&e.a) {
                    out.push(json!({"e": "res", "t": e.b, "res": r, "items": items}));
                }
            }
            "pub" => {
                let k = keys.iter().position(|x| *x == e.key).map(|i| i + 1).unwrap_or(0);
                if k == 0 { continue; }
                let t = *tid_thread.get(&e.tid).unwrap_or(&0);
                out.push(json!({"e": "pub", "t": if t == 0 { 1 } else { t }, "bg": t == 0, "k": k,
                                "ts": limbs(e.a), "exp": limbs(e.b), "kind": e.c}));
            }
            "mem" => out.push(json!({"e": "mem", "v": e.a, "own": e.b})),
            "fst" => {
                let t = *tid_thread.get(&e.tid).unwrap_or(&0);
                out.push(json!({"e": "fstate", "t": t, "free": e.a, "live": e.b, "unwritten": e.c / 1_000_000, "data": e.c % 1_000_000}));
            }
            _ => {}
        }
    }
    out
}

fn setup_program(prog: &Value, path: &str) -> (Arc<Shared>, Vec<Vec<Value>>) {
    let cfg = &prog["cfg"];
    let keys: Vec<Vec<u8>> = prog["keys"].as_array().unwrap().iter().map(|k| k.as_str().unwrap().as_bytes().to_vec()).collect();
    let _ = std::fs::remove_file(path);
    let store = Arc::new(build_store(cfg, path));
    if cfg["cachemode"].as_bool().unwrap_or(false) {
        let cx = Arc::new(CacheCtx::new(cfg, &prog["gens"]));
        cx.log(json!({"op": "init", "k": 0, "g": 0, "nb": 1, "nkeys": cx.keys.len(), "res": "ok", "vg": 0}));
        *CACHE.lock().unwrap() = Some(cx.clone());
        for op in prog["init"].as_array().unwrap_or(&Vec::new()) {
            let ev = cx.exec(op);
            cx.log(ev);
        }
        feoxdb::verif::cache_locks::watch(&[cx.cache.verif_bucket_lock_addr(0)], true);
    } else {
        *CACHE.lock().unwrap() = None;
        feoxdb::verif::cache_locks::watch(&[], false);
    }
    for op in prog["init"].as_array().unwrap_or(&Vec::new()) {
        if op["op"].as_str().map_or(false, |n| n.starts_with("c_")) { continue; }
        let vals = Mutex::new(ValTable::new());
        let (r, _) = exec(&store, &keys, op, &vals);
        if r["tag"].as_str().map_or(true, |t| !["bool", "unit", "num", "OutOfMemory"].contains(&t)) {
            panic!("init op failed: {r}");
        }
    }
    let threads: Vec<Vec<Value>> = prog["threads"].as_array().unwrap().iter().map(|t| t.as_array().unwrap().clone()).collect();
    let sh = Arc::new(Shared { store, keys, vals: Mutex::new(ValTable::new()), invs: Mutex::new(Vec::new()),
                               ress: Mutex::new(HashMap::new()), tids: Mutex::new(HashMap::new()) });
    (sh, threads)
}

/// One controlled schedule; returns (history events, choices per decision point, stalled).
fn run_schedule(prog: &Value, schedule: &[usize], path: &str, pinout: Option<&str>) -> (Vec<Value>, Vec<Vec<usize>>, bool, Vec<&'static str>) {
    let (ev, choices, stalled, parked_at, _) = run_schedule_arrivals(prog, schedule, path, pinout);
    (ev, choices, stalled, parked_at)
}

/// As `run_schedule`; additionally the list of (thread taken, point it arrived at) per decision
/// ("done" when the thread finished, "<stall>" when it blocked) - the conformance data of StoreConc.tla.
fn run_schedule_arrivals(prog: &Value, schedule: &[usize], path: &str, pinout: Option<&str>) -> (Vec<Value>, Vec<Vec<usize>>, bool, Vec<&'static str>, Vec<(usize, &'static str)>) {
    feoxdb::verif::set_now(NOW);
    let (sh, threads) = setup_program(prog, path);
    let nthreads = threads.len();
    let reset = reset_event(&prog["cfg"], &sh.keys, &sh.store, nthreads, &sh.vals, prog["init"].as_array().map(|a| a.as_slice()).unwrap_or(&[]));
    obs::install();
    feoxdb::verif::sched::enable();
    let mut handles = Vec::new();
    let mut ids = Vec::new();
    for (i, ops) in threads.into_iter().enumerate() {
        let sh2 = sh.clone();
        let h = std::thread::spawn(move || run_thread(&sh2, i + 1, &ops, true));
        ids.push(h.thread().id());
        handles.push(h);
    }
    for id in &ids {
        feoxdb::verif::sched::wait_parked(*id, Duration::from_secs(5));
    }
    let mut alive = vec![true; nthreads];
    let script: Vec<(usize, String)> = prog["script"].as_array().map(|a| a.iter().filter_map(|d| {
        Some((d[0].as_u64()? as usize, d[1].as_str()?.to_string()))
    }).collect()).unwrap_or_default();
    let mut script_pos = 0usize;
    let fine_points: Vec<String> = prog["points"].as_array().map(|a| a.iter().filter_map(|x| x.as_str().map(String::from)).collect()).unwrap_or_default();
    let mut choices = Vec::new();
    let mut arrivals: Vec<(usize, &'static str)> = Vec::new();
    let mut parked_at: Vec<&'static str> = Vec::new();   // where the previously run thread stands at each decision
    let mut pos = 0;
    let mut stalled = false;
    let mut prev: Option<usize> = None;
    let mut spins = vec![0usize; nthreads];
    let mut streak = 0usize;
    let mut blocked = vec![false; nthreads];
    let mut all_blocked_rounds = 0usize;
    let mut last_point: Vec<&'static str> = vec![""; nthreads];
    let mut logged_calls: Vec<Option<u64>> = vec![None; nthreads];
    while alive.iter().any(|a| *a) {
        let mut runnable: Vec<usize> = (0..nthreads).filter(|i| alive[*i] && !blocked[*i]).collect();
        if runnable.is_empty() {
            // every live thread waits for something a parked thread holds: give them one long chance
            for b in blocked.iter_mut() { *b = false; }
            runnable = (0..nthreads).filter(|i| alive[*i]).collect();
            all_blocked_rounds += 1;
            if all_blocked_rounds > 2 { stalled = true; break; }
        }
        // default policy: keep running the same thread (no preemption), else the lowest alive
        let mut default = match prev { Some(p) if alive[p] && !blocked[p] => p, _ => runnable[0] };
        // fairness: a thread spinning through the same point (a wait loop) yields to the others
        if (spins[default] >= 3 || streak >= 40) && runnable.len() > 1 {
            default = *runnable.iter().find(|r| **r != default).unwrap();
        }
        // a scripted schedule ("run thread t until it stands at point p"): directives are consumed in
        // order; a thread that is blocked, finished or has reached its point yields to the next one
        while script_pos < script.len() {
            let (st, _) = &script[script_pos];
            if *st < nthreads && alive[*st] && !blocked[*st] { break; }
            script_pos += 1;
        }
        let pick = if script_pos < script.len() { script[script_pos].0 }
                   else if pos < schedule.len() && runnable.contains(&schedule[pos]) { schedule[pos] } else { default };
        let mut opts = vec![pick];
        // (a plain loop: the iterator-adapter form of this line drew a stack-use-after-scope report from the
        // AddressSanitizer build inside std's Vec::extend - instrumentation of iterator temporaries, not a memory error)
        for r in &runnable { if *r != pick { opts.push(*r); } }
        choices.push(opts);
        parked_at.push(match prev { Some(p) if alive[p] => last_point[p], _ => "" });
        pos += 1;
        if prev == Some(pick) { streak += 1; } else { streak = 0; }
        prev = Some(pick);
        let step_to = Duration::from_millis(if all_blocked_rounds > 0 { 4000 } else { 700 });
        let mut arrived = feoxdb::verif::sched::step(ids[pick], step_to);
        // the fine-grained points inside the ordered-index updates and the version clock are decision points only for the
        // programs that name them; everywhere else the thread walks straight through
        while let Some(name) = arrived {
            if !((name.starts_with("tree_") || name.starts_with("cache_") || name == "clock_load" || name == "ext_load") && !fine_points.iter().any(|x| x == name)) { break; }
            arrived = feoxdb::verif::sched::step(ids[pick], step_to);
        }
        arrivals.push((pick, arrived.unwrap_or("done")));
        if let Some(cx) = cache_ctx() {
            // one TraceCache event per critical section (see CacheCtx)
            let left = last_point[pick];
            let returned = matches!(arrived, None | Some("between_ops"));
            // an exclusive section that is not the call's last one: a pass of the sweep over the watched bucket
            // (evict_entries inside insert, or an explicit sweep that is not finished yet)
            if left == "cache_wr" && !returned && arrived != Some("<stall>") {
                cx.log(json!({"op": "sweep_part", "k": 0, "g": 0, "res": "ok", "vg": 0, "t": pick + 1}));
            }
            if returned {
                // the call this thread has just finished (its result was stored before it parked)
                let idx = sh.invs.lock().unwrap().iter().enumerate().rev().find(|(_, (t, _))| *t == pick + 1).map(|(i, _)| i as u64);
                if let Some(i) = idx {
                    if logged_calls[pick] != Some(i) {
                        if let Some((r, _)) = sh.ress.lock().unwrap().get(&i) {
                            let mut ev = r["cev"].clone();
                            if ev.is_object() {
                                // under concurrency a sweep promises nothing at its return (another thread may have
                                // inserted meanwhile, or held the eviction lock): unconstrained
                                if ev["op"] == "evict" { ev["op"] = json!("evict_conc"); }
                                ev["t"] = json!(pick + 1);
                                cx.log(ev);
                                logged_calls[pick] = Some(i);
                            }
                        }
                    }
                }
            }
        }
        match arrived {
            None => { alive[pick] = false; for b in blocked.iter_mut() { *b = false; } }
            // the thread is blocked on a lock or channel that a parked thread owns: run the others
            Some("<stall>") => { blocked[pick] = true; }
            Some(name) => {
                for b in blocked.iter_mut() { *b = false; }
                if last_point[pick] == name { spins[pick] += 1; } else { spins[pick] = 0; last_point[pick] = name; }
                if script_pos < script.len() && script[script_pos].0 == pick && script[script_pos].1 == name { script_pos += 1; }
            }
        }
        if script_pos < script.len() && script[script_pos].0 == pick && (!alive[pick] || blocked[pick]) { script_pos += 1; }
        if pos > 5000 { stalled = true; break; }
        if pos < 400 { obs::api("mem", &[], sh.store.memory_usage() as u64, 0, 0); }
    }
    feoxdb::verif::sched::disable();
    if stalled {
        // the controller gave up on this schedule: let the threads run free to completion so that
        // nothing of this run leaks into the next one, then discard its events
        for h in handles {
            let _ = h.join();
        }
        obs::uninstall();
        let _ = obs::take();
        if let Some(cx) = cache_ctx() {
            // a cache program: what was recorded up to the stall is still a valid prefix (a thread that panicked
            // inside the cache never reaches its next point; its message is on stderr)
            feoxdb::verif::cache_locks::watch(&[], false);
            *CACHE.lock().unwrap() = None;
            let ev = std::mem::take(&mut *cx.events.lock().unwrap());
            return (ev, choices, true, parked_at, arrivals);
        }
        return (vec![reset, json!({"e": "stall", "schedule": schedule})], choices, true, parked_at, arrivals);
    }
    for h in handles {
        let _ = h.join();
    }
    obs::uninstall();
    let raw = obs::take();
    if let Some(cx) = cache_ctx() {
        feoxdb::verif::cache_locks::watch(&[], false);
        *CACHE.lock().unwrap() = None;
        let ev = std::mem::take(&mut *cx.events.lock().unwrap());
        return (ev, choices, false, parked_at, arrivals);
    }
    let mut ev = vec![reset];
    ev.extend(history(&raw, &sh, &sh.keys));
    ev.push(final_event(&sh.store, &sh.keys));
    if let Some(pp) = pinout {
        write_pin_events(&raw, pp);
    }
    if prog["cfg"]["pers"].as_bool().unwrap_or(false) {
        // dropping a persistent store costs 0.5 s; leak it (the process is short lived)
        let _ = sh.store.flush();
        ev.push(settled_event(&sh.store, prog["cfg"]["blocks"].as_u64().unwrap_or(64)));
        if let Ok(s) = Arc::try_unwrap(sh) { std::mem::forget(s.store); }
    }
    (ev, choices, false, parked_at, arrivals)
}

pub fn main(args: &[String]) -> i32 {
    let o = Opts::parse(args);
    match o.get("mode").unwrap_or("dfs") {
        "dfs" => dfs_main(&o),
        "replay" => replay_main(&o),
        "storm" => storm_main(&o),
        "limitstorm" => limitstorm_main(&o),
        "scanstorm" => scanstorm_main(&o),
        "readstorm" => readstorm_main(&o),
        _ => free_main(&o),
    }
}

fn dfs_main(o: &Opts) -> i32 {
    let progs: Vec<Value> = std::fs::read_to_string(o.req("prog")).expect("prog").lines()
        .filter(|l| !l.trim().is_empty()).map(|l| serde_json::from_str(l).expect("prog json")).collect();
    let max_sched: usize = o.num("maxsched", 400);
    let max_preempt: usize = o.num("preempt", 2);
    let mut out = std::io::BufWriter::new(std::fs::File::create(o.req("out")).expect("out"));
    let path = format!("{}/conc_{}.feox", o.get("dir").unwrap_or("/dev/shm"), std::process::id());
    crate::util::watchdog::start(o.num("watchdog", 60));
    let mut total = 0usize;
    let mut stalls = 0usize;
    let mut events = 0usize;
    let mut truncated = 0usize;
    for (pi, prog) in progs.iter().enumerate() {
        let mut stack: Vec<Vec<usize>> = vec![vec![]];
        let mut n = 0;
        while let Some(prefix) = stack.pop() {
            if n >= max_sched { truncated += 1; break; }
            crate::util::watchdog::beat(&format!("program {pi} schedule {prefix:?}"));
            let (ev, choices, stalled, parked_at) = run_schedule(prog, &prefix, &path, o.get("pinout"));
            // optional focus: preempt a thread only where it stands at one of the named points
            let focus: Option<Vec<String>> = prog["points"].as_array().map(|a| a.iter().filter_map(|x| x.as_str().map(String::from)).collect());
            if stalled { stalls += 1; }
            if prog["script"].is_array() {
                // a directed schedule: no enumeration of alternatives
                for e in &ev { writeln!(out, "{}", e).unwrap(); events += 1; }
                n += 1;
                continue;
            }
            // choices[d][0] is the pick actually taken at decision d, the rest are alternatives
            for d in prefix.len()..choices.len() {
                for &alt in choices[d].iter().skip(1) {
                    if let Some(f) = &focus {
                        if d > 0 && choices[d].contains(&choices[d - 1][0]) && !f.iter().any(|x| x == parked_at[d]) { continue; }
                    }
                    let mut p: Vec<usize> = choices[..d].iter().map(|c| c[0]).collect();
                    p.push(alt);
                    // preemption bound: switching away from a thread that could have continued
                    let mut pre = 0;
                    for i in 1..p.len() {
                        if p[i] != p[i - 1] && choices[i].contains(&p[i - 1]) { pre += 1; }
                    }
                    if pre <= max_preempt { stack.push(p); }
                }
            }
            for e in &ev { writeln!(out, "{}", e).unwrap(); events += 1; }
            n += 1;
        }
        total += n;
    }
    out.flush().unwrap();
    let _ = std::fs::remove_file(&path);
    println!("{}", json!({"programs": progs.len(), "schedules": total, "stalls": stalls, "events": events, "truncated_programs": truncated}));
    0
}

/// Replay of behaviours generated by TLC from StoreConc.tla (spec -> impl): every line of the program file
/// carries a complete `schedule` (thread per step); the history goes to --out (LinTrace vocabulary), the
/// points at which the real threads arrived go to --steps, one line per program.
fn replay_main(o: &Opts) -> i32 {
    let progs: Vec<Value> = std::fs::read_to_string(o.req("prog")).expect("prog").lines()
        .filter(|l| !l.trim().is_empty()).map(|l| serde_json::from_str(l).expect("prog json")).collect();
    let mut out = std::io::BufWriter::new(std::fs::File::create(o.req("out")).expect("out"));
    let mut steps = std::io::BufWriter::new(std::fs::File::create(o.req("steps")).expect("steps"));
    let path = format!("{}/conc_{}.feox", o.get("dir").unwrap_or("/dev/shm"), std::process::id());
    crate::util::watchdog::start(o.num("watchdog", 60));
    let mut stalls = 0usize;
    let mut events = 0usize;
    for (pi, prog) in progs.iter().enumerate() {
        let schedule: Vec<usize> = prog["schedule"].as_array().map(|a| a.iter().filter_map(|x| x.as_u64().map(|v| v as usize)).collect()).unwrap_or_default();
        crate::util::watchdog::beat(&format!("replay program {pi}"));
        let (ev, _choices, stalled, _parked, arrivals) = run_schedule_arrivals(prog, &schedule, &path, None);
        if stalled { stalls += 1; }
        let first = events + 1;
        for e in &ev { writeln!(out, "{}", e).unwrap(); events += 1; }
        let results: Vec<&Value> = ev.iter().filter(|e| e["e"] == "res").collect();
        writeln!(steps, "{}", json!({"i": pi, "stalled": stalled, "first_event": first,
            "arrivals": arrivals.iter().map(|(t, a)| json!([t, a])).collect::<Vec<_>>(),
            "res": results, "pubs": ev.iter().filter(|e| e["e"] == "pub").collect::<Vec<_>>(),
            "final": ev.iter().find(|e| e["e"] == "final")})).unwrap();
    }
    out.flush().unwrap();
    steps.flush().unwrap();
    let _ = std::fs::remove_file(&path);
    println!("{}", json!({"programs": progs.len(), "schedules": progs.len(), "stalls": stalls, "events": events}));
    0
}

/// Free-running stress: seeded random ops per thread, random yields at the scheduling points.
fn free_main(o: &Opts) -> i32 {
    let seed: u64 = o.num("seed", 1);
    let nthreads: usize = o.num("threads", 3);
    let nops: usize = o.num("ops", 40);
    let nkeys: usize = o.num("keys", 2);
    let pers = o.num("pers", 0u32) == 1;
    let lim: i64 = o.num("lim", -1);
    let rounds: usize = o.num("rounds", 20);
    let churn = o.num("churn", 0u32) == 1;
    let background: usize = o.num("background", 0);
    let cfg = json!({"pers": pers, "ttl": true, "cache": o.num("cache", 0u32) == 1, "lim": lim,
                     "blocks": o.num("blocks", 40u64)});
    if pers { obs::set_cpus(o.num("cpus", 4)); }
    let mut rng = StdRng::seed_from_u64(seed);
    let mut out = std::io::BufWriter::new(std::fs::File::create(o.req("out")).expect("out"));
    let path = format!("{}/free_{}_{}.feox", o.get("dir").unwrap_or("/dev/shm"), std::process::id(), seed);
    crate::util::watchdog::start(o.num("watchdog", 60));
    obs::set_hang_lockout(o.get("lockout"));
    let keynames: Vec<String> = (1..=nkeys).map(|i| format!("key{i:04}")).collect();
    let big = pers && o.num("bigvals", 1u32) == 1;
    let pool: Vec<Value> = vec![
        json!({"k": "b", "id": 1, "len": if big { 3000 } else { 3 }, "n": 0}),
        json!({"k": "b", "id": 2, "len": if big { 5000 } else { 5 }, "n": 0}),
        json!({"k": "i", "id": 0, "len": 8, "n": 1}),
        json!({"k": "i", "id": 0, "len": 8, "n": 2}),
        json!({"k": "d", "id": 0, "len": 7, "n": 1}),
    ];
    let mut events = 0usize;
    for round in 0..rounds {
        crate::util::watchdog::beat(&format!("free round {round}"));
        feoxdb::verif::set_now(NOW);
        let mut init = Vec::new();
        for k in 1..=nkeys {
            if rng.random_bool(0.6) {
                let ttl = if rng.random_range(0..5) == 0 { 5 } else { 0 };
                init.push(json!({"op": "insert", "k": k, "v": pool[rng.random_range(0..pool.len())], "auto": false,
                                 "tsv": NOW - 10 * E9 + rng.random_range(0..3), "ttlv": ttl, "wttl": ttl > 0}));
            }
        }
        let mut threads = Vec::new();
        for _ in 0..nthreads {
            let mut ops = Vec::new();
            for _ in 0..nops {
                let k = rng.random_range(1..=nkeys);
                let auto = rng.random_bool(0.6);
                let tsv = NOW - 5 * E9 + rng.random_range(0..6);
                let v = pool[rng.random_range(0..pool.len())].clone();
                let op = if churn {
                    // create / delete churn on very few keys, scans in between
                    match rng.random_range(0..8) {
                        0 | 1 | 2 => json!({"op": "insert", "k": k, "v": v, "auto": true}),
                        3 | 4 | 5 => json!({"op": "delete", "k": k, "auto": true}),
                        6 => json!({"op": "iia", "k": k, "v": v}),
                        _ => json!({"op": "range", "lo": 1, "hi": nkeys, "lim": nkeys + 1}),
                    }
                } else { match rng.random_range(0..14) {
                    0 | 1 => json!({"op": "insert", "k": k, "v": v, "auto": auto, "tsv": tsv, "bytes": rng.random_bool(0.5)}),
                    2 => json!({"op": "delete", "k": k, "auto": auto, "tsv": tsv}),
                    3 | 4 => json!({"op": "get", "k": k}),
                    5 | 6 => json!({"op": "cas", "k": k, "x": pool[rng.random_range(0..pool.len())], "v": v, "auto": auto, "tsv": tsv}),
                    7 | 8 => json!({"op": "incr", "k": k, "d": rng.random_range(1..4), "auto": true}),
                    9 => json!({"op": "iia", "k": k, "v": v}),
                    10 => json!({"op": "patch", "k": k, "ps": rng.random_range(1..5), "pt": -1, "auto": auto, "tsv": tsv}),
                    11 => json!({"op": "range", "lo": 1, "hi": nkeys, "lim": rng.random_range(1..nkeys + 2)}),
                    12 if pers => json!({"op": "flush"}),
                    12 => json!({"op": "contains", "k": k}),
                    _ => json!({"op": "update_ttl", "k": k, "ttlv": rng.random_range(0..3) * 50}),
                } };
                ops.push(op);
            }
            threads.push(ops);
        }
        let prog = json!({"cfg": cfg, "keys": keynames, "init": init, "threads": threads});
        let (sh, threads) = setup_program(&prog, &path);
        for i in 0..background {
            // keys outside the universe: they only make the ordered index realistically deep
            let _ = sh.store.insert(format!("zbg{i:06}").as_bytes(), b"bg");
        }
        let reset = reset_event(&prog["cfg"], &sh.keys, &sh.store, nthreads + 1, &sh.vals, prog["init"].as_array().map(|a| a.as_slice()).unwrap_or(&[]));
        obs::install();
        feoxdb::verif::sched::set_random_yield(if churn { 0 } else { o.num("yieldmask", 3) }, seed.wrapping_mul(31).wrapping_add(round as u64));
        let stop = Arc::new(std::sync::atomic::AtomicBool::new(false));
        // monitor: samples memory usage (C13: never above the limit at any instant)
        let mon = {
            let sh2 = sh.clone();
            let stop2 = stop.clone();
            std::thread::spawn(move || {
                while !stop2.load(std::sync::atomic::Ordering::SeqCst) {
                    obs::api("mem", &[], sh2.store.memory_usage() as u64, 0, 0);
                    std::thread::yield_now();
                }
            })
        };
        let mut handles = Vec::new();
        for (i, ops) in threads.into_iter().enumerate() {
            let sh2 = sh.clone();
            handles.push(std::thread::spawn(move || run_thread(&sh2, i + 1, &ops, false)));
        }
        for h in handles { let _ = h.join(); }
        stop.store(true, std::sync::atomic::Ordering::SeqCst);
        let _ = mon.join();
        feoxdb::verif::sched::set_random_yield(0, 0);
        if pers { let _ = sh.store.flush(); }
        obs::uninstall();
        let raw = obs::take();
        let mut ev = vec![reset];
        let mut hist = history(&raw, &sh, &sh.keys);
        // keep the trace small: at most every 8th memory sample
        let mut c = 0;
        hist.retain(|e| { if e["e"] == "mem" && e["own"] == 0 { c += 1; c % 8 == 0 } else { true } });
        ev.extend(hist);
        ev.push(final_event(&sh.store, &sh.keys));
        if pers { ev.push(settled_event(&sh.store, cfg["blocks"].as_u64().unwrap_or(64))); }
        for e in &ev { writeln!(out, "{}", e).unwrap(); events += 1; }
        if let Some(lp) = o.get("lockout") {
            let mut f = std::fs::OpenOptions::new().create(true).append(true).open(lp).expect("lockout");
            for e in &raw {
                if e.kind == "lk" {
                    writeln!(f, "{}", json!({"tid": e.tid + 1000 * round as u64, "lock": String::from_utf8_lossy(&e.key), "acq": e.a, "mode": e.b})).unwrap();
                }
            }
        }
        // pin / device events for the no-overwrite-while-pinned check
        if pers {
            if let Some(pp) = o.get("pinout") {
                write_pin_events(&raw, pp);
            }
        }
        match Arc::try_unwrap(sh) {
            Ok(s) => { if pers { std::mem::forget(s.store); } }
            Err(_) => {}
        }
    }
    out.flush().unwrap();
    let _ = std::fs::remove_file(&path);
    println!("{}", json!({"rounds": rounds, "events": events}));
    0
}

/// C13: creators and deleters hammer a memory limit that admits only half of them, without any
/// recording in their way; every writer looks at memory_usage() right after each admitted insert and a
/// monitor polls it.  The trace holds the reset, the PEAK usage anybody saw (one `mem` event) and the
/// quiescent final state; LinTrace's MemBound judges it.
fn limitstorm_main(o: &Opts) -> i32 {
    use std::sync::atomic::{AtomicBool, AtomicU64, Ordering};
    let seed: u64 = o.num("seed", 1);
    let nthreads: usize = o.num("threads", 8);
    let millis: u64 = o.num("millis", 1500);
    let admit: usize = o.num("admit", nthreads / 2);
    crate::util::watchdog::start(o.num("watchdog", 60));
    let mut out = std::io::BufWriter::new(std::fs::File::create(o.req("out")).expect("out"));
    let keynames: Vec<String> = (1..=nthreads).map(|i| format!("k{i}")).collect();
    let vlen = 3 + (seed % 5) as usize;
    let footprint = FeoxStore::verif_record_overhead() + 2 + vlen;
    // (with growers: their base records are part of the budget; a document base is 4 bytes longer than a plain one)
    let ngrow: usize = o.num("growers", 0usize).min(nthreads.saturating_sub(1));
    let lim = (admit.max(ngrow + 1) * footprint + 4 * ngrow.div_ceil(3)) as i64;
    let prog = json!({"cfg": {"pers": false, "ttl": false, "cache": false, "lim": lim}, "keys": keynames, "init": [], "threads": []});
    feoxdb::verif::set_now(NOW);
    let (sh, _) = setup_program(&prog, "");
    let reset = reset_event(&prog["cfg"], &sh.keys, &sh.store, nthreads, &sh.vals, &[]);
    let stop = Arc::new(AtomicBool::new(false));
    let peak = Arc::new(AtomicU64::new(0));
    let admitted = Arc::new(AtomicU64::new(0));
    let mut hs = Vec::new();
    // --growers n: the first n threads own a key that is PRESENT (part of the budget) and keep asking for a replacement
    // that can never fit (compare-and-swap, plain overwrite, JSON patch on a document): every one of these calls is
    // refused with OutOfMemory and must not move the usage at all while the creators compete for what is left
    let growers: usize = o.num("growers", 0usize).min(nthreads.saturating_sub(1));
    let refused = Arc::new(AtomicU64::new(0));
    for t in 0..growers {
        let base = if t % 3 == 2 { format!("{{\"n\":{}}}", 1).into_bytes() } else { vec![b'g'; vlen] };
        sh.store.insert(&sh.keys[t], &base).expect("grower base");
    }
    for t in 0..nthreads {
        let (sh2, stop2, peak2, adm2, ref2) = (sh.clone(), stop.clone(), peak.clone(), admitted.clone(), refused.clone());
        if t < growers {
            hs.push(std::thread::spawn(move || {
                let key = sh2.keys[t].clone();
                let base = if t % 3 == 2 { format!("{{\"n\":{}}}", 1).into_bytes() } else { vec![b'g'; vlen] };
                let huge = vec![b'H'; lim as usize + 64];
                let patch = format!("[{{\"op\":\"add\",\"path\":\"/p\",\"value\":\"{}\"}}]", "a".repeat(lim as usize + 64));
                while !stop2.load(Ordering::Relaxed) {
                    let r = match t % 3 {
                        0 => sh2.store.compare_and_swap(&key, &base, &huge).map(|_| ()),
                        1 => sh2.store.insert(&key, &huge).map(|_| ()),
                        _ => sh2.store.json_patch(&key, patch.as_bytes()),
                    };
                    if r.is_err() { ref2.fetch_add(1, Ordering::Relaxed); }
                    peak2.fetch_max(sh2.store.memory_usage() as u64, Ordering::Relaxed);
                }
            }));
            continue;
        }
        hs.push(std::thread::spawn(move || {
            let key = sh2.keys[t].clone();
            let val = vec![b'v'; vlen];
            while !stop2.load(Ordering::Relaxed) {
                if sh2.store.insert(&key, &val).is_ok() {
                    peak2.fetch_max(sh2.store.memory_usage() as u64, Ordering::Relaxed);
                    adm2.fetch_add(1, Ordering::Relaxed);
                    let _ = sh2.store.delete(&key);
                }
            }
        }));
    }
    let t0 = std::time::Instant::now();
    while t0.elapsed() < Duration::from_millis(millis) {
        peak.fetch_max(sh.store.memory_usage() as u64, Ordering::Relaxed);
        crate::util::watchdog::beat("limitstorm");
    }
    stop.store(true, Ordering::SeqCst);
    for h in hs { let _ = h.join(); }
    // quiescence with nothing stored: usage and len must be back at zero
    for k in &sh.keys { let _ = sh.store.delete(k); }
    let ev = vec![reset, json!({"e": "mem", "v": peak.load(Ordering::SeqCst), "own": 1}), final_event(&sh.store, &sh.keys)];
    for e in &ev { writeln!(out, "{}", e).unwrap(); }
    out.flush().unwrap();
    println!("{}", json!({"rounds": 1, "events": ev.len(), "admitted": admitted.load(Ordering::SeqCst), "refused_growers": refused.load(Ordering::SeqCst), "peak": peak.load(Ordering::SeqCst), "lim": lim}));
    0
}

/// C20 (AddressSanitizer build): readers spinning on a few hot keys of a PERSISTENT store (get, get_bytes, get_size,
/// range_query, contains) while a writer keeps replacing them and calling flush(): every read races with the flush
/// worker offloading the very generation it reads (value released from memory, sector published).  Every value is one
/// byte repeated: a read must return a uniform value of a length that was written.  Unrecorded; result line only.
fn readstorm_main(o: &Opts) -> i32 {
    use std::sync::atomic::{AtomicBool, AtomicU64, Ordering};
    let millis: u64 = o.num("millis", 2000);
    let nreaders: usize = o.num("readers", 6);
    let nkeys: usize = o.num("keys", 2);
    crate::util::watchdog::start(o.num("watchdog", 60));
    let path = format!("{}/readstorm_{}.feox", o.get("dir").unwrap_or("/dev/shm"), std::process::id());
    let _ = std::fs::remove_file(&path);
    let store = Arc::new(FeoxStore::builder().device_path(path.clone()).file_size(16 * 1024 * 1024)
        .enable_caching(o.num("cache", 0u32) == 1).build().expect("build store"));
    let keys: Vec<Vec<u8>> = (0..nkeys).map(|i| format!("hot{i}").into_bytes()).collect();
    for k in &keys { store.insert(k, &vec![b'a'; 600]).expect("insert"); }
    let stop = Arc::new(AtomicBool::new(false));
    let (reads, torn) = (Arc::new(AtomicU64::new(0)), Arc::new(AtomicU64::new(0)));
    let mut hs = Vec::new();
    for r in 0..nreaders {
        let (st, stop2, keys2, reads2, torn2) = (store.clone(), stop.clone(), keys.clone(), reads.clone(), torn.clone());
        hs.push(std::thread::spawn(move || {
            let mut n = 0usize;
            while !stop2.load(Ordering::Relaxed) {
                let k = &keys2[n % keys2.len()];
                n += 1;
                let v: Option<Vec<u8>> = match (r + n) % 5 {
                    0 => st.get_bytes(k).ok().map(|b| b.to_vec()),
                    1 => st.range_query(b"hot", b"hou", 4).ok().and_then(|items| items.into_iter().next().map(|x| x.1)),
                    2 => { let _ = st.get_size(k); let _ = st.contains_key(k); None }
                    _ => st.get(k).ok(),
                };
                if let Some(v) = v {
                    reads2.fetch_add(1, Ordering::Relaxed);
                    if v.is_empty() || v.iter().any(|b| *b != v[0]) || ![600usize, 900, 5000].contains(&v.len()) {
                        torn2.fetch_add(1, Ordering::Relaxed);
                    }
                }
            }
        }));
    }
    let t0 = std::time::Instant::now();
    let mut rounds = 0u64;
    while t0.elapsed() < Duration::from_millis(millis) {
        for (i, k) in keys.iter().enumerate() {
            let b = b'a' + ((rounds as usize + i) % 26) as u8;
            let _ = store.insert(k, &vec![b; [600usize, 900, 5000][(rounds as usize + i) % 3]]);
        }
        let _ = store.flush();
        rounds += 1;
        crate::util::watchdog::beat("readstorm");
    }
    stop.store(true, Ordering::SeqCst);
    for h in hs { let _ = h.join(); }
    let (r, t) = (reads.load(Ordering::SeqCst), torn.load(Ordering::SeqCst));
    if let Ok(s) = Arc::try_unwrap(store) { std::mem::forget(s); }
    let _ = std::fs::remove_file(&path);
    println!("{}", json!({"rounds": rounds, "reads": r, "foreign": t}));
    if t > 0 { return 4; }
    0
}

/// C20 (run by the AddressSanitizer build) and C14: scans over keys that writers keep replacing, with
/// random multi-millisecond stalls at the scheduling points (a scanner preempted between loading an
/// index slot and using the record).  Every value carries its key: a scan must never return key A with
/// key B's bytes.  Unrecorded; the result line says how many scans, updates and foreign values.
fn scanstorm_main(o: &Opts) -> i32 {
    use std::sync::atomic::{AtomicBool, AtomicU64, Ordering};
    let seed: u64 = o.num("seed", 1);
    let millis: u64 = o.num("millis", 1500);
    let nkeys: usize = o.num("keys", 16);
    let (nw, ns): (usize, usize) = (o.num("writers", 3), o.num("scanners", 5));
    crate::util::watchdog::start(o.num("watchdog", 60));
    let store = Arc::new(FeoxStore::builder().hash_bits(4).enable_ttl(false).no_memory_limit().build().expect("store"));
    // --klen: long keys that differ only in their LAST bytes (every comparison of a scan walks the whole key: the
    // window between taking an index node and reading its slot is as wide as a comparison)
    let klen: usize = o.num("klen", 0);
    let keys: Vec<Vec<u8>> = (0..nkeys).map(|i| {
        if klen > 20 { let mut k = b"scan-key-".to_vec(); k.resize(klen - 4, b'_'); k.extend_from_slice(format!("{i:04}").as_bytes()); k }
        else { format!("scan-key-{i:04}").into_bytes() }
    }).collect();
    for k in &keys { store.insert(k, &[k.as_slice(), b"|0"].concat()).unwrap(); }
    feoxdb::verif::sched::set_random_stall(o.num("stallmask", 63), o.num("stallus", 3000));
    feoxdb::verif::sched::set_random_yield(0, seed | 1);
    let stop = Arc::new(AtomicBool::new(false));
    let (scans, updates, foreign) = (Arc::new(AtomicU64::new(0)), Arc::new(AtomicU64::new(0)), Arc::new(AtomicU64::new(0)));
    let mut hs = Vec::new();
    for w in 0..nw {
        let (st, sp, ks, up) = (store.clone(), stop.clone(), keys.clone(), updates.clone());
        hs.push(std::thread::spawn(move || {
            let mut n = w as u64;
            while !sp.load(Ordering::Relaxed) {
                let k = &ks[(n as usize * 7 + w) % ks.len()];
                let _ = st.insert(k, &[k.as_slice(), format!("|{n}").as_bytes()].concat());
                n += 1;
                up.fetch_add(1, Ordering::Relaxed);
            }
        }));
    }
    // --deleters: threads that REMOVE keys from both indexes and create them again (removal against the scans' cursor)
    for d in 0..o.num("deleters", 0usize) {
        let (st, sp, ks, up) = (store.clone(), stop.clone(), keys.clone(), updates.clone());
        hs.push(std::thread::spawn(move || {
            let mut n = d as u64;
            while !sp.load(Ordering::Relaxed) {
                let k = &ks[(n as usize * 5 + d) % ks.len()];
                let _ = st.delete(k);
                let _ = st.insert(k, &[k.as_slice(), format!("|d{n}").as_bytes()].concat());
                n += 1;
                up.fetch_add(1, Ordering::Relaxed);
            }
        }));
    }
    let (lo, hi): (Vec<u8>, Vec<u8>) = if klen > 20 { (keys[0].clone(), { let mut h = keys[nkeys - 1].clone(); *h.last_mut().unwrap() = b'~'; h }) }
                                       else { (b"scan-key-".to_vec(), b"scan-key-~".to_vec()) };
    for _ in 0..ns {
        let (lo, hi) = (lo.clone(), hi.clone());
        let (st, sp, sc, fo) = (store.clone(), stop.clone(), scans.clone(), foreign.clone());
        hs.push(std::thread::spawn(move || {
            while !sp.load(Ordering::Relaxed) {
                if let Ok(items) = st.range_query(&lo, &hi, 1000) {
                    for (k, v) in items { if !v.starts_with(&k) { fo.fetch_add(1, Ordering::Relaxed); } }
                }
                sc.fetch_add(1, Ordering::Relaxed);
            }
        }));
    }
    let t0 = std::time::Instant::now();
    while t0.elapsed() < Duration::from_millis(millis) {
        std::thread::sleep(Duration::from_millis(50));
        crate::util::watchdog::beat("scanstorm");
    }
    stop.store(true, Ordering::SeqCst);
    for h in hs { let _ = h.join(); }
    feoxdb::verif::sched::set_random_stall(0, 0);
    if let Some(out) = o.get("out") { let _ = std::fs::write(out, ""); }
    println!("{}", json!({"rounds": 1, "scans": scans.load(Ordering::SeqCst), "updates": updates.load(Ordering::SeqCst), "foreign": foreign.load(Ordering::SeqCst)}));
    if foreign.load(Ordering::SeqCst) > 0 { 4 } else { 0 }
}

/// C18: several flush() callers run concurrently with a writer whose record batches fail
/// transiently (three failing attempts, then the device is healthy again: the failed batch is
/// scrubbed and released by the worker while the callers are in every phase of flush).  Only
/// termination (watchdog) and the lock-ownership events are of interest.
fn storm_main(o: &Opts) -> i32 {
    use std::sync::atomic::{AtomicBool, AtomicI64, Ordering};
    let seed: u64 = o.num("seed", 1);
    let rounds: usize = o.num("rounds", 40);
    let flushers: usize = o.num("flushers", 3);
    let fails: i64 = o.num("fails", 3);
    obs::set_cpus(o.num("cpus", 2));
    let path = format!("{}/storm_{}_{}.feox", o.get("dir").unwrap_or("/dev/shm"), std::process::id(), seed);
    crate::util::watchdog::start(o.num("watchdog", 30));
    obs::set_hang_lockout(o.get("lockout"));
    let cfg = json!({"pers": true, "ttl": true, "cache": o.num("cache", 0u32) == 1, "lim": -1, "blocks": o.num("blocks", 200u64)});
    feoxdb::verif::force_sync(true);
    let store = Arc::new(build_store(&cfg, &path));
    let fsize = o.num("fsize", 0u32) == 1;
    let mut old_limit = libc::rlimit { rlim_cur: 0, rlim_max: 0 };
    if fsize {
        // a device whose data area cannot be written any more (EFBIG from the kernel, delivered as error
        // completions on the io_uring path): metadata and journal blocks stay writable
        feoxdb::verif::force_sync(false);
        let _ = store.insert(b"before", b"limit");
        let _ = store.flush();
        unsafe {
            libc::signal(libc::SIGXFSZ, libc::SIG_IGN);
            libc::getrlimit(libc::RLIMIT_FSIZE, &mut old_limit);
            let lim = libc::rlimit { rlim_cur: 16 * 4096, rlim_max: old_limit.rlim_max };
            libc::setrlimit(libc::RLIMIT_FSIZE, &lim);
        }
    }
    static ARMED: AtomicI64 = AtomicI64::new(0);
    feoxdb::verif::set_fault_fn(Some(Box::new(move |_idx, kind, sector, _len| {
        if kind == "write" && sector >= 16 && ARMED.load(Ordering::SeqCst) > 0 && ARMED.fetch_sub(1, Ordering::SeqCst) > 0 { 1 } else { 0 }
    })));
    obs::install();
    let stop = Arc::new(AtomicBool::new(false));
    let mut hs = Vec::new();
    for _ in 0..flushers {
        let (st, sp) = (store.clone(), stop.clone());
        hs.push(std::thread::spawn(move || {
            let mut n = 0u64;
            while !sp.load(Ordering::SeqCst) { let _ = st.flush(); n += 1; }
            n
        }));
    }
    let mut rng = StdRng::seed_from_u64(seed);
    let (mut failed, mut okf) = (0u64, 0u64);
    for r in 0..rounds {
        crate::util::watchdog::beat(&format!("storm round {r}"));
        ARMED.store(fails, Ordering::SeqCst);
        let key = format!("storm{:03}", r);   // fresh key: the armed window holds record writes only (no markers)
        let _ = store.insert(key.as_bytes(), &vec![b'v'; 100 + rng.random_range(0..6000)]);
        match store.flush() { Ok(_) => okf += 1, Err(_) => failed += 1 }
        ARMED.store(0, Ordering::SeqCst);
        if r % 5 == 4 { let _ = store.delete(key.as_bytes()); let _ = store.flush(); }
    }
    crate::util::watchdog::beat("storm stop");
    stop.store(true, Ordering::SeqCst);
    let mut calls = 0;
    for h in hs { calls += h.join().unwrap_or(0); }
    crate::util::watchdog::beat("storm final flush");
    let _ = store.flush();
    if fsize {
        crate::util::watchdog::beat("storm drop (unwritable data area)");
        match Arc::try_unwrap(store) { Ok(s) => drop(s), Err(_) => {} }
        unsafe { libc::setrlimit(libc::RLIMIT_FSIZE, &old_limit); }
        feoxdb::verif::set_fault_fn(None);
        obs::uninstall();
        let _ = obs::take();
        let _ = std::fs::remove_file(&path);
        if let Some(out) = o.get("out") { let _ = std::fs::write(out, ""); }
        println!("{}", json!({"rounds": rounds, "flush_err": failed, "flush_ok": okf, "fsize": true}));
        return 0;
    }
    feoxdb::verif::set_fault_fn(None);
    obs::uninstall();
    let raw = obs::take();
    if let Some(lp) = o.get("lockout") {
        let mut f = std::fs::OpenOptions::new().create(true).append(true).open(lp).expect("lockout");
        for e in &raw {
            if e.kind == "lk" {
                writeln!(f, "{}", json!({"tid": e.tid, "lock": String::from_utf8_lossy(&e.key), "acq": e.a, "mode": e.b})).unwrap();
            }
        }
    }
    crate::util::watchdog::beat("storm drop");
    match Arc::try_unwrap(store) { Ok(s) => drop(s), Err(_) => {} }
    feoxdb::verif::force_sync(false);
    let _ = std::fs::remove_file(&path);
    if let Some(out) = o.get("out") { let _ = std::fs::write(out, ""); }
    println!("{}", json!({"rounds": rounds, "flush_err": failed, "flush_ok": okf, "concurrent_flush_calls": calls}));
    0
}

fn gen_id(key: &[u8], ts: u64) -> String {
    format!("{}@{}", String::from_utf8_lossy(key), ts)
}

fn write_pin_events(raw: &[RawEv], path: &str) {
    let mut f = std::fs::OpenOptions::new().create(true).append(true).open(path).expect("pinout");
    writeln!(f, "{}", json!({"e": "reset"})).unwrap();
    for e in raw {
        match e.kind {
            "pin" => writeln!(f, "{}", json!({"e": "pin", "id": e.a % 1_000_000_007, "tid": e.tid, "g": gen_id(&e.key, e.b)})).unwrap(),
            // the retirement pass on the same generations (PinProto.tla: bit, reader count, marker, release)
            "ret_bit" => writeln!(f, "{}", json!({"e": "ret_bit", "g": gen_id(&e.key, e.a), "s": e.c})).unwrap(),
            "ret_wait" => writeln!(f, "{}", json!({"e": "ret_wait", "g": gen_id(&e.key, e.a), "why": e.b})).unwrap(),
            "ret_mark" => writeln!(f, "{}", json!({"e": "ret_mark", "g": gen_id(&e.key, e.a), "s": e.c, "n": e.b})).unwrap(),
            "ret_marked" => writeln!(f, "{}", json!({"e": "ret_marked"})).unwrap(),
            "release" if e.c == 0 => writeln!(f, "{}", json!({"e": "release", "s": e.a, "n": e.b})).unwrap(),
            "unpin" => writeln!(f, "{}", json!({"e": "unpin", "id": e.a % 1_000_000_007, "tid": e.tid})).unwrap(),
            "pread" => writeln!(f, "{}", json!({"e": "pread", "tid": e.tid, "s": e.a, "n": e.b})).unwrap(),
            "wb" if e.a >= 16 => writeln!(f, "{}", json!({"e": "wb", "tid": e.tid, "s": e.a, "n": e.b})).unwrap(),
            "w" if e.a >= 16 => writeln!(f, "{}", json!({"e": if e.b == 1 { "wsub" } else { "we" }, "tid": e.tid, "s": e.a, "n": e.data.len() / 4096})).unwrap(),
            "wd" => writeln!(f, "{}", json!({"e": "wdone", "tid": e.tid})).unwrap(),
            _ => {}
        }
    }
}

use std::collections::HashMap;

/// `--name value` style options.
pub struct Opts {
    map: HashMap<String, String>,
    pub flags: Vec<String>,
}

impl Opts {
    pub fn parse(args: &[String]) -> Self {
        let mut map = HashMap::new();
        let mut flags = Vec::new();
        let mut i = 0;
        while i < args.len() {
            if let Some(name) = args[i].strip_prefix("--") {
                if i + 1 < args.len() && !args[i + 1].starts_with("--") {
                    map.insert(name.to_string(), args[i + 1].clone());
                    i += 2;
                } else {
                    flags.push(name.to_string());
                    i += 1;
                }
            } else {
                flags.push(args[i].clone());
                i += 1;
            }
        }
        Self { map, flags }
    }
    pub fn get(&self, k: &str) -> Option<&str> {
        self.map.get(k).map(|s| s.as_str())
    }
    pub fn req(&self, k: &str) -> &str {
        self.get(k).unwrap_or_else(|| {
            eprintln!("missing --{k}");
            std::process::exit(2)
        })
    }
    pub fn num<T: std::str::FromStr>(&self, k: &str, default: T) -> T {
        self.get(k).and_then(|s| s.parse().ok()).unwrap_or(default)
    }
    pub fn has(&self, k: &str) -> bool {
        self.flags.iter().any(|f| f == k) || self.map.contains_key(k)
    }
}

pub fn err_name(e: &feoxdb::FeoxError) -> String {
    let s = format!("{e:?}");
    s.split(|c| c == '(' || c == ' ' || c == '{').next().unwrap_or("").to_string()
}

/// u64 as base-10^9 limbs [l2, l1, l0] (TLC integers are 32 bit).
pub fn limbs(x: u64) -> [u64; 3] {
    const B: u64 = 1_000_000_000;
    [x / (B * B), (x / B) % B, x % B]
}

pub fn unlimbs(l: &[u64]) -> u64 {
    const B: u64 = 1_000_000_000;
    l[0].wrapping_mul(B * B).wrapping_add(l[1] * B).wrapping_add(l[2])
}

/// Process-wide watchdog: if `beat` is not called for `secs` seconds the current phase is
/// reported on stdout as a JSON line {"hang": phase} and the process exits with code 3.
pub mod watchdog {
    use std::sync::atomic::{AtomicU64, Ordering};
    use std::sync::Mutex;
    static BEATS: AtomicU64 = AtomicU64::new(0);
    static PHASE: Mutex<String> = Mutex::new(String::new());
    pub fn start(secs: u64) {
        std::thread::spawn(move || {
            let mut last = BEATS.load(Ordering::SeqCst);
            let mut idle = 0;
            loop {
                std::thread::sleep(std::time::Duration::from_secs(1));
                let cur = BEATS.load(Ordering::SeqCst);
                if cur == last {
                    idle += 1;
                    if idle >= secs {
                        let phase = PHASE.lock().map(|p| p.clone()).unwrap_or_default();
                        crate::obs::hang_dump();
                        println!("{}", serde_json::json!({"hang": phase, "idle_s": idle}));
                        std::process::exit(3);
                    }
                } else {
                    idle = 0;
                    last = cur;
                }
            }
        });
    }
    pub fn beat(phase: &str) {
        if let Ok(mut p) = PHASE.lock() {
            p.clear();
            p.push_str(phase);
        }
        BEATS.fetch_add(1, Ordering::SeqCst);
    }
}

use std::collections::HashMap;

/// `--name value` style options.
pub struct Opts {
    map: HashMap<String, String>,
    pub flags: Vec<String>,
}

impl Opts {
    pub fn parse(args: &[String]) -> Self {
        let mut map = HashMap::new();
        let mut flags = Vec::new();
        let mut i = 0;
        while i < args.len() {
            if let Some(name) = args[i].strip_prefix("--") {
                if i + 1 < args.len() && !args[i + 1].starts_with("--") {
                    map.insert(name.to_string(), args[i + 1].clone());
                    i += 2;
                } else {
                    flags.push(name.to_string());
                    i += 1;
                }
            } else {
                flags.push(args[i].clone());
                i += 1;
            }
        }
        Self { map, flags }
    }
    pub fn get(&self, k: &str) -> Option<&str> {
        self.map.get(k).map(|s| s.as_str())
    }
    pub fn req(&self, k: &str) -> &str {
        self.get(k).unwrap_or_else(|| {
            eprintln!("missing --{k}");
            std::process::exit(2)
        })
    }
    pub fn num<T: std::str::FromStr>(&self, k: &str, default: T) -> T {
        self.get(k).and_then(|s| s.parse().ok()).unwrap_or(default)
    }
    pub fn has(&self, k: &str) -> bool {
        self.flags.iter().any(|f| f == k) || self.map.contains_key(k)
    }
}

pub fn err_name(e: &feoxdb::FeoxError) -> String {
    let s = format!("{e:?}");
    s.split(|c| c == '(' || c == ' ' || c == '{').next().unwrap_or("").to_string()
}

/// u64 as base-10^9 limbs [l2, l1, l0] (TLC integers are 32 bit).
pub fn limbs(x: u64) -> [u64; 3] {
    const B: u64 = 1_000_000_000;
    [x / (B * B), (x / B) % B, x % B]
}

pub fn unlimbs(l: &[u64]) -> u64 {
    const B: u64 = 1_000_000_000;
    l[0].wrapping_mul(B * B).wrapping_add(l[1] * B).wrapping_add(l[2])
}

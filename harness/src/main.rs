//! fxv — conformance harness binding the TLA+ specifications in /verif/spec to feoxdb.
//! Every subcommand either executes specification-generated behaviours on the real code
//! or records executions of the real code as ndjson traces for TLC to validate.
mod absdev;
mod cachedrv;
mod concdrv;
mod crashdrv;
mod fsm;
mod imgdrv;
mod layout;
mod migdrv;
mod obs;
mod seqdrv;
mod util;

fn main() {
    let args: Vec<String> = std::env::args().collect();
    if args.len() < 2 {
        eprintln!("usage: fxv <subcommand> [options]");
        std::process::exit(2);
    }
    let rest = &args[2..];
    let code = match args[1].as_str() {
        "freespace" => fsm::main(rest),
        "seq" => seqdrv::main(rest),
        "cache" => cachedrv::main(rest),
        "crash" => crashdrv::main(rest),
        "conc" => concdrv::main(rest),
        "images" => imgdrv::main(rest),
        "migrate" => migdrv::main(rest),
        "recover" => crashdrv::recover_main(rest),
        "chunkrec" => crashdrv::chunkrec_main(rest),
        "stalechain" => crashdrv::stalechain_main(rest),
        "uringfault" => crashdrv::uringfault_main(rest),
        "clocksat" => seqdrv::clocksat(rest),
        "layout-selftest" => layout::selftest(rest.first().map(|s| s.as_str()).unwrap_or("/dev/shm/fxv-layout")),
        "version" => {
            println!("fxv record_overhead={}", feoxdb::FeoxStore::verif_record_overhead());
            0
        }
        other => {
            eprintln!("unknown subcommand {other}");
            2
        }
    };
    std::process::exit(code);
}

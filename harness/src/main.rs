//! fxv — conformance harness binding the TLA+ specifications in /verif/spec to feoxdb.
//! Every subcommand either executes specification-generated behaviours on the real code
//! or records executions of the real code as ndjson traces for TLC to validate.
mod absdev;
mod apidrv;
mod cachedrv;
mod concdrv;
mod coorddrv;
mod crashdrv;
mod damagedrv;
mod fsm;
mod imgdrv;
mod layout;
mod migdrv;
mod obs;
mod seqdrv;
mod util;

/// Allocator of the harness: the system allocator, plus (while armed) a log of every deallocation
/// (address, size).  C20 uses it to see whether memory that a queued io_uring write still points into
/// is returned to the allocator.
pub mod freelog {
    use std::alloc::{GlobalAlloc, Layout, System};
    use std::sync::atomic::{AtomicBool, AtomicUsize, Ordering};
    pub const CAP: usize = 1 << 16;
    pub static ON: AtomicBool = AtomicBool::new(false);
    pub static N: AtomicUsize = AtomicUsize::new(0);
    #[allow(clippy::declare_interior_mutable_const)]
    const Z: AtomicUsize = AtomicUsize::new(0);
    pub static PTR: [AtomicUsize; CAP] = [Z; CAP];
    pub static LEN: [AtomicUsize; CAP] = [Z; CAP];
    pub struct Tracking;
    unsafe impl GlobalAlloc for Tracking {
        unsafe fn alloc(&self, l: Layout) -> *mut u8 { unsafe { System.alloc(l) } }
        unsafe fn alloc_zeroed(&self, l: Layout) -> *mut u8 { unsafe { System.alloc_zeroed(l) } }
        unsafe fn realloc(&self, p: *mut u8, l: Layout, n: usize) -> *mut u8 {
            let q = unsafe { System.realloc(p, l, n) };
            if ON.load(Ordering::Relaxed) && q != p { note(p as usize, l.size()); }
            q
        }
        unsafe fn dealloc(&self, p: *mut u8, l: Layout) {
            if ON.load(Ordering::Relaxed) { note(p as usize, l.size()); }
            unsafe { System.dealloc(p, l) }
        }
    }
    fn note(p: usize, n: usize) {
        let i = N.fetch_add(1, Ordering::SeqCst);
        if i < CAP {
            PTR[i].store(p, Ordering::SeqCst);
            LEN[i].store(n, Ordering::SeqCst);
        }
    }
    pub fn mark() -> usize { N.load(Ordering::SeqCst).min(CAP) }
}

#[global_allocator]
static ALLOC: freelog::Tracking = freelog::Tracking;

fn main() {
    let args: Vec<String> = std::env::args().collect();
    if args.len() < 2 {
        eprintln!("usage: fxv <subcommand> [options]");
        std::process::exit(2);
    }
    let rest = &args[2..];
    let code = match args[1].as_str() {
        "freespace" => fsm::main(rest),
        "seq" => seqdrv::main(rest),
        "cache" => cachedrv::main(rest),
        "crash" => crashdrv::main(rest),
        "conc" => concdrv::main(rest),
        "coord" => coorddrv::main(rest),
        "images" => imgdrv::main(rest),
        "migrate" => migdrv::main(rest),
        "recover" => crashdrv::recover_main(rest),
        "chunkrec" => crashdrv::chunkrec_main(rest),
        "stalechain" => crashdrv::stalechain_main(rest),
        "uringfault" => crashdrv::uringfault_main(rest),
        "apisurface" => apidrv::main(rest),
        "hotkey" => apidrv::hotkey(rest),
        "renewstory" => seqdrv::renewstory(rest),
        "ackstory" => seqdrv::ackstory(rest),
        "pinstory" => seqdrv::pinstory(rest),
        "scanstory" => seqdrv::scanstory(rest),
        "damage" => damagedrv::main(rest),
        "clocksat" => seqdrv::clocksat(rest),
        "faultstory" => seqdrv::faultstory(rest),
        "inflightstory" => seqdrv::inflightstory(rest),
        "layout-selftest" => layout::selftest(rest.first().map(|s| s.as_str()).unwrap_or("/dev/shm/fxv-layout")),
        "version" => {
            println!("fxv record_overhead={}", feoxdb::FeoxStore::verif_record_overhead());
            0
        }
        other => {
            eprintln!("unknown subcommand {other}");
            2
        }
    };
    std::process::exit(code);
}

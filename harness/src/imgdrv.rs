//! C17 image driver: `fxv images` turns the abstract damaged images printed by Images.tla into
//! bytes (with the independent encoder of layout.rs), opens each of them with the REAL store in
//! short-lived child processes under `catch_unwind` and a watchdog, runs a fixed probe workload on
//! every store that opens and reports, one JSON line per image, what was observed next to what the
//! model predicted.  A panic, a hang or a dying process is data here, never a harness failure.
//!
//! Input (`--in`): lines `<<"IMG", "<json>">>` / `<<"SPACE", "<json>">>` as printed by TLC, or
//! plain JSON lines (an abstract image, the SPACE table, or a complete work item as echoed in a
//! result line: that is how replays are exact).
//! Work item: {"id", "kind": "model"|"mut"|"random", "seed", "img"?, "mseed"?, "flavour"?, "blocks"?}.
//! Result (`--out`, one line per item, in id order):
//!   {"id", "kind", "pred": class|null, "pred_kv", "pred_gh", "valid", "fmt", "ttl", "len",
//!    "observed": "open"|<error kind>|"panic"|"hang"|"abort", "probe": "ok"|"panic"|"-",
//!    "probe_errs", "modified", "kv", "extra", "recognisable", "nonempty", "oracle", "panics",
//!    "notes", "amb": {the same observation with allow_ambiguous_legacy_recovery(true)}, "item",
//!    "unconfirmed": {a hang/abort of the first run that a solitary second run did not reproduce}}
use crate::layout as L;
use crate::util::{err_name, watchdog, Opts};
use feoxdb::FeoxStore;
use rand::{rngs::StdRng, Rng, RngCore, SeedableRng};
use serde_json::{json, Value};
use std::io::Write;
use std::panic::{catch_unwind, AssertUnwindSafe};
use std::sync::atomic::{AtomicUsize, Ordering};
use std::sync::Mutex;

const B: usize = L::BLOCK;
/// one rank of model time in nanoseconds
const U: u64 = 1_000_000_000;
static PANICS: Mutex<Vec<String>> = Mutex::new(Vec::new());
/// images that hung or killed their process so far (parent side); beyond `--max-bad` the run stops
/// early: every hang costs a watchdog period and a systematic defect is established long before
static BAD: AtomicUsize = AtomicUsize::new(0);
/// resolved once at start: a rebuild of the harness while a run is in progress replaces the file
static EXE: std::sync::OnceLock<std::path::PathBuf> = std::sync::OnceLock::new();

// ------------------------------------------------------------------ model table

#[derive(Clone, Debug)]
struct Gen {
    k: u64,
    ts: u64,
    exp: u64,
    n: u64,
}
#[derive(Clone, Debug)]
struct Table {
    gens: Vec<Gen>,
    now: u64,
}

/// The generation table of Images.tla (used when the input carries no SPACE line).
fn default_table() -> Table {
    let g = |k, ts, exp, n| Gen { k, ts, exp, n };
    Table { gens: vec![g(1, 1, 0, 1), g(1, 2, 9, 2), g(2, 2, 0, 2), g(2, 3, 4, 1)], now: 5 }
}
fn table_from(v: &Value) -> Option<Table> {
    let gens = v.get("gens")?.as_array()?;
    let f = |x: &Value, k: &str| x.get(k).and_then(|y| y.as_u64());
    let gens: Option<Vec<Gen>> = gens.iter().map(|x| Some(Gen { k: f(x, "k")?, ts: f(x, "ts")?, exp: f(x, "exp")?, n: f(x, "n")? })).collect();
    Some(Table { gens: gens?, now: v.get("now")?.as_u64()? })
}
fn table_json(t: &Table) -> Value {
    json!({"gens": t.gens.iter().map(|g| json!({"k": g.k, "ts": g.ts, "exp": g.exp, "n": g.n})).collect::<Vec<_>>(), "now": t.now})
}
fn key_of(k: u64) -> Vec<u8> {
    format!("k{k}").into_bytes()
}
fn forged_key(sector: u64) -> Vec<u8> {
    format!("kv{sector}").into_bytes()
}
fn ghost_key(sector: u64) -> Vec<u8> {
    format!("gh{sector}").into_bytes()
}

// ------------------------------------------------------------------ concretisation

fn put(b: &mut [u8], o: usize, v: &[u8]) {
    b[o..o + v.len()].copy_from_slice(v)
}
fn header_len(version: u32, key_len: usize) -> usize {
    6 + key_len + if version == 1 { 16 } else { 24 }
}
fn meta_crc(b: &[u8]) -> u32 {
    L::crc32c(L::crc32c(L::crc32c(0, &b[..12]), &b[16..64]), &b[76..132])
}
fn journal_crc(d: &[u8]) -> u32 {
    let mut c = L::crc32c(0, &d[..12]);
    c = L::crc32c(c, &[0; 4]);
    c = L::crc32c(c, &d[16..32]);
    c = L::crc32c(c, &[0; 4]);
    L::crc32c(c, &d[36..])
}
fn journal_restamp(d: &mut [u8], covered: usize) {
    let covered = covered.min(d.len());
    let crc = journal_crc(&d[..covered]);
    put(d, 12, &crc.to_le_bytes());
    put(d, 32, &(!crc).to_le_bytes());
}
fn nonzero_prefix(b: &[u8]) -> &[u8] {
    &b[..b.iter().rposition(|x| *x != 0).map(|i| i + 1).unwrap_or(1)]
}
/// Bytes that no scanner mistakes for a record head, a marker or an empty block.
fn junk(rng: &mut StdRng, len: usize) -> Vec<u8> {
    let mut v = vec![0u8; len];
    rng.fill_bytes(&mut v);
    if !v.is_empty() {
        v[0] = 0x11;
    }
    v
}

fn meta_block(kind: &str, ver: u32, gen: u64, device_size: u64) -> Vec<u8> {
    let m = |version: u32, generation: u64, has_checksum: bool| L::Meta {
        valid: true,
        version,
        generation,
        total_records: 0,
        total_size: 0,
        device_size,
        block_size: B as u32,
        fragmentation: 0,
        creation_time: 1_700_000_000,
        last_update_time: 1_700_000_100,
        has_checksum,
    };
    match kind {
        "ok" => L::encode_meta_full(&m(ver, gen, true)),
        "legacy" => L::encode_meta(ver, 0, 0, 0, device_size),
        "forged" => L::encode_meta_full(&L::Meta { total_records: u64::MAX, total_size: u64::MAX - 7, device_size: L::MAX_DEVICE, fragmentation: u32::MAX, ..m(ver, gen, true) }),
        "sig" => {
            let mut b = L::encode_meta_full(&m(ver, gen, true));
            put(&mut b, 0, b"FEOX_SIH");
            let crc = meta_crc(&b);
            put(&mut b, 68, &crc.to_le_bytes());
            put(&mut b, 72, &(!crc).to_le_bytes());
            b
        }
        "crc" => {
            let mut b = L::encode_meta_full(&m(ver, gen, true));
            b[69] ^= 0x40;
            b
        }
        "bs" => L::encode_meta_full(&L::Meta { block_size: 512, ..m(ver, gen, true) }),
        "ds0" => L::encode_meta_full(&L::Meta { device_size: 0, ..m(ver, gen, true) }),
        "dsbig" => L::encode_meta_full(&L::Meta { device_size: L::MAX_DEVICE + B as u64, ..m(ver, gen, true) }),
        "ver4" => L::encode_meta_full(&m(4, gen, true)),
        "ver0" => L::encode_meta_full(&m(0, gen, true)),
        "nomagic" => L::encode_meta_full(&m(3, gen, false)),
        _ => vec![0u8; B], // "z"
    }
}

fn slot_bytes(kind: &str, gen: u64, exts: &[(u64, u64)], de: u64) -> Vec<u8> {
    let one = [(L::DATA_START, 1u64)];
    let patched = |count: u32, covered: usize| {
        let mut d = L::encode_journal_slot(gen, true, &one);
        put(&mut d, 28, &count.to_le_bytes());
        journal_restamp(&mut d, covered);
        d
    };
    match kind {
        "clear" => L::encode_journal_slot(gen, false, &[]),
        "active" => L::encode_journal_slot(gen, true, exts),
        "crc" => {
            let mut d = L::encode_journal_slot(gen, true, &one);
            d[44] ^= 1;
            d
        }
        "oorhi" => L::encode_journal_slot(gen, true, &[(de - 1, 3)]),
        "oorlo" => L::encode_journal_slot(gen, true, &[(7, 1)]),
        "ovl" => L::encode_journal_slot(gen, true, &[(L::DATA_START, 2), (L::DATA_START + 1, 1)]),
        "zlen" => L::encode_journal_slot(gen, true, &[(L::DATA_START, 0)]),
        "gen0" => L::encode_journal_slot(0, true, &one),
        "ver9" => {
            let mut d = L::encode_journal_slot(gen, true, &one);
            put(&mut d, 8, &9u32.to_le_bytes());
            journal_restamp(&mut d, B);
            d
        }
        "cnt1025" => patched(1025, 3 * B),
        "cnt1532" => patched(1532, 3 * B),
        "cntmax" => patched(u32::MAX, 3 * B),
        _ => vec![0u8; 3 * B], // "z"
    }
}

/// What a continuation block of generation g holds, as seen by a scanner landing on it.
fn tail_prefix(look: &str, g: usize, sector: u64, fmt: u32) -> Vec<u8> {
    match look {
        "H" => nonzero_prefix(&L::encode_record(fmt, sector, &ghost_key(sector), b"ghost: never stored by anyone", U / 2, 0)).to_vec(),
        "M" => L::encode_marker_block(sector, 1, L::STATE_COMPLETE)[..19].to_vec(),
        "Xh" => {
            // record magic, key length 0: refused softly by every version
            let mut v = vec![0xCD, 0xAB, 0x34, 0x12, 0, 0];
            v.extend_from_slice(b"junk after an empty key");
            v
        }
        "Xm" => {
            let mut v = L::encode_marker_block(sector, 1, L::STATE_COMPLETE)[..40].to_vec();
            v[16] ^= 0x01;
            v[17] ^= 0x01;
            v[30] = 0x77;
            v
        }
        _ => {
            // canonical continuation: depends on the generation only
            let mut r = StdRng::seed_from_u64(0xC17_0000 + g as u64);
            junk(&mut r, 900)
        }
    }
}

fn head_block(g: usize, sector: u64, fmt: u32, t: &Table, tail: &[u8]) -> Vec<u8> {
    let gen = &t.gens[g - 1];
    let key = key_of(gen.k);
    let exp = if fmt == 1 { 0 } else { gen.exp * U };
    let mut value: Vec<u8> = format!("value of generation {g} ").into_bytes();
    if gen.n >= 2 {
        let hl = header_len(fmt, key.len());
        value.resize((gen.n as usize - 1) * B - hl, b'a' + g as u8);
        value.extend_from_slice(tail);
    }
    let ext = L::encode_record(fmt, sector, &key, &value, gen.ts * U, exp);
    ext[..B].to_vec()
}

fn forged_head(tag: &str, sector: u64, fmt: u32, rng: &mut StdRng) -> Vec<u8> {
    // key "kx" (2 bytes): key_len @4, key @6, value_len @8, timestamp @16
    let mut b = L::encode_record(fmt, sector, b"kx", b"value under a forged header", 3 * U, 0);
    b.truncate(B);
    let mut restamp = fmt >= 3;
    match tag {
        "tok" => {
            let t = if fmt >= 3 { (u16::from_le_bytes([b[2], b[3]]) ^ 0x5A5A).max(1) } else { 0x1234 };
            put(&mut b, 2, &t.to_le_bytes());
            restamp = false;
        }
        "klen0" => put(&mut b, 4, &0u16.to_le_bytes()),
        "klenbig" => put(&mut b, 4, &0xFFFFu16.to_le_bytes()),
        "vlen0" => put(&mut b, 8, &0u64.to_le_bytes()),
        "vlenbig" => {
            let v = [u64::MAX, L::MAX_VALUE + 1, 1 << 63, (1 << 32) + 5][rng.random_range(0..4)];
            put(&mut b, 8, &v.to_le_bytes());
        }
        _ => put(&mut b, 8, &(10 * B as u64).to_le_bytes()), // "ext": 11 blocks on a 4-block data area
    }
    if restamp {
        let t = L::record_token(sector, &b);
        put(&mut b, 2, &t.to_le_bytes());
    }
    b
}

struct Built {
    bytes: Vec<u8>,
    fmt: u32,
    ttl: bool,
    notes: Vec<String>,
}

/// Abstract image (the JSON object printed by Images.tla) -> file contents.
fn concretise(img: &Value, t: &Table, rng: &mut StdRng) -> Built {
    let fmt = img["fmt"].as_u64().unwrap_or(3) as u32;
    let (ds, de) = (img["ds"].as_u64().unwrap_or(16), img["de"].as_u64().unwrap_or(20));
    let mut bytes = vec![0u8; de as usize * B];
    let device_size = bytes.len() as u64;
    for (c, blk) in [(0usize, L::META_PRIMARY), (1, L::META_BACKUP)] {
        let m = &img["m"][c];
        let mb = meta_block(m[0].as_str().unwrap_or("z"), m[1].as_u64().unwrap_or(0) as u32, m[2].as_u64().unwrap_or(0), device_size);
        put(&mut bytes, blk * B, &mb);
    }
    for s in 0..2usize {
        let j = &img["j"][s];
        let exts: Vec<(u64, u64)> = j[2].as_array().map(|a| a.iter().map(|e| (e[0].as_u64().unwrap_or(0), e[1].as_u64().unwrap_or(0))).collect()).unwrap_or_default();
        let sb = slot_bytes(j[0].as_str().unwrap_or("z"), j[1].as_u64().unwrap_or(0), &exts, de);
        put(&mut bytes, (L::JOURNAL_START + s * L::JOURNAL_SLOT_BLOCKS) * B, &sb);
    }
    let blocks = img["b"].as_array().cloned().unwrap_or_default();
    let field = |i: usize, f: usize| blocks.get(i).map(|c| c[f].clone()).unwrap_or(Value::Null);
    for i in 0..blocks.len() {
        let sector = ds + i as u64;
        let kind = field(i, 0).as_str().unwrap_or("Z").to_string();
        let (g, n, st) = (field(i, 1).as_u64().unwrap_or(0) as usize, field(i, 2).as_u64().unwrap_or(0), field(i, 3).as_u64().unwrap_or(0));
        let (look, tag) = (field(i, 4).as_str().unwrap_or("").to_string(), field(i, 5).as_str().unwrap_or("").to_string());
        let mut block = vec![0u8; B];
        match kind.as_str() {
            "H" => {
                // the token covers the continuation that really follows when it is this generation's own
                let own_tail = (i + 1 < blocks.len() && field(i + 1, 0) == "T" && field(i + 1, 1).as_u64() == Some(g as u64) && field(i + 1, 3).as_u64() == Some(1))
                    .then(|| field(i + 1, 4).as_str().unwrap_or("").to_string());
                let tail = tail_prefix(own_tail.as_deref().unwrap_or(""), g, sector + 1, fmt);
                block = head_block(g, sector, fmt, t, &tail);
            }
            "T" => {
                let p = tail_prefix(&look, g, sector, fmt);
                put(&mut block, 0, &p);
            }
            "Xh" => block = forged_head(&tag, sector, fmt, rng),
            "Xv" => {
                // a record the reader must accept: valid token, forged timestamp / expiry
                let (ts, exp) = if tag == "tsmax" { (u64::MAX, 0) } else { (3 * U, u64::MAX) };
                block = L::encode_record(fmt, sector, &forged_key(sector), b"valid record with a forged time", ts, exp);
                block.truncate(B);
            }
            "M" => {
                let rem = match tag.as_str() {
                    "rem0" => 0,
                    "remmax" => u64::MAX,
                    "remwrap" => 0u64.wrapping_sub(sector),
                    "remwrap1" => 1u64.wrapping_sub(sector),
                    _ => n,
                };
                block = L::encode_marker_block(sector, rem, st as u8);
            }
            "Xm" => {
                block = L::encode_marker_block(sector, 1, L::STATE_COMPLETE);
                block[16] ^= 0x10;
                block[100] = 0x5A;
            }
            "LM" => put(&mut block, 0, L::TAG),
            "X" => block = junk(rng, B),
            _ => {}
        }
        put(&mut bytes, sector as usize * B, &block);
    }
    let mut notes = Vec::new();
    match img["size"].as_str().unwrap_or("ok") {
        "short" => {
            bytes.truncate(L::DATA_START as usize * B);
            notes.push("cut to the reserved area".to_string());
        }
        "unal" => {
            let extra = junk(rng, 512);
            bytes.extend_from_slice(&extra);
            notes.push("512 trailing bytes".to_string());
        }
        _ => {}
    }
    Built { bytes, fmt, ttl: img["ttl"].as_bool().unwrap_or(false), notes }
}

/// Seeded byte-level damage on top of a concretised image.
fn mutate(bytes: &mut Vec<u8>, rng: &mut StdRng) -> Vec<String> {
    let mut notes = Vec::new();
    for _ in 0..1 + rng.random_range(0..3) {
        let total = bytes.len() / B;
        if total == 0 {
            break;
        }
        let nz: Vec<usize> = (0..total).filter(|s| bytes[s * B..(s + 1) * B].iter().any(|x| *x != 0)).collect();
        let pick = |rng: &mut StdRng| if !nz.is_empty() && rng.random_bool(0.8) { nz[rng.random_range(0..nz.len())] } else { rng.random_range(0..total) };
        match rng.random_range(0..9) {
            8 => {
                // forged counters behind valid framing: a metadata copy (or a journal slot) that passes every
                // checksum but carries an extreme generation / count / size / time
                let extreme = [u64::MAX, u64::MAX - 1, 1 << 63, u32::MAX as u64, 0][rng.random_range(0..5)];
                if rng.random_range(0..4) > 0 {
                    let which = rng.random_range(0..3);       // primary, backup, both
                    let field = rng.random_range(0..5);
                    for (i, at) in [L::META_PRIMARY, L::META_BACKUP].iter().enumerate() {
                        if which != 2 && which != i { continue; }
                        let Some(mut m) = L::block_of(bytes, *at as u64).and_then(L::decode_meta) else { continue };
                        match field {
                            0 => m.generation = extreme,
                            1 => m.total_records = extreme,
                            2 => m.total_size = extreme,
                            3 => m.last_update_time = extreme,
                            _ => m.creation_time = extreme,
                        }
                        if !m.has_checksum && field == 0 {
                            // pre-0.6 metadata has no checksum: the generation bytes are just reserved bytes
                            put(bytes, at * B + 76, &extreme.to_le_bytes());
                        } else {
                            let enc = L::encode_meta_full(&m);
                            put(bytes, at * B, &enc);
                        }
                        notes.push(format!("forge meta{at} field{field}={extreme}"));
                    }
                } else {
                    let total_blocks = total as u64;
                    for slot in 0..2usize {
                        let at = (1 + 3 * slot) * B;
                        if at + 3 * B > bytes.len() { continue; }
                        let js = L::decode_journal_slot(&bytes[at..at + 3 * B], total_blocks);
                        if !js.valid || rng.random_bool(0.3) { continue; }
                        let enc = L::encode_journal_slot(extreme.max(1), js.active, &js.extents);
                        let n = enc.len().min(3 * B);
                        put(bytes, at, &enc[..n]);
                        notes.push(format!("forge journal slot{slot} generation={}", extreme.max(1)));
                    }
                }
            }
            0 | 1 => {
                let s = pick(rng);
                for _ in 0..1 + rng.random_range(0..4) {
                    let off = if rng.random_bool(0.7) { rng.random_range(0..160) } else { rng.random_range(0..B) };
                    let bit = rng.random_range(0..8);
                    bytes[s * B + off] ^= 1 << bit;
                    notes.push(format!("flip {s}+{off}.{bit}"));
                }
            }
            2 => {
                let (a, b) = (pick(rng), rng.random_range(0..total));
                if a != b {
                    let tmp = bytes[a * B..(a + 1) * B].to_vec();
                    bytes.copy_within(b * B..(b + 1) * B, a * B);
                    put(bytes, b * B, &tmp);
                }
                notes.push(format!("swap {a}<->{b}"));
            }
            3 => {
                let s = pick(rng);
                let cut = 512 * rng.random_range(0..8);
                let end = ((s + 1 + rng.random_range(0..2)) * B).min(bytes.len());
                bytes[s * B + cut..end].fill(0);
                notes.push(format!("truncate {s}+{cut}..{}", end / B));
            }
            4 => {
                let (src, n) = (pick(rng), 1 + rng.random_range(0..3));
                let dst = if rng.random_bool(0.7) && total > L::DATA_START as usize { rng.random_range(L::DATA_START as usize..total) } else { rng.random_range(0..total) };
                let n = n.min(total - src).min(total - dst);
                bytes.copy_within(src * B..(src + n) * B, dst * B);
                notes.push(format!("duplicate {src}x{n}->{dst}"));
            }
            5 | 6 => {
                let s = pick(rng);
                let o = 512 * rng.random_range(0..8);
                let mut r = vec![0u8; 512];
                rng.fill_bytes(&mut r);
                put(bytes, s * B + o, &r);
                notes.push(format!("sector {s}+{o}"));
            }
            _ => {
                let new_total = 17 + rng.random_range(0..10);
                let fill_random = rng.random_bool(0.5);
                let old = bytes.len();
                bytes.resize(new_total * B, 0);
                if fill_random && bytes.len() > old {
                    rng.fill_bytes(&mut bytes[old..]);
                }
                notes.push(format!("resize {total}->{new_total}{}", if fill_random { " random" } else { "" }));
            }
        }
    }
    notes
}

/// Files that no model image stands for: random bytes of a valid size, optionally behind a
/// signature, a valid metadata copy, or a valid metadata copy and an empty journal.
/// A structured device LARGER than the window recovery scans at a time (256 blocks): records (single- and
/// multi-block, up to more than a hundred blocks), complete and unfinished retirements and single damaged
/// blocks, with extents placed so that they start, end or are skipped across the window boundaries.
fn windowed_file(blocks: u64, damaged: bool, rng: &mut StdRng) -> (Vec<u8>, u32, Vec<String>) {
    let mut bytes = vec![0u8; blocks as usize * B];
    let fmt = 1 + rng.random_range(0..3) as u32;
    put(&mut bytes, 0, &L::encode_meta(fmt, 2, 0, 0, blocks * B as u64));
    let mut notes = vec![format!("windowed v{fmt} {blocks} blocks{}", if damaged { " damaged" } else { "" })];
    let mut s = L::DATA_START + rng.random_range(0..3);
    let mut kid = 0u32;
    while s + 2 < blocks {
        // aim at the next window boundary now and then
        let boundary = L::DATA_START + ((s - L::DATA_START) / 256 + 1) * 256;
        let room = blocks - s;
        let n: u64 = match rng.random_range(0..10) {
            0 | 1 => 1,
            2 => 2 + rng.random_range(0..3),
            3 if boundary > s && boundary - s + 3 < room => boundary - s + rng.random_range(0..3),   // ends just past the boundary
            4 => (100 + rng.random_range(0..140)).min(room.saturating_sub(1)).max(1),
            5 => { s += rng.random_range(1..40).min(room - 1); continue; }                       // a gap
            6 if boundary > s + 1 => { s = boundary - rng.random_range(0..2); continue; }        // jump next to the boundary
            _ => 1 + rng.random_range(0..6),
        }.min(room).max(1);
        kid += 1;
        let key = format!("w{kid:04}").into_bytes();
        let hdr = if fmt == 1 { 22 } else { 30 } + key.len();
        let vlen = (n as usize * B).saturating_sub(hdr + rng.random_range(0..B.min(n as usize * B - hdr - 1).max(1))).max(1);
        let val: Vec<u8> = (0..vlen).map(|i| (i % 251) as u8 ^ kid as u8).collect();
        let rec = L::encode_record(fmt, s, &key, &val, 1000 + kid as u64, 0);
        let nb = (rec.len() / B) as u64;
        if s + nb > blocks { break; }
        match rng.random_range(0..8) {
            0 | 1 => {
                // a retirement: complete, or unfinished (the head says pending / the tail is still the record)
                let state_head = if rng.random_bool(0.5) { L::STATE_COMPLETE } else { L::STATE_PENDING };
                let upto = if rng.random_bool(0.5) { nb } else { 1 + rng.random_range(0..nb) };
                put(&mut bytes, s as usize * B, &rec);
                for i in 0..upto {
                    put(&mut bytes, (s + i) as usize * B, &L::encode_marker_block(s + i, nb - i, if i == 0 { state_head } else { L::STATE_COMPLETE }));
                }
                notes.push(format!("marker {s}+{nb} head={state_head} written={upto}"));
            }
            _ => {
                put(&mut bytes, s as usize * B, &rec);
                if damaged && nb > 1 && rng.random_range(0..5) == 0 {
                    let hit = s + 1 + rng.random_range(0..(nb - 1));
                    bytes[hit as usize * B..(hit as usize + 1) * B].fill(0);
                    notes.push(format!("zeroed block {hit} inside {s}+{nb}"));
                }
            }
        }
        s += nb;
    }
    (bytes, fmt, notes)
}

fn random_file(flavour: u64, blocks: u64, rng: &mut StdRng) -> (Vec<u8>, u32, Vec<String>) {
    if flavour % 8 >= 6 {
        return windowed_file(blocks, flavour % 8 == 7, rng);
    }
    let mut bytes = vec![0u8; blocks as usize * B];
    if flavour % 6 >= 4 {
        // a large foreign file that is all zero except near its end (sizes that are not a whole number
        // of MiB: whatever scans the file for "never written" must read its tail too)
        let from = if flavour % 6 == 4 { bytes.len() - B } else { bytes.len() - 16 * B + 7 };
        rng.fill_bytes(&mut bytes[from..]);
        return (bytes, 3, vec![format!("zero but for the last {} bytes of {} blocks", blocks as usize * B - from, blocks)]);
    }
    rng.fill_bytes(&mut bytes);
    let len = bytes.len() as u64;
    let mut fmt = 3;
    let note = match flavour % 6 {
        0 => "random bytes",
        1 => {
            put(&mut bytes, 0, b"FEOX_SIG");
            "random bytes behind the signature"
        }
        2 => {
            put(&mut bytes, 0, &L::encode_meta(3, 2, 1, 4096, len));
            "valid metadata, random rest"
        }
        _ => {
            fmt = 1 + rng.random_range(0..3) as u32;
            put(&mut bytes, 0, &L::encode_meta(fmt, 2, 1, 4096, len));
            bytes[B..L::DATA_START as usize * B].fill(0);
            for s in L::DATA_START as usize..blocks as usize {
                match rng.random_range(0..10) {
                    0..=2 => put(&mut bytes, s * B, &[0xCD, 0xAB]),
                    3 => put(&mut bytes, s * B, L::TAG),
                    4 => bytes[s * B..(s + 1) * B].fill(0),
                    _ => {}
                }
            }
            "valid metadata, empty journal, random data area with record and marker magics"
        }
    };
    (bytes, fmt, vec![note.to_string()])
}

fn item_rng(item: &Value, salt: u64) -> StdRng {
    StdRng::seed_from_u64(item["seed"].as_u64().unwrap_or(1) ^ salt.wrapping_mul(0x9E37_79B9_7F4A_7C15))
}

fn build_item(item: &Value, t: &Table) -> Built {
    match item["kind"].as_str().unwrap_or("model") {
        "random" => {
            let mut rng = item_rng(item, 3);
            let flavour = item["flavour"].as_u64().unwrap_or(0);
            let blocks = item["blocks"].as_u64().unwrap_or(20);
            let big = flavour % 8 >= 6 || flavour % 6 >= 4;
            let (bytes, fmt, notes) = random_file(flavour, if big { blocks.clamp(17, 1100) } else { blocks.clamp(17, 64) }, &mut rng);
            Built { bytes, fmt, ttl: item["seed"].as_u64().unwrap_or(0) % 2 == 0, notes }
        }
        kind => {
            let mut built = concretise(&item["img"], t, &mut item_rng(item, 1));
            if kind == "mut" {
                let mut rng = StdRng::seed_from_u64(item["mseed"].as_u64().unwrap_or(1));
                let notes = mutate(&mut built.bytes, &mut rng);
                built.notes.extend(notes);
            }
            built
        }
    }
}

// ------------------------------------------------------------------ observation (child side)

fn install_panic_hook() {
    std::panic::set_hook(Box::new(|info| {
        let loc = info.location().map(|l| format!("{}:{}", l.file(), l.line())).unwrap_or_else(|| "?".into());
        let msg = info.payload().downcast_ref::<&str>().map(|s| s.to_string()).or_else(|| info.payload().downcast_ref::<String>().cloned()).unwrap_or_default();
        let line = format!("panicked at {loc}: {}", msg.chars().take(200).collect::<String>());
        eprintln!("{line}");
        if let Ok(mut p) = PANICS.lock() {
            p.push(line);
        }
    }));
}
fn take_panics() -> Vec<String> {
    PANICS.lock().map(|mut p| std::mem::take(&mut *p)).unwrap_or_default()
}

fn pin_cpus(base: usize, n: usize) {
    let ncpu = std::thread::available_parallelism().map(|x| x.get()).unwrap_or(1);
    unsafe {
        let mut set: libc::cpu_set_t = std::mem::zeroed();
        libc::CPU_ZERO(&mut set);
        // from the highest CPU downwards: other harness processes of this framework pin themselves
        // to CPUs 0..n
        for i in 0..n {
            libc::CPU_SET(ncpu - 1 - (base + i) % ncpu, &mut set);
        }
        libc::sched_setaffinity(0, std::mem::size_of::<libc::cpu_set_t>(), &set);
    }
}

/// Generation (1-based index of the table) a recovered record of key k stands for; -1 = none of them.
fn gen_of(t: &Table, key: &[u8], ts: u64) -> i64 {
    t.gens.iter().position(|g| key_of(g.k) == key && g.ts * U == ts).map(|i| i as i64 + 1).unwrap_or(-1)
}

fn probe(store: &FeoxStore, keys: &[Vec<u8>], tag: &str) -> (String, Vec<String>) {
    let mut errs: Vec<String> = Vec::new();
    let mut note = |what: &str, e: &feoxdb::FeoxError| {
        let n = err_name(e);
        if n != "KeyNotFound" {
            errs.push(format!("{what}:{n}"));
        }
    };
    let r = catch_unwind(AssertUnwindSafe(|| {
        watchdog::beat(&format!("{tag} probe len"));
        let _ = (store.len(), store.is_empty(), store.memory_usage());
        for k in keys {
            watchdog::beat(&format!("{tag} probe get {}", String::from_utf8_lossy(k)));
            if let Err(e) = store.get(k) {
                note("get", &e);
            }
            let _ = store.contains_key(k);
            if let Err(e) = store.get_size(k) {
                note("get_size", &e);
            }
            if let Err(e) = store.get_bytes(k) {
                note("get_bytes", &e);
            }
        }
        watchdog::beat(&format!("{tag} probe range_query"));
        if let Err(e) = store.range_query(b"", &[0xFF; 8], 1000) {
            note("range_query", &e);
        }
        watchdog::beat(&format!("{tag} probe insert"));
        if let Err(e) = store.insert(b"probe", b"a value written after recovery") {
            note("insert", &e);
        }
        // overwrite a recovered record (its extent is retired by the flush below) and a stray one
        if let Err(e) = store.insert(&keys[0], b"overwritten after recovery") {
            note("insert0", &e);
        }
        if let Some(k) = keys.get(3).filter(|_| keys.len() > 4) {
            if let Err(e) = store.insert(k, b"stray key overwritten") {
                note("insertx", &e);
            }
        }
        watchdog::beat(&format!("{tag} probe delete"));
        if let Err(e) = store.delete(&keys[1]) {
            note("delete", &e);
        }
        watchdog::beat(&format!("{tag} probe flush"));
        if let Err(e) = store.flush() {
            note("flush", &e);
        }
        watchdog::beat(&format!("{tag} probe reread"));
        if let Err(e) = store.get(b"probe") {
            note("reget", &e);
        }
        let _ = store.len();
    }));
    (if r.is_ok() { "ok".to_string() } else { "panic".to_string() }, errs)
}

/// Write the bytes, open them with the real store, probe, abandon the store, compare the file.
fn observe(path: &str, bytes: &[u8], ttl: bool, amb: bool, t: &Table, tag: &str) -> Value {
    std::fs::write(path, bytes).expect("write image");
    let _ = take_panics();
    watchdog::beat(&format!("{tag} open amb={amb}"));
    feoxdb::verif::set_now(t.now * U);
    let started = std::time::Instant::now();
    let len = bytes.len() as u64;
    let p = path.to_string();
    let res = catch_unwind(move || {
        FeoxStore::builder().device_path(p).file_size(len).hash_bits(6).enable_ttl(ttl).allow_ambiguous_legacy_recovery(amb).build()
    });
    let mut out = json!({"probe": "-", "probe_errs": [], "kv": [], "extra": []});
    match res {
        Err(_) => out["observed"] = json!("panic"),
        Ok(Err(e)) => {
            out["observed"] = json!(err_name(&e));
            out["detail"] = json!(format!("{e:?}").chars().take(120).collect::<String>());
        }
        Ok(Ok(store)) => {
            out["observed"] = json!("open");
            let snap = catch_unwind(AssertUnwindSafe(|| store.verif_snapshot())).unwrap_or_default();
            let model_keys: Vec<Vec<u8>> = { let mut ks: Vec<u64> = t.gens.iter().map(|g| g.k).collect(); ks.sort_unstable(); ks.dedup(); ks.into_iter().map(key_of).collect() };
            let kv: Vec<i64> = model_keys.iter().map(|k| snap.iter().find(|r| r.key == *k).map(|r| gen_of(t, k, r.timestamp)).unwrap_or(0)).collect();
            let extra: Vec<String> = snap.iter().filter(|r| !model_keys.contains(&r.key)).map(|r| String::from_utf8_lossy(&r.key).chars().take(24).collect()).collect();
            out["kv"] = json!(kv);
            out["extra"] = json!(extra);
            out["records"] = json!(store.len());
            let mut keys = model_keys.clone();
            keys.push(b"kx".to_vec());
            keys.extend(snap.iter().filter(|r| !model_keys.contains(&r.key)).take(6).map(|r| r.key.clone()));
            keys.push(b"absent".to_vec());
            let (verdict, errs) = probe(&store, &keys, tag);
            out["probe"] = json!(verdict);
            out["probe_errs"] = json!(errs);
            // dropping a persistent store costs 0.5 s; the process is short-lived
            std::mem::forget(store);
        }
    }
    out["ms"] = json!(started.elapsed().as_millis() as u64);
    watchdog::beat(&format!("{tag} compare"));
    out["modified"] = json!(std::fs::read(path).map(|now| now != bytes).unwrap_or(true));
    out["panics"] = json!(take_panics());
    out
}

fn run_item(item: &Value, t: &Table, dir: &str, lean: bool) -> Value {
    let id = item["id"].as_u64().unwrap_or(0);
    let tag = format!("item {id}");
    watchdog::beat(&format!("{tag} build"));
    let built = build_item(item, t);
    let bytes = &built.bytes;
    let path = format!("{dir}/i{id}_{}.img", std::process::id());
    let recognisable = [L::META_PRIMARY, L::META_BACKUP].iter().any(|b| bytes.get(b * B..b * B + 8) == Some(&b"FEOX_SIG"[..]));
    let nonempty = bytes.iter().any(|x| *x != 0);
    let img = &item["img"];
    let has_pred = item["kind"] == "model";
    let (pred, pred_amb) = (&img["pred"], &img["predAmb"]);
    let oracle = |amb: bool| {
        catch_unwind(|| {
            let r = L::recover_view(bytes, ttl_now(built.ttl, t), amb, false);
            if r.ok { "open".to_string() } else { r.err }
        })
        .unwrap_or_else(|_| "oracle-panic".to_string())
    };
    let first = observe(&path, bytes, built.ttl, false, t, &tag);
    let mut res = json!({
        "id": id, "kind": item["kind"], "fmt": built.fmt, "ttl": built.ttl, "len": bytes.len(),
        "pred": if has_pred { pred[0].clone() } else { Value::Null },
        "pred_kv": if has_pred { pred[1].clone() } else { Value::Null },
        "pred_gh": if has_pred { pred[2].clone() } else { Value::Null },
        "valid": has_pred && img["valid"] == true,
        "recognisable": recognisable, "nonempty": nonempty, "oracle": oracle(false),
        "hash": format!("{:016x}", L::hash64(bytes)), "notes": built.notes,
    });
    for (k, v) in first.as_object().unwrap() {
        res[k] = v.clone();
    }
    let want_amb = first["observed"] == "AmbiguousLegacyTombstone" || (has_pred && pred != pred_amb);
    if want_amb {
        let mut second = observe(&path, bytes, built.ttl, true, t, &tag);
        second["pred"] = if has_pred { pred_amb[0].clone() } else { Value::Null };
        second["pred_kv"] = if has_pred { pred_amb[1].clone() } else { Value::Null };
        second["pred_gh"] = if has_pred { pred_amb[2].clone() } else { Value::Null };
        second["oracle"] = json!(oracle(true));
        res["amb"] = second;
    }
    let _ = std::fs::remove_file(&path);
    if !lean || noteworthy(&res) {
        res["item"] = item.clone();
    }
    res
}

fn ttl_now(ttl: bool, t: &Table) -> Option<u64> {
    ttl.then_some(t.now * U)
}

/// Superset of everything the check may want to look at again (decides, in lean mode, whether the
/// work item is echoed in the result).
fn noteworthy(r: &Value) -> bool {
    let one = |o: &Value| {
        let obs = o["observed"].as_str().unwrap_or("");
        let opened = obs == "open";
        matches!(obs, "panic" | "hang" | "abort")
            || (opened && o["probe"] != "ok")
            || o["panics"].as_array().is_some_and(|p| !p.is_empty())
            || (!o["pred"].is_null() && (o["pred"] != o["observed"] || (opened && (o["pred_kv"] != o["kv"] || o["pred_gh"].as_u64() != o["extra"].as_array().map(|a| a.len() as u64)))))
            || (!opened && o["modified"] == true && matches!(obs, "InvalidDevice" | "InvalidMetadata"))
    };
    one(r) || r.get("amb").is_some_and(one) || (r["recognisable"] == false && r["nonempty"] == true && (r["observed"] == "open" || r["modified"] == true))
}

fn child(o: &Opts) -> i32 {
    pin_cpus(o.num("cpu-base", 0usize), 2);
    install_panic_hook();
    watchdog::start(o.num("wd", 10));
    let dir = o.req("dir").to_string();
    let text = std::fs::read_to_string(o.req("list")).expect("list");
    let mut table = default_table();
    let mut out = std::fs::File::create(o.req("out")).expect("out");
    for line in text.lines() {
        let Ok(v) = serde_json::from_str::<Value>(line) else { continue };
        if let Some(t) = table_from(&v) {
            table = t;
            continue;
        }
        let res = run_item(&v, &table, &dir, o.has("lean"));
        // one write per line: a line is either complete or absent when the process dies
        let mut s = res.to_string();
        s.push('\n');
        out.write_all(s.as_bytes()).expect("write result");
        let _ = out.flush();
    }
    0
}

// ------------------------------------------------------------------ parent side

/// `<<"TAG", "escaped json">>` as printed by TLC's PrintT, or a plain JSON line.
fn parse_line(line: &str) -> Option<Value> {
    let l = line.trim();
    if l.starts_with('{') {
        return serde_json::from_str(l).ok();
    }
    let rest = l.strip_prefix("<<\"")?;
    let (_tag, rest) = rest.split_once("\", \"")?;
    let body = rest.strip_suffix("\">>")?;
    serde_json::from_str(&body.replace("\\\"", "\"").replace("\\\\", "\\")).ok()
}

/// One child process over `items`. Returns (exit status, complete result lines, tail of stderr,
/// phase reported by the watchdog if it fired).
fn spawn_child(items: &[Value], table: &Table, o: &Opts, dir: &str, slot: usize, tag: &str, wd: u64, stacks_after_s: Option<u64>) -> (std::process::ExitStatus, Vec<Value>, String, Option<String>) {
    let exe = EXE.get_or_init(|| std::env::current_exe().expect("current exe"));
    let (list, outp, errp, sop) = (format!("{dir}/list_{tag}.ndjson"), format!("{dir}/res_{tag}.ndjson"), format!("{dir}/err_{tag}.txt"), format!("{dir}/out_{tag}.txt"));
    let mut text = table_json(table).to_string();
    text.push('\n');
    for it in items {
        text.push_str(&it.to_string());
        text.push('\n');
    }
    std::fs::write(&list, text).expect("write list");
    let mut cmd = std::process::Command::new(exe);
    cmd.args(["images", "--child", "--list", &list, "--out", &outp, "--dir", dir, "--wd", &wd.to_string(), "--cpu-base", &(slot * 2).to_string()]);
    if o.has("lean") {
        cmd.arg("--lean");
    }
    let to_file = |p: &str| std::fs::File::create(p).map(std::process::Stdio::from).unwrap_or_else(|_| std::process::Stdio::null());
    let mut proc = cmd.stdout(to_file(&sop)).stderr(to_file(&errp)).spawn().expect("spawn images child");
    let started = std::time::Instant::now();
    let mut stacks: Option<String> = None;
    let status = loop {
        match proc.try_wait() {
            Ok(Some(st)) => break st,
            Ok(None) => {}
            Err(_) => break proc.wait().expect("wait for images child"),
        }
        // a solitary confirmation run that is stuck: thread backtraces of the code under test,
        // taken before the child's own watchdog ends it
        if let (Some(after), None) = (stacks_after_s, &stacks) {
            if started.elapsed().as_secs() >= after {
                stacks = Some(thread_stacks(proc.id()));
            }
        }
        std::thread::sleep(std::time::Duration::from_millis(if stacks_after_s.is_some() { 100 } else { 5 }));
    };
    let lines: Vec<Value> = std::fs::read_to_string(&outp).unwrap_or_default().lines().filter_map(|l| serde_json::from_str(l).ok()).collect();
    let stderr = std::fs::read_to_string(&errp).unwrap_or_default();
    let tail: String = stderr.chars().rev().take(400).collect::<Vec<_>>().into_iter().rev().collect();
    let phase = std::fs::read_to_string(&sop).unwrap_or_default().lines().filter_map(|l| serde_json::from_str::<Value>(l).ok()).find_map(|v| v.get("hang").and_then(|h| h.as_str()).map(|h| h.to_string()));
    for p in [&list, &outp, &errp, &sop] {
        let _ = std::fs::remove_file(p);
    }
    let phase = match (phase, stacks) {
        (Some(p), Some(st)) => Some(format!("{p}\n{st}")),
        (p, _) => p,
    };
    (status, lines, tail, phase)
}

/// `thread apply all bt` of a stuck child, reduced to the frames that name functions.
fn thread_stacks(pid: u32) -> String {
    let out = std::process::Command::new("timeout")
        .args(["20", "gdb", "-p", &pid.to_string(), "-batch", "-ex", "set pagination off", "-ex", "thread apply all bt 14"])
        .stderr(std::process::Stdio::null())
        .output();
    match out {
        Ok(o) => String::from_utf8_lossy(&o.stdout)
            .lines()
            .filter(|l| l.starts_with("Thread ") || l.trim_start().starts_with('#'))
            .map(|l| l.chars().take(220).collect::<String>())
            .collect::<Vec<_>>()
            .join("\n")
            .chars()
            .take(12000)
            .collect(),
        Err(e) => format!("gdb unavailable: {e}"),
    }
}

fn run_chunk(items: &[Value], table: &Table, o: &Opts, dir: &str, slot: usize, chunk_no: usize) -> Vec<Value> {
    let mut results: Vec<Value> = Vec::with_capacity(items.len());
    let mut start = 0;
    let mut round = 0;
    let max_bad: usize = o.num("max-bad", 16usize);
    let wd: u64 = o.num("wd", 10u64);
    while start < items.len() && BAD.load(Ordering::SeqCst) < max_bad {
        let (status, lines, tail, phase) = spawn_child(&items[start..], table, o, dir, slot, &format!("{chunk_no}_{round}"), wd, None);
        let got = lines.len().min(items.len() - start);
        results.extend(lines.into_iter().take(got));
        start += got;
        if start < items.len() {
            // the child stopped early: the item after the last reported one brought it down.  The
            // verdict needs solitary runs with a three times longer watchdog: on a loaded machine a
            // process can be starved for seconds, and a rare race inside flush is not a property of
            // the image either (it is kept, with thread backtraces, as `unconfirmed` evidence).
            let it = &items[start];
            let how = if status.code() == Some(3) { "hang" } else { "abort" };
            // up to two solitary runs: a verdict only if the image brings the process down every time
            let mut last = (status, tail.clone(), phase.clone());
            let mut history = vec![json!({"run": "batch", "observed": how, "status": format!("{status:?}"), "phase": phase, "stderr": tail})];
            let mut passed: Option<Value> = None;
            for attempt in 0..2 {
                let (st2, mut lines2, tail2, phase2) = spawn_child(std::slice::from_ref(it), table, o, dir, slot, &format!("{chunk_no}_{round}c{attempt}"), wd * 3, (attempt == 0).then_some(wd * 2));
                if let Some(r) = lines2.pop() {
                    passed = Some(r);
                    break;
                }
                history.push(json!({"run": format!("alone {attempt}"), "observed": if st2.code() == Some(3) { "hang" } else { "abort" }, "status": format!("{st2:?}"), "exit_code": st2.code(), "phase": phase2, "stderr": tail2}));
                last = (st2, tail2, phase2);
            }
            if let Some(mut r) = passed {
                r["unconfirmed"] = json!({"first_run": how, "phase": history[0]["phase"], "runs": history});
                results.push(r);
            } else {
                let (status2, tail2, phase2) = last;
                let how2 = if status2.code() == Some(3) { "hang" } else { "abort" };
                BAD.fetch_add(1, Ordering::SeqCst);
                let has_pred = it["kind"] == "model";
                results.push(json!({
                    "id": it["id"], "kind": it["kind"], "observed": how2, "status": format!("{status2:?}"), "exit_code": status2.code(), "stderr": tail2, "phase": phase2,
                    "runs": history,
                    "pred": if has_pred { it["img"]["pred"][0].clone() } else { Value::Null },
                    "pred_kv": if has_pred { it["img"]["pred"][1].clone() } else { Value::Null },
                    "pred_gh": if has_pred { it["img"]["pred"][2].clone() } else { Value::Null },
                    "valid": has_pred && it["img"]["valid"] == true,
                    "probe": "-", "modified": Value::Null, "kv": [], "extra": [], "panics": [], "item": it.clone(),
                }));
            }
            start += 1;
        }
        round += 1;
    }
    results
}

pub fn main(args: &[String]) -> i32 {
    let o = Opts::parse(args);
    if o.has("child") {
        return child(&o);
    }
    let _ = EXE.get_or_init(|| std::env::current_exe().expect("current exe"));
    let seed: u64 = o.num("seed", 1);
    let mut table = default_table();
    let mut items: Vec<Value> = Vec::new();
    let text = match std::fs::read_to_string(o.req("in")) {
        Ok(t) => t,
        Err(e) => {
            eprintln!("cannot read --in: {e}");
            return 2;
        }
    };
    // a pretty-printed single JSON document (a saved replay) or one value per line
    let values: Vec<Value> = match serde_json::from_str::<Value>(&text) {
        Ok(Value::Array(a)) => a,
        Ok(v) => vec![v],
        Err(_) => text.lines().filter_map(parse_line).collect(),
    };
    for v in values {
        if let Some(t) = table_from(&v) {
            table = t;
        } else if v.get("kind").is_some() && v.get("id").is_some() {
            items.push(v); // a complete work item (replay)
        } else if let Some(item) = v.get("item").filter(|i| i.get("kind").is_some()) {
            items.push(item.clone()); // a result line: replay its item
        } else if v.get("b").is_some() && v.get("pred").is_some() {
            let id = items.len() as u64;
            items.push(json!({"id": id, "kind": "model", "seed": seed.wrapping_mul(1_000_003).wrapping_add(id), "img": v}));
        }
    }
    drop(text);
    if let Some(p) = o.get("emit") {
        // write the bytes of the first item and stop
        let Some(it) = items.first() else { return 2 };
        let built = build_item(it, &table);
        std::fs::write(p, &built.bytes).expect("emit");
        println!("{}", json!({"emitted": p, "len": built.bytes.len(), "notes": built.notes, "hash": format!("{:016x}", L::hash64(&built.bytes))}));
        return 0;
    }
    let n_model = items.len();
    let mut rng = StdRng::seed_from_u64(seed ^ 0xC17);
    let n_mut: usize = o.num("mutate", 0usize);
    if n_model > 0 {
        for i in 0..n_mut {
            let src = ((i * n_model) / n_mut.max(1) + rng.random_range(0..(n_model / n_mut.max(1)).max(1))).min(n_model - 1);
            let id = items.len() as u64;
            let mut img = items[src]["img"].clone();
            // the prediction is about the undamaged bytes
            if let Some(m) = img.as_object_mut() {
                m.remove("pred");
                m.remove("predAmb");
                m.insert("valid".into(), json!(false));
            }
            items.push(json!({"id": id, "kind": "mut", "of": items[src]["id"], "seed": items[src]["seed"], "mseed": rng.random::<u32>(), "img": img}));
        }
    }
    for i in 0..o.num("random", 0usize) {
        let id = items.len() as u64;
        // flavours 0..5 as before (i % 6); every fifth item is a windowed device (flavour 6 intact / 14 -> 7 damaged)
        let flavour = if i % 5 == 4 { if (i / 5) % 2 == 0 { 6 } else { 7 } } else { (i % 6) as u64 };
        let big = flavour >= 6 || flavour % 6 >= 4;
        items.push(json!({"id": id, "kind": "random", "seed": rng.random::<u32>(), "flavour": flavour, "blocks": if big { [272u64, 769, 300, 513, 1025, 530][(i / 6) % 6] } else { 17 + rng.random_range(0..8) }}));
    }
    let dir = o.req("dir").to_string();
    std::fs::create_dir_all(&dir).ok();
    let chunk: usize = o.num("chunk", 40usize).max(1);
    let jobs: usize = o.num("jobs", 8usize).max(1);
    let chunks: Vec<&[Value]> = items.chunks(chunk).collect();
    let next = AtomicUsize::new(0);
    let done: Mutex<Vec<(usize, Vec<Value>)>> = Mutex::new(Vec::new());
    let started = std::time::Instant::now();
    std::thread::scope(|s| {
        for slot in 0..jobs {
            let (chunks, next, done, table, o, dir) = (&chunks, &next, &done, &table, &o, &dir);
            s.spawn(move || loop {
                let c = next.fetch_add(1, Ordering::SeqCst);
                if c >= chunks.len() || BAD.load(Ordering::SeqCst) >= o.num("max-bad", 16usize) {
                    break;
                }
                let r = run_chunk(chunks[c], table, o, dir, slot, c);
                done.lock().unwrap().push((c, r));
            });
        }
    });
    let mut done = done.into_inner().unwrap();
    done.sort_by_key(|d| d.0);
    let mut out = std::io::BufWriter::new(std::fs::File::create(o.req("out")).expect("create out"));
    let mut classes: std::collections::BTreeMap<String, u64> = Default::default();
    let mut n = 0;
    for (_, rs) in &done {
        for r in rs {
            *classes.entry(r["observed"].as_str().unwrap_or("?").to_string()).or_default() += 1;
            writeln!(out, "{}", r).unwrap();
            n += 1;
        }
    }
    out.flush().unwrap();
    println!("{}", json!({"items": n, "model": n_model, "mutated": n_mut.min(if n_model > 0 { n_mut } else { 0 }), "random": o.num("random", 0usize),
                          "observed": classes, "wall_s": started.elapsed().as_secs_f64(),
                          "stopped_early": n != items.len(), "planned": items.len()}));
    // leftovers of children that died between writing and removing an image
    if let Ok(rd) = std::fs::read_dir(&dir) {
        for e in rd.flatten() {
            if e.file_name().to_string_lossy().ends_with(".img") {
                let _ = std::fs::remove_file(e.path());
            }
        }
    }
    if n == items.len() || BAD.load(Ordering::SeqCst) >= o.num("max-bad", 16usize) { 0 } else { 2 }
}

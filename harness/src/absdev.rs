//! Projection of concrete device writes onto the abstract block contents of spec/Disk.tla,
//! using only the independent decoder (layout.rs), and concrete crash-image assembly.
use crate::layout as L;
use serde_json::{json, Value};
use std::collections::HashMap;

#[derive(Clone, Debug)]
pub struct GenInfo {
    pub id: usize,
    pub kid: usize,
    pub key: Vec<u8>,
    pub ts: u64,
    pub exp: u64,
    pub value: Vec<u8>,
    pub blocks: u64,
}

#[derive(Default)]
pub struct GenTable {
    pub gens: Vec<GenInfo>,
    by_key_ts: HashMap<(Vec<u8>, u64), Vec<usize>>,
}

impl GenTable {
    pub fn add(&mut self, kid: usize, key: &[u8], ts: u64, exp: u64, value: &[u8], version: u32) -> usize {
        // the same content stored again (e.g. re-done after a crash) is the same generation
        let existing = self.lookup(key, ts, exp, value);
        if existing != 0 {
            return existing;
        }
        let id = self.gens.len() + 1;
        let blocks = (L::encode_record(version, 16, key, value, ts, exp).len() / L::BLOCK) as u64;
        self.gens.push(GenInfo { id, kid, key: key.to_vec(), ts, exp, value: value.to_vec(), blocks });
        self.by_key_ts.entry((key.to_vec(), ts)).or_default().push(id);
        id
    }
    /// The declared generation with exactly these contents (0 = the application never stored it).
    pub fn lookup(&self, key: &[u8], ts: u64, exp: u64, value: &[u8]) -> usize {
        if let Some(ids) = self.by_key_ts.get(&(key.to_vec(), ts)) {
            for id in ids {
                let g = &self.gens[*id - 1];
                if g.exp == exp && g.value == value {
                    return *id;
                }
            }
        }
        0
    }
}

pub fn content(t: &str, g: usize, n: u64, i: u64, look: &str) -> Value {
    json!({"t": t, "g": g, "n": n, "i": i, "look": look})
}

fn is_zero(b: &[u8]) -> bool {
    b.iter().all(|x| *x == 0)
}

/// How a scanner that lands on this single block classifies it.
pub fn look_of(block: &[u8], sector: u64, version: u32) -> (&'static str, u64) {
    if block.len() >= 8 && &block[..8] == L::TAG {
        return match L::parse_marker(block, sector) {
            Some(m) if m.legacy_zero && version < 3 => ("LM", 0),
            Some(m) if m.token_ok && m.remaining >= 1 => ("M", m.remaining),
            _ => ("Xm", 0),
        };
    }
    if block.len() >= 2 && u16::from_le_bytes([block[0], block[1]]) == L::HEAD_MARKER {
        if let Some(h) = L::parse_head(block, version) {
            if h.blocks == 1 {
                let ok = if version >= 3 { h.token != 0 && h.token == L::record_token(sector, &block[..L::BLOCK]) } else { h.token == 0 };
                if ok {
                    return ("H", 1);
                }
            }
        }
        return ("Xh", 0);
    }
    ("", 0)
}

/// Abstract contents of a data-area write starting at `sector`.
/// A byte count as a number of blocks; a count that is not a whole number of blocks maps to a
/// value no block total can equal (the counters are compared exactly).
pub fn blocks_exact(bytes: u64) -> u64 {
    if bytes % L::BLOCK as u64 == 0 { bytes / L::BLOCK as u64 } else { 1_000_000 + (bytes / L::BLOCK as u64) % 1_000_000 }
}

pub fn classify_data(sector: u64, data: &[u8], version: u32, gens: &GenTable) -> Vec<Value> {
    let nb = data.len() / L::BLOCK;
    let mut out = Vec::with_capacity(nb);
    // a complete record extent?
    if let Some(h) = L::parse_head(&data[..L::BLOCK.min(data.len())], version) {
        if h.blocks as usize == nb && nb >= 1 {
            let token_ok = if version >= 3 { h.token != 0 && h.token == L::record_token(sector, data) } else { h.token == 0 };
            let vstart = h.header_len;
            let vend = vstart + h.value_len as usize;
            if token_ok && vend <= data.len() && data[vend..].iter().all(|b| *b == 0) {
                let g = gens.lookup(&h.key, h.timestamp, h.expiry, &data[vstart..vend]);
                out.push(content("H", g, nb as u64, 0, ""));
                for i in 1..nb {
                    let blk = &data[i * L::BLOCK..(i + 1) * L::BLOCK];
                    let (lk, _) = look_of(blk, sector + i as u64, version);
                    out.push(content("T", g, 0, i as u64, lk));
                }
                return out;
            }
        }
    }
    for i in 0..nb {
        let blk = &data[i * L::BLOCK..(i + 1) * L::BLOCK];
        let s = sector + i as u64;
        if is_zero(blk) {
            out.push(content("Z", 0, 0, 0, ""));
            continue;
        }
        let (lk, rem) = look_of(blk, s, version);
        match lk {
            "M" => {
                let st = L::parse_marker(blk, s).map(|m| m.state as u64).unwrap_or(0);
                out.push(content("M", 0, rem, st, ""));
            }
            "LM" => out.push(content("LM", 0, 0, 0, "")),
            "Xm" => out.push(content("Xm", 0, 0, 0, "")),
            "Xh" => out.push(content("Xh", 0, 0, 0, "")),
            "H" => {
                // a one-block record image outside a recognised extent write
                let h = L::parse_head(blk, version).unwrap();
                let vstart = h.header_len;
                let vend = (vstart + h.value_len as usize).min(blk.len());
                let g = gens.lookup(&h.key, h.timestamp, h.expiry, &blk[vstart..vend]);
                out.push(content("H", g, 1, 0, ""));
            }
            _ => out.push(content("X", 0, 0, 0, "")),
        }
    }
    out
}

pub fn journal_value(bytes: &[u8], total_blocks: u64) -> Value {
    let mut padded = bytes.to_vec();
    padded.resize(L::JOURNAL_SLOT_BLOCKS * L::BLOCK, 0);
    let s = L::decode_journal_slot(&padded, total_blocks);
    if s.zero {
        json!({"z": true, "bad": false, "gen": 0, "active": false, "exts": []})
    } else if !s.valid {
        json!({"z": false, "bad": true, "gen": 0, "active": false, "exts": []})
    } else {
        json!({"z": false, "bad": false, "gen": s.generation, "active": s.active,
               "exts": s.extents.iter().map(|(a, b)| vec![*a, *b]).collect::<Vec<_>>()})
    }
}

pub fn meta_value(block: &[u8]) -> Value {
    if is_zero(block) {
        return json!({"z": true, "bad": false, "gen": 0, "ver": 0, "recs": 0, "size": 0});
    }
    match L::decode_meta(block) {
        Some(m) => json!({"z": false, "bad": false, "gen": m.generation, "ver": m.version,
                          "recs": m.total_records, "size": blocks_exact(m.total_size)}),
        None => json!({"z": false, "bad": true, "gen": 0, "ver": 0, "recs": 0, "size": 0}),
    }
}

/// One device write projected: kind "d" | "j" | "m" | "x".
pub fn classify_write(sector: u64, data: &[u8], version: u32, total_blocks: u64, gens: &GenTable) -> Value {
    let nb = (data.len() / L::BLOCK) as u64;
    if sector >= L::DATA_START {
        json!({"kind": "d", "at": sector, "c": classify_data(sector, data, version, gens)})
    } else if (sector == 0 || sector == 7) && nb == 1 {
        json!({"kind": "m", "copy": if sector == 0 { 0 } else { 1 }, "v": meta_value(data)})
    } else if (sector == 1 || sector == 4) && nb <= 3 {
        json!({"kind": "j", "slot": (sector - 1) / 3, "v": journal_value(data, total_blocks)})
    } else {
        json!({"kind": "x", "at": sector, "n": nb})
    }
}

/// Concrete device state: durable bytes plus the writes issued since the last completed fsync.
pub struct ConcreteDev {
    pub durable: Vec<u8>,
    pub pending: Vec<(u64, Vec<u8>)>,
    /// per pending write, per block: a tear of this block INSIDE the 4 KiB block (512-byte sectors) would be
    /// observable - a record head whose first sector and whose remaining sectors both differ from what the block
    /// held before, or a retirement marker written over such a head
    pub tear: Vec<Vec<bool>>,
}

impl ConcreteDev {
    pub fn new(size: usize) -> Self {
        Self { durable: vec![0; size], pending: Vec::new(), tear: Vec::new() }
    }
    pub fn write(&mut self, sector: u64, data: &[u8]) {
        if self.tear.len() > self.pending.len() { self.tear.truncate(self.pending.len()); }
        while self.tear.len() < self.pending.len() { self.tear.push(Vec::new()); }
        let mut flags = Vec::new();
        if sector >= L::DATA_START {
            let all: Vec<(usize, usize)> = self.units();
            let view = self.image(&all);
            for o in 0..data.len() / L::BLOCK {
                let off = (sector as usize + o) * L::BLOCK;
                let new = &data[o * L::BLOCK..(o + 1) * L::BLOCK];
                let mut f = false;
                if off + L::BLOCK <= view.len() {
                    let before = &view[off..off + L::BLOCK];
                    let differs = before[..512] != new[..512] && before[512..] != new[512..];
                    let new_marker = new.starts_with(L::TAG);
                    let before_head = !before.starts_with(L::TAG) && before[..32].iter().any(|b| *b != 0);
                    f = differs && ((o == 0 && !new_marker) || (new_marker && before_head));
                }
                flags.push(f);
            }
        }
        self.tear.push(flags);
        self.pending.push((sector, data.to_vec()));
    }
    pub fn last_tear_flags(&self) -> Vec<bool> {
        self.tear.last().cloned().unwrap_or_default()
    }
    pub fn fsync(&mut self) {
        self.tear.clear();
        for (s, d) in std::mem::take(&mut self.pending) {
            let off = s as usize * L::BLOCK;
            if off + d.len() <= self.durable.len() {
                self.durable[off..off + d.len()].copy_from_slice(&d);
            }
        }
    }
    /// Units as in Disk.tla: (write index 1-based, block offset) for data writes, (index, 0)
    /// for journal / metadata writes.
    pub fn units(&self) -> Vec<(usize, usize)> {
        let mut u = Vec::new();
        for (i, (s, d)) in self.pending.iter().enumerate() {
            if *s >= L::DATA_START {
                for o in 0..d.len() / L::BLOCK {
                    u.push((i + 1, o));
                }
            } else {
                u.push((i + 1, 0));
            }
        }
        u
    }
    pub fn image(&self, subset: &[(usize, usize)]) -> Vec<u8> {
        self.image_torn(subset, &[])
    }
    /// Journal-slot writes of `subset` that can tear: the image is longer than one 512-byte sector.
    pub fn tearable(&self, subset: &[(usize, usize)]) -> Vec<(usize, usize)> {
        let mut data_torn = 0;
        subset.iter().copied().filter(|(i, o)| {
            let (s, d) = &self.pending[*i - 1];
            if *s >= L::DATA_START {
                // data blocks (sector-granular tearing inside a block), at most three per crash image set
                let f = self.tear.get(*i - 1).and_then(|v| v.get(*o)).copied().unwrap_or(false);
                if f { data_torn += 1; }
                return f && data_torn <= 3;
            }
            *s >= L::JOURNAL_START as u64 && *s < L::META_BACKUP as u64 && d.len() >= 32
                && u32::from_le_bytes(d[28..32].try_into().unwrap()) >= 60
        }).collect()
    }
    /// As `image`; writes listed in `torn` reached the device with their first 512 bytes only.
    pub fn image_torn(&self, subset: &[(usize, usize)], torn: &[(usize, usize)]) -> Vec<u8> {
        let mut img = self.durable.clone();
        for (i, (s, d)) in self.pending.iter().enumerate() {
            if *s >= L::DATA_START {
                for o in 0..d.len() / L::BLOCK {
                    if subset.contains(&(i + 1, o)) {
                        let off = (*s as usize + o) * L::BLOCK;
                        if off + L::BLOCK <= img.len() {
                            let new = &d[o * L::BLOCK..(o + 1) * L::BLOCK];
                            if torn.contains(&(i + 1, o)) {
                                // torn inside the block: a record head keeps only its first sector (header and token
                                // land, the rest does not); a marker written over a head lands everywhere BUT in the
                                // first sector (the old header survives over zeroed contents)
                                if new.starts_with(L::TAG) { img[off + 512..off + L::BLOCK].copy_from_slice(&new[512..]); }
                                else { img[off..off + 512].copy_from_slice(&new[..512]); }
                            } else {
                                img[off..off + L::BLOCK].copy_from_slice(new);
                            }
                        }
                    }
                }
            } else if subset.contains(&(i + 1, 0)) {
                let off = *s as usize * L::BLOCK;
                if off + d.len() <= img.len() {
                    let n = if torn.contains(&(i + 1, 0)) { 512.min(d.len()) } else { d.len() };
                    img[off..off + n].copy_from_slice(&d[..n]);
                }
            }
        }
        img
    }
}

/// The subsets of units explored as crash images: exhaustive up to `max_exh` units, otherwise
/// every prefix (in issue order), every single unit and every all-but-one.
pub fn subsets(units: &[(usize, usize)], max_exh: usize) -> Vec<Vec<(usize, usize)>> {
    let n = units.len();
    let mut out: Vec<Vec<(usize, usize)>> = Vec::new();
    if n <= max_exh {
        for mask in 0..(1u32 << n) {
            out.push((0..n).filter(|i| mask & (1 << i) != 0).map(|i| units[i]).collect());
        }
        return out;
    }
    for p in 0..=n {
        out.push(units[..p].to_vec());
    }
    for i in 0..n {
        out.push(vec![units[i]]);
        let mut all = units.to_vec();
        all.remove(i);
        out.push(all);
    }
    out.sort();
    out.dedup();
    out
}

impl GenTable {
    pub fn lookup_hash(&self, key: &[u8], ts: u64, exp: u64, vlen: u64, hash: u64) -> usize {
        if let Some(ids) = self.by_key_ts.get(&(key.to_vec(), ts)) {
            for id in ids {
                let g = &self.gens[*id - 1];
                if g.exp == exp && g.value.len() as u64 == vlen && L::hash64(&g.value) == hash {
                    return *id;
                }
            }
        }
        0
    }
}

/// Abstract contents of a whole device image (for traces that start from a crashed device).
pub fn classify_image(img: &[u8], version: u32, gens: &GenTable) -> Value {
    let total = (img.len() / L::BLOCK) as u64;
    let blks = L::classify(img, version);
    let mut out: Vec<Value> = Vec::with_capacity(blks.len());
    let mut head_gen: HashMap<u64, usize> = HashMap::new();
    for (idx, b) in blks.iter().enumerate() {
        let s = L::DATA_START + idx as u64;
        let raw = &img[s as usize * L::BLOCK..(s as usize + 1) * L::BLOCK];
        match b {
            L::Blk::Zero => out.push(content("Z", 0, 0, 0, "")),
            L::Blk::Head { key, ts, exp, vlen, n, token_ok, value_hash } => {
                if *token_ok {
                    let g = gens.lookup_hash(key, *ts, *exp, *vlen, *value_hash);
                    head_gen.insert(s, g);
                    out.push(content("H", g, *n, 0, ""));
                } else {
                    out.push(content("Xh", 0, 0, 0, ""));
                }
            }
            L::Blk::Tail { of, i } => {
                let g = *head_gen.get(of).unwrap_or(&0);
                let (lk, _) = look_of(raw, s, version);
                out.push(content("T", g, 0, *i, lk));
            }
            L::Blk::Marker { rem, state, token_ok } => {
                if *token_ok && *rem >= 1 {
                    out.push(content("M", 0, *rem, *state as u64, ""));
                } else {
                    out.push(content("Xm", 0, 0, 0, ""));
                }
            }
            L::Blk::LegacyMarker => out.push(content("LM", 0, 0, 0, "")),
            L::Blk::Other => {
                let (lk, _) = look_of(raw, s, version);
                match lk {
                    "Xh" => out.push(content("Xh", 0, 0, 0, "")),
                    "Xm" => out.push(content("Xm", 0, 0, 0, "")),
                    _ => out.push(content("X", 0, 0, 0, "")),
                }
            }
        }
    }
    let j0 = journal_value(&img[L::BLOCK..4 * L::BLOCK], total);
    let j1 = journal_value(&img[4 * L::BLOCK..7 * L::BLOCK], total);
    let m0 = meta_value(&img[0..L::BLOCK]);
    let m1 = meta_value(&img[7 * L::BLOCK..8 * L::BLOCK]);
    json!({"blk": out, "j": [j0, j1], "m": [m0, m1]})
}

pub fn hex(d: &[u8]) -> String {
    let mut s = String::with_capacity(d.len() * 2);
    for b in d {
        s.push_str(&format!("{b:02x}"));
    }
    s
}

pub fn unhex(s: &str) -> Vec<u8> {
    (0..s.len() / 2).map(|i| u8::from_str_radix(&s[2 * i..2 * i + 2], 16).unwrap_or(0)).collect()
}

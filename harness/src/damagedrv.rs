//! C18 (and C09's "reported, contained"): the medium is damaged UNDER an open store.  Keys are written and
//! flushed (their values leave memory), then blocks of the data area are overwritten from outside (zeros,
//! garbage, a cleared head magic, a forged retirement marker); afterwards every kind of call that has to read
//! such an extent runs - reads, scans, read-modify-write calls, TTL-only updates (whose new generation borrows
//! the bytes on the device until it is flushed), flush() and finally the close.  Every call may fail; every
//! call has to RETURN (the process-wide watchdog reports the call that did not).
use crate::util::{err_name, watchdog, Opts};
use feoxdb::FeoxStore;
use rand::{rngs::StdRng, Rng, RngCore, SeedableRng};
use serde_json::json;
use std::io::{Seek, SeekFrom, Write};

const B: usize = 4096;

pub fn main(args: &[String]) -> i32 {
    let o = Opts::parse(args);
    let seed: u64 = o.num("seed", 1);
    let rounds: usize = o.num("rounds", 6);
    let dir = o.get("dir").unwrap_or("/dev/shm").to_string();
    std::fs::create_dir_all(&dir).ok();
    let lockout = o.get("lockout").map(|s| s.to_string());
    if lockout.is_some() { crate::obs::install(); crate::obs::set_hang_lockout(lockout.as_deref()); }
    watchdog::start(o.num("watchdog", 20));
    let mut rng = StdRng::seed_from_u64(seed);
    let mut calls = 0u64;
    let mut errors: std::collections::BTreeMap<String, u64> = Default::default();
    let mut note = |what: &str, e: Option<&feoxdb::FeoxError>, errors: &mut std::collections::BTreeMap<String, u64>| {
        let k = format!("{what}:{}", e.map(err_name).unwrap_or_else(|| "ok".into()));
        *errors.entry(k).or_insert(0) += 1;
    };
    for round in 0..rounds {
        let path = format!("{dir}/damage_{}_{round}.feox", std::process::id());
        let _ = std::fs::remove_file(&path);
        let blocks = 40u64;
        let cache = rng.random_bool(0.3);
        watchdog::beat(&format!("round {round}: build"));
        let store = FeoxStore::builder().device_path(path.clone()).file_size(blocks * B as u64).hash_bits(4)
            .enable_ttl(true).enable_caching(cache).no_memory_limit().build().expect("build");
        let keys: Vec<Vec<u8>> = (0..5).map(|i| format!("dk{i}").into_bytes()).collect();
        for (i, k) in keys.iter().enumerate() {
            let n = [300usize, 5000, 900, 9000, 8][i];
            let v: Vec<u8> = if n == 8 { 7i64.to_le_bytes().to_vec() } else { vec![b'a' + i as u8; n] };
            watchdog::beat(&format!("round {round}: insert {i}"));
            let r = if i % 2 == 0 { store.insert_with_ttl(k, &v, 600) } else { store.insert(k, &v) };
            note("insert", r.as_ref().err(), &mut errors);
        }
        watchdog::beat(&format!("round {round}: first flush"));
        note("flush", store.flush().as_ref().err(), &mut errors);
        // ---- damage from outside: the blocks the records occupy (from the store's own snapshot)
        let recs = store.verif_snapshot();
        let mut f = std::fs::OpenOptions::new().write(true).open(&path).expect("open device");
        let mut damaged = Vec::new();
        for r in recs.iter().filter(|r| r.sector != 0) {
            if rng.random_range(0..3) == 0 { continue; }
            let kind = rng.random_range(0..5);
            let at = r.sector;
            let bytes: Vec<u8> = match kind {
                0 => vec![0u8; B],
                1 => { let mut g = vec![0u8; B]; rng.fill_bytes(&mut g); g }
                2 => vec![0u8; 2],                                        // the head magic only
                3 => crate::layout::encode_marker_block(at, 1, crate::layout::STATE_COMPLETE),
                _ => { let mut g = vec![0u8; 16]; rng.fill_bytes(&mut g); g }
            };
            f.seek(SeekFrom::Start(at * B as u64)).unwrap();
            f.write_all(&bytes).unwrap();
            damaged.push((at, kind));
        }
        f.sync_all().ok();
        drop(f);
        // ---- every kind of call that has to read a damaged extent
        let order: Vec<usize> = (0..keys.len()).collect();
        for pass in 0..2 {
            for &i in &order {
                let k = &keys[i];
                let ops = ["get", "update_ttl", "persist", "cas", "incr", "patch", "get_size", "insert", "delete", "range", "flush"];
                for _ in 0..3 {
                    let op = ops[rng.random_range(0..ops.len())];
                    watchdog::beat(&format!("round {round} pass {pass}: {op} on key {i} (damaged blocks {damaged:?})"));
                    calls += 1;
                    match op {
                        "get" => note(op, store.get(k).as_ref().err(), &mut errors),
                        "update_ttl" => note(op, store.update_ttl(k, 900).as_ref().err(), &mut errors),
                        "persist" => note(op, store.persist(k).as_ref().err(), &mut errors),
                        "cas" => note(op, store.compare_and_swap(k, &vec![b'a' + i as u8; 300], b"swapped").as_ref().err(), &mut errors),
                        "incr" => note(op, store.atomic_increment(k, 1).as_ref().err(), &mut errors),
                        "patch" => note(op, store.json_patch(k, b"[{\"op\":\"replace\",\"path\":\"/n\",\"value\":1}]").as_ref().err(), &mut errors),
                        "get_size" => note(op, store.get_size(k).as_ref().err(), &mut errors),
                        "insert" => note(op, store.insert(k, &vec![b'n'; 700]).as_ref().err(), &mut errors),
                        "delete" => note(op, store.delete(k).as_ref().err(), &mut errors),
                        "range" => note(op, store.range_query(b"", &[0xff; 3], 10).as_ref().err(), &mut errors),
                        _ => note(op, store.flush().as_ref().err(), &mut errors),
                    }
                }
            }
            watchdog::beat(&format!("round {round} pass {pass}: flush (damaged blocks {damaged:?})"));
            calls += 1;
            note("flush", store.flush().as_ref().err(), &mut errors);
        }
        watchdog::beat(&format!("round {round}: close (damaged blocks {damaged:?})"));
        drop(store);
        let _ = std::fs::remove_file(&path);
    }
    if let Some(lp) = lockout {
        crate::obs::uninstall();
        let mut f = std::io::BufWriter::new(std::fs::File::create(lp).expect("lockout"));
        for e in &crate::obs::take() {
            if e.kind == "lk" {
                writeln!(f, "{}", json!({"tid": e.tid, "lock": String::from_utf8_lossy(&e.key), "acq": e.a, "mode": e.b})).unwrap();
            }
        }
    }
    println!("{}", json!({"rounds": rounds, "calls": calls, "outcomes": errors}));
    0
}

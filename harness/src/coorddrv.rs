//! fxv coord — free-running workloads on a persistent store with several shards / workers; records the
//! HANDSHAKE events of the write-behind (enqueue, drain, publish, skip, requeue, worker request / done, coordinator
//! tick, retirement, flush begin / end, settle points, close) in their global order for TraceCoord.tla.
//! Nothing is judged here: every line is a fact of the execution.
use crate::seqdrv::{build_store, Cfg};
use crate::util::Opts;
use rand::rngs::StdRng;
use rand::{Rng, SeedableRng};
use serde_json::{json, Value};
use std::io::Write as _;
use std::sync::atomic::{AtomicU64, AtomicUsize, Ordering};
use std::sync::Arc;
use std::time::{Duration, Instant};

use crate::obs::TICKS0; // ticks of worker 0 seen so far
static FAULT_ROUNDS: AtomicU64 = AtomicU64::new(0); // fail record writes while BATCH_FAILS < FAULT_ROUNDS
static PIN_MS: AtomicU64 = AtomicU64::new(0);

fn api(kind: &'static str, a: u64, b: u64) {
    crate::obs::api(kind, &[], a, b, 0);
}

/// Wait until the coordinator has ticked `n` more times (or `max_ms` have passed); returns the ticks seen.
fn quiet(n: u64, max_ms: u64) -> u64 {
    let t0 = Instant::now();
    let start = TICKS0.load(Ordering::SeqCst);
    while TICKS0.load(Ordering::SeqCst) - start < n && (t0.elapsed().as_millis() as u64) < max_ms {
        crate::util::watchdog::beat("coord: quiet period");
        std::thread::sleep(Duration::from_millis(20));
    }
    TICKS0.load(Ordering::SeqCst) - start
}

fn settle(tag: u64) {
    let seen = quiet(12, 4000);
    api("settled", seen, tag);
}

pub fn main(args: &[String]) -> i32 {
    let o = Opts::parse(args);
    let dir = o.get("dir").unwrap_or("/dev/shm").to_string();
    std::fs::create_dir_all(&dir).ok();
    let out = o.req("out").to_string();
    let kind = o.get("kind").unwrap_or("mixed").to_string();
    let seed: u64 = o.num("seed", 1);
    let cpus: usize = o.num("cpus", 4);
    crate::obs::set_cpus(cpus);
    crate::util::watchdog::start(o.num("watchdog", 90));
    let blocks: u64 = o.num("blocks", 4096);
    let cfg = Cfg { pers: true, ttl: false, cache: o.num("cache", 0u32) == 1, fmt: 3, lim: -1, blocks };
    let path = format!("{dir}/coord_{}_{}.feox", std::process::id(), seed);
    let _ = std::fs::remove_file(&path);
    let mut rng = StdRng::seed_from_u64(seed);
    feoxdb::verif::force_sync(o.num("sync", 0u32) == 1);

    // the common event log; its sink also feeds the steering counters (ticks naming worker 0, failed batches) and
    // stalls the reader that pins the chosen key
    crate::obs::install();
    let store = Arc::new(build_store(&cfg, &path).expect("build store"));
    feoxdb::verif::set_fault_fn(Some(Box::new(|_idx, kind, sector, _len| {
        if kind == "write" && sector >= 16 && crate::obs::in_batch()
            && crate::obs::batch_fails() < FAULT_ROUNDS.load(Ordering::SeqCst) {
            return 1;
        }
        0
    })));

    let nkeys: usize = o.num("keys", 24);
    let keys: Vec<Vec<u8>> = (0..nkeys).map(|i| format!("k{i:03}").into_bytes()).collect();
    let threads: usize = o.num("threads", 3);
    let steps: usize = o.num("steps", 60);
    let live = Arc::new(AtomicUsize::new(0));
    let flushpct_all: u32 = o.num("flushpct", 0);

    match kind.as_str() {
        "mixed" | "faulty" | "pinned" => {
            if kind == "pinned" {
                // a victim whose value is on the device only; a reader that pins it for a while
                let victim = b"zz-victim".to_vec();
                store.insert(&victim, &vec![b'V'; 5000]).expect("insert victim");
                api("flush_begin", 0, 0);
                let r = store.flush();
                api("flush_end", r.is_ok() as u64, 0);
                PIN_MS.store(o.num("pinms", 700), Ordering::SeqCst);
                crate::obs::set_pin_stall(victim.clone(), PIN_MS.load(Ordering::SeqCst));
                let s2 = store.clone();
                let v2 = victim.clone();
                let rd = std::thread::spawn(move || {
                    let _ = s2.get(&v2);
                });
                let t0 = Instant::now();
                while !crate::obs::pin_stalled() && t0.elapsed().as_millis() < 2000 {
                    std::thread::sleep(Duration::from_micros(200));
                }
                api("pin_on", 0, 0);
                let _ = store.delete(&victim);
                // a flush that has to wait for the reader
                api("flush_begin", 0, 0);
                let r = store.flush();
                api("flush_end", r.is_ok() as u64, 0);
                let _ = rd.join();
                api("pin_off", 0, 0);
            }
            let mut hs = Vec::new();
            for t in 0..threads {
                let st = store.clone();
                let ks = keys.clone();
                let lv = live.clone();
                let mut r = StdRng::seed_from_u64(seed * 977 + t as u64);
                let faulty = kind == "faulty";
                let flushpct: u32 = flushpct_all;
                hs.push(std::thread::spawn(move || {
                    lv.fetch_add(1, Ordering::SeqCst);
                    for i in 0..steps {
                        crate::util::watchdog::beat("coord: client ops");
                        if faulty && t == 0 && i == steps / 3 {
                            // an outage of record writes that lasts for several worker rounds (journal, scrubbing and
                            // metadata writes keep succeeding)
                            let n = [3u64, 10, 18, 26][r.gen_range(0..4)];
                            FAULT_ROUNDS.store(crate::obs::batch_fails() + n, Ordering::SeqCst);
                            api("fault_on", n, 0);
                        }
                        let k = &ks[r.gen_range(0..ks.len())];
                        let c = r.gen_range(0..100);
                        if flushpct > 0 && r.gen_range(0..100) < flushpct {
                            // every thread flushes often: requests queue up behind passes that are already under way
                            api("flush_begin", t as u64 + 1, 0);
                            let res = st.flush();
                            api("flush_end", res.is_ok() as u64, t as u64 + 1);
                            continue;
                        }
                        if c < 62 {
                            let n = *[40usize, 200, 900, 3000, 5000, 9000].get(r.gen_range(0..6)).unwrap();
                            let _ = st.insert(k, &vec![b'a' + (i % 26) as u8; n]);
                        } else if c < 80 {
                            let _ = st.delete(k);
                        } else if c < 90 {
                            let _ = st.get(k);
                        } else if t == 0 || c < 94 || faulty {
                            api("flush_begin", t as u64 + 1, 0);
                            let res = st.flush();
                            api("flush_end", res.is_ok() as u64, t as u64 + 1);
                        }
                        if r.gen_range(0..40) == 0 {
                            std::thread::sleep(Duration::from_millis(r.gen_range(5..130)));
                        }
                    }
                    lv.fetch_sub(1, Ordering::SeqCst);
                }));
            }
            for h in hs {
                let _ = h.join();
            }
            if kind == "faulty" {
                // let the outage run out (every failed round counts), then heal for good
                // several threads write FRESH keys and call flush() at the same time (their requests queue up behind one
                // another on the workers' channels) until the outage has run out
                let mut fs = Vec::new();
                for t in 0..3usize {
                    let st = store.clone();
                    fs.push(std::thread::spawn(move || {
                        let t0 = Instant::now();
                        let mut n = 0usize;
                        while crate::obs::batch_fails() < FAULT_ROUNDS.load(Ordering::SeqCst) && t0.elapsed().as_millis() < 4000 {
                            crate::util::watchdog::beat("coord: outage running out");
                            let _ = st.insert(format!("fresh{t}_{n:04}").as_bytes(), &[b'f'; 100]);
                            n += 1;
                            api("flush_begin", 9 + t as u64, 0);
                            let res = st.flush();
                            api("flush_end", res.is_ok() as u64, 9 + t as u64);
                            if n % 4 == 0 { std::thread::sleep(Duration::from_millis(7)); }
                        }
                    }));
                }
                for h in fs { let _ = h.join(); }
                FAULT_ROUNDS.store(0, Ordering::SeqCst);
                api("fault_off", 0, 0);
            }
        }
        "burst" => {
            // more entries into one shard than one journal batch holds, faster than the workers drain them
            let n: usize = o.num("burst", 3000);
            let mut hs = Vec::new();
            for t in 0..threads {
                let st = store.clone();
                hs.push(std::thread::spawn(move || {
                    for i in 0..n {
                        if i % 256 == 0 {
                            crate::util::watchdog::beat("coord: burst");
                        }
                        let _ = st.insert(format!("b{t}_{i:05}").as_bytes(), &[b'x'; 24]);
                    }
                }));
            }
            for h in hs {
                let _ = h.join();
            }
        }
        "stopgo" => {
            // rounds of continuous small writes that stop at an arbitrary phase of the coordinator's period and of the
            // workers' passes, each followed by a quiet period: whatever was accepted last reaches the device unasked
            let rounds: usize = o.num("rounds", 6);
            let mut n = 0usize;
            for round in 0..rounds {
                let dur = rng.gen_range(40..260u128);
                let t0 = Instant::now();
                while t0.elapsed().as_millis() < dur {
                    let _ = store.insert(format!("sg{n:06}").as_bytes(), &[b's'; 40]);
                    n += 1;
                    if n % 64 == 0 { crate::util::watchdog::beat("coord: stopgo"); }
                    if rng.gen_range(0..2) == 0 { std::thread::sleep(Duration::from_micros(rng.gen_range(50..500))); }
                }
                settle(10 + round as u64);
            }
        }
        "bigburst" => {
            // values at the size limit in quick succession: one drain carries tens of MiB
            let n: usize = o.num("burst", 7);
            let big = vec![b'B'; 4 * 1024 * 1024 - rng.gen_range(0..3)];
            for i in 0..n {
                crate::util::watchdog::beat("coord: bigburst");
                let _ = store.insert(format!("big{i:02}").as_bytes(), &big);
            }
            for i in 0..n / 2 {
                let _ = store.delete(format!("big{i:02}").as_bytes());
            }
        }
        _ => {
            eprintln!("unknown kind {kind}");
            return 2;
        }
    }
    let _ = &mut rng;
    // no call is in flight any more: a quiet period, an acknowledged flush, a clean close
    settle(1);
    api("flush_begin", 0, 0);
    let r = store.flush();
    api("flush_end", r.is_ok() as u64, 0);
    settle(2);
    api("drop_begin", 0, 0);
    let store = match Arc::try_unwrap(store) {
        Ok(s) => s,
        Err(_) => {
            eprintln!("store still shared");
            return 2;
        }
    };
    drop(store);
    api("drop_end", 0, 0);
    feoxdb::verif::set_fault_fn(None);
    crate::obs::uninstall();
    let evs = crate::obs::take();
    let mut f = std::io::BufWriter::new(std::fs::File::create(&out).expect("create out"));
    let keep = [
        "enq", "drain", "publish", "skip", "requeue", "requeue_e", "requeue_done", "worker_req", "worker_done", "tick",
        "trigger", "ret_drop", "ret_mark", "ret_wait", "ret_marked", "batch_fail", "alloc_fail", "final_flush_fail", "poison",
        "pin", "unpin", "flush_begin", "flush_end", "settled", "drop_begin", "drop_end", "fault_on", "fault_off", "pin_on", "pin_off",
    ];
    writeln!(f, "{}", json!({"e": "cfg", "kind": kind, "cpus": cpus, "seed": seed, "threads": threads})).unwrap();
    for e in &evs {
        if keep.contains(&e.kind) {
            let v: Value = json!({"seq": e.seq, "tid": e.tid, "e": e.kind, "key": String::from_utf8_lossy(&e.key),
                "a": e.a.to_string(), "b": e.b.to_string(), "c": e.c.to_string()});
            writeln!(f, "{v}").unwrap();
        }
    }
    f.flush().unwrap();
    let _ = std::fs::remove_file(&path);
    println!("{}", json!({"ok": true, "events": evs.len()}));
    0
}

//! Migration driver (C15): produce legacy (v1/v2) source images in three ways, run the REAL
//! `feoxdb::migrate` (and, when built, the `feox-migrate` binary) on each of them with and
//! without the opt-in and with destinations that exist before / appear during the call, and
//! record what happened as an ndjson trace that TLC validates against TraceMigration.tla.
//!
//! Source families
//!   workload  a seeded workload run by the real store on a v1 / v2 device, cleanly closed
//!   crash     crash images of that run (subsets of the un-synced blocks at every device event),
//!             preferring images with an ACTIVE journal or pending retirement markers
//!   synth     images synthesised with the independent encoder (layout.rs): duplicates before /
//!             after the newer generation, an expired newest generation over an older unexpired
//!             one, multi-block records, legacy all-zero markers, pending markers, an ACTIVE
//!             journal over half-written extents, records reaching into the journal, ties
//!   large     multi-batch sources (> 256 and > 4096 records): summary facts only
//!
//! On some sources one device call of the destination is made to fail (fault hook): whatever the
//! migration then reports, the same properties must hold.
//!
//! Trace (one JSON object per line): hdr, then per case: case, gen*, image(src), mig,
//! [image(dst), open, opent], end.  See spec/TraceMigration.tla.
use crate::absdev::{self, ConcreteDev, GenTable};
use crate::layout as L;
use crate::util::Opts;
use feoxdb::FeoxStore;
use rand::{rngs::StdRng, seq::SliceRandom, Rng, SeedableRng};
use serde_json::{json, Value};
use std::collections::{BTreeSet, HashMap, HashSet};
use std::io::Write;
use std::sync::atomic::{AtomicBool, AtomicUsize, Ordering};
use std::sync::{Arc, Mutex};

const E9: u64 = 1_000_000_000;
const BLK: usize = L::BLOCK;

struct Source {
    family: &'static str,
    desc: String,
    fmt: u32,
    bytes: Vec<u8>,
    gens: GenTable,
    keys: Vec<Vec<u8>>,
    now: u64,
    large: bool,
    feats: Vec<&'static str>,
}

#[derive(Clone, Copy, PartialEq, Debug)]
enum Pre {
    None,
    Before,
    During,
    /// the SOURCE file's modification time changes while the migration runs (its bytes do not)
    Touch,
    /// somebody renames ANOTHER valid store over the migration's temporary sibling while it is being filled
    SwapTemp,
}

struct Case {
    src: Arc<Source>,
    allow: bool,
    pre: Pre,
    cli: bool,
    /// fail the n-th device call of the process (counted from the start of the migration):
    /// mode 1 = before the bytes are submitted, 2 = after they reached the device
    fault: Option<(u64, u8)>,
}

fn header_len(fmt: u32, klen: usize) -> usize {
    6 + klen + if fmt == 1 { 16 } else { 24 }
}

fn blocks_v3(klen: usize, vlen: usize) -> u64 {
    (header_len(3, klen) + vlen).div_ceil(BLK) as u64
}

fn fnv(data: &[u8]) -> u64 {
    L::hash64(data)
}

/// Every record head the independent decoder accepts in `bytes` is a declared generation
/// afterwards (with the value bytes that are on the device), so that the abstract images carry
/// no anonymous generation.
fn declare_found(bytes: &[u8], fmt: u32, gens: &mut GenTable, keys: &mut Vec<Vec<u8>>) -> usize {
    let mut added = 0;
    for (idx, b) in L::classify(bytes, fmt).iter().enumerate() {
        if let L::Blk::Head { key, ts, exp, vlen, token_ok: true, value_hash, .. } = b {
            if gens.lookup_hash(key, *ts, *exp, *vlen, *value_hash) != 0 {
                continue;
            }
            let s = L::DATA_START as usize + idx;
            let o = s * BLK + header_len(fmt, key.len());
            let Some(value) = bytes.get(o..o + *vlen as usize) else { continue };
            let kid = match keys.iter().position(|k| k == key) {
                Some(i) => i + 1,
                None => {
                    keys.push(key.clone());
                    keys.len()
                }
            };
            gens.add(kid, key, *ts, *exp, value, fmt);
            added += 1;
        }
    }
    added
}

// ------------------------------------------------------------------ family: synth

struct Synth {
    fmt: u32,
    img: Vec<u8>,
    total: u64,
    cur: u64,
    gens: GenTable,
    keys: Vec<Vec<u8>>,
    journal: Vec<(u64, u64)>,
    feats: Vec<&'static str>,
    salt: u64,
}

impl Synth {
    fn put(&mut self, s: u64, bytes: &[u8]) {
        let o = s as usize * BLK;
        self.img[o..o + bytes.len()].copy_from_slice(bytes);
    }
    fn room(&self, n: u64) -> bool {
        self.cur + n + 1 <= self.total
    }
    fn feat(&mut self, f: &'static str) {
        if !self.feats.contains(&f) {
            self.feats.push(f);
        }
    }
    fn value(&mut self, kid: usize, ts: u64, vlen: usize) -> Vec<u8> {
        self.salt += 1;
        let mut v = vec![b'a' + ((ts + self.salt) % 26) as u8; vlen];
        v[0] = kid as u8;
        if vlen > 9 {
            v[1..9].copy_from_slice(&(ts ^ (self.salt << 40)).to_le_bytes());
        }
        v
    }
    /// A complete record extent at the cursor. Returns (sector, blocks).
    fn record(&mut self, kid: usize, ts: u64, exp: u64, vlen: usize) -> Option<(u64, u64)> {
        let key = self.keys[kid - 1].clone();
        let exp = if self.fmt == 1 { 0 } else { exp };
        let val = self.value(kid, ts, vlen);
        let ext = L::encode_record(self.fmt, self.cur, &key, &val, ts, exp);
        let n = (ext.len() / BLK) as u64;
        if !self.room(n) {
            return None;
        }
        let at = self.cur;
        self.put(at, &ext);
        self.gens.add(kid, &key, ts, exp, &val, self.fmt);
        self.cur += n;
        if n > 1 {
            self.feat("multiblock");
        }
        Some((at, n))
    }
    fn gap(&mut self, n: u64) {
        if self.room(n) {
            self.cur += n;
        }
    }
    /// `n` marker blocks; head / tail states chosen by the caller (1 complete, 0 pending).
    fn markers(&mut self, n: u64, head_state: u8, tail_state: u8) {
        if !self.room(n) {
            return;
        }
        for i in 0..n {
            let st = if i == 0 { head_state } else { tail_state };
            let b = L::encode_marker_block(self.cur + i, n - i, st);
            self.put(self.cur + i, &b);
        }
        self.cur += n;
        if head_state == 0 || tail_state == 0 {
            self.feat("pending_marker");
        } else {
            self.feat("marker");
        }
    }
    /// A pre-0.6 tombstone: the tag followed by zeros.
    fn legacy_marker(&mut self) {
        if !self.room(1) {
            return;
        }
        let mut b = vec![0u8; BLK];
        b[..8].copy_from_slice(L::TAG);
        self.put(self.cur, &b);
        self.cur += 1;
        self.feat("legacy_marker");
    }
    /// 0xABCD followed by a zero key length: skipped by a legacy scan.
    fn bad_head(&mut self) {
        if !self.room(1) {
            return;
        }
        self.put(self.cur, &[0xCD, 0xAB, 0, 0, 0, 0, 9, 9]);
        self.cur += 1;
        self.feat("bad_head");
    }
    /// An extent listed in the ACTIVE journal: half written (head only / tail only) or complete.
    fn journaled(&mut self, kid: usize, ts: u64, vlen: usize, mode: u32) {
        let key = self.keys[kid - 1].clone();
        let val = self.value(kid, ts, vlen);
        let ext = L::encode_record(self.fmt, self.cur, &key, &val, ts, 0);
        let n = (ext.len() / BLK) as u64;
        if !self.room(n) {
            return;
        }
        let at = self.cur;
        match mode {
            0 => self.put(at, &ext[..BLK]),                       // head arrived, tail did not
            1 if n > 1 => self.put(at + 1, &ext[BLK..]),          // tail arrived, head did not
            1 => {}                                               // nothing arrived
            _ => self.put(at, &ext),                              // complete, CLEAR not yet written
        }
        self.journal.push((at, n));
        self.cur += n;
        self.feat("active_journal");
    }
}

fn synth(rng: &mut StdRng, idx: usize, blocks: u64, now: u64) -> Source {
    let feature = idx % 9;
    let mut fmt: u32 = if (idx / 9) % 2 == 0 { 2 } else { 1 };
    if feature == 2 {
        fmt = 2; // an expiry needs format v2
    }
    let mut keys: Vec<Vec<u8>> = vec![b"ka".to_vec(), b"kb".to_vec(), b"kc".to_vec(), b"kd".to_vec()];
    if rng.random_range(0..4) == 0 {
        keys[3] = vec![b'L'; 300];
    }
    let v3_source = feature == 8 && rng.random_range(0..3) == 0;
    if v3_source {
        fmt = 3;
    }
    let mut s = Synth {
        fmt,
        img: vec![0u8; blocks as usize * BLK],
        total: blocks,
        cur: 16 + rng.random_range(0..2),
        gens: GenTable::default(),
        keys,
        journal: Vec::new(),
        feats: Vec::new(),
        salt: idx as u64 * 1000,
    };
    let sizes = [20usize, 300, 3000, 4050, 4066, 4067, 4075, 5000, 9000, 12300];
    let small = [20usize, 300, 3000];
    let exp_past = now - 5 * E9;
    let exp_future = now + 3600 * E9;
    let pick = |rng: &mut StdRng, a: &[usize]| a[rng.random_range(0..a.len())];
    // ---- the feature this image is built around
    match feature {
        0 => {
            // older duplicate BEFORE the newer generation
            s.record(1, 100, 0, pick(rng, &sizes));
            s.gap(rng.random_range(0..2));
            s.record(2, 150, 0, pick(rng, &small));
            s.record(1, 200, 0, pick(rng, &sizes));
            s.feat("dup_older_first");
        }
        1 => {
            // older duplicate AFTER the newer generation
            s.record(1, 200, 0, pick(rng, &sizes));
            s.record(2, 150, 0, pick(rng, &small));
            s.gap(rng.random_range(0..2));
            s.record(1, 100, 0, pick(rng, &sizes));
            s.feat("dup_older_last");
        }
        2 => {
            // an expired newest generation over an older unexpired one (both orders)
            if rng.random_bool(0.5) {
                s.record(1, 100, exp_future, pick(rng, &sizes));
                s.record(1, 200, exp_past, pick(rng, &sizes));
            } else {
                s.record(1, 200, exp_past, pick(rng, &sizes));
                s.record(1, 100, 0, pick(rng, &sizes));
            }
            s.record(2, 300, exp_past, pick(rng, &small));
            s.record(3, 300, now, pick(rng, &small)); // expires exactly now: still live
            s.feat("expired_winner");
        }
        3 => {
            // multi-block records and the block-boundary sizes
            for (kid, vlen) in [(1usize, 9000usize), (2, 12300), (3, BLK - header_len(fmt, 2)), (4, BLK - header_len(fmt, s.keys[3].len()) + 1)] {
                s.record(kid, 100 + kid as u64, 0, vlen);
            }
        }
        4 => {
            // legacy all-zero markers: alone, before stale continuation bytes, before a stale
            // block that parses as a one-block record
            s.record(1, 100, 0, pick(rng, &small));
            s.legacy_marker();
            match rng.random_range(0..3) {
                0 => {}
                1 => {
                    if s.room(1) {
                        let junk = vec![0x5Au8; BLK];
                        let at = s.cur;
                        s.put(at, &junk);
                        s.cur += 1;
                    }
                }
                _ => {
                    // what the skip-one interpretation may surface as a record
                    s.record(2, 50, 0, 40);
                    s.feat("stale_after_legacy_marker");
                }
            }
            s.record(3, 120, 0, pick(rng, &sizes));
            if rng.random_bool(0.4) {
                s.legacy_marker();
            }
        }
        5 => {
            s.record(1, 100, 0, pick(rng, &small));
            match rng.random_range(0..3) {
                0 => s.markers(rng.random_range(1..4), 0, 0),
                1 => s.markers(rng.random_range(2..4), 1, 0),
                _ => s.markers(1, 0, 0),
            }
            s.record(2, 100, 0, pick(rng, &sizes));
            s.markers(rng.random_range(1..3), 1, 1);
        }
        6 => {
            s.record(1, 100, 0, pick(rng, &small));
            s.journaled(2, 300, if rng.random_bool(0.7) { 7000 } else { 300 }, rng.random_range(0..3));
            s.record(2, 100, 0, pick(rng, &small));
            if rng.random_bool(0.5) {
                s.journaled(3, 300, 5000, rng.random_range(0..3));
            }
            s.record(3, 90, 0, pick(rng, &sizes));
        }
        7 => {
            // equal timestamps: the later position wins
            s.record(1, 100, 0, pick(rng, &small));
            s.record(1, 100, 0, pick(rng, &sizes));
            s.record(2, 100, 0, pick(rng, &small));
            s.feat("timestamp_tie");
            if rng.random_bool(0.5) && s.fmt < 3 {
                // a record whose second block belongs to a journaled extent
                if let Some((at, n)) = s.record(3, 100, 0, 5000) {
                    s.journal.push((at + n - 1, 1));
                    s.feat("reaches_into_journal");
                }
            }
        }
        _ => {}
    }
    // ---- random company
    let extra = rng.random_range(2..9);
    for _ in 0..extra {
        let kid = rng.random_range(1..=4);
        match rng.random_range(0..20) {
            0..=9 => {
                let ts = 80 + rng.random_range(0..8) * 30;
                let exp = match rng.random_range(0..4) {
                    0 => exp_past,
                    1 => exp_future,
                    _ => 0,
                };
                s.record(kid, ts, exp, pick(rng, &sizes));
            }
            10..=11 => s.gap(rng.random_range(1..3)),
            12 => s.markers(rng.random_range(1..3), 1, 1),
            13 if !v3_source => s.markers(rng.random_range(1..3), rng.random_range(0..2), 0),
            14 if !v3_source => s.bad_head(),
            15 if !v3_source && rng.random_range(0..2) == 0 => s.legacy_marker(),
            16 if !v3_source && rng.random_range(0..2) == 0 => s.journaled(kid, 400, 5000, rng.random_range(0..3)),
            _ => s.gap(1),
        }
    }
    // ---- journal slots
    let jg = rng.random_range(1..50);
    let slot = |i: usize| (L::JOURNAL_START + i * L::JOURNAL_SLOT_BLOCKS) as u64;
    if !s.journal.is_empty() {
        let mut ext = s.journal.clone();
        ext.shuffle(rng);
        let a = rng.random_range(0..2usize);
        if rng.random_bool(0.7) {
            let b = L::encode_journal_slot(jg, false, &[]);
            s.put(slot(1 - a), &b);
        }
        let b = L::encode_journal_slot(jg + 1, true, &ext);
        s.put(slot(a), &b);
    } else {
        match rng.random_range(0..3) {
            0 => {} // never written: a file last touched by a pre-0.6 release
            1 => {
                let b = L::encode_journal_slot(jg, false, &[]);
                s.put(slot(rng.random_range(0..2)), &b);
            }
            _ => {
                // an older ACTIVE image superseded by a newer CLEAR one
                let a = rng.random_range(0..2usize);
                let b = L::encode_journal_slot(jg, true, &[(20, 2)]);
                s.put(slot(a), &b);
                let b = L::encode_journal_slot(jg + 1, false, &[]);
                s.put(slot(1 - a), &b);
                s.feat("stale_active_journal");
            }
        }
    }
    // ---- metadata: the pre-0.6 way (one unchecksummed copy) or as 0.6 rewrites a legacy store
    // the size recorded at creation: the file may have been grown since (the store takes the file length,
    // it never rewrites this field of a legacy device) - records beyond the recorded size are records
    let size = if rng.random_range(0..3) == 0 { (17 + rng.random_range(0..(blocks - 17) / 2)) * BLK as u64 } else { blocks * BLK as u64 };
    if size < blocks * BLK as u64 { s.feat("grown_file"); }
    let recs = s.gens.gens.len() as u64;
    if v3_source || rng.random_bool(0.5) {
        let g = rng.random_range(1..20u64) * 2;
        let b = L::encode_meta(fmt, g, recs, 0, size);
        s.put(0, &b);
        let b = L::encode_meta(fmt, g - 1, 0, 0, size);
        s.put(7, &b);
        s.feat("meta_checksummed");
    } else {
        let b = L::encode_meta(fmt, 0, recs, 0, size);
        s.put(0, &b);
    }
    if v3_source {
        s.feat("v3_source");
    }
    let Synth { img, mut gens, mut keys, feats, .. } = s;
    declare_found(&img, fmt, &mut gens, &mut keys);
    Source { family: "synth", desc: format!("synth#{idx} feature {feature}"), fmt, bytes: img, gens, keys, now, large: false, feats }
}

// ------------------------------------------------------------------ family: large

/// Key names of the large sources: unpadded numbers (so that many keys are proper PREFIXES of the keys that follow
/// them in byte order: key25 < key250 < key2500), keys ending in 0xff and in 0x00, and fixed-width ones - wherever a
/// batch of the copy ends, the next batch has to resume at the true successor.
fn large_key(i: usize) -> Vec<u8> {
    match i % 5 {
        0 | 1 => format!("key{i}").into_bytes(),
        2 => { let mut k = format!("key{}", i / 10).into_bytes(); k.push(0xff); k.extend_from_slice(format!("{i}").as_bytes()); k }
        3 => { let mut k = format!("key{i}").into_bytes(); k.push(0); k }
        _ => format!("key{i:06}").into_bytes(),
    }
}

fn large(rng: &mut StdRng, n: usize, fmt: u32, with_marker: bool, now: u64) -> Source {
    let dups = n / 7 + 1;
    let blocks = 16 + n as u64 + dups as u64 + 8;
    let mut img = vec![0u8; blocks as usize * BLK];
    let mut cur = 16u64;
    let put = |img: &mut Vec<u8>, s: u64, b: &[u8]| img[s as usize * BLK..s as usize * BLK + b.len()].copy_from_slice(b);
    for i in 0..n {
        let key = large_key(i);
        let vlen = 40 + (i * 37) % 2900;
        let mut val = vec![b'v'; vlen];
        val[..8].copy_from_slice(&(i as u64).to_le_bytes());
        let exp = if fmt >= 2 && i % 11 == 0 { now - E9 } else if fmt >= 2 && i % 13 == 0 { now + 100 * E9 } else { 0 };
        let e = L::encode_record(fmt, cur, &key, &val, 1000 + i as u64, exp);
        put(&mut img, cur, &e);
        cur += (e.len() / BLK) as u64;
    }
    // older and newer duplicates after the first pass
    for d in 0..dups {
        let i = d * 7;
        if i >= n {
            break;
        }
        let key = large_key(i);
        let newer = d % 2 == 0;
        let val = format!("duplicate-{d}-{}", if newer { "newer" } else { "older" }).into_bytes();
        let ts = if newer { 900_000 + d as u64 } else { 5 };
        let e = L::encode_record(fmt, cur, &key, &val, ts, 0);
        put(&mut img, cur, &e);
        cur += 1;
    }
    let mut feats = vec!["multi_batch"];
    if with_marker {
        let mut b = vec![0u8; BLK];
        b[..8].copy_from_slice(L::TAG);
        put(&mut img, cur + 1, &b);
        feats.push("legacy_marker");
    }
    let _ = rng;
    let m = L::encode_meta(fmt, 0, n as u64, 0, blocks * BLK as u64);
    put(&mut img, 0, &m);
    Source { family: "large", desc: format!("large n={n} fmt={fmt}"), fmt, bytes: img, gens: GenTable::default(), keys: Vec::new(), now, large: true, feats }
}

// ------------------------------------------------------------------ family: workload / crash

struct Accepted {
    kid: usize,
    key: Vec<u8>,
    ts: u64,
    exp: u64,
    value: Vec<u8>,
}

fn gens_of(calls: &[Accepted], fmt: u32) -> GenTable {
    let mut g = GenTable::default();
    for c in calls {
        g.add(c.kid, &c.key, c.ts, if fmt == 1 { 0 } else { c.exp }, &c.value, fmt);
    }
    g
}

/// Run a seeded workload on a real store over a legacy device, recording every device write.
/// Returns the cleanly closed file and up to `max_images` crash images as sources.
fn workload(rng: &mut StdRng, wid: usize, fmt: u32, blocks: u64, steps: usize, dir: &str, max_images: usize) -> Vec<Source> {
    let path = format!("{dir}/wl{wid}.feox");
    let _ = std::fs::remove_file(&path);
    crate::seqdrv::create_legacy_device(&path, fmt, blocks);
    let initial = std::fs::read(&path).expect("legacy device");
    let mut now = 1_000 * E9;
    feoxdb::verif::set_now(now);
    let nkeys = rng.random_range(3..6usize);
    let keys: Vec<Vec<u8>> = (1..=nkeys).map(|i| format!("w{i}").into_bytes()).collect();
    let ttl = fmt >= 2;
    crate::obs::install();
    crate::util::watchdog::beat("workload open");
    let store = match FeoxStore::builder()
        .hash_bits(6)
        .enable_ttl(ttl)
        .no_memory_limit()
        .device_path(path.clone())
        .file_size(blocks * 4096)
        .enable_caching(false)
        .build()
    {
        Ok(s) => s,
        Err(e) => {
            crate::obs::uninstall();
            eprintln!("workload: open of the legacy device failed: {e:?}");
            return Vec::new();
        }
    };
    let mut calls: Vec<Accepted> = Vec::new();
    let mut cur: HashMap<usize, Vec<u8>> = HashMap::new();
    let sizes = [20usize, 300, 3000, 4000, 4100, 7000];
    for step in 0..steps {
        crate::util::watchdog::beat(&format!("workload {wid} step {step}"));
        let ki = rng.random_range(0..keys.len());
        let (key, kid) = (keys[ki].clone(), ki + 1);
        let r = rng.random_range(0..100);
        if r < 50 {
            let n = sizes[rng.random_range(0..sizes.len())];
            let mut val = vec![b'a' + (step % 26) as u8; n];
            val[0] = (step % 251) as u8;
            if n > 8 {
                val[1] = kid as u8;
                val[2] = (step / 251) as u8;
                val[3] = wid as u8;
            }
            let ts_choice = match rng.random_range(0..8) {
                0 => Some(rng.random_range(5..40u64)),
                1 => Some(now + rng.random_range(1..3) * E9),
                _ => None,
            };
            let res = if ttl && rng.random_range(0..3) == 0 {
                store.insert_with_ttl_and_timestamp(&key, &val, rng.random_range(1..4), ts_choice)
            } else {
                store.insert_with_timestamp(&key, &val, ts_choice)
            };
            if res.is_ok() {
                if let Some(rec) = store.verif_record(&key) {
                    calls.push(Accepted { kid, key: key.clone(), ts: rec.timestamp, exp: rec.ttl_expiry, value: val.clone() });
                    cur.insert(kid, val);
                }
            }
        } else if r < 62 {
            if store.delete(&key).is_ok() {
                cur.remove(&kid);
            }
        } else if r < 70 && ttl {
            if store.update_ttl(&key, rng.random_range(0..3)).is_ok() {
                if let (Some(rec), Some(v)) = (store.verif_record(&key), cur.get(&kid)) {
                    calls.push(Accepted { kid, key: key.clone(), ts: rec.timestamp, exp: rec.ttl_expiry, value: v.clone() });
                }
            }
        } else if r < 84 {
            let _ = store.flush();
        } else if r < 88 {
            std::thread::sleep(std::time::Duration::from_millis(120));
        } else {
            now += rng.random_range(1..4) * (E9 / 2) + 1;
            feoxdb::verif::set_now(now);
        }
    }
    crate::util::watchdog::beat("workload close");
    drop(store);
    crate::obs::uninstall();
    let raw = crate::obs::take();
    let clean = std::fs::read(&path).unwrap_or_default();
    let _ = std::fs::remove_file(&path);
    let mig_now = now + 2 * E9;

    let mut out: Vec<Source> = Vec::new();
    let mk = |family: &'static str, desc: String, bytes: Vec<u8>, feats: Vec<&'static str>| {
        let mut gens = gens_of(&calls, fmt);
        let mut ks = keys.clone();
        declare_found(&bytes, fmt, &mut gens, &mut ks);
        Source { family, desc, fmt, bytes, gens, keys: ks, now: mig_now, large: false, feats }
    };
    if clean.len() == initial.len() {
        out.push(mk("workload", format!("workload#{wid} fmt {fmt} steps {steps} closed"), clean, vec!["clean_close"]));
    }
    // ---- crash images
    let mut dev = ConcreteDev::new(initial.len());
    dev.durable = initial;
    let mut seen: HashSet<u64> = HashSet::new();
    let mut buckets: [Vec<(String, Vec<u8>, Vec<&'static str>)>; 3] = [Vec::new(), Vec::new(), Vec::new()];
    let mut ev_no = 0usize;
    for e in &raw {
        match e.kind {
            "w" => dev.write(e.a, &e.data),
            "fsync" => dev.fsync(),
            _ => continue,
        }
        ev_no += 1;
        let units = dev.units();
        for sub in absdev::subsets(&units, 4) {
            if e.kind == "w" && sub.is_empty() {
                continue;
            }
            let img = dev.image(&sub);
            if !seen.insert(fnv(&img)) {
                continue;
            }
            let active = L::pick_journal(&img).map(|(_, js)| js.active).unwrap_or(false);
            let rv = L::recover_view(&img, None, true, true);
            let pending = !rv.pending_markers.is_empty();
            let mut feats: Vec<&'static str> = Vec::new();
            if active {
                feats.push("active_journal");
            }
            if pending {
                feats.push("pending_marker");
            }
            let b = if active { 0 } else if pending { 1 } else { 2 };
            // keep the memory bounded: reservoir of 64 per bucket
            let desc = format!("workload#{wid} fmt {fmt} crash after device event {ev_no}, units {sub:?}");
            if buckets[b].len() < 64 {
                buckets[b].push((desc, img, feats));
            } else {
                let j = rng.random_range(0..(buckets[b].len() * 4));
                if j < buckets[b].len() {
                    buckets[b][j] = (desc, img, feats);
                }
            }
        }
    }
    for b in buckets.iter_mut() {
        b.shuffle(rng);
    }
    let quota = [max_images.div_ceil(2), max_images.div_ceil(4), max_images.div_ceil(4)];
    let mut taken = 0;
    for (b, q) in buckets.iter_mut().zip(quota) {
        for _ in 0..q {
            if taken >= max_images {
                break;
            }
            if let Some((desc, img, feats)) = b.pop() {
                out.push(mk("crash", desc, img, feats));
                taken += 1;
            }
        }
    }
    // fill up from whatever is left
    for b in buckets.iter_mut() {
        while taken < max_images {
            match b.pop() {
                Some((desc, img, feats)) => {
                    out.push(mk("crash", desc, img, feats));
                    taken += 1;
                }
                None => break,
            }
        }
    }
    out
}

// ------------------------------------------------------------------ running one case

fn mig_err_name(e: &feoxdb::MigrationError) -> String {
    match e {
        feoxdb::MigrationError::Store(fe) => crate::util::err_name(fe),
        other => {
            let s = format!("{other:?}");
            s.split(|c| c == '(' || c == ' ' || c == '{').next().unwrap_or("").to_string()
        }
    }
}

fn cli_err_name(stderr: &str) -> String {
    let table = [
        ("destination already exists", "DestinationExists"),
        ("ambiguous legacy deletion marker", "AmbiguousLegacyRecovery"),
        ("already uses format", "CurrentFormat"),
        ("verification failed", "VerificationFailed"),
        ("source changed", "SourceChanged"),
        ("temporary destination changed", "DestinationChanged"),
        ("exceed the maximum device size", "DestinationTooLarge"),
    ];
    for (pat, name) in table {
        if stderr.contains(pat) {
            return name.to_string();
        }
    }
    "Other".to_string()
}

fn open_real(path: &str, ttl: bool, bits: u32) -> Result<FeoxStore, String> {
    let size = std::fs::metadata(path).map(|m| m.len()).unwrap_or(0);
    let p = path.to_string();
    let r = std::panic::catch_unwind(move || {
        FeoxStore::builder()
            .hash_bits(bits)
            .enable_ttl(ttl)
            .no_memory_limit()
            .device_path(p)
            .file_size(size)
            .enable_caching(false)
            .build()
    });
    match r {
        Err(_) => Err("Panic".to_string()),
        Ok(Err(e)) => Err(crate::util::err_name(&e)),
        Ok(Ok(s)) => Ok(s),
    }
}

/// Per declared key: the generation id the store exposes (0 = absent, -1 = something the
/// application never stored); plus the number of keys outside the declared set and len().
fn exposed(store: &FeoxStore, src: &Source) -> (Vec<i64>, usize, usize) {
    let kv: Vec<i64> = src
        .keys
        .iter()
        .map(|k| match (store.verif_record(k), store.get(k)) {
            (Some(r), Ok(v)) => match src.gens.lookup(k, r.timestamp, r.ttl_expiry, &v) {
                0 => -1,
                g => g as i64,
            },
            (None, _) => 0,
            (Some(_), Err(feoxdb::FeoxError::KeyNotFound)) => 0, // expired, not yet swept
            (Some(_), Err(_)) => -1,
        })
        .collect();
    let extra = store.verif_snapshot().iter().filter(|r| !src.keys.contains(&r.key)).count();
    (kv, extra, store.len())
}

type Drops = Mutex<Vec<std::thread::JoinHandle<()>>>;

/// Dropping a persistent store takes half a second: do it on the side.
fn drop_later(drops: &Drops, store: FeoxStore) {
    let h = std::thread::spawn(move || drop(store));
    drops.lock().unwrap().push(h);
}

fn list_dir(dir: &str) -> BTreeSet<String> {
    std::fs::read_dir(dir)
        .map(|rd| rd.filter_map(|e| e.ok()).map(|e| e.file_name().to_string_lossy().to_string()).collect())
        .unwrap_or_default()
}

struct Outcome {
    events: Vec<Value>,
    blocks: u64,
    ok: bool,
    err: String,
    panicked: bool,
}

fn run_case(id: usize, c: &Case, root: &str, cli: Option<&str>, drops: &Drops) -> Outcome {
    let src = &*c.src;
    let dir = format!("{root}/c{id}");
    let _ = std::fs::remove_dir_all(&dir);
    std::fs::create_dir_all(&dir).expect("case dir");
    let src_path = format!("{dir}/src.feox");
    let dst_path = format!("{dir}/dst.feox");
    std::fs::write(&src_path, &src.bytes).expect("write source");
    let junk: Vec<u8> = format!("somebody else's destination #{id}\n").repeat(50).into_bytes();
    if c.pre == Pre::Before {
        std::fs::write(&dst_path, &junk).expect("write pre-existing destination");
    }
    let before = list_dir(&dir);
    let (h0, l0) = (fnv(&std::fs::read(&src_path).unwrap_or_default()), src.bytes.len());
    // ---- time ranks: one dense order for timestamps, expiries and `now`
    let mut times: BTreeSet<u64> = BTreeSet::new();
    times.insert(src.now);
    for g in &src.gens.gens {
        times.insert(g.ts);
        if g.exp != 0 {
            times.insert(g.exp);
        }
    }
    times.remove(&0);
    let rank: HashMap<u64, usize> = times.iter().enumerate().map(|(i, t)| (*t, i + 1)).collect();
    let rk = |t: u64| -> usize { if t == 0 { 0 } else { *rank.get(&t).unwrap_or(&0) } };

    // ---- the call
    let injected = Arc::new(AtomicBool::new(false));
    if c.pre == Pre::During {
        // somebody creates the destination while the migration is copying: at the first device
        // write of the temporary store (after the existence check, before the publication)
        let (flag, p, j) = (injected.clone(), dst_path.clone(), junk.clone());
        feoxdb::verif::install(Box::new(move |_seq, ev| {
            if ev.kind == "w" && !flag.swap(true, Ordering::SeqCst) {
                if let Ok(mut f) = std::fs::OpenOptions::new().write(true).create_new(true).open(&p) {
                    let _ = f.write_all(&j);
                    let _ = f.sync_all();
                }
            }
        }));
    }
    let swap_stop = Arc::new(AtomicBool::new(false));
    let mut swapper = None;
    if c.pre == Pre::SwapTemp {
        // a foreign, perfectly valid version-3 store, ready to be renamed over the temporary sibling
        let foreign = format!("{dir}/foreign.store");
        {
            let st = feoxdb::FeoxStore::builder().device_path(foreign.clone()).file_size(64 * 4096).build().expect("foreign store");
            st.insert(b"not-from-the-source", b"foreign").expect("foreign insert");
            st.flush().expect("foreign flush");
            drop(st);
        }
        let (flag, stop, d) = (injected.clone(), swap_stop.clone(), dir.clone());
        swapper = Some(std::thread::spawn(move || {
            while !stop.load(Ordering::SeqCst) {
                if let Ok(rd) = std::fs::read_dir(&d) {
                    for e in rd.flatten() {
                        let n = e.file_name().to_string_lossy().to_string();
                        if n.starts_with('.') && n.contains("feox-migrate") && n.ends_with(".tmp")
                            && e.metadata().map(|m| m.len() > 0).unwrap_or(false) {
                            // let the copy get under way, then take the name over
                            std::thread::sleep(std::time::Duration::from_millis(3));
                            if std::fs::rename(&foreign, e.path()).is_ok() { flag.store(true, Ordering::SeqCst); }
                            return;
                        }
                    }
                }
                std::thread::sleep(std::time::Duration::from_micros(200));
            }
        }));
    }
    if c.pre == Pre::Touch {
        let (flag, p) = (injected.clone(), src_path.clone());
        feoxdb::verif::install(Box::new(move |_seq, ev| {
            if ev.kind == "w" && !flag.swap(true, Ordering::SeqCst) {
                if let Ok(f) = std::fs::OpenOptions::new().write(true).open(&p) {
                    let _ = f.set_modified(std::time::SystemTime::now() + std::time::Duration::from_secs(7));
                }
            }
        }));
    }
    if let Some((at, mode)) = c.fault {
        feoxdb::verif::force_sync(true);
        feoxdb::verif::reset_io_calls();
        feoxdb::verif::set_fault_fn(Some(Box::new(move |idx, _kind, _sector, _len| if idx == at { mode } else { 0 })));
    }
    crate::util::watchdog::beat(&format!("case {id}: migrate {} allow={} pre={:?} cli={} fault={:?}", src.desc, c.allow, c.pre, c.cli, c.fault));
    let (mut ok, mut err, mut amb, mut records, mut panicked) = (false, String::new(), 0u64, 0u64, false);
    let mut report = json!({});
    if let (true, Some(bin)) = (c.cli, cli) {
        let mut cmd = std::process::Command::new(bin);
        cmd.args(["--source", &src_path, "--destination", &dst_path]);
        if c.allow {
            cmd.arg("--allow-ambiguous-legacy-recovery");
        }
        match cmd.output() {
            Ok(o) => {
                let (so, se) = (String::from_utf8_lossy(&o.stdout).to_string(), String::from_utf8_lossy(&o.stderr).to_string());
                ok = o.status.code() == Some(0);
                if ok {
                    for tok in so.split_whitespace() {
                        if let Some(v) = tok.strip_prefix("records=") {
                            records = v.parse().unwrap_or(0);
                        }
                        if let Some(v) = tok.strip_prefix("ambiguous_markers=") {
                            amb = v.parse().unwrap_or(0);
                        }
                    }
                } else {
                    err = if o.status.code() == Some(1) { cli_err_name(&se) } else { format!("Exit{:?}", o.status.code()) };
                }
                report = json!({"stdout": so.trim(), "stderr": se.trim().chars().take(300).collect::<String>(), "code": o.status.code()});
            }
            Err(e) => {
                err = "SpawnFailed".to_string();
                report = json!({"spawn": e.to_string()});
            }
        }
    } else {
        let (s, d, allow) = (src_path.clone(), dst_path.clone(), c.allow);
        let res = std::panic::catch_unwind(move || feoxdb::migrate(feoxdb::MigrationOptions::new(s, d).allow_ambiguous_legacy_recovery(allow)));
        match res {
            Err(_) => {
                panicked = true;
                err = "Panic".to_string();
            }
            Ok(Err(e)) => {
                err = mig_err_name(&e);
                report = json!({"error": e.to_string().chars().take(200).collect::<String>()});
            }
            Ok(Ok(r)) => {
                ok = true;
                amb = r.ambiguous_legacy_markers;
                records = r.records;
                report = json!({"source_version": r.source_version, "destination_version": r.destination_version,
                    "records": r.records, "value_bytes": r.value_bytes, "destination_size": r.destination_size});
            }
        }
    }
    if c.pre == Pre::During || c.pre == Pre::Touch {
        feoxdb::verif::uninstall();
    }
    let mut fault_hit = false;
    if let Some((at, _)) = c.fault {
        fault_hit = feoxdb::verif::io_calls() > at;
        feoxdb::verif::set_fault_fn(None);
        feoxdb::verif::force_sync(false);
    }
    swap_stop.store(true, Ordering::SeqCst);
    if let Some(h) = swapper { let _ = h.join(); }
    let _ = std::fs::remove_file(format!("{dir}/foreign.store"));
    // ---- what is on the file system now
    let pre_eff = match c.pre {
        Pre::During | Pre::Touch | Pre::SwapTemp if !injected.load(Ordering::SeqCst) => Pre::None, // the call failed before it wrote anything / nothing was swapped
        p => p,
    };
    let after = list_dir(&dir);
    let left: Vec<String> = after.iter().filter(|n| !before.contains(*n) && n.as_str() != "dst.feox").cloned().collect();
    let src_now = std::fs::read(&src_path).unwrap_or_default();
    let src_same = src_now.len() == l0 && fnv(&src_now) == h0 && src_now == src.bytes;
    let dst_exists = std::fs::symlink_metadata(&dst_path).is_ok();
    let dst_bytes = if dst_exists { std::fs::read(&dst_path).unwrap_or_default() } else { Vec::new() };
    let pre_same = pre_eff != Pre::None && pre_eff != Pre::Touch && pre_eff != Pre::SwapTemp && dst_exists && dst_bytes == junk;
    let pre_name = match pre_eff {
        Pre::None => "none",
        Pre::Before => "before",
        Pre::During => "during",
        Pre::Touch => "touch",
        Pre::SwapTemp => "swaptemp",
    };

    let mut ev: Vec<Value> = Vec::new();
    let mut blocks = (src.bytes.len() / BLK) as u64;
    ev.push(json!({"e": "case", "id": id, "family": src.family, "desc": src.desc, "fmt": src.fmt, "nk": src.keys.len(),
        "allow": c.allow, "pre": pre_name, "now": rk(src.now), "large": src.large, "via": if c.cli { "cli" } else { "api" },
        "feats": src.feats, "src_blocks": blocks,
        "fault": fault_hit, "fault_at": c.fault.map(|f| vec![f.0, f.1 as u64]).unwrap_or_default(),
        "summary_only": src.large}));
    if !src.large {
        for g in &src.gens.gens {
            ev.push(json!({"e": "gen", "g": g.id, "k": g.kid, "ts": rk(g.ts), "exp": rk(g.exp), "n": g.blocks,
                "n3": blocks_v3(g.key.len(), g.value.len())}));
        }
        ev.push(json!({"e": "image", "which": "src", "img": sanitize(absdev::classify_image(&src.bytes, src.fmt, &src.gens), blocks)}));
    }
    let mut sum = json!({});
    if src.large {
        sum = large_summary(src, c.allow, ok, &dst_path, &dst_bytes, &dir, drops);
    }
    ev.push(json!({"e": "mig", "ok": ok, "err": err, "dst_exists": dst_exists, "pre_same": pre_same, "src_same": src_same,
        "tmp_left": !left.is_empty(), "left": left, "amb": amb, "records": records, "report": report, "sum": sum,
        "src_hash": format!("{h0:016x}"), "injected": injected.load(Ordering::SeqCst)}));
    if ok && !src.large && dst_exists {
        let dblocks = (dst_bytes.len() / BLK) as u64;
        blocks = blocks.max(dblocks);
        ev.push(json!({"e": "image", "which": "dst", "img": sanitize(absdev::classify_image(&dst_bytes, 3, &src.gens), dblocks)}));
        // what the real store exposes: TTL disabled on the destination itself, TTL enabled on a copy
        crate::util::watchdog::beat(&format!("case {id}: open destination"));
        let copy = format!("{dir}/dst_ttl.feox");
        let _ = std::fs::copy(&dst_path, &copy);
        match open_real(&dst_path, false, 8) {
            Ok(st) => {
                let (kv, extra, len) = exposed(&st, src);
                ev.push(json!({"e": "open", "ok": true, "kv": kv, "extra": extra, "len": len}));
                drop_later(drops, st);
            }
            Err(e) => ev.push(json!({"e": "open", "ok": false, "err": e, "kv": [], "extra": 0, "len": 0})),
        }
        match open_real(&copy, true, 8) {
            Ok(st) => {
                let (kv, extra, len) = exposed(&st, src);
                ev.push(json!({"e": "opent", "ok": true, "kv": kv, "extra": extra, "len": len}));
                drop_later(drops, st);
            }
            Err(e) => ev.push(json!({"e": "opent", "ok": false, "err": e, "kv": [], "extra": 0, "len": 0})),
        }
    }
    ev.push(json!({"e": "end"}));
    Outcome { events: ev, blocks, ok, err, panicked }
}

/// The abstract image as TraceMigration consumes it. A marker whose `remaining` leaves the real
/// device is an invalid marker (the trace may pad the image to a larger device).
fn sanitize(mut img: Value, blocks: u64) -> Value {
    if let Some(arr) = img["blk"].as_array_mut() {
        for (i, c) in arr.iter_mut().enumerate() {
            if c["t"] == "M" && 16 + i as u64 + c["n"].as_u64().unwrap_or(0) > blocks {
                *c = absdev::content("Xm", 0, 0, 0, "");
            }
        }
    }
    img
}

type Rows = Vec<(Vec<u8>, u64, u64, u64, usize)>;

fn rows_of(rv: &L::Recovered, now: Option<u64>) -> Rows {
    rv.records
        .iter()
        .filter(|r| now.is_none_or(|t| !(r.exp != 0 && t > r.exp)))
        .map(|r| (r.key.clone(), r.ts, r.exp, fnv(&r.value), r.value.len()))
        .collect()
}

fn store_rows(st: &FeoxStore) -> Rows {
    st.verif_snapshot()
        .iter()
        .filter_map(|r| st.get(&r.key).ok().map(|v| (r.key.clone(), r.timestamp, r.ttl_expiry, fnv(&v), v.len())))
        .collect()
}

/// Large sources: counts and content comparisons done here with the independent decoder; no
/// per-record events reach TLC.
fn large_summary(src: &Source, allow: bool, ok: bool, dst_path: &str, dst_bytes: &[u8], dir: &str, drops: &Drops) -> Value {
    let want = L::recover_view(&src.bytes, None, allow, true);
    let permissive = L::recover_view(&src.bytes, None, true, true);
    let mut s = json!({"ro_ok": want.ok, "ro_err": want.err, "ro_ver": want.version, "ro_amb": want.ambiguous_markers,
        "ro_amb_allowed": permissive.ok && permissive.version < 3 && permissive.ambiguous_markers > 0,
        "src_records": want.records.len(), "dst_records": 0, "equal": false, "dst_ver": 0, "dst_journal_clear": false,
        "dst_bad_blocks": 0, "dst_meta_ok": false, "open_ok": false, "open_equal": false, "opent_ok": false,
        "opent_equal": false, "content_hash_src": "", "content_hash_dst": ""});
    if !ok || dst_bytes.is_empty() {
        return s;
    }
    let got = L::recover_view(dst_bytes, None, false, false);
    let (a, b) = (rows_of(&want, None), rows_of(&got, None));
    let h = |r: &Rows| {
        let mut acc = 0xcbf2_9ce4_8422_2325u64;
        for (k, ts, exp, vh, vl) in r {
            for x in [fnv(k), *ts, *exp, *vh, *vl as u64] {
                acc = (acc ^ x).wrapping_mul(0x0000_0100_0000_01b3);
            }
        }
        format!("{acc:016x}")
    };
    s["dst_records"] = json!(got.records.len());
    s["equal"] = json!(got.ok && a == b && got.losers.is_empty());
    s["content_hash_src"] = json!(h(&a));
    s["content_hash_dst"] = json!(h(&b));
    s["dst_ver"] = json!(got.version);
    s["dst_journal_clear"] = json!(got.ok && got.journal_active.is_empty());
    let bad = L::classify(dst_bytes, 3)
        .iter()
        .filter(|b| !matches!(b, L::Blk::Zero | L::Blk::Tail { .. } | L::Blk::Head { token_ok: true, .. }))
        .count();
    s["dst_bad_blocks"] = json!(bad);
    let used: u64 = got.records.iter().map(|r| r.blocks * BLK as u64).sum();
    s["dst_meta_ok"] = json!(got.meta.as_ref().is_some_and(|m| m.version == 3 && m.total_records == got.records.len() as u64 && m.total_size == used));
    let copy = format!("{dir}/dst_ttl.feox");
    let _ = std::fs::copy(dst_path, &copy);
    crate::util::watchdog::beat("large: open destination");
    if let Ok(st) = open_real(dst_path, false, 12) {
        s["open_ok"] = json!(true);
        s["open_equal"] = json!(store_rows(&st) == a && st.len() == a.len());
        drop_later(drops, st);
    }
    if let Ok(st) = open_real(&copy, true, 12) {
        let live = rows_of(&want, Some(src.now));
        s["opent_ok"] = json!(true);
        s["opent_equal"] = json!(store_rows(&st) == live);
        drop_later(drops, st);
    }
    s
}

// ------------------------------------------------------------------ main

pub fn main(args: &[String]) -> i32 {
    let o = Opts::parse(args);
    let seed: u64 = o.num("seed", 1);
    let dir = o.req("dir").to_string();
    let out_path = o.req("out").to_string();
    let n_synth: usize = o.num("synth", 18);
    let n_workloads: usize = o.num("workloads", 1);
    let n_crash: usize = o.num("crashimgs", 8);
    let steps: usize = o.num("steps", 40);
    let blocks: u64 = o.num("blocks", 48);
    let threads: usize = o.num("threads", 4);
    let larges: Vec<usize> = o.get("large").unwrap_or("").split(',').filter_map(|s| s.trim().parse().ok()).collect();
    let cli: Option<String> = o.get("cli").map(|s| s.to_string()).filter(|p| std::path::Path::new(p).exists());
    std::fs::create_dir_all(&dir).ok();
    crate::obs::set_cpus(o.num("cpus", 2));
    crate::util::watchdog::start(o.num("watchdog", 60));
    let mut rng = StdRng::seed_from_u64(seed);
    feoxdb::verif::set_now(1_000 * E9);

    // ---- sources
    let mut made: Vec<Source> = Vec::new();
    for w in 0..n_workloads {
        let fmt = if (w + seed as usize) % 2 == 0 { 2 } else { 1 };
        let wb = [40u64, 48, 64][rng.random_range(0..3)].min(blocks.max(40));
        made.extend(workload(&mut rng, w, fmt, wb, steps, &dir, n_crash));
    }
    // one migration time for the whole process (the virtual clock is process wide and the cases
    // run in parallel): later than every workload's clock
    let now = made.iter().map(|s| s.now).max().unwrap_or(0).max(1_000 * E9);
    for s in made.iter_mut() {
        s.now = now;
    }
    feoxdb::verif::set_now(now);
    let first = rng.random_range(0..18usize);
    for i in 0..n_synth {
        crate::util::watchdog::beat("synth");
        made.push(synth(&mut rng, first + i, blocks, now));
    }
    for (i, n) in larges.iter().enumerate() {
        crate::util::watchdog::beat("large source");
        let fmt = if (i + seed as usize) % 2 == 0 { 2 } else { 1 };
        made.push(large(&mut rng, *n, fmt, (i + seed as usize) % 3 == 2, now));
    }
    let sources: Vec<Arc<Source>> = made.into_iter().map(Arc::new).collect();

    // ---- cases
    let mut cases: Vec<Case> = Vec::new();
    let mut cli_done: HashSet<&'static str> = HashSet::new();
    let mut n_fault: usize = o.num("faults", 6);
    for (i, s) in sources.iter().enumerate() {
        cases.push(Case { src: s.clone(), allow: false, pre: Pre::None, cli: false, fault: None });
        cases.push(Case { src: s.clone(), allow: true, pre: Pre::None, cli: false, fault: None });
        if s.large && s.bytes.len() > 8 << 20 {
            continue; // the big ones: the two plain calls only
        }
        match (i + seed as usize) % 3 {
            0 => cases.push(Case { src: s.clone(), allow: rng.random_bool(0.5), pre: Pre::Before, cli: false, fault: None }),
            1 => cases.push(Case { src: s.clone(), allow: true, pre: Pre::During, cli: false, fault: None }),
            2 => cases.push(Case { src: s.clone(), allow: true, pre: Pre::Touch, cli: false, fault: None }),
            _ => {}
        }
        if !s.large && (i + seed as usize) % 4 == 2 && n_fault > 0 {
            // a failing device call at the destination (the source is only read)
            n_fault -= 1;
            cases.push(Case { src: s.clone(), allow: true, pre: Pre::None, cli: false,
                fault: Some((rng.random_range(0..14), rng.random_range(1..3))) });
        }
        if s.large {
            cases.push(Case { src: s.clone(), allow: true, pre: Pre::SwapTemp, cli: false, fault: None });
        }
        if cli.is_some() && cli_done.insert(s.family) {
            cases.push(Case { src: s.clone(), allow: true, pre: Pre::None, cli: true, fault: None });
            if s.family == "synth" {
                cases.push(Case { src: s.clone(), allow: false, pre: Pre::Before, cli: true, fault: None });
            }
        }
    }

    // ---- run: everything but the "during" cases in parallel (half a second of every successful
    // migration is the shutdown of the temporary store); the "during" cases use the process-wide
    // device observer and run one at a time
    let drops: Drops = Mutex::new(Vec::new());
    let results: Vec<Mutex<Option<Outcome>>> = (0..cases.len()).map(|_| Mutex::new(None)).collect();
    let next = AtomicUsize::new(0);
    let alone = |c: &Case| c.pre == Pre::During || c.pre == Pre::Touch || c.fault.is_some();
    // (SwapTemp cases watch their own directory only: they run in parallel with the others)
    let par: Vec<usize> = (0..cases.len()).filter(|i| !alone(&cases[*i])).collect();
    std::thread::scope(|sc| {
        for _ in 0..threads.max(1) {
            sc.spawn(|| loop {
                let j = next.fetch_add(1, Ordering::SeqCst);
                if j >= par.len() {
                    break;
                }
                let i = par[j];
                let r = run_case(i + 1, &cases[i], &dir, cli.as_deref(), &drops);
                *results[i].lock().unwrap() = Some(r);
                let _ = std::fs::remove_dir_all(format!("{dir}/c{}", i + 1));
            });
        }
    });
    // no other store of this process may write while the observer waits for the first write
    for h in drops.lock().unwrap().drain(..) {
        let _ = h.join();
    }
    for i in 0..cases.len() {
        if alone(&cases[i]) {
            let r = run_case(i + 1, &cases[i], &dir, cli.as_deref(), &drops);
            *results[i].lock().unwrap() = Some(r);
            for h in drops.lock().unwrap().drain(..) {
                let _ = h.join();
            }
        }
    }
    crate::util::watchdog::beat("closing the opened destinations");
    for h in drops.lock().unwrap().drain(..) {
        let _ = h.join();
    }

    // ---- trace
    let outs: Vec<Outcome> = results.into_iter().map(|m| m.into_inner().unwrap().expect("case result")).collect();
    let de = outs.iter().zip(&cases).filter(|(_, c)| !c.src.large).map(|(o, _)| o.blocks).max().unwrap_or(blocks);
    let mut f = std::io::BufWriter::new(std::fs::File::create(&out_path).expect("create out"));
    let mut n_events = 1;
    writeln!(f, "{}", json!({"e": "hdr", "ds": 16, "de": de, "seed": seed, "cases": cases.len(), "cli": cli.is_some(),
        "note": if cli.is_some() { "" } else { "feox-migrate binary absent: CLI cases skipped" }})).unwrap();
    for o in &outs {
        for e in &o.events {
            writeln!(f, "{}", e).unwrap();
            n_events += 1;
        }
    }
    f.flush().unwrap();
    // ---- summary for the check
    let mut fam: HashMap<&str, (usize, usize)> = HashMap::new();
    let mut feats: HashMap<&str, usize> = HashMap::new();
    let mut errs: HashMap<String, usize> = HashMap::new();
    let (mut n_ok, mut n_pre, mut n_cli, mut n_panic, mut n_allow_ok) = (0, 0, 0, 0, 0);
    let (mut n_fault_cases, mut n_fault_failed) = (0, 0);
    for (o, c) in outs.iter().zip(&cases) {
        let e = fam.entry(c.src.family).or_default();
        e.0 += 1;
        if o.ok {
            e.1 += 1;
            n_ok += 1;
            if c.allow && c.src.feats.contains(&"legacy_marker") {
                n_allow_ok += 1;
            }
            for ft in &c.src.feats {
                *feats.entry(ft).or_default() += 1;
            }
        } else {
            *errs.entry(o.err.clone()).or_default() += 1;
        }
        n_fault_cases += c.fault.is_some() as usize;
        n_fault_failed += (c.fault.is_some() && !o.ok) as usize;
        n_pre += (c.pre != Pre::None) as usize;
        n_cli += c.cli as usize;
        n_panic += o.panicked as usize;
    }
    println!("{}", json!({"cases": cases.len(), "ok": n_ok, "failed": cases.len() - n_ok, "events": n_events, "sources": sources.len(),
        "families": fam.iter().map(|(k, v)| (k.to_string(), json!({"cases": v.0, "ok": v.1}))).collect::<serde_json::Map<_, _>>(),
        "features_migrated": feats.iter().map(|(k, v)| (k.to_string(), json!(v))).collect::<serde_json::Map<_, _>>(),
        "errors": errs.iter().map(|(k, v)| (k.clone(), json!(v))).collect::<serde_json::Map<_, _>>(),
        "pre_cases": n_pre, "fault_cases": n_fault_cases, "fault_refused": n_fault_failed, "cli_cases": n_cli, "cli": cli.is_some(), "panics": n_panic, "allowed_marker_migrations": n_allow_ok, "de": de}));
    let _ = std::fs::remove_dir_all(&dir);
    0
}

//! C20: the crate's other safe public types (the aligned I/O buffer of `utils::allocator`) driven through
//! their safe methods only, meant to run in the AddressSanitizer build: every byte a safe call hands out
//! (`as_slice`, `as_mut_slice` up to `len()`, `set_len` up to `capacity()`) must be backed by the allocation.
use crate::util::Opts;
use feoxdb::utils::allocator::AlignedBuffer;
use rand::rngs::StdRng;
use rand::{Rng, SeedableRng};
use serde_json::json;

pub fn main(args: &[String]) -> i32 {
    let o = Opts::parse(args);
    let seed: u64 = o.num("seed", 1);
    let rounds: usize = o.num("rounds", 400);
    let mut rng = StdRng::seed_from_u64(seed);
    let mut sizes: Vec<usize> = vec![1, 2, 100, 511, 512, 513, 4095, 4096, 4097, 5000, 8191, 8192, 8193, 12345, 70_000];
    for _ in 0..rounds {
        sizes.push(rng.random_range(1..200_000));
    }
    let mut checksum = 0u64;
    let mut bytes = 0usize;
    for (i, n) in sizes.iter().enumerate() {
        let mut buf = match AlignedBuffer::new(*n) {
            Ok(b) => b,
            Err(_) => continue,
        };
        let cap = buf.capacity();
        if cap < *n {
            println!("{}", json!({"short_capacity": [n, cap]}));
            return 4;
        }
        // the padding idiom of an O_DIRECT transfer: use the whole reported capacity
        buf.set_len(cap);
        let fill = (i % 251) as u8;
        buf.as_mut_slice().fill(fill);
        checksum = checksum.wrapping_add(buf.as_slice().iter().map(|b| *b as u64).sum::<u64>());
        let shorter = rng.random_range(0..=cap);
        buf.set_len(shorter);
        checksum = checksum.wrapping_add(buf.as_slice().len() as u64);
        if !buf.is_empty() {
            let last = buf.len() - 1;
            buf.as_mut_slice()[last] = 7;
        }
        buf.clear();
        if !buf.is_empty() || buf.len() != 0 {
            println!("{}", json!({"clear_left": buf.len()}));
            return 4;
        }
        buf.set_len(*n);
        buf.as_mut_slice().fill(fill ^ 0x55);
        bytes += cap;
    }
    println!("{}", json!({"buffers": sizes.len(), "bytes": bytes, "checksum": checksum, "rounds": sizes.len()}));
    0
}


/// C20: a HOT KEY - one key overwritten tens of thousands of times faster than the write buffer flushes, so that a
/// long chain of superseded generations (each linked to its successor) hangs off the one generation that is on the
/// device; when the newest generation becomes durable the whole chain is released at once.  Releasing it must not
/// depend on its length (stack depth).  Run in the AddressSanitizer build and in the plain one.
pub fn hotkey(args: &[String]) -> i32 {
    let o = Opts::parse(args);
    let burst: usize = o.num("burst", 120_000);
    let rounds: usize = o.num("rounds", 2);
    let dir = o.get("dir").unwrap_or("/dev/shm").to_string();
    let path = format!("{dir}/hotkey_{}.feox", std::process::id());
    let _ = std::fs::remove_file(&path);
    crate::util::watchdog::start(o.num("watchdog", 120));
    let store = feoxdb::FeoxStore::builder().device_path(path.clone()).file_size(64 * 1024 * 1024).enable_ttl(true)
        .build().expect("build store");
    store.insert(b"hot", b"generation 0").expect("insert");
    store.insert(b"cold", b"bystander").expect("insert");
    store.flush().expect("flush");
    let mut n = 0u64;
    for r in 0..rounds {
        for _ in 0..burst {
            n += 1;
            store.insert(b"hot", format!("generation {n}").as_bytes()).expect("overwrite");
        }
        crate::util::watchdog::beat(&format!("hotkey: flush after burst {r}"));
        store.flush().expect("flush after the burst");
        let v = store.get(b"hot").expect("get hot");
        if v != format!("generation {n}").as_bytes() || store.get(b"cold").expect("get cold") != b"bystander" {
            println!("{}", json!({"wrong_value_after_burst": r}));
            return 4;
        }
    }
    drop(store);
    let _ = std::fs::remove_file(&path);
    println!("{}", json!({"rounds": rounds, "overwrites": n}));
    0
}

------------------------------ MODULE Recovery ------------------------------
(***************************************************************************)
(* Recovery (recovery.rs load_indexes / scan_and_rebuild_indexes, io.rs    *)
(* replay_allocation_journal / retire_extents) as interruptible steps over *)
(* a Disk image.  Property C04 (and C11 across restarts).                  *)
(*                                                                         *)
(*   ReadMeta -> ReadJournal -> [ACTIVE journal: ReplayMarkers -> fsync -> *)
(*   ReplayClear -> fsync] -> ScanAll (atomic, pure: Disk!Recover gives    *)
(*   winners, losers, pending-marker repairs) -> DropExpired (expired      *)
(*   winners leave the index and are queued for retirement; the plan is    *)
(*   built) -> per chunk of <= JMax coalesced, sector-sorted extents:      *)
(*   intent -> fsync -> markers -> fsync -> clear -> fsync -> Done.        *)
(*   Crash can interrupt anywhere (durable := any crash image, volatile    *)
(*   state lost, recovery starts again), up to MaxCrashes times.           *)
(*                                                                         *)
(* OrderFix = FALSE: losers, repairs and expired winners are retired in    *)
(* ONE sector-sorted list (the code at the pinned commit).                 *)
(* OrderFix = TRUE: losers and repairs first, expired winners in a second  *)
(* retire_extents pass.                                                    *)
(* `Now` is held fixed: contents may differ between recoveries only by     *)
(* keys whose expiry passes, which cannot happen here.                     *)
(***************************************************************************)
EXTENDS Disk

CONSTANTS JMax,         \* journal capacity (1024 in the code)
          MaxCrashes,   \* crashes inside recovery per behaviour
          OrderFix,
          Tears,        \* torn units per crash image (0 = block-granular loss only)
          Sizes,        \* extent sizes of the initial images
          Now, Exp,     \* fixed clock; expiry stamp of the expired generations (0 < Exp < Now)
          WithJournal, WithMarker   \* initial images may carry an ACTIVE journal / a pending marker

ASSUME JMax \in Nat \ {0} /\ MaxCrashes \in Nat /\ Tears \in Nat /\ OrderFix \in BOOLEAN
       /\ Exp > 0 /\ Exp < Now /\ WithJournal \in BOOLEAN /\ WithMarker \in BOOLEAN

Keys == 1 .. 2
GenIds == 1 .. 3
FormatVersion == 3

VARIABLES
  dur, pend,      \* Disk
  pc,
  jpos,           \* DiskIO.journal_generation / journal_slot after read_allocation_journal
  plan,           \* remaining journal transactions: sequence of sequences of <<at, n>>
  kv,             \* contents this recovery run reports: key -> generation (0 = absent)
  rq, rqE,        \* queued for retirement: losers + repairs; expired winners
  gt,             \* generation table of the initial image: id -> [k, ts, exp, n]   (never changes)
  first, firstAt, \* what the first recovery of the initial image reports / where its winners lie
  crashes
vars == <<dur, pend, pc, jpos, plan, kv, rq, rqE, gt, first, firstAt, crashes>>

Range(s, n) == s .. (s + n - 1)
Rv(img) == Recover(img, gt, Keys, Now, TRUE, FALSE)

RECURSIVE SortExts(_)
SortExts(S) == IF S = {} THEN <<>>
               ELSE LET m == CHOOSE x \in S : \A y \in S : x[1] <= y[1] IN <<m>> \o SortExts(S \ {m})
RECURSIVE CoalesceSeq(_)
CoalesceSeq(sq) ==
  IF Len(sq) <= 1 THEN sq
  ELSE LET rest == CoalesceSeq(Tail(sq)) IN
       IF sq[1][1] + sq[1][2] = rest[1][1]
       THEN <<<<sq[1][1], sq[1][2] + rest[1][2]>>>> \o Tail(rest)
       ELSE <<sq[1]>> \o rest
RECURSIVE ChunkSeq(_, _)
ChunkSeq(sq, m) == IF sq = <<>> THEN <<>>
                   ELSE LET n == IF Len(sq) < m THEN Len(sq) ELSE m
                        IN <<SubSeq(sq, 1, n)>> \o ChunkSeq(SubSeq(sq, n + 1, Len(sq)), m)
\* io.rs retire_extents: coalesce_extents, then chunks of ALLOCATION_JOURNAL_MAX_ENTRIES
RetirePlan(S) == ChunkSeq(CoalesceSeq(SortExts(S)), JMax)
SeqSet(s) == {s[i] : i \in 1 .. Len(s)}

(* ------------------------------ initial images ------------------------------ *)
\* generations 1, 2: key 1 (2 is newer and may be expired); generation 3: key 2 (may be expired)
Table(n, e2, e3) == [g \in GenIds |->
   IF g = 1 THEN [k |-> 1, ts |-> 1, exp |-> 0, n |-> n[1]]
   ELSE IF g = 2 THEN [k |-> 1, ts |-> 2, exp |-> e2, n |-> n[2]]
   ELSE [k |-> 2, ts |-> 1, exp |-> e3, n |-> n[3]]]
MinSize == CHOOSE s \in Sizes : \A o \in Sizes : s <= o
ExtBlocks(at, n, g) == IF at[g] = 0 THEN {} ELSE Range(at[g], n[g])
\* marker choice <<b, len, kind>>: kind 1 = pending markers (state byte 0) on len blocks,
\* kind 2 = complete head marker of a 2-block run whose second block is not a marker
MarkerChoices == {<<0, 0, 0>>} \cup
                 (IF WithMarker THEN {<<b, l, 1>> : b \in Blocks, l \in 1 .. 2} \cup {<<b, 2, 2>> : b \in Blocks} ELSE {})
MkBlocks(mk) == IF mk[1] = 0 THEN {} ELSE Range(mk[1], mk[2])
Legal(at, n, mk) ==
  /\ \A g \in GenIds : ExtBlocks(at, n, g) \subseteq Blocks
  /\ \A g1, g2 \in GenIds : g1 # g2 => ExtBlocks(at, n, g1) \cap ExtBlocks(at, n, g2) = {}
  /\ MkBlocks(mk) \subseteq Blocks
  /\ \A g \in GenIds : ExtBlocks(at, n, g) \cap MkBlocks(mk) = {}
  /\ \A g \in GenIds : at[g] = 0 => n[g] = MinSize         \* absent generations: one representative
BlkOf(at, n, mk, b) ==
  IF \E g \in GenIds : b \in ExtBlocks(at, n, g)
  THEN LET g == CHOOSE g \in GenIds : b \in ExtBlocks(at, n, g) IN
       IF b = at[g] THEN H(g, n[g]) ELSE T(g, b - at[g], "")
  ELSE IF b \in MkBlocks(mk)
  THEN (IF mk[3] = 1 THEN M(mk[2] - (b - mk[1]), 0) ELSE IF b = mk[1] THEN M(2, 1) ELSE Z)
  ELSE Z
\* journal choice: <<0>> never written, <<1>> CLEAR, <<2, at, n>> ACTIVE on one whole extent or free block
JournalChoices(at, n, mk) ==
  {<<0>>, <<1>>} \cup
  (IF WithJournal
   THEN {<<2, at[g], n[g]>> : g \in {x \in GenIds : at[x] # 0}}
        \cup {<<2, b, 1>> : b \in {x \in Blocks : x \notin MkBlocks(mk) /\ \A g \in GenIds : x \notin ExtBlocks(at, n, g)}}
   ELSE {})
JOf(jc) == IF jc[1] = 0 THEN [s \in 0 .. 1 |-> JZ]
           ELSE IF jc[1] = 1 THEN [s \in 0 .. 1 |-> IF s = 0 THEN J(1, FALSE, <<>>) ELSE JZ]
           ELSE [s \in 0 .. 1 |-> IF s = 0 THEN J(1, TRUE, <<<<jc[2], jc[3]>>>>) ELSE JZ]
ImageOf(at, n, mk, jc) ==
  [blk |-> [b \in Blocks |-> BlkOf(at, n, mk, b)],
   j |-> JOf(jc),
   m |-> [c \in 0 .. 1 |-> Mt(1, FormatVersion, 0, 0)]]

Init ==
  \E n \in [GenIds -> Sizes], at \in [GenIds -> {0} \cup Blocks], mk \in MarkerChoices,
     e2 \in {0, Exp}, e3 \in {0, Exp} :
    /\ Legal(at, n, mk)
    /\ (at[2] = 0 => e2 = 0) /\ (at[3] = 0 => e3 = 0)
    /\ \E jc \in JournalChoices(at, n, mk) :
         LET img == ImageOf(at, n, mk, jc)
             tbl == Table(n, e2, e3)
             r == Recover(img, tbl, Keys, Now, TRUE, FALSE)
         IN /\ r.ok
            /\ dur = img /\ gt = tbl /\ first = r.kv
            /\ firstAt = [k \in Keys |-> IF r.kv[k] = 0 THEN 0 ELSE r.winAt[k].at]
    /\ pend = <<>> /\ pc = "meta" /\ jpos = [gen |-> 0, slot |-> 1] /\ plan = <<>>
    /\ kv = [k \in Keys |-> 0] /\ rq = {} /\ rqE = {} /\ crashes = 0

(* ------------------------------ device ------------------------------ *)
NextJ == [gen |-> jpos.gen + 1, slot |-> (jpos.slot + 1) % 2]
JW(active, exts) == [kind |-> "j", slot |-> NextJ.slot, v |-> J(NextJ.gen, active, exts)]
DW(at, c) == [kind |-> "d", at |-> at, c |-> c]
MarkerImage(n) == [i \in 1 .. n |-> M(n - i + 1, 1)]
MarkerWrites(exts) == [i \in 1 .. Len(exts) |-> DW(exts[i][1], MarkerImage(exts[i][2]))]
\* allocation_journal.rs decode: slot of the valid image with the highest generation (ties: the
\* later slot); no valid image: the last never-written slot, generation 0
JSlotPick(j) == IF JValid(j[0]) /\ JValid(j[1]) THEN (IF j[1].gen >= j[0].gen THEN 1 ELSE 0)
                ELSE IF JValid(j[0]) THEN 0
                ELSE IF JValid(j[1]) THEN 1
                ELSE IF j[1].z THEN 1 ELSE 0
Sync(to) == /\ dur' = ApplyAll(dur, pend) /\ pend' = <<>> /\ pc' = to
            /\ UNCHANGED <<jpos, plan, kv, rq, rqE, gt, first, firstAt, crashes>>

(* ------------------------------ steps ------------------------------ *)
ReadMeta ==
  /\ pc = "meta"
  /\ pc' = IF AllZero(dur) THEN "done"                          \* fresh device: nothing to scan
           ELSE IF ~MetaValid(MetaPick(dur.m)) THEN "failed"    \* InvalidMetadata
           ELSE "journal"
  /\ UNCHANGED <<dur, pend, jpos, plan, kv, rq, rqE, gt, first, firstAt, crashes>>
ReadJournal ==
  /\ pc = "journal"
  /\ LET jp == JournalPick(dur.j) IN
     IF jp.bad THEN pc' = "failed" /\ UNCHANGED <<jpos, plan>>
     ELSE /\ jpos' = [gen |-> jp.gen, slot |-> JSlotPick(dur.j)]
          /\ IF jp.active
             THEN pc' = "replay_mark" /\ plan' = <<CoalesceSeq(SortExts(SeqSet(jp.exts)))>>
             ELSE pc' = "scan" /\ plan' = <<>>
  /\ UNCHANGED <<dur, pend, kv, rq, rqE, gt, first, firstAt, crashes>>
\* replay_allocation_journal: markers -> fsync -> CLEAR -> fsync (no new intent)
ReplayMarkers ==
  /\ pc = "replay_mark"
  /\ pend' = pend \o MarkerWrites(plan[1]) /\ pc' = "replay_fs1"
  /\ UNCHANGED <<dur, jpos, plan, kv, rq, rqE, gt, first, firstAt, crashes>>
ReplayClear ==
  /\ pc = "replay_clear"
  /\ pend' = Append(pend, JW(FALSE, <<>>)) /\ jpos' = NextJ /\ pc' = "replay_fs2" /\ plan' = <<>>
  /\ UNCHANGED <<dur, kv, rq, rqE, gt, first, firstAt, crashes>>
\* the scan over blocks DS .. DE-1: the journal is CLEAR here, so Disk!Recover is the plain scan
ScanAll ==
  /\ pc = "scan"
  /\ LET r == Recover(dur, gt, Keys, Now, FALSE, FALSE) IN
     IF ~r.ok THEN pc' = "failed" /\ UNCHANGED <<kv, rq>>
     ELSE /\ kv' = r.win /\ rq' = r.losers \cup r.repairs /\ pc' = "expire"
  /\ UNCHANGED <<dur, pend, jpos, plan, rqE, gt, first, firstAt, crashes>>
\* remove_expired_recovery_winners, then the argument of retire_extents is complete
Expired(g) == g # 0 /\ gt[g].exp # 0 /\ Now > gt[g].exp
WinAt(g) == CHOOSE b \in Blocks : dur.blk[b] = H(g, gt[g].n) /\ b + gt[g].n <= DE
                                  /\ \A o \in Blocks : (dur.blk[o] = H(g, gt[g].n) /\ o + gt[g].n <= DE) => o <= b
DropExpired ==
  /\ pc = "expire"
  /\ LET ex == {<<WinAt(kv[k]), gt[kv[k]].n>> : k \in {x \in Keys : Expired(kv[x])}} IN
     /\ kv' = [k \in Keys |-> IF Expired(kv[k]) THEN 0 ELSE kv[k]]
     /\ rqE' = ex
     /\ plan' = IF OrderFix THEN RetirePlan(rq) \o RetirePlan(ex) ELSE RetirePlan(rq \cup ex)
  /\ pc' = "chunk"
  /\ UNCHANGED <<dur, pend, jpos, rq, gt, first, firstAt, crashes>>
ChunkIntent ==
  /\ pc = "chunk"
  /\ IF plan = <<>> THEN pc' = "done" /\ UNCHANGED <<pend, jpos>>
     ELSE pend' = Append(pend, JW(TRUE, plan[1])) /\ jpos' = NextJ /\ pc' = "c_fs1"
  /\ UNCHANGED <<dur, plan, kv, rq, rqE, gt, first, firstAt, crashes>>
ChunkMarkers ==
  /\ pc = "c_mark"
  /\ pend' = pend \o MarkerWrites(plan[1]) /\ pc' = "c_fs2"
  /\ UNCHANGED <<dur, jpos, plan, kv, rq, rqE, gt, first, firstAt, crashes>>
ChunkClear ==
  /\ pc = "c_clear"
  /\ pend' = Append(pend, JW(FALSE, <<>>)) /\ jpos' = NextJ /\ pc' = "c_fs3"
  /\ UNCHANGED <<dur, plan, kv, rq, rqE, gt, first, firstAt, crashes>>
ChunkNext ==
  /\ pc = "c_next" /\ plan' = Tail(plan) /\ pc' = "chunk"
  /\ UNCHANGED <<dur, pend, jpos, kv, rq, rqE, gt, first, firstAt, crashes>>
Crash ==
  /\ pc \notin {"meta", "done", "failed"} /\ crashes < MaxCrashes
  /\ \E S \in SUBSET Units(pend) :
       \E Tn \in (IF Tears = 0 THEN {{}} ELSE {x \in SUBSET S : Cardinality(x) <= Tears}) :
         dur' = ApplyUnitsT(dur, pend, S, Tn, 1)
  /\ pend' = <<>> /\ pc' = "meta" /\ jpos' = [gen |-> 0, slot |-> 1] /\ plan' = <<>>
  /\ kv' = [k \in Keys |-> 0] /\ rq' = {} /\ rqE' = {} /\ crashes' = crashes + 1
  /\ UNCHANGED <<gt, first, firstAt>>

Next ==
  \/ ReadMeta \/ ReadJournal
  \/ ReplayMarkers \/ (pc = "replay_fs1" /\ Sync("replay_clear")) \/ ReplayClear \/ (pc = "replay_fs2" /\ Sync("scan"))
  \/ ScanAll \/ DropExpired
  \/ ChunkIntent \/ (pc = "c_fs1" /\ Sync("c_mark")) \/ ChunkMarkers \/ (pc = "c_fs2" /\ Sync("c_clear"))
  \/ ChunkClear \/ (pc = "c_fs3" /\ Sync("c_next")) \/ ChunkNext
  \/ Crash
Spec == Init /\ [][Next]_vars

(* ------------------------------ properties ------------------------------ *)
\* a completed recovery, possibly after crashes inside earlier ones, reports what the first
\* recovery of the initial image would have reported
RecoveryIdempotent == pc = "done" => kv = first
\* the same, one crash ahead: every crash image of every step reopens to those contents
ImagesAgree ==
  \A S \in SUBSET Units(pend) :
    \A Tn \in (IF Tears = 0 THEN {{}} ELSE {x \in SUBSET S : Cardinality(x) <= Tears}) :
      LET r == Rv(ApplyUnitsT(dur, pend, S, Tn, 1)) IN r.ok /\ r.kv = first
NeverFails == pc # "failed"
\* recovery writes markers only into blocks of no live winner, and journals no such block
LiveBlocks == UNION {Range(firstAt[k], gt[first[k]].n) : k \in {x \in Keys : first[x] # 0}}
RepairsTouchNoLiveBlock ==
  \A i \in 1 .. Len(pend) :
    IF pend[i].kind = "d" THEN Range(pend[i].at, Len(pend[i].c)) \cap LiveBlocks = {}
    ELSE IF pend[i].kind = "j" THEN JBlocks(pend[i].v.exts) \cap LiveBlocks = {}
    ELSE TRUE
TypeOK == /\ pc \in {"meta", "journal", "replay_mark", "replay_fs1", "replay_clear", "replay_fs2", "scan",
                     "expire", "chunk", "c_fs1", "c_mark", "c_fs2", "c_clear", "c_fs3", "c_next", "done", "failed"}
          /\ crashes \in 0 .. MaxCrashes
=============================================================================

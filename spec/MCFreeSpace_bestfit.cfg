CONSTANTS Lo = 16  Hi = 22  MaxReq = 3  Policy = "bestfit"
SPECIFICATION Spec
INVARIANTS TypeOK StatsOK
PROPERTIES AllocOK ReleaseRejectAtomic

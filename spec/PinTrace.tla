------------------------------- MODULE PinTrace -------------------------------
(***************************************************************************)
(* C08, second half: "the device blocks of a generation are not            *)
(* overwritten while a reader is still reading them".                      *)
(*                                                                         *)
(* Events of one run, in the global order of the hook counter:             *)
(*   pin / unpin   a reader holds / releases an extent (logged strictly    *)
(*                 inside the real interval: after acquire, before release)*)
(*   pread         the pinned reader read blocks s .. s+n-1                *)
(*   wb .. we      a synchronous device write of blocks began .. completed *)
(*   wsub .. wdone an io_uring write was submitted .. its batch completed  *)
(* A write whose whole logged interval lies inside a logged pin interval   *)
(* certainly happened while the extent was pinned.  If it hit blocks the   *)
(* pinned reader reads, the rule is broken.                                *)
(***************************************************************************)
EXTENDS Naturals, Sequences, FiniteSets, TLC, Json, IOUtils

VARIABLES pins,     \* set of [id, tid, range, over]
          openw,    \* set of [tid, blocks, started]
          loose,    \* tid -> blocks overwritten since that thread released its last pin
          l, bad
pvars == <<pins, openw, loose, l, bad>>

Rec == ndJsonDeserialize(IOEnv.TRACE)
Ev == Rec[l]
Blk(s, n) == s .. (s + n - 1)

PInit == pins = {} /\ openw = {} /\ loose = <<>> /\ l = 1 /\ bad = FALSE

AddLoose(blocks) == [t \in DOMAIN loose |-> loose[t] \cup blocks]
Drop(f, t) == [x \in (DOMAIN f) \ {t} |-> f[x]]
Put(f, t, v) == [x \in (DOMAIN f) \cup {t} |-> IF x = t THEN v ELSE f[x]]

Step ==
  LET e == Ev IN
  CASE e.e = "reset" -> pins' = {} /\ openw' = {} /\ bad' = FALSE /\ loose' = <<>>
    [] e.e = "pin" ->
         /\ pins' = pins \cup {[id |-> e.id, tid |-> e.tid, range |-> {}, over |-> {}]}
         /\ loose' = Drop(loose, e.tid)
         /\ UNCHANGED <<openw, bad>>
    [] e.e = "pread" ->
         \* the read belongs to the pin most recently taken by this thread (a thread holds one at a time)
         LET mine == {p \in pins : p.tid = e.tid} IN
         /\ pins' = (pins \ mine) \cup {[p EXCEPT !.range = Blk(e.s, e.n)] : p \in mine}
         \* a read after the pin was released is unprotected: it must not meet a completed overwrite
         /\ bad' = \/ \E p \in mine : Blk(e.s, e.n) \cap p.over # {}
                   \/ (mine = {} /\ e.tid \in DOMAIN loose /\ Blk(e.s, e.n) \cap loose[e.tid] # {})
         /\ UNCHANGED <<openw, loose>>
    [] e.e = "unpin" ->
         LET mine == {p \in pins : p.id = e.id /\ p.tid = e.tid} IN
         /\ pins' = pins \ mine
         /\ bad' = \E p \in mine : p.range \cap p.over # {}
         /\ loose' = Put(loose, e.tid, {})
         /\ UNCHANGED openw
    [] e.e \in {"wb", "wsub"} ->
         /\ openw' = openw \cup {[tid |-> e.tid, blocks |-> Blk(e.s, e.n), started |-> {p.id : p \in pins}]}
         /\ UNCHANGED <<pins, bad, loose>>
    [] e.e = "we" ->
         LET done == {w \in openw : w.tid = e.tid /\ w.blocks = Blk(e.s, e.n)} IN
         /\ openw' = openw \ done
         /\ pins' = {[p EXCEPT !.over = @ \cup UNION {w.blocks : w \in {x \in done : p.id \in x.started}}] : p \in pins}
         /\ bad' = \E p \in pins : \E w \in done : p.id \in w.started /\ p.range \cap w.blocks # {}
         /\ loose' = AddLoose(UNION {w.blocks : w \in done})
    [] e.e = "wdone" ->
         LET done == {w \in openw : w.tid = e.tid} IN
         /\ openw' = openw \ done
         /\ pins' = {[p EXCEPT !.over = @ \cup UNION {w.blocks : w \in {x \in done : p.id \in x.started}}] : p \in pins}
         /\ bad' = \E p \in pins : \E w \in done : p.id \in w.started /\ p.range \cap w.blocks # {}
         /\ loose' = AddLoose(UNION {w.blocks : w \in done})
    [] OTHER -> UNCHANGED <<pins, openw, bad, loose>>

PNext == l <= Len(Rec) /\ l' = l + 1 /\ Step
PSpec == PInit /\ [][PNext]_pvars

NoOverwriteWhilePinned == ~bad

TraceAccepted ==
  IF TLCGet("stats").diameter = Len(Rec) + 1 THEN TRUE
  ELSE Print(<<"TRACE-INCOMPLETE at event", TLCGet("stats").diameter>>, FALSE)
=============================================================================

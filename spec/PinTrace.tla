------------------------------- MODULE PinTrace -------------------------------
(***************************************************************************)
(* C08, second half: "the device blocks of a generation are not            *)
(* overwritten while a reader is still reading them".                      *)
(*                                                                         *)
(* Events of one run, in the global order of the hook counter:             *)
(*   pin / unpin   a reader holds / releases an extent (logged strictly    *)
(*                 inside the real interval: after acquire, before release)*)
(*   pread         the pinned reader read blocks s .. s+n-1                *)
(*   wb .. we      a synchronous device write of blocks began .. completed *)
(*   wsub .. wdone an io_uring write was submitted .. its batch completed  *)
(* A write whose whole logged interval lies inside a logged pin interval   *)
(* certainly happened while the extent was pinned.  If it hit blocks the   *)
(* pinned reader reads, the rule is broken.                                *)
(*                                                                         *)
(* Second layer (RetireProtocol): the retirement pass's own events on the  *)
(* same generations - ret_bit, ret_wait, ret_mark, ret_marked, release -   *)
(* drive the per-generation word of PinProto.tla (the operators Pin.tla    *)
(* model-checks).  pin / unpin are logged strictly inside the real pin     *)
(* interval, so the logged reader count never exceeds the real one, and    *)
(* ret_mark / release are logged after the reader count was read as zero   *)
(* with the retired bit already set.  On code that follows the protocol    *)
(* no logged pin can therefore be open at ret_mark or release, and no pin  *)
(* can be logged after ret_mark: each of the three is a decision to        *)
(* overwrite or reuse blocks a reader still holds.                         *)
(***************************************************************************)
EXTENDS Naturals, Sequences, FiniteSets, TLC, Json, IOUtils

VARIABLES pins,     \* set of [id, tid, range, over, g]
          pg,       \* generation id -> word of PinProto (readers = pins logged open)
          pflags,   \* protocol guards found false
          openw,    \* set of [tid, blocks, started]
          loose,    \* tid -> blocks overwritten since that thread released its last pin
          l, bad
pvars == <<pins, openw, loose, l, bad, pg, pflags>>

P == INSTANCE PinProto WITH AcquireRefusesRetired <- TRUE

Rec == ndJsonDeserialize(IOEnv.TRACE)
Ev == Rec[l]
Blk(s, n) == s .. (s + n - 1)

PInit == pins = {} /\ openw = {} /\ loose = <<>> /\ l = 1 /\ bad = FALSE /\ pg = <<>> /\ pflags = {}

GenOf(e) == IF "g" \in DOMAIN e THEN e.g ELSE "?"
Ensure(G, g) == IF g \in DOMAIN G THEN G
                ELSE [x \in (DOMAIN G) \cup {g} |-> IF x = g THEN P!LiveGen({}) ELSE G[x]]
Flag(cond, name) == IF cond THEN {name} ELSE {}

\* the retirement protocol layer: returns <<pg', new flags>>
Proto(e) ==
  CASE e.e = "reset" -> <<<<>>, {}>>
    [] e.e = "pin" ->
         LET G == Ensure(pg, GenOf(e)) IN
         <<P!AcquireF(G, GenOf(e)), Flag(~P!PinAllowed(G, GenOf(e)), "PinAfterMark")>>
    [] e.e = "unpin" ->
         LET mine == {p \in pins : p.id = e.id /\ p.tid = e.tid} IN
         IF mine = {} THEN <<pg, {}>>
         ELSE LET p == CHOOSE x \in mine : TRUE IN <<P!ReleaseF(Ensure(pg, p.g), p.g), {}>>
    [] e.e = "ret_bit" -> <<P!BitF(Ensure(pg, e.g), e.g), {}>>
    [] e.e = "ret_wait" -> <<IF e.why = 1 THEN P!WaitF(Ensure(pg, e.g), e.g) ELSE pg, {}>>
    [] e.e = "ret_mark" ->
         LET G == Ensure(pg, e.g) IN
         <<[P!MarkDecideF(G, e.g) EXCEPT ![e.g].ext = Blk(e.s, e.n)],
           Flag(P!HasReaders(G, e.g), "MarkWhilePinned")>>
    [] e.e = "ret_marked" ->
         <<[g \in DOMAIN pg |-> IF pg[g].phase = "tomark" THEN P!MarkedF(pg, g)[g] ELSE pg[g]], {}>>
    [] e.e = "release" ->
         LET R == Blk(e.s, e.n)
             hit == {g \in DOMAIN pg : pg[g].ext \cap R # {} /\ pg[g].phase # "released"}
             done == {g \in hit : pg[g].phase = "marked" /\ pg[g].ext \subseteq R} IN
         <<[g \in DOMAIN pg |-> IF g \in done THEN P!ReleasedF(pg, g)[g] ELSE pg[g]],
           Flag(\E g \in hit : P!HasReaders(pg, g), "ReleaseWhilePinned")>>
    [] OTHER -> <<pg, {}>>

AddLoose(blocks) == [t \in DOMAIN loose |-> loose[t] \cup blocks]
Drop(f, t) == [x \in (DOMAIN f) \ {t} |-> f[x]]
Put(f, t, v) == [x \in (DOMAIN f) \cup {t} |-> IF x = t THEN v ELSE f[x]]

Step ==
  LET e == Ev IN
  CASE e.e = "reset" -> pins' = {} /\ openw' = {} /\ bad' = FALSE /\ loose' = <<>>
    [] e.e = "pin" ->
         /\ pins' = pins \cup {[id |-> e.id, tid |-> e.tid, range |-> {}, over |-> {}, g |-> GenOf(e)]}
         /\ loose' = Drop(loose, e.tid)
         /\ UNCHANGED <<openw, bad>>
    [] e.e = "pread" ->
         \* the read belongs to the pin most recently taken by this thread (a thread holds one at a time)
         LET mine == {p \in pins : p.tid = e.tid} IN
         /\ pins' = (pins \ mine) \cup {[p EXCEPT !.range = Blk(e.s, e.n)] : p \in mine}
         \* a read after the pin was released is unprotected: it must not meet a completed overwrite
         /\ bad' = \/ \E p \in mine : Blk(e.s, e.n) \cap p.over # {}
                   \/ (mine = {} /\ e.tid \in DOMAIN loose /\ Blk(e.s, e.n) \cap loose[e.tid] # {})
         /\ UNCHANGED <<openw, loose>>
    [] e.e = "unpin" ->
         LET mine == {p \in pins : p.id = e.id /\ p.tid = e.tid} IN
         /\ pins' = pins \ mine
         /\ bad' = \E p \in mine : p.range \cap p.over # {}
         /\ loose' = Put(loose, e.tid, {})
         /\ UNCHANGED openw
    [] e.e \in {"wb", "wsub"} ->
         /\ openw' = openw \cup {[tid |-> e.tid, blocks |-> Blk(e.s, e.n), started |-> {p.id : p \in pins}]}
         /\ UNCHANGED <<pins, bad, loose>>
    [] e.e = "we" ->
         LET done == {w \in openw : w.tid = e.tid /\ w.blocks = Blk(e.s, e.n)} IN
         /\ openw' = openw \ done
         /\ pins' = {[p EXCEPT !.over = @ \cup UNION {w.blocks : w \in {x \in done : p.id \in x.started}}] : p \in pins}
         /\ bad' = \E p \in pins : \E w \in done : p.id \in w.started /\ p.range \cap w.blocks # {}
         /\ loose' = AddLoose(UNION {w.blocks : w \in done})
    [] e.e = "wdone" ->
         LET done == {w \in openw : w.tid = e.tid} IN
         /\ openw' = openw \ done
         /\ pins' = {[p EXCEPT !.over = @ \cup UNION {w.blocks : w \in {x \in done : p.id \in x.started}}] : p \in pins}
         /\ bad' = \E p \in pins : \E w \in done : p.id \in w.started /\ p.range \cap w.blocks # {}
         /\ loose' = AddLoose(UNION {w.blocks : w \in done})
    [] OTHER -> UNCHANGED <<pins, openw, bad, loose>>

PNext == /\ l <= Len(Rec) /\ l' = l + 1 /\ Step
         /\ LET r == Proto(Ev) IN pg' = r[1] /\ pflags' = (IF Ev.e = "reset" THEN {} ELSE pflags \cup r[2])
PSpec == PInit /\ [][PNext]_pvars

NoOverwriteWhilePinned == ~bad
RetireProtocol == pflags = {}

TraceAccepted ==
  IF TLCGet("stats").diameter = Len(Rec) + 1 THEN TRUE
  ELSE Print(<<"TRACE-INCOMPLETE at event", TLCGet("stats").diameter>>, FALSE)
=============================================================================

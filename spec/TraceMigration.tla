---------------------------- MODULE TraceMigration ----------------------------
(***************************************************************************)
(* Validates recorded runs of the real `feoxdb::migrate` / `feox-migrate`  *)
(* (property C15).  One trace = a sequence of migration cases.             *)
(*                                                                         *)
(* Facts replayed per case (events, one JSON object per line):             *)
(*   case   id, family, fmt, nk (keys), allow (the opt-in), pre (was a     *)
(*          destination put there by somebody else: "none" / "before" the  *)
(*          call / "during" it), now (rank), large, via ("api" / "cli"),   *)
(*          fault (one device call of the destination was made to fail)    *)
(*   gen    g, k, ts, exp (dense order-preserving ranks, 0 = no expiry),   *)
(*          n (blocks of the legacy extent), n3 (blocks in format v3)      *)
(*   image  which = "src" | "dst": the abstract image produced by the      *)
(*          independent decoder (harness/src/absdev.rs classify_image);    *)
(*          the destination is classified as a version-3 file              *)
(*   mig    what the real migration reported and what the harness found    *)
(*          on the file system afterwards                                  *)
(*   open   what the REAL store exposes when it opens the destination with *)
(*          TTL disabled; opent: a copy of it with TTL enabled at `now`    *)
(*   end    the case is complete                                           *)
(*   hdr / note   no facts                                                 *)
(* For the large multi-batch sources (large = TRUE) no per-record events   *)
(* are recorded; `mig.sum` carries counts and the content comparison the   *)
(* harness did with the independent decoder.                               *)
(*                                                                         *)
(* Verdicts (rule R6) come only from the named invariants below; they are  *)
(* the formulas of Migration.tla applied to the recorded facts.            *)
(* MigConforms (the real outcome equals Migrate's prediction, error kind   *)
(* included) binds migration.rs to the model; a failure is a deviation.    *)
(***************************************************************************)
EXTENDS Migration, Json, IOUtils

VARIABLES l, cs, gens, src, dst, mig, opn, opt, stage
tvars == <<l, cs, gens, src, dst, mig, opn, opt, stage>>

Rec == ndJsonDeserialize(IOEnv.TRACE)
Ev == Rec[l]

NoCase == [id |-> 0, fmt |-> 2, nk |-> 0, allow |-> FALSE, pre |-> "none", now |-> 0, large |-> FALSE, api |-> TRUE,
           fault |-> FALSE]
NoSum == [ro_ok |-> FALSE, ro_err |-> "", ro_ver |-> 0, ro_amb |-> 0, ro_amb_allowed |-> FALSE,
          src_records |-> 0, dst_records |-> 0, equal |-> FALSE,
          dst_ver |-> 0, dst_journal_clear |-> FALSE, dst_bad_blocks |-> 0, dst_meta_ok |-> FALSE,
          open_ok |-> FALSE, open_equal |-> FALSE, opent_ok |-> FALSE, opent_equal |-> FALSE]
NoMig == [ok |-> FALSE, err |-> "", dst_exists |-> FALSE, pre_same |-> FALSE, src_same |-> TRUE,
          tmp_left |-> FALSE, amb |-> 0, records |-> 0, sum |-> NoSum]
NoOpen == [on |-> FALSE, ok |-> FALSE, kv |-> <<>>, extra |-> 0, len |-> 0]

Keys == 1 .. cs.nk

(* ---- JSON -> abstract values (same shapes as TraceDisk) ---- *)
Cont(c) == C(c.t, c.g, c.n, c.i, c.look)
JV(v) == IF v.z THEN JZ ELSE IF v.bad THEN JBad
         ELSE J(v.gen, v.active, [i \in 1 .. Len(v.exts) |-> <<v.exts[i][1], v.exts[i][2]>>])
MV(v) == IF v.z THEN MZ ELSE IF v.bad THEN MBad ELSE Mt(v.gen, v.ver, v.recs, v.size)
\* an image shorter than the trace's device is padded with zero blocks (a destination may be
\* larger than its source)
ImgOf(j) == [blk |-> [b \in Blocks |-> IF b - DS + 1 <= Len(j.blk) THEN Cont(j.blk[b - DS + 1]) ELSE Z],
             j |-> [s \in 0 .. 1 |-> JV(j.j[s + 1])],
             m |-> [c \in 0 .. 1 |-> MV(j.m[c + 1])]]

TInit == /\ l = 1 /\ cs = NoCase /\ gens = <<>> /\ src = EmptyImage /\ dst = EmptyImage
         /\ mig = NoMig /\ opn = NoOpen /\ opt = NoOpen /\ stage = "idle"

TCase == /\ Ev.e = "case"
         /\ cs' = [id |-> Ev.id, fmt |-> Ev.fmt, nk |-> Ev.nk, allow |-> Ev.allow, pre |-> Ev.pre,
                   now |-> Ev.now, large |-> Ev.large, api |-> (Ev.via = "api"), fault |-> Ev.fault]
         /\ gens' = <<>> /\ src' = EmptyImage /\ dst' = EmptyImage
         /\ mig' = NoMig /\ opn' = NoOpen /\ opt' = NoOpen /\ stage' = "case"

TGen == /\ Ev.e = "gen"
        /\ gens' = Append(gens, [k |-> Ev.k, ts |-> Ev.ts, exp |-> Ev.exp, n |-> Ev.n, n3 |-> Ev.n3])
        /\ UNCHANGED <<cs, src, dst, mig, opn, opt, stage>>

TImage == /\ Ev.e = "image"
          /\ IF Ev.which = "src" THEN src' = ImgOf(Ev.img) /\ dst' = dst
                                 ELSE dst' = ImgOf(Ev.img) /\ src' = src
          /\ UNCHANGED <<cs, gens, mig, opn, opt, stage>>

SumOf(s) == [ro_ok |-> s.ro_ok, ro_err |-> s.ro_err, ro_ver |-> s.ro_ver, ro_amb |-> s.ro_amb,
             ro_amb_allowed |-> s.ro_amb_allowed,
             src_records |-> s.src_records, dst_records |-> s.dst_records, equal |-> s.equal,
             dst_ver |-> s.dst_ver, dst_journal_clear |-> s.dst_journal_clear,
             dst_bad_blocks |-> s.dst_bad_blocks, dst_meta_ok |-> s.dst_meta_ok,
             open_ok |-> s.open_ok, open_equal |-> s.open_equal,
             opent_ok |-> s.opent_ok, opent_equal |-> s.opent_equal]
TMig == /\ Ev.e = "mig"
        /\ mig' = [ok |-> Ev.ok, err |-> Ev.err, dst_exists |-> Ev.dst_exists, pre_same |-> Ev.pre_same,
                   src_same |-> Ev.src_same, tmp_left |-> Ev.tmp_left, amb |-> Ev.amb, records |-> Ev.records,
                   sum |-> IF cs.large THEN SumOf(Ev.sum) ELSE NoSum]
        /\ UNCHANGED <<cs, gens, src, dst, opn, opt, stage>>

OpenOf(e) == [on |-> TRUE, ok |-> e.ok, kv |-> [k \in Keys |-> IF e.ok THEN e.kv[k] ELSE 0],
              extra |-> e.extra, len |-> e.len]
TOpen == \/ /\ Ev.e = "open" /\ opn' = OpenOf(Ev) /\ opt' = opt
         \/ /\ Ev.e = "opent" /\ opt' = OpenOf(Ev) /\ opn' = opn
TOpenStep == TOpen /\ UNCHANGED <<cs, gens, src, dst, mig, stage>>

TEnd == /\ Ev.e = "end" /\ stage' = "end"
        /\ UNCHANGED <<cs, gens, src, dst, mig, opn, opt>>

TNote == /\ Ev.e \in {"hdr", "note"}
         /\ UNCHANGED <<cs, gens, src, dst, mig, opn, opt, stage>>

TNext == /\ l <= Len(Rec) /\ l' = l + 1
         /\ (TCase \/ TGen \/ TImage \/ TMig \/ TOpenStep \/ TEnd \/ TNote)
TSpec == TInit /\ [][TNext]_tvars

(* ------------------------------ the facts, named ------------------------------ *)
AtEnd == stage = "end"
Small == AtEnd /\ ~cs.large
Large == AtEnd /\ cs.large
SrcView == RecoverRO(src, gens, Keys, cs.allow)
ExpiredAt(g, t) == g # 0 /\ gens[g].exp # 0 /\ t > gens[g].exp

(* ------------------------------ verdicts ------------------------------ *)
\* a successful migration leaves at the destination exactly the newest generation of every key
\* (same key, value, timestamp, absolute expiry - expired ones included) and nothing else; the
\* real store opening that file with TTL disabled exposes exactly these generations
MigFaithful ==
  /\ (Small /\ mig.ok) =>
        /\ mig.dst_exists
        /\ Faithful(src, dst, gens, Keys, cs.allow)
        /\ opn.on /\ opn.ok /\ opn.extra = 0
        /\ \A k \in Keys : opn.kv[k] = SrcView.win[k]
        /\ opn.len = Cardinality({k \in Keys : SrcView.win[k] # 0})
        /\ mig.records = opn.len
  /\ (Large /\ mig.ok) =>
        /\ mig.dst_exists /\ mig.sum.ro_ok /\ mig.sum.equal
        /\ mig.sum.src_records = mig.sum.dst_records /\ mig.records = mig.sum.src_records
        /\ mig.sum.open_ok /\ mig.sum.open_equal
\* ... so that an expired newest generation keeps hiding the older ones: opened with TTL enabled
\* the destination exposes the winner or, when that has expired, nothing
MigNoResurrection ==
  /\ (Small /\ mig.ok /\ opt.on) =>
        /\ opt.ok /\ opt.extra = 0
        /\ \A k \in Keys : opt.kv[k] = IF ExpiredAt(SrcView.win[k], cs.now) THEN 0 ELSE SrcView.win[k]
  /\ (Large /\ mig.ok) => (mig.sum.opent_ok /\ mig.sum.opent_equal)
\* a failed migration leaves nothing: no destination (unless somebody else put one there), no
\* temporary file
\* (pre = "swaptemp": somebody renamed a foreign file over the migration's temporary name while it ran; what becomes
\* of THAT file is nobody's promise, so the temporary-file clauses do not apply - but the destination clauses do)
MigFailureClean ==
  (AtEnd /\ ~mig.ok) => /\ cs.pre # "swaptemp" => ~mig.tmp_left
                        /\ cs.pre \in {"none", "touch", "swaptemp"} => ~mig.dst_exists
\* no temporary file survives a successful migration either
MigNoLitter == (AtEnd /\ cs.pre # "swaptemp") => ~mig.tmp_left
\* the bytes of the source file are the same before and after
MigSourceUntouched == AtEnd => mig.src_same
\* a source whose file stamp changes while the migration runs (somebody touched it) makes the migration
\* fail - and a failed migration leaves nothing at the destination (MigFailureClean)
MigSourceWatched == (AtEnd /\ cs.pre = "touch") => ~mig.ok
\* a destination that exists before the publication - created before the call or while it runs -
\* makes the migration fail and is left byte-identical
MigNoOverwrite ==
  (AtEnd /\ cs.pre \in {"before", "during"}) => (~mig.ok /\ mig.dst_exists /\ mig.pre_same)
\* an ambiguous legacy marker reached by the scan makes the migration fail, unless the caller
\* opted in - then it alone does not
MigAmbiguityRule ==
  /\ (Small /\ cs.pre = "none" /\ ~cs.allow /\ AmbiguousFails(src, gens, Keys)) => ~mig.ok
  /\ (Small /\ cs.pre = "none" /\ cs.allow /\ ~cs.fault /\ AmbiguousAllowed(src, gens, Keys))
        => (mig.ok /\ (cs.api => mig.amb = SrcView.amb))
  /\ (Large /\ cs.pre = "none" /\ ~cs.allow /\ mig.sum.ro_err = "AmbiguousLegacyTombstone") => ~mig.ok
  /\ (Large /\ cs.pre = "none" /\ cs.allow /\ mig.sum.ro_amb_allowed)
        => (mig.ok /\ (cs.api => mig.amb = mig.sum.ro_amb))
\* the destination is a settled version-3 file: metadata version 3, clear journal, nothing but
\* zero blocks and record extents whose heads carry valid tokens for their sectors
MigDstIsV3 ==
  /\ (Small /\ mig.ok) => DstIsV3(dst)
  /\ (Large /\ mig.ok) => (mig.sum.dst_ver = 3 /\ mig.sum.dst_journal_clear /\ mig.sum.dst_bad_blocks = 0)
\* its metadata counters equal the live totals
MigDstMeta ==
  /\ (Small /\ mig.ok) => DstMeta(src, dst, gens, Keys, cs.allow)
  /\ (Large /\ mig.ok) => mig.sum.dst_meta_ok

(* --------------- conformance with the model (a deviation, not a verdict) --------------- *)
ErrOf(e) == IF e = "AmbiguousLegacyTombstone" THEN "AmbiguousLegacyRecovery" ELSE e
MigConforms ==
  (Small /\ ~cs.fault) =>
    LET r == SrcView
        want == IF ~r.ok THEN ErrOf(r.err)
                ELSE IF r.ver >= 3 THEN "CurrentFormat"
                ELSE IF cs.pre # "none" THEN "DestinationExists" ELSE ""
    IN /\ mig.ok = (want = "")
       /\ (~mig.ok /\ cs.api) => mig.err = want

TraceAccepted ==
  IF TLCGet("stats").diameter = Len(Rec) + 1 THEN TRUE
  ELSE Print(<<"TRACE-INCOMPLETE at event", TLCGet("stats").diameter>>, FALSE)
=============================================================================

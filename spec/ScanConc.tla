------------------------------ MODULE ScanConc ------------------------------
(***************************************************************************)
(* Fine-grained concurrent model of range scans racing with writers over   *)
(* SEVERAL keys (memory-only mode, TTL enabled): the concurrent part of    *)
(* C14, and of C11 where the racing mutation is an expiry.                 *)
(*                                                                         *)
(* Sibling of StoreConc.tla (calls on one key).  Here the two indexes of   *)
(* the store are separate state and are updated in separate steps, as in   *)
(* the code: every mutation publishes in the HASH index first and in the   *)
(* ORDERED index second, both inside the key's hash-bucket guard; the      *)
(* scheduling points `tree_insert`, `tree_publish` and `tree_remove` stand *)
(* between the two, i.e. a thread parked there HOLDS the guard (variable   *)
(* `gh`), which disables every other thread's guarded step on that key.    *)
(* A scan takes no guard: it walks the ordered index, loads a slot, stands *)
(* at `range_slot`, resolves the loaded generation (skipping it when it    *)
(* has expired), stands at `range_next`, moves to the next entry present   *)
(* at THAT moment.  `delete` removes the ordered-index entry before the    *)
(* hash entry with no scheduling point in between (one step).              *)
(*                                                                         *)
(* Used like StoreConc (lib/scanengine.py): TLC enumerates every           *)
(* interleaving of small programs, checks the design invariants below,     *)
(* prints each terminal behaviour; every behaviour is judged by            *)
(* LinTrace.tla (RangeStable, Linearizable) and replayed step by step on   *)
(* the real store (arrivals, results incl. the scan's items, published     *)
(* versions, final state of both indexes).                                 *)
(*                                                                         *)
(* Writers carry explicit timestamps: automatic ones depend on which keys  *)
(* share a version-clock shard, which is a per-instance random hash.       *)
(***************************************************************************)
EXTENDS Naturals, Integers, Sequences, FiniteSets, TLC, Json

CONSTANTS Programs,     \* <<[name, init, threads]>>: init = <<record per key>>, threads = <<ops...>>
          Now, U,       \* virtual clock, units per second
          Overhead, KLen,
          EmitOneIn,    \* print one terminal behaviour in EmitOneIn (random sample; the invariants see every state)
          SharedBuckets \* TRUE: all keys live in one hash bucket (scc buckets hold 32 entries; which keys share one
                        \* is a per-instance random hash), so ONE guard serialises the guarded steps of every key

VARIABLES prog,
          cur,          \* hash index: key -> generation id (0 = vacant)
          slot,         \* ordered index: key -> generation id its slot points at (0 = no entry)
          gens,         \* key -> <<[ts, exp, val, retAt, succ]>>
          gh,           \* key -> thread that holds the bucket guard (0 = free)
          mem, cnt,
          pc, opi, loc,
          flags, hist
vars == <<prog, cur, slot, gens, gh, mem, cnt, pc, opi, loc, flags, hist>>

NoVal == [k |-> "none", id |-> 0, len |-> 0, n |-> 0]
R(tag, n, val) == [tag |-> tag, n |-> n, val |-> val]
Err(e) == R(e, 0, NoVal)
OkBool(b) == R("bool", IF b THEN 1 ELSE 0, NoVal)
OkUnit == R("unit", 0, NoVal)

Prog == prog
NT == Len(Prog.threads)
NK == Len(Prog.init)
Keys == 1 .. NK
Op(t) == Prog.threads[t][opi[t]]
Max(a, b) == IF a > b THEN a ELSE b
ExpOf(base, ttl) == IF ttl = 0 THEN 0 ELSE base + ttl * U
NoLoc == [obs |-> 0, ts |-> 0, exp |-> 0, ck |-> 0, cg |-> 0, out |-> <<>>, dirty |-> {}, sz |-> 0]
Mutating(o) == o.op \in {"insert", "delete", "sweep"}
InCall(p) == p \notin {"start", "between_ops", "done"}

RECURSIVE RetTsOf(_, _)
RetTsOf(gs, g) == IF g = 0 THEN 0 ELSE Max(gs[g].retAt, RetTsOf(gs, gs[g].succ))
SizeOf(val) == Overhead + KLen + val.len
ExpiredG(g) == g.exp # 0 /\ Now > g.exp

S(t) == [cur |-> cur, slot |-> slot, gens |-> gens, gh |-> gh, mem |-> mem, cnt |-> cnt,
         l |-> loc[t], pc |-> pc[t], evs |-> <<>>, fl |-> {}]
Goto(s, p) == [s EXCEPT !.pc = p]
Ret(s, t, r) == [s EXCEPT !.pc = "between_ops",
                          !.evs = @ \o <<[e |-> "res", t |-> t, res |-> r, items |-> <<>>]>>]
RetList(s, t) == [s EXCEPT !.pc = "between_ops",
                           !.evs = @ \o <<[e |-> "res", t |-> t, res |-> R("list", Len(s.l.out), NoVal),
                                           items |-> s.l.out]>>]
Pub(s, t, k, ts, exp, kind) ==
  [s EXCEPT !.evs = @ \o <<[e |-> "pub", t |-> t, k |-> k, ts |-> ts, exp |-> exp, kind |-> kind]>>]
NewGen(ts, exp, val) == [ts |-> ts, exp |-> exp, val |-> val, retAt |-> 0, succ |-> 0]
\* the guard must be free (or mine) for a guarded step; a tree step needs it to be mine
GK(k) == IF SharedBuckets THEN 1 ELSE k
Take(s, t, k) == [s EXCEPT !.gh[GK(k)] = t, !.fl = @ \cup (IF s.gh[GK(k)] \notin {0, t} THEN {"guard"} ELSE {})]
Drop(s, t, k) == [s EXCEPT !.gh[GK(k)] = 0, !.fl = @ \cup (IF s.gh[GK(k)] # t THEN {"guard"} ELSE {})]

(* ---------------- hash-index halves of the mutations (inside the guard) ---------------- *)
HashReplace(s, t, k, ts, exp, val) ==
  LET c == s.cur[k]  g == Len(s.gens[k]) + 1 IN
  [Pub(s, t, k, ts, exp, 2) EXCEPT
     !.gens[k] = Append([s.gens[k] EXCEPT ![c].succ = g], NewGen(ts, exp, val)),
     !.cur[k] = g,
     !.mem = @ + SizeOf(val) - SizeOf(s.gens[k][c].val),
     !.fl = @ \cup (IF ts <= s.gens[k][c].ts THEN {"lww"} ELSE {})]
HashCreate(s, t, k, ts, exp, val) ==
  LET g == Len(s.gens[k]) + 1 IN
  [Pub(s, t, k, ts, exp, 1) EXCEPT
     !.gens[k] = Append(s.gens[k], NewGen(ts, exp, val)), !.cur[k] = g,
     !.mem = @ + SizeOf(val),
     !.fl = @ \cup (IF s.cur[k] # 0 THEN {"twocreators"} ELSE {})]

(* ------------------------------ insert ------------------------------ *)
InsLoop(s, t, k) ==
  IF s.cur[k] # 0
  THEN IF s.l.ts <= s.gens[k][s.cur[k]].ts THEN Ret(s, t, Err("OlderTimestamp"))
       ELSE Goto([s EXCEPT !.l.obs = s.cur[k]], "ins_read")
  ELSE Goto(s, "ins_create")
UpdGuard(s, t, o) ==
  LET k == o.k IN
  IF s.cur[k] # 0 THEN
       IF s.l.obs # s.cur[k] /\ s.l.ts <= RetTsOf(s.gens[k], s.l.obs) THEN Ret(s, t, Err("OlderTimestamp"))
       ELSE IF s.l.ts <= s.gens[k][s.cur[k]].ts THEN Ret(s, t, Err("OlderTimestamp"))
       ELSE Goto(Take(HashReplace(s, t, k, s.l.ts, s.l.exp, o.v), t, k), "tree_publish")
  ELSE IF s.l.ts <= RetTsOf(s.gens[k], s.l.obs) THEN Ret(s, t, Err("OlderTimestamp"))
       ELSE InsLoop(s, t, k)
InsCreate(s, t, o) ==
  LET k == o.k IN
  IF s.cur[k] = 0 THEN Goto(Take(HashCreate(s, t, k, s.l.ts, s.l.exp, o.v), t, k), "tree_insert")
  ELSE InsLoop(s, t, k)

(* ------------------------------ range scan ------------------------------ *)
Entries(s, from) == {k \in Keys : k >= from /\ s.slot[k] # 0}
FirstFrom(s, from) == IF Entries(s, from) = {} THEN 0
                      ELSE CHOOSE k \in Entries(s, from) : \A j \in Entries(s, from) : k <= j
\* the head of the scan loop with the cursor at entry c (0 = end of the index)
ScanLoop(s, t, o, c) ==
  IF c = 0 \/ Len(s.l.out) >= o.lim \/ c > o.hi THEN RetList(s, t)
  ELSE Goto([s EXCEPT !.l.ck = c, !.l.cg = s.slot[c]], "range_slot")

(* ------------------------------ the first stretch of every call ------------------------------ *)
Begin(s0, t, o) ==
  LET s == [s0 EXCEPT !.evs = @ \o <<[e |-> "inv", t |-> t, op |-> o]>>,
                      !.l = [NoLoc EXCEPT !.ts = o.ts,
                                          !.exp = IF o.op = "insert" /\ o.wttl THEN ExpOf(o.ts, o.ttl) ELSE 0,
                                          !.dirty = {Prog.threads[u][opi[u]].k : u \in {x \in 1 .. NT : x # t /\ InCall(pc[x])
                                                                                    /\ Mutating(Prog.threads[x][opi[x]])}}]]
  IN CASE o.op = "insert" -> InsLoop(s, t, o.k)
       [] o.op = "delete" -> Goto(s, "del_guard")
       [] o.op = "get" -> IF s.cur[o.k] = 0 THEN Ret(s, t, Err("KeyNotFound"))
                          ELSE Goto([s EXCEPT !.l.obs = s.cur[o.k]], "get_read")
       [] o.op = "range" -> IF o.lim = 0 THEN RetList(s, t) ELSE ScanLoop(s, t, o, FirstFrom(s, o.lo))
       [] o.op = "sweep" ->
            IF s.cur[o.k] # 0 /\ s.gens[o.k][s.cur[o.k]].exp # 0 /\ s.gens[o.k][s.cur[o.k]].exp < Now
            THEN Goto([s EXCEPT !.l.obs = s.cur[o.k]], "sweep_remove")
            ELSE Ret(s, t, R("num", 0, NoVal))

\* is the step of thread t enabled?  A step that reads or locks the hash bucket waits while another thread is
\* parked inside the guard: the guarded sections themselves, the optimistic read at the top of insert and get,
\* and the sweeper's sampling pass (which visits every bucket)
HasNext(t) == opi[t] < Len(Prog.threads[t])
NextOp(t) == Prog.threads[t][opi[t] + 1]
Free(t, k) == gh[GK(k)] \in {0, t}
Enabled(t) ==
  /\ pc[t] # "done"
  /\ IF pc[t] \in {"start", "between_ops"}
     THEN HasNext(t) => CASE NextOp(t).op \in {"insert", "get"} -> Free(t, NextOp(t).k)
                          [] NextOp(t).op = "sweep" -> \A k \in Keys : Free(t, k)
                          [] OTHER -> TRUE
     ELSE pc[t] \in {"upd_guard", "ins_create", "del_guard", "sweep_remove"} => Free(t, Op(t).k)

Do(t) ==
  LET s == S(t)  p == pc[t] IN
  IF p \in {"start", "between_ops"} THEN
       IF opi[t] < Len(Prog.threads[t]) THEN Begin(s, t, Prog.threads[t][opi[t] + 1]) ELSE Goto(s, "done")
  ELSE LET o == Op(t)  k == o.k IN
  CASE p = "ins_read" -> Goto(s, "upd_guard")
    [] p = "upd_guard" -> UpdGuard(s, t, o)
    [] p = "tree_publish" -> Goto(Drop([s EXCEPT !.slot[k] = s.cur[k],
                                                !.fl = @ \cup (IF s.slot[k] = 0 THEN {"noentry"} ELSE {})], t, k), "upd_post")
    [] p = "upd_post" -> Ret(s, t, OkBool(FALSE))
    [] p = "ins_create" -> InsCreate(s, t, o)
    [] p = "tree_insert" -> Goto(Drop([s EXCEPT !.slot[k] = s.cur[k], !.cnt = @ + 1], t, k), "ins_enq")
    [] p = "ins_enq" -> Ret(s, t, OkBool(TRUE))
    [] p = "del_guard" ->
         IF s.cur[k] = 0 THEN Ret(s, t, Err("KeyNotFound"))
         ELSE IF s.l.ts <= s.gens[k][s.cur[k]].ts THEN Ret(s, t, Err("OlderTimestamp"))
         ELSE LET c == s.cur[k] IN
              Goto([Pub(s, t, k, s.l.ts, 0, 3) EXCEPT
                      !.gens[k][c].retAt = s.l.ts, !.slot[k] = 0, !.cur[k] = 0,
                      !.mem = @ - SizeOf(s.gens[k][c].val), !.cnt = @ - 1], "del_post")
    [] p = "del_post" -> Goto(s, "del_enq")
    [] p = "del_enq" -> Ret(s, t, OkUnit)
    [] p = "get_read" ->
         IF ExpiredG(s.gens[k][s.l.obs]) THEN Ret(s, t, Err("KeyNotFound"))
         ELSE Goto(s, "get_resolved")
    [] p = "get_resolved" -> Ret(s, t, R("val", 0, s.gens[k][s.l.obs].val))
    [] p = "range_slot" ->
         LET g == s.gens[s.l.ck][s.l.cg] IN
         IF ExpiredG(g) THEN ScanLoop(s, t, o, FirstFrom(s, s.l.ck + 1))
         ELSE Goto([s EXCEPT !.l.out = Append(@, [k |-> s.l.ck, val |-> g.val])], "range_next")
    [] p = "range_next" -> ScanLoop(s, t, o, FirstFrom(s, s.l.ck + 1))
    [] p = "sweep_remove" ->
         IF s.cur[k] # 0 /\ s.cur[k] = s.l.obs /\ s.gens[k][s.cur[k]].exp # 0 /\ s.gens[k][s.cur[k]].exp < Now
         THEN Goto(Take([Pub(s, t, k, Now, 0, 4) EXCEPT !.gens[k][s.cur[k]].retAt = Now,
                                                       !.l.sz = SizeOf(s.gens[k][s.cur[k]].val)], t, k), "tree_remove")
         ELSE Ret(s, t, R("num", 0, NoVal))
    [] p = "tree_remove" -> Goto(Drop([s EXCEPT !.slot[k] = 0, !.cur[k] = 0], t, k), "sweep_post")
    [] p = "sweep_post" -> Ret([s EXCEPT !.mem = @ - s.l.sz, !.cnt = @ - 1], t, R("num", 1, NoVal))

\* keys touched by a mutating call that overlaps a scan are not "stable" for that scan
Touch(t, r) ==
  LET began == pc[t] \in {"start", "between_ops"} /\ r.pc # "done"
      o == IF began THEN Prog.threads[t][opi[t] + 1] ELSE Op(t) IN
  [u \in 1 .. NT |->
     IF u = t THEN r.l
     ELSE IF began /\ Mutating(o) /\ InCall(pc[u]) /\ Op(u).op = "range"
          THEN [loc[u] EXCEPT !.dirty = @ \cup {o.k}] ELSE loc[u]]

\* C14 stated on the model directly, at the return of a scan: ascending, inside the window, at most `lim`,
\* genuine values; a key no mutating call touched during the scan is returned iff it is live - unless the
\* limit cut the scan in front of it
ScanFlags(t, r) ==
  IF r.pc # "between_ops" \/ (pc[t] \in {"start", "between_ops"} /\ ~HasNext(t)) THEN {}
  ELSE IF (IF pc[t] \in {"start", "between_ops"} THEN NextOp(t) ELSE Op(t)).op # "range" THEN {}
  ELSE LET o == IF pc[t] \in {"start", "between_ops"} THEN NextOp(t) ELSE Op(t)  out == r.l.out
           ks == {out[i].k : i \in 1 .. Len(out)}
           last == IF Len(out) = 0 THEN 0 ELSE out[Len(out)].k
           stable == {k \in o.lo .. o.hi : k \in Keys /\ k \notin r.l.dirty}
           live(k) == r.cur[k] # 0 /\ ~ExpiredG(r.gens[k][r.cur[k]]) IN
       (IF \E i \in 1 .. Len(out) - 1 : out[i].k >= out[i + 1].k THEN {"order"} ELSE {})
       \cup (IF Len(out) > o.lim \/ \E k \in ks : k < o.lo \/ k > o.hi THEN {"window"} ELSE {})
       \cup (IF \E i \in 1 .. Len(out) : \A g \in 1 .. Len(r.gens[out[i].k]) : r.gens[out[i].k][g].val # out[i].val
             THEN {"genuine"} ELSE {})
       \cup (IF \E k \in stable : ~live(k) /\ k \in ks THEN {"phantom"} ELSE {})
       \cup (IF \E k \in stable : live(k) /\ k \notin ks /\ (Len(out) < o.lim \/ k < last) THEN {"missing"} ELSE {})

Step(t) ==
  /\ Enabled(t)
  /\ LET r == Do(t) IN
     /\ cur' = r.cur /\ slot' = r.slot /\ gens' = r.gens /\ gh' = r.gh
     /\ mem' = r.mem /\ cnt' = r.cnt
     /\ pc' = [pc EXCEPT ![t] = r.pc]
     /\ loc' = Touch(t, r)
     /\ opi' = [opi EXCEPT ![t] = IF pc[t] \in {"start", "between_ops"} /\ r.pc # "done" THEN @ + 1 ELSE @]
     /\ flags' = flags \cup r.fl \cup ScanFlags(t, r)
     /\ hist' = hist \o r.evs \o <<[e |-> "step", t |-> t, at |-> r.pc, mem |-> r.mem]>>
  /\ UNCHANGED prog

InitGens(i) == IF i.p THEN <<NewGen(i.ts, i.exp, i.val)>> ELSE <<>>
Init ==
  /\ prog \in {Programs[i] : i \in 1 .. Len(Programs)}
  /\ LET P == prog  n == Len(P.threads)  K == 1 .. Len(P.init) IN
     /\ gens = [k \in K |-> InitGens(P.init[k])]
     /\ cur = [k \in K |-> IF P.init[k].p THEN 1 ELSE 0]
     /\ slot = cur
     /\ gh = [k \in K |-> 0]
     /\ mem = LET RECURSIVE Sum(_)
                  Sum(k) == IF k = 0 THEN 0 ELSE Sum(k - 1) + (IF P.init[k].p THEN SizeOf(P.init[k].val) ELSE 0)
              IN Sum(Len(P.init))
     /\ cnt = Cardinality({k \in K : P.init[k].p})
     /\ pc = [t \in 1 .. n |-> "start"]
     /\ opi = [t \in 1 .. n |-> 0]
     /\ loc = [t \in 1 .. n |-> NoLoc]
  /\ flags = {} /\ hist = <<>>

Next == \E t \in 1 .. NT : Step(t)
Spec == Init /\ [][Next]_vars

(* ------------------------------ design invariants ------------------------------ *)
AllDone == \A t \in 1 .. NT : pc[t] = "done"
NoFlags == flags = {}
\* the ordered index differs from the hash index only on a key whose mutation stands between its two publications
TreePts == {"tree_insert", "tree_publish", "tree_remove"}
IndexAgree == \A k \in Keys : (\A t \in 1 .. NT : ~(pc[t] \in TreePts /\ Op(t).k = k)) => slot[k] = cur[k]
\* no thread is left waiting for a guard nobody will release
NoDeadlock == AllDone \/ \E t \in 1 .. NT : Enabled(t)
QuiescentExact ==
  AllDone => /\ \A k \in Keys : slot[k] = cur[k] /\ gh[k] = 0
             /\ cnt = Cardinality({k \in Keys : cur[k] # 0})
             /\ mem = LET RECURSIVE Sum(_)
                          Sum(k) == IF k = 0 THEN 0
                                    ELSE Sum(k - 1) + (IF cur[k] # 0 THEN SizeOf(gens[k][cur[k]].val) ELSE 0)
                      IN Sum(NK)
Final == [p |-> Prog.name, h |-> hist,
          fin |-> [hash |-> [k \in Keys |-> [p |-> cur[k] # 0,
                                              ts |-> IF cur[k] = 0 THEN 0 ELSE gens[k][cur[k]].ts,
                                              vlen |-> IF cur[k] = 0 THEN 0 ELSE gens[k][cur[k]].val.len]],
                   tree |-> [k \in Keys |-> slot[k] # 0], len |-> cnt, mem |-> mem]]
EmitBehaviour == AllDone => (IF EmitOneIn = 1 \/ RandomElement(1 .. EmitOneIn) = 1 THEN PrintT(ToJson(Final)) ELSE TRUE)
=============================================================================

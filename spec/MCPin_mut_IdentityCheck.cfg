SPECIFICATION Spec
CONSTANTS
  NReaders = 2
  MaxGen = 3
  Blocks = {1, 2}
  MaxTries = 2
  BitBeforeCheck = TRUE
  RecheckAtRelease = TRUE
  AcquireRefusesRetired = TRUE
  IdentityCheck = FALSE
INVARIANTS TypeOK CountExact NoOverwriteWhilePinned NoReuseWhilePinned Genuine Partition PhaseDiscipline GuardsHold
CHECK_DEADLOCK FALSE

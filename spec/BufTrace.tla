---------------------------- MODULE BufTrace ----------------------------
(* C20, write buffers handed to the kernel (io.rs InFlightBuffers).                      *)
(*                                                                                       *)
(* A buffer is owned by the kernel from the moment its submission entry is pushed to the *)
(* io_uring submission queue (with SQPOLL the kernel consumes entries without any call)  *)
(* until its completion entry has been reaped.  A push that fails is undone immediately  *)
(* ("u" directly after "q").  When a batch gives up, every buffer the kernel may still   *)
(* own must be LEAKED, never freed: a failed io_uring_enter proves nothing about what    *)
(* the kernel already picked up (Epoch.tla states the rule; this module checks recorded  *)
(* runs of the real code against it).                                                    *)
(*                                                                                       *)
(* Events (one per line): e = "q" | "u" | "c" | "d", inst, i, f                          *)
(*   q  mark_in_flight(i)     u  mark_unqueued(i)     c  completion of i reaped          *)
(*   d  the batch drops buffer i: f = 1 leaked, f = 0 freed                              *)
(*   f  the allocation the queued write of i points into was deallocated                 *)
EXTENDS Naturals, Sequences, FiniteSets, TLC, Json, IOUtils

Rec == ndJsonDeserialize(IOEnv.TRACE)

VARIABLES l, kernel, leaked, lastq, flags
vars == <<l, kernel, leaked, lastq, flags>>

Ev == Rec[l]
Id(e) == <<e.inst, e.i>>

TInit == l = 1 /\ kernel = {} /\ leaked = {} /\ lastq = <<0, 0>> /\ flags = {}

TNext ==
  /\ l <= Len(Rec) /\ l' = l + 1
  /\ leaked' = IF Ev.e = "d" /\ Ev.f = 1 /\ Id(Ev) \in kernel THEN leaked \cup {Id(Ev)} ELSE leaked
  /\ CASE Ev.e = "q" -> kernel' = kernel \cup {Id(Ev)} /\ lastq' = Id(Ev) /\ flags' = {}
       [] Ev.e = "u" -> \* only the push that has just failed may be undone
                        /\ kernel' = IF lastq = Id(Ev) THEN kernel \ {Id(Ev)} ELSE kernel
                        /\ lastq' = <<0, 0>> /\ flags' = {}
       [] Ev.e = "c" -> kernel' = kernel \ {Id(Ev)} /\ lastq' = <<0, 0>> /\ flags' = {}
       [] Ev.e = "d" -> /\ kernel' = kernel \ {Id(Ev)} /\ lastq' = <<0, 0>>
                        /\ flags' = IF Ev.f = 0 /\ Id(Ev) \in kernel THEN {"freed"} ELSE {}
       \* "f": the memory the queued write points into was returned to the allocator (deallocation log
       \* of the harness): never while the kernel may own the buffer, and never after it was "leaked"
       \* for that very reason - leaking a borrowed slice keeps nothing alive
       [] Ev.e = "f" -> /\ UNCHANGED <<kernel, lastq>>
                        /\ flags' = IF Id(Ev) \in (kernel \cup leaked) THEN {"freed"} ELSE {}
       [] OTHER -> UNCHANGED <<kernel, lastq, flags>>

TSpec == TInit /\ [][TNext]_vars

\* no buffer the kernel may still be writing from is ever freed
NoFreeInFlight == "freed" \notin flags

TraceAccepted ==
  IF TLCGet("stats").diameter = Len(Rec) + 1 THEN TRUE
  ELSE Print(<<"TRACE-INCOMPLETE at event", TLCGet("stats").diameter>>, FALSE)
=============================================================================

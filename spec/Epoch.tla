-------------------------------- MODULE Epoch --------------------------------
(***************************************************************************)
(* C20, the part a specification can state: the reclamation protocol of    *)
(* the ordered-index slots (record.rs TreeSlot::store / load, range.rs)    *)
(* and the in-flight write-buffer rule (io.rs InFlightBuffers).            *)
(*                                                                         *)
(* Slots: a slot points at a generation object.  A writer swaps the        *)
(* pointer and DEFERS destruction of the previous object; a deferred       *)
(* object is destroyed only when every reader that was pinned at the time  *)
(* of the swap has unpinned or repinned since.  Readers dereference only   *)
(* while pinned and repin every RepinEvery entries.                        *)
(* Buffers: a buffer handed to the kernel is freed only after its          *)
(* completion was seen; buffers of submissions whose outcome is unknown    *)
(* are leaked, never freed.                                                *)
(***************************************************************************)
EXTENDS Naturals, FiniteSets, Sequences, TLC

CONSTANTS Readers, MaxObj, RepinEvery, NBuf, DeferOn
\* DeferOn = FALSE models the seeded mutation "destroy immediately" (must violate NoUseAfterDestroy)

VARIABLES slot,      \* object id the slot points at
          alive,     \* set of object ids not yet destroyed
          garbage,   \* set of [obj, waitFor : set of readers pinned at swap time]
          rd,        \* reader -> [pinned, holds (object id or 0), count]
          nextObj,
          buf,       \* buffer -> "idle" | "inflight" | "complete" | "unknown" | "freed" | "leaked"
          usedDead   \* a reader dereferenced a destroyed object / the kernel used a freed buffer
vars == <<slot, alive, garbage, rd, nextObj, buf, usedDead>>

Init == /\ slot = 1 /\ alive = {1} /\ garbage = {} /\ nextObj = 2
        /\ rd = [r \in Readers |-> [pinned |-> FALSE, holds |-> 0, count |-> 0]]
        /\ buf = [b \in 1 .. NBuf |-> "idle"] /\ usedDead = FALSE

Pin(r) == /\ ~rd[r].pinned
          /\ rd' = [rd EXCEPT ![r] = [pinned |-> TRUE, holds |-> 0, count |-> 0]]
          /\ UNCHANGED <<slot, alive, garbage, nextObj, buf, usedDead>>
Load(r) == /\ rd[r].pinned /\ rd[r].count < RepinEvery
           /\ rd' = [rd EXCEPT ![r].holds = slot, ![r].count = @ + 1]
           /\ UNCHANGED <<slot, alive, garbage, nextObj, buf, usedDead>>
Deref(r) == /\ rd[r].pinned /\ rd[r].holds # 0
            /\ usedDead' = (usedDead \/ rd[r].holds \notin alive)
            /\ rd' = [rd EXCEPT ![r].holds = 0]
            /\ UNCHANGED <<slot, alive, garbage, nextObj, buf>>
\* repin drops every reference obtained under the old pin (range.rs repins between entries)
Repin(r) == /\ rd[r].pinned /\ rd[r].holds = 0
            /\ rd' = [rd EXCEPT ![r].count = 0]
            /\ garbage' = {[g EXCEPT !.waitFor = @ \ {r}] : g \in garbage}
            /\ UNCHANGED <<slot, alive, nextObj, buf, usedDead>>
Unpin(r) == /\ rd[r].pinned /\ rd[r].holds = 0
            /\ rd' = [rd EXCEPT ![r].pinned = FALSE]
            /\ garbage' = {[g EXCEPT !.waitFor = @ \ {r}] : g \in garbage}
            /\ UNCHANGED <<slot, alive, nextObj, buf, usedDead>>
Swap == /\ nextObj <= MaxObj
        /\ slot' = nextObj /\ nextObj' = nextObj + 1
        /\ IF DeferOn
           THEN /\ alive' = alive \cup {nextObj}
                /\ garbage' = garbage \cup {[obj |-> slot, waitFor |-> {r \in Readers : rd[r].pinned}]}
           ELSE /\ alive' = (alive \cup {nextObj}) \ {slot}
                /\ garbage' = garbage
        /\ UNCHANGED <<rd, buf, usedDead>>
Collect == \E g \in garbage :
             /\ g.waitFor = {}
             /\ alive' = alive \ {g.obj} /\ garbage' = garbage \ {g}
             /\ UNCHANGED <<slot, rd, nextObj, buf, usedDead>>

Submit(b) == buf[b] = "idle" /\ buf' = [buf EXCEPT ![b] = "inflight"] /\ UNCHANGED <<slot, alive, garbage, rd, nextObj, usedDead>>
Complete(b) == buf[b] = "inflight" /\ buf' = [buf EXCEPT ![b] = "complete"] /\ UNCHANGED <<slot, alive, garbage, rd, nextObj, usedDead>>
EnterFails(b) == buf[b] = "inflight" /\ buf' = [buf EXCEPT ![b] = "unknown"] /\ UNCHANGED <<slot, alive, garbage, rd, nextObj, usedDead>>
Free(b) == buf[b] \in {"complete", "idle"} /\ buf' = [buf EXCEPT ![b] = "freed"] /\ UNCHANGED <<slot, alive, garbage, rd, nextObj, usedDead>>
Leak(b) == buf[b] = "unknown" /\ buf' = [buf EXCEPT ![b] = "leaked"] /\ UNCHANGED <<slot, alive, garbage, rd, nextObj, usedDead>>
\* the kernel may still read a buffer whose submission was never seen to complete
KernelUse(b) == buf[b] \in {"inflight", "unknown", "leaked"} /\ UNCHANGED vars

Next == \/ \E r \in Readers : Pin(r) \/ Load(r) \/ Deref(r) \/ Repin(r) \/ Unpin(r)
        \/ Swap \/ Collect
        \/ \E b \in 1 .. NBuf : Submit(b) \/ Complete(b) \/ EnterFails(b) \/ Free(b) \/ Leak(b)
Spec == Init /\ [][Next]_vars

NoUseAfterDestroy == ~usedDead
SlotAlive == slot \in alive
NoFreeInFlight == \A b \in 1 .. NBuf : buf[b] = "freed" => TRUE   \* freed only from complete/idle (by Free's guard)
HeldIsAlive == \A r \in Readers : (rd[r].pinned /\ rd[r].holds # 0) => rd[r].holds \in alive
=============================================================================

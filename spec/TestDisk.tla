------------------------------ MODULE TestDisk ------------------------------
(***************************************************************************)
(* Unit tests of Disk.tla (documented-layout reader, crash images, torn    *)
(* units) on hand-built images: every branch of Scan / Recover /           *)
(* JournalPick / MetaPick / ApplyUnits(T) is evaluated at least once.      *)
(* Run: tlc -config TestDisk.cfg TestDisk.tla  (all checks are ASSUMEs;    *)
(* a failing one is reported as "Assumption ... is false").                *)
(***************************************************************************)
EXTENDS Disk

Keys == 1 .. 2
\* generations: 1, 2 -> key 1 (2 newer, expires at 5); 3 -> key 2; 4 -> key 1 with the timestamp of 2
G == <<[k |-> 1, ts |-> 1, exp |-> 0, n |-> 1], [k |-> 1, ts |-> 2, exp |-> 5, n |-> 2],
       [k |-> 2, ts |-> 1, exp |-> 0, n |-> 1], [k |-> 1, ts |-> 2, exp |-> 0, n |-> 1]>>
Meta(v) == [c \in 0 .. 1 |-> Mt(1, v, 0, 0)]
Img(bs, j, m) == [blk |-> [b \in Blocks |-> IF b - DS + 1 <= Len(bs) THEN bs[b - DS + 1] ELSE Z], j |-> j, m |-> m]
JNone == [s \in 0 .. 1 |-> JZ]
V3(bs) == Img(bs, JNone, Meta(3))
V2(bs) == Img(bs, JNone, Meta(2))
R(img) == Recover(img, G, Keys, 0, FALSE, FALSE)
Rt(img, now) == Recover(img, G, Keys, now, TRUE, FALSE)
Ra(img) == Recover(img, G, Keys, 0, FALSE, TRUE)
Err(r, e) == ~r.ok /\ r.err = e

\* DS = 16, DE = 22
ASSUME DS = 16 /\ DE = 22

\* fresh device
ASSUME LET r == R(EmptyImage) IN r.ok /\ r.fresh /\ r.win = <<0, 0>>
\* plain records, loser in both orders, tie: later position wins
ASSUME LET r == R(V3(<<H(1, 1), H(2, 2), T(2, 1, ""), H(3, 1)>>)) IN
       r.ok /\ ~r.fresh /\ r.win = <<2, 3>> /\ r.losers = {<<16, 1>>} /\ r.winAt[1].at = 17 /\ r.repairs = {} /\ r.ghosts = {}
ASSUME LET r == R(V3(<<H(2, 2), T(2, 1, ""), H(1, 1)>>)) IN r.ok /\ r.win = <<2, 0>> /\ r.losers = {<<18, 1>>}
ASSUME LET r == R(V3(<<H(2, 2), T(2, 1, ""), H(4, 1)>>)) IN r.ok /\ r.win = <<4, 0>> /\ r.losers = {<<16, 2>>}
ASSUME LET r == R(V3(<<H(4, 1), H(2, 2), T(2, 1, "")>>)) IN r.ok /\ r.win = <<2, 0>> /\ r.losers = {<<16, 1>>}
\* expiry: strictly after the stamp, only with TTL enabled; win keeps the generation
ASSUME LET r == Rt(V3(<<H(2, 2), T(2, 1, "")>>), 5) IN r.ok /\ r.kv = <<2, 0>>
ASSUME LET r == Rt(V3(<<H(2, 2), T(2, 1, "")>>), 6) IN r.ok /\ r.kv = <<0, 0>> /\ r.win = <<2, 0>>
ASSUME LET r == Recover(V3(<<H(2, 2), T(2, 1, "")>>), G, Keys, 6, FALSE, FALSE) IN r.kv = <<2, 0>>
\* v3: missing / foreign continuation, extent past the device, torn head are fatal
ASSUME Err(R(V3(<<H(2, 2), Z>>)), "CorruptedRecord")
ASSUME Err(R(V3(<<H(2, 2), T(3, 1, "")>>)), "CorruptedRecord")
ASSUME Err(R(V3(<<Z, Z, Z, Z, Z, H(2, 2)>>)), "CorruptedRecord")
ASSUME Err(R(V3(<<Xh>>)), "CorruptedRecord")
\* v1/v2: no content binding, invalid heads are skipped
ASSUME LET r == R(V2(<<H(2, 2), Z, Xh, H(3, 1)>>)) IN r.ok /\ r.win = <<2, 3>> /\ r.ver = 2
ASSUME LET r == R(V2(<<Z, Z, Z, Z, Z, H(2, 2)>>)) IN r.ok /\ r.win = <<0, 0>>
\* markers: complete run, pending run, incomplete run, bad length, bad token
ASSUME LET r == R(V3(<<M(2, 1), M(1, 1), H(1, 1)>>)) IN r.ok /\ r.win = <<1, 0>> /\ r.repairs = {}
ASSUME LET r == R(V3(<<M(2, 0), M(1, 0), H(1, 1)>>)) IN r.ok /\ r.win = <<1, 0>> /\ r.repairs = {<<16, 2>>}
ASSUME LET r == R(V3(<<M(2, 1), H(1, 1), H(3, 1)>>)) IN r.ok /\ r.win = <<0, 3>> /\ r.repairs = {<<16, 2>>}
ASSUME Err(R(V3(<<Z, Z, Z, Z, Z, M(2, 1)>>)), "CorruptedRecord")
ASSUME Err(R(V3(<<M(0, 1)>>)), "CorruptedRecord")
ASSUME Err(R(V3(<<Xm>>)), "CorruptedRecord")
\* legacy all-zero marker
ASSUME Err(R(V3(<<LM>>)), "CorruptedRecord")
ASSUME Err(R(V2(<<LM, H(1, 1)>>)), "AmbiguousLegacyTombstone")
ASSUME LET r == Ra(V2(<<LM, H(1, 1)>>)) IN r.ok /\ r.win = <<1, 0>>
\* orphan continuations: opaque, ghost record, ghost marker, ghost junk
ASSUME LET r == R(V3(<<T(2, 1, ""), H(1, 1)>>)) IN r.ok /\ r.win = <<1, 0>> /\ r.ghosts = {}
ASSUME LET r == R(V3(<<T(2, 1, "H"), H(1, 1)>>)) IN r.ok /\ r.ghosts = {16} /\ r.win = <<1, 0>>
ASSUME LET r == R(V3(<<T(2, 1, "M"), H(1, 1)>>)) IN r.ok /\ r.ghosts = {} /\ r.repairs = {} /\ r.win = <<1, 0>>
ASSUME Err(R(V3(<<T(2, 1, "Xh")>>)), "CorruptedRecord")
ASSUME Err(R(V3(<<T(2, 1, "Xm")>>)), "CorruptedRecord")
\* a ghost inside a complete extent is never looked at
ASSUME LET r == R(V3(<<H(2, 2), T(2, 1, "H"), X>>)) IN r.ok /\ r.ghosts = {} /\ r.win = <<2, 0>>
\* metadata
ASSUME Err(R(Img(<<H(1, 1)>>, JNone, [c \in 0 .. 1 |-> MZ])), "InvalidMetadata")
ASSUME Err(R(Img(<<H(1, 1)>>, JNone, [c \in 0 .. 1 |-> MBad])), "InvalidMetadata")
ASSUME Err(R(Img(<<>>, [s \in 0 .. 1 |-> IF s = 0 THEN J(1, TRUE, <<<<16, 1>>>>) ELSE JZ], [c \in 0 .. 1 |-> MZ])), "InvalidMetadata")
ASSUME R(Img(<<H(1, 1)>>, JNone, [c \in 0 .. 1 |-> IF c = 0 THEN MBad ELSE Mt(1, 3, 0, 0)])).ok
ASSUME MetaPick([c \in 0 .. 1 |-> Mt(2 + c, 3, c, 0)]).recs = 1
ASSUME MetaPick([c \in 0 .. 1 |-> Mt(2, 3, c, 0)]).recs = 0
ASSUME MetaPick([c \in 0 .. 1 |-> Mt(3 - c, 3, c, 0)]).recs = 0
\* journal: newest valid slot, ties -> slot 1, torn + zero -> empty, torn + torn -> error, replay
ASSUME JournalPick([s \in 0 .. 1 |-> J(5 + s, s = 1, <<>>)]).active
ASSUME JournalPick([s \in 0 .. 1 |-> J(5 - s, s = 1, <<>>)]).active = FALSE
ASSUME JournalPick([s \in 0 .. 1 |-> J(5, s = 1, <<>>)]).active
ASSUME JournalPick([s \in 0 .. 1 |-> IF s = 0 THEN JBad ELSE JZ]) = JZ
ASSUME JournalPick([s \in 0 .. 1 |-> IF s = 0 THEN JBad ELSE J(1, TRUE, <<>>)]).active
ASSUME Err(R(Img(<<H(1, 1)>>, [s \in 0 .. 1 |-> JBad], Meta(3))), "CorruptedRecord")
ASSUME LET r == R(Img(<<H(2, 2), X, H(1, 1), H(3, 1)>>,
                      [s \in 0 .. 1 |-> IF s = 1 THEN J(2, TRUE, <<<<16, 2>>, <<19, 1>>>>) ELSE J(1, FALSE, <<>>)], Meta(3)))
       IN r.ok /\ r.win = <<1, 0>> /\ r.losers = {} /\ r.repairs = {}
\* adjacent journaled extents are retired as one run
ASSUME ApplyRetire([b \in Blocks |-> Z], <<<<17, 1>>, <<18, 2>>>>) =
       [b \in Blocks |-> IF b \in 17 .. 19 THEN M(20 - b, 1) ELSE Z]
\* crash images: units, subsets, torn units
P == <<[kind |-> "d", at |-> 16, c |-> <<H(2, 2), T(2, 1, "")>>],
       [kind |-> "j", slot |-> 0, v |-> J(1, FALSE, <<>>)],
       [kind |-> "m", copy |-> 1, v |-> Mt(2, 3, 1, 0)],
       [kind |-> "d", at |-> 17, c |-> <<M(1, 1)>>]>>
ASSUME Units(P) = {<<1, 0>>, <<1, 1>>, <<2, 0>>, <<3, 0>>, <<4, 0>>}
ASSUME Units(<<>>) = {}
ASSUME ApplyUnits(V3(<<>>), P, {}, 1) = V3(<<>>)
ASSUME LET i == ApplyAll(V3(<<>>), P) IN
       i.blk[16] = H(2, 2) /\ i.blk[17] = M(1, 1) /\ i.j[0] = J(1, FALSE, <<>>) /\ i.m[1].gen = 2 /\ i.m[0].gen = 1
ASSUME \A base \in {V3(<<>>), V3(<<H(1, 1), H(3, 1), X>>), EmptyImage} :
         \A n \in 0 .. Len(P) : ApplyAll(base, SubSeq(P, 1, n)) = ApplyUnits(base, SubSeq(P, 1, n), Units(SubSeq(P, 1, n)), 1)
ASSUME LET i == ApplyUnits(V3(<<>>), P, {<<1, 1>>, <<3, 0>>}, 1) IN
       i.blk[16] = Z /\ i.blk[17] = T(2, 1, "") /\ i.j[0] = JZ /\ MetaPick(i.m).recs = 1
ASSUME Cardinality(CrashImagesOf(V3(<<>>), P, SUBSET Units(P))) = 24     \* unit <<1,1>> is masked by <<4,0>>
ASSUME \A S \in SUBSET Units(P) : ApplyUnitsT(V3(<<>>), P, S, {}, 1) = ApplyUnits(V3(<<>>), P, S, 1)
ASSUME LET i == ApplyUnitsT(V3(<<>>), P, Units(P), {<<1, 0>>, <<2, 0>>, <<3, 0>>, <<4, 0>>}, 1) IN
       i.blk[16] = Xh            \* torn head
       /\ i.blk[17] = T(2, 1, "")  \* torn marker over a non-head: the old block
       /\ i.j[0] = JBad /\ i.m[1].gen = 2
ASSUME ApplyUnitsT(V3(<<H(1, 1), H(3, 1)>>), P, {<<1, 1>>, <<4, 0>>}, {<<1, 1>>}, 1).blk[17] = M(1, 1)
ASSUME ApplyUnitsT(V3(<<H(1, 1), H(3, 1)>>), P, {<<1, 1>>}, {<<1, 1>>}, 1).blk[17] = Xh     \* torn over an old head
ASSUME ApplyUnitsT(V3(<<Z, X>>), P, {<<1, 1>>}, {<<1, 1>>}, 1).blk[17] = X
ASSUME PrintT("TestDisk: all assumptions evaluated")
=============================================================================

---- MODULE U64 ----
\* unsigned 64-bit values as <<l2, l1, l0>>, base 10^9 (TLC integers are 32-bit)
EXTENDS Naturals, Sequences
B == 1000000000
MAXU == <<18, 446744073, 709551615>>
ZERO == <<0, 0, 0>>
Lt(a, b) == a[1] < b[1] \/ (a[1] = b[1] /\ (a[2] < b[2] \/ (a[2] = b[2] /\ a[3] < b[3])))
Le(a, b) == a = b \/ Lt(a, b)
Max(a, b) == IF Lt(a, b) THEN b ELSE a
Sat(x) == IF Lt(MAXU, x) THEN MAXU ELSE x
Add(a, b) == LET s0 == a[3] + b[3]  s1 == a[2] + b[2] + (s0 \div B)  s2 == a[1] + b[1] + (s1 \div B)
             IN Sat(<<s2, s1 % B, s0 % B>>)
Succ(a) == Add(a, <<0, 0, 1>>)
MulE9(a) == IF a[1] # 0 THEN MAXU ELSE Sat(<<a[2], a[3], 0>>)          \* a * 10^9, saturating
Sub(a, b) == \* a - b for b <= a
  LET d0 == a[3] - b[3] + (IF a[3] < b[3] THEN B ELSE 0)  br0 == IF a[3] < b[3] THEN 1 ELSE 0
      x1 == b[2] + br0
      d1 == a[2] - x1 + (IF a[2] < x1 THEN B ELSE 0)      br1 == IF a[2] < x1 THEN 1 ELSE 0
  IN <<a[1] - b[1] - br1, d1, d0>>
DivE9(a) == <<0, a[1], a[2]>>                                           \* floor(a / 10^9)
AddTtl(base, ttlSeconds) == IF ttlSeconds = ZERO THEN ZERO ELSE Add(base, MulE9(ttlSeconds))
====

----------------------------- MODULE TraceCoord -----------------------------
(* Validates recorded executions of the real write-behind handshake (fxv coord: several shards, workers and
   client threads, flushes, outages of record writes, a pinned reader, bursts beyond one journal batch and beyond
   the 16 MiB buffer, a clean close) against Coord.tla.

   The STATE is Coord's (shard queues, workers' hands, done, retirement queue, retired, callers); every event
   is applied as a FACT (R6: where an entry really went, how many entries a drain really took), and the verdict
   comes from Coord's own property formulas evaluated on the rebuilt states -
       Conservation   an accepted entry is in exactly one place; an entry that a worker drained and neither
                      wrote, skipped (already written / dropped generation) nor put back is in NO place
       QueueSorted    what goes back goes back in FRONT, in order
       AckCoversAll   flush() = Ok: every write queued before it began is written, every retirement done
       CloseCovers    after a clean close nothing is left (unless the final flush gave up and said so)
   - plus four formulas about the facts themselves (flags):
       "drain"    drain_entries took fewer / more entries than the shard held         (C19, C02)
       "requeue"  the shard's length after a requeue is not what was put back          (C09)
       "tick"     the coordinator saw "nothing pending" for a worker that owns a shard which has been
                  non-empty since before its previous tick                              (C19)
       "done"     a worker answers Ok(false) while an entry queued before its request is still in one of its shards (C02)
       "pinret"   a retirement is decided (marker write) while a reader's pin on that generation is open   (C08)
       "round"    the coordinator's ticks do not cycle through all workers (a wake loop that ends early)  (C19)
       "lag"      six coordinator periods after the last call something is still queued, in a hand, or
                  waiting for retirement with no reader pinned; or the coordinator did not tick (C19)

   Events (one JSON object per line, produced by lib/coordengine.py from the raw hook log by RENAMING only:
   shard addresses -> indices by rank, (key, timestamp, op) -> entry ids in enqueue order, thread ids -> callers):
     init{ns,nw,nent,ncallers}  enq{id,s,k}  drain{w,s,n}  pub{w,id}  skip{w,id}  requeue{w,s,ids}  requeue_done{s,len}
     wreq{w}  wdone{w}  tick{w,pending,ret}  ret{id}  flush_begin{c}  flush_end{c,ok}  flush_ret{c}
     settled{ticks,pinned}  closed{failed}                                                                        *)
EXTENDS Coord, Json, IOUtils

VARIABLES l, flags, age, lost, reqmark, lastTick

Rec == ndJsonDeserialize(IOEnv.TRACE)
Ev  == Rec[l]
tvars == <<vars, l, flags, age, lost, reqmark, lastTick>>

TNS == Rec[1].ns
TNW == Rec[1].nw
TMaxEnt == Rec[1].nent
TNCallers == Rec[1].ncallers

TInit == Init /\ l = 2 /\ flags = {} /\ age = [s \in Shards |-> 0] /\ lost = {} /\ reqmark = [w \in Workers |-> 1] /\ lastTick = NW - 1

Without(seq, S) == SelectSeq(seq, LAMBDA x : x \notin S)
SeqSet(seq) == {seq[i] : i \in DOMAIN seq}
MinN(a, b) == IF a < b THEN a ELSE b

Keep == UNCHANGED <<chan, relcnt, resp, pinned, budget, shutdown>>

TEnq ==
  /\ Ev.e = "enq"
  /\ kind' = [kind EXCEPT ![Ev.id] = Ev.k] /\ sh' = [sh EXCEPT ![Ev.id] = Ev.s]
  /\ q' = [q EXCEPT ![Ev.s] = Append(@, Ev.id)] /\ nxt' = Ev.id + 1
  /\ flags' = {} /\ UNCHANGED <<hand, done, retq, retired, wk, ff, age>>

\* D entries of a drained batch are handed to the retirement queue before anything else happens to the batch
TDrain ==
  /\ Ev.e = "drain"
  /\ LET n == MinN(Ev.n, Len(q[Ev.s]))
         taken == SubSeq(q[Ev.s], 1, n) IN
       /\ hand' = [hand EXCEPT ![Ev.w] = @ \o SelectSeq(taken, IsW)]
       /\ retq' = retq \cup {x \in SeqSet(taken) : IsD(x)}
       /\ q' = [q EXCEPT ![Ev.s] = SubSeq(@, n + 1, Len(@))]
  /\ flags' = IF Ev.n # Len(q[Ev.s]) THEN {"drain"} ELSE {}
  /\ age' = [age EXCEPT ![Ev.s] = 0]
  /\ UNCHANGED <<nxt, kind, sh, done, retired, wk, ff>>

TPub ==
  /\ Ev.e \in {"pub", "skip"}
  /\ hand' = [hand EXCEPT ![Ev.w] = Without(@, {Ev.id})]
  /\ done' = done \cup {Ev.id}
  /\ flags' = {} /\ UNCHANGED <<nxt, kind, sh, q, retq, retired, wk, ff, age>>

TRequeue ==
  /\ Ev.e = "requeue"
  /\ LET ids == SeqSet(Ev.ids) IN
       /\ hand' = [hand EXCEPT ![Ev.w] = Without(@, ids)]
       /\ retq' = retq \ ids                        \* a D entry of a failed batch is put back as well
       /\ q' = [q EXCEPT ![Ev.s] = Ev.ids \o @]
  /\ flags' = {} /\ UNCHANGED <<nxt, kind, sh, done, retired, wk, ff, age>>

TRequeueDone ==
  /\ Ev.e = "requeue_done"
  /\ flags' = IF Ev.len # Len(q[Ev.s]) THEN {"requeue"} ELSE {}
  /\ UNCHANGED <<nxt, kind, sh, q, hand, done, retq, retired, wk, ff, age>>

TWReq == /\ Ev.e = "wreq" /\ wk' = [wk EXCEPT ![Ev.w].pc = "shard"] /\ flags' = {}
         /\ reqmark' = [reqmark EXCEPT ![Ev.w] = nxt]
         /\ UNCHANGED <<nxt, kind, sh, q, hand, done, retq, retired, ff, age>>
\* the worker has finished its pass: what is still in its hand went nowhere
TWDone == /\ Ev.e = "wdone" /\ wk' = [wk EXCEPT ![Ev.w].pc = "recv"] /\ hand' = [hand EXCEPT ![Ev.w] = <<>>]
          /\ lost' = lost \cup SeqSet(hand[Ev.w])
          \* Coord's WAfter: the answer Ok(false) ("nothing left, do not ask again") is given only by a pass that put
          \* nothing back: no entry queued before the request is still in a shard of this worker
          /\ flags' = IF Ev.ok = 1 /\ Ev.again = 0 /\ \E s \in Owned(Ev.w) : \E i \in DOMAIN q[s] : q[s][i] < reqmark[Ev.w]
                      THEN {"done"} ELSE {}
          /\ UNCHANGED <<nxt, kind, sh, q, done, retq, retired, ff, age>>

\* Coord's RP: a retirement pass leaves what a reader pins in the queue - a marker write decided (`pinned` = 1: a reader's
\* pin interval on that very generation contains the decision) is the violation
TRet == /\ Ev.e = "ret" /\ retq' = retq \ {Ev.id} /\ retired' = retired \cup {Ev.id}
        /\ flags' = IF Ev.pinned = 1 THEN {"pinret"} ELSE {}
        /\ UNCHANGED <<nxt, kind, sh, q, hand, done, wk, ff, age>>

TTick ==
  /\ Ev.e = "tick"
  \* Coord's Tick looks at EVERY worker in turn, whatever it found for the earlier ones (TickWhenRet): the recorded ticks
  \* cycle through 0 .. NW-1
  /\ flags' = (IF Ev.pending = 0 /\ \E s \in Owned(Ev.w) : q[s] # <<>> /\ age[s] >= 1 THEN {"tick"} ELSE {})
              \cup (IF Ev.w # (lastTick + 1) % NW THEN {"round"} ELSE {})
  /\ lastTick' = Ev.w
  /\ age' = [s \in Shards |-> IF s \in Owned(Ev.w) THEN (IF q[s] # <<>> THEN MinN(age[s] + 1, 3) ELSE 0) ELSE age[s]]
  /\ UNCHANGED <<nxt, kind, sh, q, hand, done, retq, retired, wk, ff>>

TFlushBegin == /\ Ev.e = "flush_begin"
               /\ ff' = [ff EXCEPT ![Ev.c] = [pc |-> "wait", pw |-> {}, tosend |-> {}, snap |-> Issued]]
               /\ flags' = {} /\ UNCHANGED <<nxt, kind, sh, q, hand, done, retq, retired, wk, age>>
TFlushEnd   == /\ Ev.e = "flush_end"
               /\ ff' = [ff EXCEPT ![Ev.c].pc = IF Ev.ok = 1 THEN "ret_ok" ELSE "ret_err"]
               /\ flags' = {} /\ UNCHANGED <<nxt, kind, sh, q, hand, done, retq, retired, wk, age>>
TFlushRet   == /\ Ev.e = "flush_ret" /\ ff' = [ff EXCEPT ![Ev.c] = IdleFF]
               /\ flags' = {} /\ UNCHANGED <<nxt, kind, sh, q, hand, done, retq, retired, wk, age>>

Busy == (\E s \in Shards : q[s] # <<>>) \/ (\E w \in Workers : hand[w] # <<>>)
TSettled ==
  /\ Ev.e = "settled"
  /\ flags' = IF Busy \/ (Ev.pinned = 0 /\ retq # {}) \/ Ev.ticks < 3 THEN {"lag"} ELSE {}
  /\ UNCHANGED <<nxt, kind, sh, q, hand, done, retq, retired, wk, ff, age>>

TClosed ==
  /\ Ev.e = "closed"
  /\ wk' = [w \in Workers |-> [wk[w] EXCEPT !.pc = "exited", !.failed = (Ev.failed = 1)]]
  /\ flags' = {} /\ UNCHANGED <<nxt, kind, sh, q, hand, done, retq, retired, ff, age>>

TNext ==
  /\ l <= Len(Rec) /\ l' = l + 1 /\ Keep
  /\ (Ev.e # "wdone" => lost' = lost)
  /\ (Ev.e # "wreq" => reqmark' = reqmark)
  /\ (Ev.e # "tick" => lastTick' = lastTick)
  /\ \/ TEnq \/ TDrain \/ TPub \/ TRequeue \/ TRequeueDone \/ TWReq \/ TWDone \/ TRet \/ TTick
     \/ TFlushBegin \/ TFlushEnd \/ TFlushRet \/ TSettled \/ TClosed

TSpec == TInit /\ [][TNext]_tvars

\* Conservation is Coord's formula (quadratic in the number of entries: evaluated on traces of up to 400 entries);
\* NothingLost is the same statement about the only step at which an entry can leave every place
ConservationT == nxt > 400 \/ Conservation
NothingLost   == lost = {}
NoFlags == flags = {}
DrainAll    == "drain" \notin flags
RequeueKept == "requeue" \notin flags
TickHonest  == flags \cap {"tick", "round"} = {}
NoLag       == "lag" \notin flags
RetireRespectsPins == "pinret" \notin flags
DoneMeansDone == "done" \notin flags

TraceAccepted ==
  IF TLCGet("stats").diameter = Len(Rec) THEN TRUE
  ELSE Print(<<"TRACE-REJECTED at event", TLCGet("stats").diameter + 1>>, FALSE)
=============================================================================

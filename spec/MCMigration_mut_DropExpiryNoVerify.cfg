\* seeded fault "DropExpiryNoVerify" of the migration model: TLC must report a violation of MigrationFaithful
CONSTANTS DS = 16  DE = 24  Mut = "DropExpiryNoVerify"  MaxFill = 1
SPECIFICATION Spec
INVARIANTS MigrationFaithful
CHECK_DEADLOCK FALSE

\* the code at the pinned commit (one sector-sorted list) with journal capacity 1; EXPECTED: ImagesAgree violated (DESIGN section 9 item 2)
\* run: tlc -workers 8 -deadlock -noGenerateSpecTE -config MCRecovery_code.cfg MCRecovery.tla   (inside /verif/spec, private -metadir)
CONSTANTS
  DS = 16  DE = 20
  JMax = 1  MaxCrashes = 2  OrderFix = FALSE  Tears = 0
  Sizes = {1, 2}  Now = 2  Exp = 1  WithJournal = TRUE  WithMarker = TRUE
SPECIFICATION Spec
INVARIANTS TypeOK NeverFails RepairsTouchNoLiveBlock RecoveryIdempotent ImagesAgree
CHECK_DEADLOCK FALSE

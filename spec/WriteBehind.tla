---------------------------- MODULE WriteBehind ----------------------------
(***************************************************************************)
(* Write-behind path of the store (write_buffer.rs, io.rs, persistence.rs) *)
(* over the abstract device of Disk.tla: one shard, one worker.            *)
(*                                                                         *)
(*   Put/Del            publish a generation and enqueue W / D entries     *)
(*   worker cycle       drain -> alloc (best fit; OutOfSpace => requeue)   *)
(*                      -> journal intent -> fsync -> data -> fsync        *)
(*                      -> journal clear -> fsync -> publish               *)
(*                      -> retirement: classify (successor test) -> per    *)
(*                         chunk of <= JMax coalesced extents: intent ->   *)
(*                         fsync -> markers -> fsync -> clear -> fsync     *)
(*                         -> release                                      *)
(*   flush              request -> worker cycle(s) -> metadata copy (by    *)
(*                      generation parity) -> fsync -> acknowledge         *)
(*   InitDevice         fresh device: both metadata copies (+ fsync iff    *)
(*                      InitSync)                                          *)
(*                                                                         *)
(* There is no Crash action: every state's crash images (all subsets of    *)
(* the un-synced units, optionally with torn units) are recovered inside   *)
(* the invariant CrashSafe with Disk!Recover, the documented-layout        *)
(* reader.  Properties C02, C03, C05, C10.                                 *)
(*                                                                         *)
(* Boolean switches relax one protocol step each (DESIGN rule R6: protocol *)
(* order is not a verdict; only the property formulas are):                *)
(*   SyncIntent   fsync inside write_allocation_journal (intent durable    *)
(*                before the data / marker writes)                         *)
(*   SyncData     fsync at the end of batch_write (data durable before     *)
(*                the CLEAR)                                               *)
(*   SyncClear    fsync inside clear_allocation_journal (CLEAR durable     *)
(*                before publish / release)                                *)
(*   JournalAll   the intent lists every extent of the batch (FALSE: the   *)
(*                last one is omitted)                                     *)
(*   SuccTest     retirement waits for a durable successor                 *)
(*   SyncMarkers  fsync in retire_extents_unjournaled (markers durable     *)
(*                before the CLEAR)                                        *)
(*   InitSync     fsync at the end of initialize_store_metadata (FALSE is  *)
(*                the code at the pinned commit)                           *)
(***************************************************************************)
EXTENDS Disk

CONSTANTS NK,          \* keys 1 .. NK
          MaxGen,      \* generations 1 .. MaxGen
          MaxTs,       \* explicit timestamps 1 .. MaxTs
          Sizes,       \* extent sizes in blocks
          JMax,        \* journal capacity (1024 in the code)
          MaxFlush,    \* flush calls per behaviour (metadata generations are unbounded otherwise)
          RetireAny,   \* TRUE: any subset of the eligible retirements is taken (reader pins, R1)
          GhostTails,  \* TRUE: every continuation block is a byte-exact image of a one-block record
          Tears,       \* at most this many torn units per crash image (0 = block-granular loss only)
          FreshStart, InitSync,
          SyncIntent, SyncData, SyncClear, JournalAll, SuccTest, SyncMarkers,
          ClearSlot,   \* TRUE (the code): a CLEAR write records the slot it went to, so slots strictly alternate
          FlushGivesUp \* TRUE (the code): a flush whose cycle failed for lack of space returns the error instead of asking again

ASSUME /\ NK \in Nat /\ MaxGen \in Nat /\ MaxTs \in Nat /\ JMax \in Nat \ {0} /\ MaxFlush \in Nat
       /\ Tears \in Nat /\ Sizes \subseteq (Nat \ {0})
       /\ {RetireAny, GhostTails, FreshStart, InitSync, SyncIntent, SyncData, SyncClear,
           JournalAll, SuccTest, SyncMarkers} \subseteq BOOLEAN

Keys == 1 .. NK
GenIds == 1 .. MaxGen
FormatVersion == 3

VARIABLES
  cur,        \* key -> current generation (0 = absent): the in-memory index
  gens,       \* generation -> [k, ts, exp, n] (what Recover reads) + live, sector, succ, ret, rel
  ng,         \* generations used
  q,          \* the shard: FIFO of [op, g]
  retq,       \* retirement queue: set of [g, marked]
  free,       \* free-space manager
  wk,         \* worker: pc and batch locals
  dur, pend,  \* Disk: durable image, writes since the last completed fsync
  jpos,       \* DiskIO.journal_generation / journal_slot
  mgen,       \* generation of the in-memory metadata
  boot,       \* "fresh" -> ("msync" ->) "done"
  hist, ack,  \* history: accepted states of k (generation ids, 0 = absent); acknowledged index
  fl,         \* flush caller
  justAcked   \* TRUE exactly in the state reached by FlushAck
vars == <<cur, gens, ng, q, retq, free, wk, dur, pend, jpos, mgen, boot, hist, ack, fl, justAcked>>

NoAck == justAcked' = FALSE      \* conjunct of every action but FlushAck
NoGen == [k |-> 0, ts |-> 0, exp |-> 0, n |-> 0, live |-> FALSE, sector |-> 0, succ |-> 0,
          ret |-> FALSE, rel |-> FALSE]
IdleWk == [pc |-> "idle", writes |-> <<>>, chunks |-> <<>>, marks |-> {}, dev |-> FALSE,
           serving |-> FALSE, failed |-> FALSE]

(* ------------------------------ helpers ------------------------------ *)
Range(s, n) == s .. (s + n - 1)
SeqSet(s) == {s[i] : i \in 1 .. Len(s)}

\* extents <<at, n>>: sorted by sector, adjacent ones merged (io.rs coalesce_extents), cut into
\* journal transactions of at most JMax entries (retire_extents)
RECURSIVE SortExts(_)
SortExts(S) == IF S = {} THEN <<>>
               ELSE LET m == CHOOSE x \in S : \A y \in S : x[1] <= y[1] IN <<m>> \o SortExts(S \ {m})
RECURSIVE CoalesceSeq(_)
CoalesceSeq(sq) ==
  IF Len(sq) <= 1 THEN sq
  ELSE LET rest == CoalesceSeq(Tail(sq)) IN
       IF sq[1][1] + sq[1][2] = rest[1][1]
       THEN <<<<sq[1][1], sq[1][2] + rest[1][2]>>>> \o Tail(rest)
       ELSE <<sq[1]>> \o rest
RECURSIVE ChunkSeq(_, _)
ChunkSeq(sq, m) == IF sq = <<>> THEN <<>>
                   ELSE LET n == IF Len(sq) < m THEN Len(sq) ELSE m
                        IN <<SubSeq(sq, 1, n)>> \o ChunkSeq(SubSeq(sq, n + 1, Len(sq)), m)
RetirePlan(S) == ChunkSeq(CoalesceSeq(SortExts(S)), JMax)

\* best fit (free_space.rs): the free run minimal in (length, start)
RECURSIVE RunLen(_, _)
RunLen(F, b) == IF b \in F THEN 1 + RunLen(F, b + 1) ELSE 0
FreeRuns(F) == {<<b, RunLen(F, b)>> : b \in {x \in F : (x - 1) \notin F}}
Fits(F, n) == {r \in FreeRuns(F) : r[2] >= n}
BestRun(F, n) == CHOOSE r \in Fits(F, n) : \A o \in Fits(F, n) : r[2] < o[2] \/ (r[2] = o[2] /\ r[1] <= o[1])

(* ------------------------------ device ------------------------------ *)
NextJ == [gen |-> jpos.gen + 1, slot |-> (jpos.slot + 1) % 2]
JW(active, exts) == [kind |-> "j", slot |-> NextJ.slot, v |-> J(NextJ.gen, active, exts)]
DW(at, c) == [kind |-> "d", at |-> at, c |-> c]
MW(copy, v) == [kind |-> "m", copy |-> copy, v |-> v]
Synced == ApplyAll(dur, pend)
TailLook == IF GhostTails THEN "H" ELSE ""
RecordImage(g, n) == [i \in 1 .. n |-> IF i = 1 THEN H(g, n) ELSE T(g, i - 1, TailLook)]
MarkerImage(n) == [i \in 1 .. n |-> M(n - i + 1, 1)]

Rv(img) == Recover(img, gens, Keys, 0, FALSE, FALSE)
InitialDurable ==
  IF FreshStart THEN EmptyImage
  ELSE [EmptyImage EXCEPT !.m = [c \in 0 .. 1 |-> Mt(1, FormatVersion, 0, 0)]]

(* ------------------------------ init ------------------------------ *)
Init ==
  /\ cur = [k \in Keys |-> 0] /\ gens = [g \in GenIds |-> NoGen] /\ ng = 0
  /\ q = <<>> /\ retq = {} /\ free = Blocks /\ wk = IdleWk
  /\ dur = InitialDurable /\ pend = <<>>
  /\ jpos = [gen |-> 0, slot |-> 1]
  /\ mgen = IF FreshStart THEN 0 ELSE 1
  /\ boot = IF FreshStart THEN "fresh" ELSE "done"
  /\ hist = [k \in Keys |-> <<0>>] /\ ack = [k \in Keys |-> 1]
  /\ fl = [pc |-> "idle", tgt |-> [k \in Keys |-> 1], n |-> 0]
  /\ justAcked = FALSE

\* load_indexes on a fresh device -> initialize_store_metadata: both copies, same generation
InitDevice ==
  /\ boot = "fresh"
  /\ pend' = pend \o <<MW(0, Mt(mgen + 1, FormatVersion, 0, 0)), MW(1, Mt(mgen + 1, FormatVersion, 0, 0))>>
  /\ mgen' = mgen + 1
  /\ boot' = IF InitSync THEN "msync" ELSE "done"
  /\ UNCHANGED <<cur, gens, ng, q, retq, free, wk, dur, jpos, hist, ack, fl>> /\ NoAck
InitFsync ==
  /\ boot = "msync"
  /\ dur' = Synced /\ pend' = <<>> /\ boot' = "done"
  /\ UNCHANGED <<cur, gens, ng, q, retq, free, wk, jpos, mgen, hist, ack, fl>> /\ NoAck

(* ------------------------------ API ------------------------------ *)
NewGen(k, n, ts) == [NoGen EXCEPT !.k = k, !.ts = ts, !.n = n, !.live = TRUE]
Put(k, n, ts) ==
  /\ boot = "done" /\ ng < MaxGen
  /\ IF cur[k] = 0 THEN TRUE ELSE gens[cur[k]].ts < ts
  /\ LET g == ng + 1  o == cur[k] IN
     /\ ng' = g
     /\ gens' = [x \in GenIds |-> IF x = g THEN NewGen(k, n, ts)
                                  ELSE IF x = o THEN [gens[x] EXCEPT !.live = FALSE, !.succ = g]
                                  ELSE gens[x]]
     /\ cur' = [cur EXCEPT ![k] = g]
     /\ q' = IF o = 0 THEN Append(q, [op |-> "W", g |-> g])
             ELSE q \o <<[op |-> "W", g |-> g], [op |-> "D", g |-> o]>>      \* add_replacement
     /\ hist' = [hist EXCEPT ![k] = Append(@, g)]
  /\ UNCHANGED <<retq, free, wk, dur, pend, jpos, mgen, boot, ack, fl>> /\ NoAck
Del(k) ==
  /\ boot = "done" /\ cur[k] # 0
  /\ LET o == cur[k] IN
     /\ gens' = [gens EXCEPT ![o].live = FALSE]
     /\ cur' = [cur EXCEPT ![k] = 0]
     /\ q' = Append(q, [op |-> "D", g |-> o])
     /\ hist' = [hist EXCEPT ![k] = Append(@, 0)]
  /\ UNCHANGED <<ng, retq, free, wk, dur, pend, jpos, mgen, boot, ack, fl>> /\ NoAck

(* ------------------------------ worker: write batch ------------------------------ *)
\* Record::successor_is_durable_or_deleted (record.sector is never reset, so the test is monotone)
RECURSIVE SuccOK(_)
SuccOK(g) == LET s == gens[g].succ IN
             IF s = 0 THEN TRUE
             ELSE IF gens[s].sector # 0 THEN TRUE
             ELSE IF gens[s].succ # 0 THEN SuccOK(s)
             ELSE ~gens[s].live

\* what the flush caller learns when the cycle it waits for ends (force_flush loop)
FlAfter(retq1, released1) ==
  IF ~wk.serving THEN fl
  ELSE IF wk.failed /\ ~released1 THEN (IF FlushGivesUp THEN [fl EXCEPT !.pc = "idle"]   \* Err(OutOfSpace): no ack
                                        ELSE [fl EXCEPT !.pc = "req"])    \* (mutation: ask again for ever)
  ELSE IF wk.failed \/ retq1 # {} THEN [fl EXCEPT !.pc = "req"]         \* Ok(true): ask again
  ELSE [fl EXCEPT !.pc = "meta"]

\* flush_worker_shards: drain the shard; Delete entries go to the retirement queue at once,
\* Insert/Update entries of live, not yet written records form the batch
WStart ==
  /\ boot = "done" /\ wk.pc = "idle"
  /\ q # <<>> \/ retq # {} \/ fl.pc = "req"
  /\ LET ws == SelectSeq(q, LAMBDA e : e.op = "W" /\ gens[e.g].sector = 0 /\ gens[e.g].live)
         ds == {e.g : e \in {x \in SeqSet(q) : x.op = "D"}}
     IN /\ retq' = retq \cup {[g |-> g, marked |-> FALSE] : g \in ds}
        /\ wk' = [IdleWk EXCEPT !.pc = IF ws = <<>> THEN "rclassify" ELSE "alloc",
                                !.writes = [i \in 1 .. Len(ws) |-> [g |-> ws[i].g, n |-> gens[ws[i].g].n, at |-> 0]],
                                !.serving = (fl.pc = "req")]
        /\ q' = <<>>
  /\ fl' = IF fl.pc = "req" THEN [fl EXCEPT !.pc = "wait"] ELSE fl
  /\ UNCHANGED <<cur, gens, ng, free, dur, pend, jpos, mgen, boot, hist, ack>> /\ NoAck

RECURSIVE AllocAll(_, _, _)
AllocAll(ws, i, fr) ==
  IF i > Len(ws) THEN [ok |-> TRUE, ws |-> ws, fr |-> fr]
  ELSE IF Fits(fr, ws[i].n) = {} THEN [ok |-> FALSE, ws |-> ws, fr |-> fr]
  ELSE LET r == BestRun(fr, ws[i].n)
       IN AllocAll([ws EXCEPT ![i].at = r[1]], i + 1, fr \ Range(r[1], ws[i].n))
\* on failure the clean reservations are released and the batch is requeued at the front
WAlloc ==
  /\ wk.pc = "alloc"
  /\ LET a == AllocAll(wk.writes, 1, free) IN
     IF a.ok THEN /\ free' = a.fr /\ wk' = [wk EXCEPT !.pc = "intent", !.writes = a.ws] /\ UNCHANGED q
     ELSE /\ UNCHANGED free
          /\ q' = [i \in 1 .. Len(wk.writes) |-> [op |-> "W", g |-> wk.writes[i].g]] \o q
          /\ wk' = [wk EXCEPT !.pc = "rclassify", !.writes = <<>>, !.failed = TRUE]
  /\ UNCHANGED <<cur, gens, ng, retq, dur, pend, jpos, mgen, boot, hist, ack, fl>> /\ NoAck

WExts == [i \in 1 .. Len(wk.writes) |-> <<wk.writes[i].at, wk.writes[i].n>>]
\* device write lock: taken here, held until publish; the flush caller holds it from the
\* metadata write to its fsync
WIntent ==
  /\ wk.pc = "intent" /\ fl.pc # "msync"
  /\ pend' = Append(pend, JW(TRUE, IF JournalAll THEN WExts ELSE SubSeq(WExts, 1, Len(WExts) - 1)))
  /\ jpos' = NextJ
  /\ wk' = [wk EXCEPT !.pc = IF SyncIntent THEN "fs1" ELSE "data", !.dev = TRUE]
  /\ UNCHANGED <<cur, gens, ng, q, retq, free, dur, mgen, boot, hist, ack, fl>> /\ NoAck
WFs(from, to) ==
  /\ wk.pc = from /\ dur' = Synced /\ pend' = <<>> /\ wk' = [wk EXCEPT !.pc = to]
  /\ UNCHANGED <<cur, gens, ng, q, retq, free, jpos, mgen, boot, hist, ack, fl>> /\ NoAck
WData ==
  /\ wk.pc = "data"
  /\ pend' = pend \o [i \in 1 .. Len(wk.writes) |->
                        DW(wk.writes[i].at, RecordImage(wk.writes[i].g, wk.writes[i].n))]
  /\ wk' = [wk EXCEPT !.pc = IF SyncData THEN "fs2" ELSE "clear"]
  /\ UNCHANGED <<cur, gens, ng, q, retq, free, dur, jpos, mgen, boot, hist, ack, fl>> /\ NoAck
WClear(from, to) ==
  /\ wk.pc = from
  /\ pend' = Append(pend, JW(FALSE, <<>>))
  \* without the slot update the next ACTIVE image overwrites this CLEAR in place and the other
  \* slot keeps the previous ACTIVE image: a torn write then falls back to a stale intent list
  /\ jpos' = IF ClearSlot THEN NextJ ELSE [NextJ EXCEPT !.slot = jpos.slot]
  /\ wk' = [wk EXCEPT !.pc = to]
  /\ UNCHANGED <<cur, gens, ng, q, retq, free, dur, mgen, boot, hist, ack, fl>> /\ NoAck
WPublish ==
  /\ wk.pc = "publish"
  /\ gens' = [g \in GenIds |-> IF \E w \in SeqSet(wk.writes) : w.g = g
                               THEN [gens[g] EXCEPT !.sector = (CHOOSE w \in SeqSet(wk.writes) : w.g = g).at]
                               ELSE gens[g]]
  /\ wk' = [wk EXCEPT !.pc = "rclassify", !.writes = <<>>, !.dev = FALSE]
  /\ UNCHANGED <<cur, ng, q, retq, free, dur, pend, jpos, mgen, boot, hist, ack, fl>> /\ NoAck

(* ------------------------------ retirement ------------------------------ *)
\* process_deletions: never-written -> dropped; successor not durable -> waits; the others get the
\* RETIRED bit and (unless readers are pinned: RetireAny) their markers in this round.  The branch
\* "nothing to mark but a marked entry is left -> release" is the DELETE_MARKER_DURABLE retry of the
\* code; without reader pins no marked entry outlives its cycle, so it is never taken here.
OnDev(g) == gens[g].sector # 0 /\ ~gens[g].rel
Dropped == {e \in retq : gens[e.g].sector = 0}
Eligible == {e \in retq : gens[e.g].sector # 0 /\ ~e.marked /\ (SuccTest => SuccOK(e.g))}
ExtentOf(g) == <<gens[g].sector, gens[g].n>>
RClassify ==
  /\ wk.pc = "rclassify"
  /\ IF retq \ Dropped = {} THEN
        /\ retq' = {} /\ wk' = IdleWk
        /\ fl' = FlAfter({}, FALSE) /\ UNCHANGED gens
     ELSE \E ms \in (IF RetireAny THEN SUBSET Eligible ELSE {Eligible}) :
        /\ retq' = retq \ Dropped
        /\ gens' = [g \in GenIds |-> IF \E e \in ms : e.g = g THEN [gens[g] EXCEPT !.ret = TRUE] ELSE gens[g]]
        /\ IF ms # {} THEN
              /\ wk' = [wk EXCEPT !.marks = {e.g : e \in ms}, !.pc = "rintent",
                                  !.chunks = RetirePlan({ExtentOf(e.g) : e \in ms})]
              /\ UNCHANGED fl
           ELSE IF \E e \in retq : e.marked THEN wk' = [wk EXCEPT !.pc = "release"] /\ UNCHANGED fl
           ELSE /\ wk' = IdleWk
                /\ fl' = FlAfter(retq \ Dropped, FALSE)
  /\ UNCHANGED <<cur, ng, q, free, dur, pend, jpos, mgen, boot, hist, ack>> /\ NoAck
\* io.rs retire_extents, per chunk (device write lock held over all chunks)
RIntent ==
  /\ wk.pc = "rintent" /\ (wk.dev \/ fl.pc # "msync")
  /\ pend' = Append(pend, JW(TRUE, wk.chunks[1]))
  /\ jpos' = NextJ
  /\ wk' = [wk EXCEPT !.pc = IF SyncIntent THEN "rfs1" ELSE "rmark", !.dev = TRUE]
  /\ UNCHANGED <<cur, gens, ng, q, retq, free, dur, mgen, boot, hist, ack, fl>> /\ NoAck
RMarkers ==
  /\ wk.pc = "rmark"
  /\ pend' = pend \o [i \in 1 .. Len(wk.chunks[1]) |-> DW(wk.chunks[1][i][1], MarkerImage(wk.chunks[1][i][2]))]
  /\ wk' = [wk EXCEPT !.pc = IF SyncMarkers THEN "rfs2" ELSE "rclear"]
  /\ UNCHANGED <<cur, gens, ng, q, retq, free, dur, jpos, mgen, boot, hist, ack, fl>> /\ NoAck
\* next chunk, or all chunks done: DELETE_MARKER_DURABLE on every entry, lock released
RNext ==
  /\ wk.pc = "rnext"
  /\ IF Len(wk.chunks) > 1
     THEN /\ wk' = [wk EXCEPT !.chunks = Tail(@), !.pc = "rintent"] /\ UNCHANGED retq
     ELSE /\ retq' = {IF e.g \in wk.marks THEN [e EXCEPT !.marked = TRUE] ELSE e : e \in retq}
          /\ wk' = [wk EXCEPT !.chunks = <<>>, !.marks = {}, !.pc = "release", !.dev = FALSE]
  /\ UNCHANGED <<cur, gens, ng, q, free, dur, pend, jpos, mgen, boot, hist, ack, fl>> /\ NoAck
RRelease ==
  /\ wk.pc = "release"
  /\ LET rs == {e \in retq : e.marked} IN
     /\ free' = free \cup UNION {Range(gens[e.g].sector, gens[e.g].n) : e \in rs}
     /\ retq' = retq \ rs
     /\ gens' = [g \in GenIds |-> IF \E e \in rs : e.g = g THEN [gens[g] EXCEPT !.rel = TRUE] ELSE gens[g]]
     /\ wk' = IdleWk
     /\ fl' = FlAfter(retq \ rs, rs # {})
  /\ UNCHANGED <<cur, ng, q, dur, pend, jpos, mgen, boot, hist, ack>> /\ NoAck

(* ------------------------------ flush ------------------------------ *)
\* force_flush: every operation completed before the call is covered
FlushBegin ==
  /\ boot = "done" /\ fl.pc = "idle" /\ fl.n < MaxFlush
  /\ fl' = [pc |-> "req", tgt |-> [k \in Keys |-> Len(hist[k])], n |-> fl.n + 1]
  /\ UNCHANGED <<cur, gens, ng, q, retq, free, wk, dur, pend, jpos, mgen, boot, hist, ack>> /\ NoAck
\* flush_all -> write_store_metadata: the copy chosen by the parity of the next generation
FlushMeta ==
  /\ fl.pc = "meta" /\ ~wk.dev
  /\ LET next == mgen + 1 IN
     pend' = Append(pend, MW(IF next % 2 = 0 THEN 0 ELSE 1,
                             Mt(next, FormatVersion, Cardinality({k \in Keys : cur[k] # 0}), 0)))
  /\ fl' = [fl EXCEPT !.pc = "msync"]
  /\ UNCHANGED <<cur, gens, ng, q, retq, free, wk, dur, jpos, mgen, boot, hist, ack>> /\ NoAck
\* its fsync, then flush_all returns Ok: history below the acknowledged index is dropped
FlushAck ==
  /\ fl.pc = "msync"
  /\ dur' = Synced /\ pend' = <<>> /\ mgen' = mgen + 1
  /\ hist' = [k \in Keys |-> SubSeq(hist[k], fl.tgt[k], Len(hist[k]))]
  /\ ack' = [k \in Keys |-> 1]
  /\ fl' = [fl EXCEPT !.pc = "idle", !.tgt = [k \in Keys |-> 1]]
  /\ UNCHANGED <<cur, gens, ng, q, retq, free, wk, jpos, boot>>
  /\ justAcked' = TRUE

Next ==
  \/ InitDevice \/ InitFsync
  \/ \E k \in Keys, n \in Sizes, ts \in 1 .. MaxTs : Put(k, n, ts)
  \/ \E k \in Keys : Del(k)
  \/ WStart \/ WAlloc \/ WIntent \/ WFs("fs1", "data") \/ WData \/ WFs("fs2", "clear")
  \/ WClear("clear", IF SyncClear THEN "fs3" ELSE "publish") \/ WFs("fs3", "publish") \/ WPublish
  \/ RClassify \/ RIntent \/ WFs("rfs1", "rmark") \/ RMarkers \/ WFs("rfs2", "rclear")
  \/ WClear("rclear", IF SyncClear THEN "rfs3" ELSE "rnext") \/ WFs("rfs3", "rnext") \/ RNext \/ RRelease
  \/ FlushBegin \/ FlushMeta \/ FlushAck
Spec == Init /\ [][Next]_vars

(* ------------------------------ properties ------------------------------ *)
InWindow(k, g) == \E i \in ack[k] .. Len(hist[k]) : hist[k][i] = g
Good(img) == LET r == Rv(img) IN
             /\ r.ok                                     \* C03: the file reopens
             /\ r.ghosts = {}                            \* C03: nothing the application never stored
             /\ \A k \in Keys : InWindow(k, r.win[k])    \* C02/C03: acknowledged .. latest
\* every crash image: every subset of the un-synced units, at most `Tears` of them torn
CrashSafe ==
  \A S \in SUBSET Units(pend) :
    \A Tn \in (IF Tears = 0 THEN {{}} ELSE {x \in SUBSET S : Cardinality(x) <= Tears}) :
      Good(ApplyUnitsT(dur, pend, S, Tn, 1))

Ext(g) == IF OnDev(g) THEN Range(gens[g].sector, gens[g].n) ELSE {}
OnDisk == {g \in 1 .. ng : OnDev(g)}
Resv == UNION {Range(w.at, w.n) : w \in {x \in SeqSet(wk.writes) : x.at # 0}}
Partition == /\ \A g1, g2 \in OnDisk : g1 # g2 => Ext(g1) \cap Ext(g2) = {}
             /\ \A g \in OnDisk : Ext(g) \cap free = {} /\ Ext(g) \subseteq Blocks
             /\ Resv \cap free = {}
             /\ \A g \in OnDisk : Ext(g) \cap Resv = {}
             /\ free \subseteq Blocks
Quiescent == boot = "done" /\ q = <<>> /\ retq = {} /\ wk.pc = "idle" /\ pend = <<>>
ExactAtQuiescence ==
  Quiescent => /\ (UNION {Ext(g) : g \in OnDisk}) \cup free = Blocks
               /\ \A g \in OnDisk : gens[g].live
               /\ LET r == Rv(dur) IN r.ok /\ \A k \in Keys : r.win[k] = cur[k]

\* at the acknowledgement (pend = <<>>: the durable image is the only crash image)
Quiet(k) == Len(hist[k]) = 1                  \* no operation on k since the flush began
AckMeansDurable == justAcked => pend = <<>> /\ Good(dur)
JournalClearAtAck == justAcked => ~JournalPick(dur.j).active
LayoutAtAck == justAcked => LET r == Rv(dur) IN r.ok /\ \A k \in Keys : Quiet(k) => r.kv[k] = cur[k]
MetaMatches ==
  justAcked => LET m == MetaPick(dur.m)  r == Rv(dur) IN
               /\ MetaValid(m) /\ m.gen = mgen /\ m.ver = FormatVersion
               /\ (\A k \in Keys : Quiet(k)) =>
                     /\ m.recs = Cardinality({k \in Keys : cur[k] # 0})
                     /\ m.recs = Cardinality({k \in Keys : r.kv[k] # 0})

TypeOK == /\ wk.pc \in {"idle", "alloc", "intent", "fs1", "data", "fs2", "clear", "fs3", "publish",
                        "rclassify", "rintent", "rfs1", "rmark", "rfs2", "rclear", "rfs3", "rnext", "release"}
          /\ fl.pc \in {"idle", "req", "wait", "meta", "msync"}
          /\ boot \in {"fresh", "msync", "done"}
          /\ ng \in 0 .. MaxGen /\ free \subseteq Blocks

(* ------------------------------ liveness ------------------------------ *)
(* C19 ("accepted writes reach the device without explicit flush") and C18 ("flush always terminates") at *)
(* design level.  The worker, the start-up and the flush caller are weakly fair; Put/Del/FlushBegin are the *)
(* environment.  Checked with RetireAny = FALSE (no reader keeps a superseded generation pinned for ever).  *)
WorkerStep ==
  \/ WStart \/ WAlloc \/ WIntent \/ WFs("fs1", "data") \/ WData \/ WFs("fs2", "clear")
  \/ WClear("clear", IF SyncClear THEN "fs3" ELSE "publish") \/ WFs("fs3", "publish") \/ WPublish
  \/ RClassify \/ RIntent \/ WFs("rfs1", "rmark") \/ RMarkers \/ WFs("rfs2", "rclear")
  \/ WClear("rclear", IF SyncClear THEN "rfs3" ELSE "rnext") \/ WFs("rfs3", "rnext") \/ RNext \/ RRelease
Fair == WF_vars(InitDevice \/ InitFsync) /\ WF_vars(WorkerStep) /\ WF_vars(FlushMeta \/ FlushAck)
FairSpec == Spec /\ Fair

PendingWrites == SelectSeq(q, LAMBDA e : e.op = "W" /\ gens[e.g].sector = 0 /\ gens[e.g].live)
NoRoom == LET pw == PendingWrites
              ws == [i \in 1 .. Len(pw) |-> [g |-> pw[i].g, n |-> gens[pw[i].g].n, at |-> 0]]
          IN pw # <<>> /\ ~AllocAll(ws, 1, free).ok
Retirable == {e \in retq : gens[e.g].sector # 0 /\ (SuccTest => SuccOK(e.g))}
Drained == wk.pc = "idle" /\ q = <<>> /\ retq = {}
\* the only way not to drain: what is queued does not fit and nothing on the device may be retired yet
OutOfSpace == wk.pc = "idle" /\ NoRoom /\ Retirable = {}
WriteBehindDrains == []<>(Drained \/ OutOfSpace)
FlushTerminates == (fl.pc # "idle") ~> (fl.pc = "idle")
=============================================================================

---------------------------- MODULE MCCacheConc ----------------------------
(* Small manual instance of CacheConc.tla (the checks generate their own from lib/checks/c16_cache.py). *)
EXTENDS CacheConc
O(op, k, g, sz) == [op |-> op, k |-> k, g |-> g, sz |-> sz]
I(k) == O("ins", k, 0, 188)
Full == <<I(1), I(2), I(3), I(4)>>
Three == <<I(1), I(2), I(3)>>
Gts == [g \in 0 .. 50 |-> g]
ProgsLit == <<
  [name |-> "rmrm_31", init |-> Full, high |-> 1048576, low |-> 524288,
   threads |-> << <<O("rem", 3, 0, 0), O("get", 3, 0, 0)>>, <<O("rem", 1, 0, 0), O("get", 1, 0, 0)>> >>],
  [name |-> "rmins_42", init |-> Full, high |-> 1048576, low |-> 524288,
   threads |-> << <<O("rem", 4, 0, 0), O("get", 4, 0, 0)>>, <<O("rem", 2, 0, 0), O("ins", 2, 0, 148), O("get", 2, 0, 0)>> >>],
  [name |-> "gen_swap", init |-> <<O("ins", 1, 11, 188), O("ins", 2, 21, 188)>>, high |-> 1048576, low |-> 524288,
   threads |-> << <<O("rem", 1, 11, 0), O("get", 1, 11, 0), O("get", 1, 0, 0)>>, <<O("ins", 1, 12, 168), O("get", 1, 12, 0)>> >>],
  [name |-> "ins_sweep_rm", init |-> Three, high |-> 700, low |-> 300,
   threads |-> << <<I(4), O("get", 4, 0, 0)>>, <<O("rem", 2, 0, 0), O("get", 2, 0, 0)>> >>],
  [name |-> "evict_evict", init |-> Three, high |-> 700, low |-> 300,
   threads |-> << <<O("evict", 0, 0, 0)>>, <<O("evict", 0, 0, 0), O("get", 2, 0, 0)>> >>],
  [name |-> "clear_ins", init |-> Three, high |-> 1048576, low |-> 524288,
   threads |-> << <<O("clear", 0, 0, 0), O("get", 1, 0, 0)>>, <<I(4), O("get", 4, 0, 0)>> >>],
  [name |-> "clear_rm", init |-> Three, high |-> 1048576, low |-> 524288,
   threads |-> << <<O("clear", 0, 0, 0)>>, <<O("rem", 2, 0, 0), O("get", 2, 0, 0)>> >>],
  [name |-> "rm_ins_ev", init |-> Three, high |-> 700, low |-> 300,
   threads |-> << <<O("rem", 1, 0, 0), O("get", 1, 0, 0)>>, <<I(4), O("get", 4, 0, 0)>>, <<O("evict", 0, 0, 0)>> >>]
>>
=============================================================================

\* code at the pinned commit: no fsync in initialize_store_metadata; EXPECTED: CrashSafe violated (journal block without metadata -> InvalidMetadata)
\* run: tlc -workers 8 -deadlock -noGenerateSpecTE -config MCWriteBehind_initnosync.cfg MCWriteBehind.tla   (inside /verif/spec, private -metadir)
CONSTANTS
  DS = 16  DE = 19
  NK = 2  MaxGen = 2  MaxTs = 2  Sizes = {1, 2}  JMax = 1  MaxFlush = 2
  RetireAny = TRUE  GhostTails = TRUE  Tears = 2
  FreshStart = TRUE  InitSync = FALSE
  SyncIntent = TRUE  SyncData = TRUE  SyncClear = TRUE
  JournalAll = TRUE  SuccTest = TRUE  SyncMarkers = TRUE  ClearSlot = TRUE  FlushGivesUp = TRUE
SPECIFICATION Spec
INVARIANTS TypeOK CrashSafe Partition ExactAtQuiescence AckMeansDurable JournalClearAtAck LayoutAtAck MetaMatches
CHECK_DEADLOCK FALSE

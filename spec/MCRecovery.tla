----------------------------- MODULE MCRecovery -----------------------------
(* Model-checking wrapper of Recovery: all constants are set in the MCRecovery_*.cfg files. *)
EXTENDS Recovery
=============================================================================

------------------------------ MODULE PinProto ------------------------------
(***************************************************************************)
(* The reader-pin / retirement protocol on one generation's extent word,   *)
(* as guards and effects over an explicit function G (generation -> word). *)
(* Pin.tla model-checks the design built from these operators; PinTrace.tla *)
(* applies the same operators to the generations named in traces recorded  *)
(* from the implementation (hooks pin / unpin / ret_bit / ret_wait /       *)
(* ret_mark / ret_marked / release).                                       *)
(***************************************************************************)
EXTENDS Naturals

CONSTANT AcquireRefusesRetired   \* TRUE: acquire_extent fails once the retired bit is set

LiveGen(ext) == [ext |-> ext, mem |-> FALSE, readers |-> 0, retired |-> FALSE, phase |-> "live"]
NewGen == [LiveGen({}) EXCEPT !.mem = TRUE]

CanAcquire(G, g) == ~(AcquireRefusesRetired /\ G[g].retired)
AcquireF(G, g) == [G EXCEPT ![g].readers = @ + 1]
ReleaseF(G, g) == [G EXCEPT ![g].readers = IF @ > 0 THEN @ - 1 ELSE 0]
HasReaders(G, g) == G[g].readers > 0

QueueF(G, g) == [G EXCEPT ![g].phase = "queued"]
CanBit(G, g) == G[g].phase \in {"queued", "tomark"}          \* "tomark": a failed marker write is retried
BitF(G, g) == [G EXCEPT ![g].retired = TRUE, ![g].phase = "bit"]
\* the marker write is decided only after the bit, and only with no reader inside
CanMark(G, g) == G[g].phase = "bit" /\ ~HasReaders(G, g)
MarkDecideF(G, g) == [G EXCEPT ![g].phase = "tomark"]
WaitF(G, g) == [G EXCEPT ![g].phase = IF @ = "bit" THEN "queued" ELSE @]
MarkedF(G, g) == [G EXCEPT ![g].phase = "marked"]
CanRelease(G, g) == G[g].phase = "marked" /\ ~HasReaders(G, g)
ReleasedF(G, g) == [G EXCEPT ![g].phase = "released"]
\* no reader may enter once the marker write has been decided
PinAllowed(G, g) == G[g].phase \notin {"tomark", "marked", "released"}

=============================================================================

CONSTANTS NS = 2 NW = 2 MaxEnt = 2 MaxFaults = 1 MaxSoft = 1 MaxPins = 1 FullAt = 2 NCallers = 1 MaxFinal = 4 ChanCap = 2
  AskAll = TRUE TickAll = TRUE TickWhenRet = TRUE RequeueFront = TRUE RetryAfterRetire = TRUE WaitTrue = TRUE
SPECIFICATION Spec
INVARIANTS TypeOK Conservation AckCoversAll CloseCovers QueueSorted
PROPERTIES TickCoversA
CHECK_DEADLOCK FALSE

\* liveness (thorough tier): the worker drains what was accepted unless the device is out of space; flush terminates
\* run: tlc -workers 8 -noGenerateSpecTE -config MCWriteBehind_live.cfg MCWriteBehind.tla   (inside /verif/spec, private -metadir)
CONSTANTS
  DS = 16  DE = 19
  NK = 2  MaxGen = 2  MaxTs = 1  Sizes = {1, 2}  JMax = 1  MaxFlush = 1
  RetireAny = FALSE  GhostTails = FALSE  Tears = 0
  FreshStart = TRUE  InitSync = TRUE
  SyncIntent = TRUE  SyncData = TRUE  SyncClear = TRUE
  JournalAll = TRUE  SuccTest = TRUE  SyncMarkers = TRUE  ClearSlot = TRUE  FlushGivesUp = TRUE
SPECIFICATION FairSpec
INVARIANTS TypeOK
PROPERTIES WriteBehindDrains FlushTerminates
CHECK_DEADLOCK FALSE

\* quick tier: losers/repairs first, expired winners in a second pass (OrderFix); expected: no violation
\* run: tlc -workers 8 -deadlock -noGenerateSpecTE -config MCRecovery_quick.cfg MCRecovery.tla   (inside /verif/spec, private -metadir)
CONSTANTS
  DS = 16  DE = 20
  JMax = 1  MaxCrashes = 2  OrderFix = TRUE  Tears = 1
  Sizes = {1, 2}  Now = 2  Exp = 1  WithJournal = TRUE  WithMarker = TRUE
SPECIFICATION Spec
INVARIANTS TypeOK NeverFails RepairsTouchNoLiveBlock RecoveryIdempotent ImagesAgree
CHECK_DEADLOCK FALSE

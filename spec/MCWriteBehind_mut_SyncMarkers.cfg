\* seeded model mutation: SyncMarkers = FALSE  ClearSlot = TRUE  FlushGivesUp = TRUE (device already initialised); see README_models.md for the expected outcome
\* run: tlc -workers 8 -deadlock -noGenerateSpecTE -config MCWriteBehind_mut_SyncMarkers.cfg MCWriteBehind.tla   (inside /verif/spec, private -metadir)
CONSTANTS
  DS = 16  DE = 19
  NK = 2  MaxGen = 2  MaxTs = 2  Sizes = {1, 2}  JMax = 1  MaxFlush = 2
  RetireAny = TRUE  GhostTails = TRUE  Tears = 1
  FreshStart = FALSE  InitSync = TRUE
  SyncIntent = TRUE  SyncData = TRUE  SyncClear = TRUE
  JournalAll = TRUE  SuccTest = TRUE  SyncMarkers = FALSE  ClearSlot = TRUE  FlushGivesUp = TRUE
SPECIFICATION Spec
INVARIANTS TypeOK CrashSafe Partition ExactAtQuiescence AckMeansDurable JournalClearAtAck LayoutAtAck MetaMatches
CHECK_DEADLOCK FALSE

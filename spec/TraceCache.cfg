CONSTANTS
  Keys <- TKeys
  NB <- TNB
  BucketOf <- TBucketOf
  GensOf <- TGensOf
  GenTs = 0
  Watch <- TKeys
  Sizes = {}
  WMs = {}
  WM0 <- TWM0
SPECIFICATION TSpec
INVARIANTS MemExact
PROPERTIES HitOnlyExactGen RemoveThenMiss EvictToLow SecondChance TouchSetsRef RefOnlyByTouch
POSTCONDITION TraceAccepted
CHECK_DEADLOCK FALSE

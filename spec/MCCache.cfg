CONSTANTS
  Keys <- MCKeys
  NB = 2
  BucketOf <- MCBucketOf
  GensOf <- MCGensOf
  Watch = {1, 2}
  GenTs <- MCGenTs
  Sizes = {1, 2, 3}
  WMs <- MCWMs
  WM0 <- MCWM0
  LifeKeys <- MCLife
SPECIFICATION MCSpec
INVARIANTS TypeOK MemExact UniqueKey RemovedAbsent
PROPERTIES HitOnlyExactGen RemoveThenMiss EvictToLow SecondChance TouchSetsRef RefOnlyByTouch EvictNoOvershoot
VIEW MCView

CONSTANTS
  Programs <- ProgsLit
  GenTs <- Gts
  SplitRemove = FALSE
  ClearSnapshot = TRUE
  EmitOneIn = 1
SPECIFICATION Spec
CHECK_DEADLOCK FALSE
INVARIANTS MemExact UniqueKey NoFlags EvLockFree

------------------------------ MODULE MCCache ------------------------------
(* Exhaustive instance of Cache.tla: 3 keys in 2 buckets (keys 1 and 2 share bucket 0 so
   that the order inside a bucket matters, key 3 is alone in bucket 1 so that the hand
   matters).  Key 1 has two generations (timestamps 1 < 2), key 2 one, key 3 is only ever
   cached untagged.  Entry sizes 1..3 and two watermark settings: <<8, 4>> (sizes 1, 2
   cacheable, 3 refused by the high/4 rule) and <<4, 2>> (only size 1 cacheable).  Because
   of the high/4 rule an insert can only push usage over the high watermark with at least
   four entries or after the watermarks were lowered; switching between the two settings
   gives insert-triggered sweeps with three keys.
   Bounds (all per-key and independent of the other keys): the generation life cycle is
   explored for key 1 (LifeKeys), the remove history is kept for keys 1 and 2 (Watch).
   100 656 distinct states (MCView), 3 187 441 transitions, 15 s on 8 workers.          *)
EXTENDS Cache

MCKeys == {1, 2, 3}
MCBucketOf == (1 :> 0) @@ (2 :> 0) @@ (3 :> 1)
MCGensOf == (1 :> {1, 2}) @@ (2 :> {1}) @@ (3 :> {})
MCGenTs == (1 :> 1) @@ (2 :> 2)
MCWMs == {<<8, 4>>, <<4, 2>>}
MCWM0 == <<8, 4>>
MCLife == {1}

(* The generation life cycle only matters to the replacement rule, which is per key: it is
   explored for the keys in LifeKeys; the generations of the other keys stay live.      *)
CONSTANT LifeKeys
MCNext == \/ \E k \in Keys : \E t \in TagsOf(k), sz \in Sizes : Insert(k, t, sz)
          \/ \E k \in Keys : \E g \in TagsOf(k) : Get(k, g) \/ Remove(k, g) \/ Peek(k, g)
          \/ Evict \/ Clear
          \/ \E w \in WMs : SetWM(w[1], w[2])
          \/ \E k \in LifeKeys : \E g \in GensOf[k] : Retire(k, g) \/ DropGen(k, g)
MCSpec == Init /\ [][MCNext]_cvars

(* `last` only labels the step that was just taken: no action reads it, every property reads
   it primed only (and TLC evaluates action properties on every generated transition, also
   those into states already seen), and no invariant mentions it.  Identifying states that
   differ only in `last` therefore loses neither states nor transitions.               *)
MCView == <<bk, hand, mem, high, low, gst, rm>>
=============================================================================

------------------------------ MODULE CacheConc ------------------------------
(***************************************************************************)
(* Concurrent DESIGN model of the read cache (src/core/cache.rs,           *)
(* ClockCache) at the granularity of its critical sections: C16, "under    *)
(* any interleaving of readers and writers".                               *)
(*                                                                         *)
(* Cache.tla is the sequential contract; this module states how calls of   *)
(* several threads compose.  One model step = the code a thread runs       *)
(* between two lock acquisitions: the scheduling points of the traced      *)
(* lock types (hook 140086a) stand in front of every acquisition of a      *)
(* watched bucket lock (`cache_rd` shared, `cache_wr` exclusive) and of    *)
(* the eviction mutex (`cache_evlock`), so `pc[t]` is the name of the      *)
(* point at which thread t stands and a step runs "acquire, critical       *)
(* section, release, on to the next acquisition".                          *)
(*                                                                         *)
(* All keys of a program live in ONE bucket (the interesting case: the     *)
(* bucket is a Vec, positions shift under removals); the other 16383       *)
(* buckets are empty and their locks are not watched, so a sweep is one    *)
(* section per pass over that bucket (at most MAX_SCANS = 3 passes).       *)
(*                                                                         *)
(* The design as it is: lookup = ONE shared section, insert = ONE          *)
(* exclusive section (after an optional sweep), remove = ONE exclusive     *)
(* section that finds AND removes, sweep = exclusive sections under the    *)
(* eviction mutex (try_lock: a second sweeper walks away), the usage       *)
(* counter is updated inside the section that changes the entries.         *)
(* clear() takes the eviction mutex with a BLOCKING lock() and keeps it    *)
(* over all buckets: a thread standing at `cache_evlock` inside clear()    *)
(* cannot take a step while another thread holds the mutex (Blocked), and  *)
(* a sweep that meets a clearing thread walks away.  clear() is the one    *)
(* call that reduces the counter AFTER it has released the bucket lock     *)
(* (`fetch_sub` follows the block that empties the bucket); no lock is     *)
(* acquired in between, so at this model's granularity - a step ends at    *)
(* the next acquisition - both belong to one step.  MemExact is therefore  *)
(* a statement about the states in which every thread stands in front of   *)
(* a lock acquisition or between calls, which are exactly the states a     *)
(* controlled execution can be observed in.                                *)
(* `SplitRemove = TRUE` is the variant "look the position up under the     *)
(* shared lock, remove it under the exclusive one" (must violate           *)
(* RemoveLeavesNone / NoStalePosition: a binding / vacuity demonstration). *)
(*                                                                         *)
(* Used three ways (lib/checks/c16_cache.py): TLC checks the invariants    *)
(* over every interleaving of small programs; every terminal behaviour is  *)
(* replayed as a schedule on the real cache (arrivals at the lock points,  *)
(* hits and misses, final bucket); and the real executions - these and the *)
(* ones the DFS controller enumerates on the code - are judged by          *)
(* TraceCache.tla, whose vocabulary is one event per critical section.     *)
(***************************************************************************)
EXTENDS Naturals, Sequences, FiniteSets, TLC, Json

CONSTANTS Programs,     \* <<[name, init, threads, high, low]>>; init = <<ops>> run before the threads start
          GenTs,        \* generation id -> timestamp (0 = untagged)
          SplitRemove,  \* FALSE = the design
          ClearSnapshot, \* FALSE = the design (clear() subtracts what it removes from each bucket);
                        \* TRUE = the usage counter is read once (under the eviction mutex) before the buckets are
                        \* emptied and subtracted afterwards
          EmitOneIn

VARIABLES prog, bk,     \* the bucket: <<[k, g, sz, ref]>>
          mem,          \* Statistics.cache_memory
          evl,          \* holder of the eviction mutex (0 = free)
          pc, opi, loc, flags, hist
vars == <<prog, bk, mem, evl, pc, opi, loc, flags, hist>>

Prog == prog
NT == Len(Prog.threads)
Op(t) == Prog.threads[t][opi[t]]
NoLoc == [cu |-> 0, scans |-> 0, pos |-> 0, sweep |-> FALSE]
RemoveAt(s, i) == SubSeq(s, 1, i - 1) \o SubSeq(s, i + 1, Len(s))
RECURSIVE SumSz(_)
SumSz(s) == IF s = <<>> THEN 0 ELSE Head(s).sz + SumSz(Tail(s))
MinOf(S) == CHOOSE x \in S : \A y \in S : x <= y
Match(s, k, g) == {i \in DOMAIN s : s[i].k = k /\ (g = 0 \/ s[i].g = g)}
CanReplace(cached, incoming) ==
  IF incoming = 0 \/ cached = 0 \/ cached = incoming THEN TRUE ELSE GenTs[cached] < GenTs[incoming]

S(t) == [bk |-> bk, mem |-> mem, evl |-> evl, l |-> loc[t], pc |-> pc[t], evs |-> <<>>, fl |-> {}]
Goto(s, p) == [s EXCEPT !.pc = p]
Ret(s, t, r) == [s EXCEPT !.pc = "between_ops", !.l = NoLoc, !.evs = @ \o <<[e |-> "res", t |-> t, res |-> r]>>]

(* one pass of the CLOCK sweep over the bucket (evict_entries, inner loop): the local `cu` follows the counter only
   at the moments this thread evicts something *)
RECURSIVE Pass(_, _, _, _, _)
Pass(done, rest, m, cu, lw) ==
  IF rest = <<>> \/ cu <= lw THEN [bk |-> done \o rest, mem |-> m, cu |-> cu]
  ELSE LET e == Head(rest) IN
       IF e.ref THEN Pass(Append(done, [e EXCEPT !.ref = FALSE]), Tail(rest), m, cu, lw)
       ELSE Pass(done, Tail(rest), m - e.sz, m - e.sz, lw)

\* after the sweep (or without one): where the call goes on
AfterSweep(s, t, o) ==
  IF o.op = "ins" THEN Goto([s EXCEPT !.l.sweep = FALSE], "cache_wr") ELSE Ret(s, t, "ok")

\* evict_entries up to its first bucket section: try_lock, the target test
EvLock(s, t, o) ==
  IF s.evl # 0 THEN AfterSweep(s, t, o)                                  \* somebody else is sweeping: walk away
  ELSE IF s.mem <= Prog.low THEN AfterSweep(s, t, o)                      \* nothing to do (lock taken and dropped)
  ELSE Goto([s EXCEPT !.evl = t, !.l.cu = s.mem, !.l.scans = 0, !.l.sweep = TRUE], "cache_wr")

\* one sweep section, then either another pass or the end of the sweep
SweepSection(s, t, o) ==
  LET r == Pass(<<>>, s.bk, s.mem, s.l.cu, Prog.low)
      s1 == [s EXCEPT !.bk = r.bk, !.mem = r.mem, !.l.cu = r.cu, !.l.scans = @ + 1,
                      !.fl = @ \cup (IF s.evl # t THEN {"evlock"} ELSE {})]
  IN IF r.cu > Prog.low /\ s1.l.scans < 3 THEN Goto(s1, "cache_wr")
     ELSE AfterSweep([s1 EXCEPT !.evl = 0], t, o)

InsertSection(s, t, o) ==
  LET idx == {i \in DOMAIN s.bk : s.bk[i].k = o.k} IN
  IF idx = {} THEN Ret([s EXCEPT !.bk = Append(@, [k |-> o.k, g |-> o.g, sz |-> o.sz, ref |-> TRUE]), !.mem = @ + o.sz], t, "done")
  ELSE LET i == MinOf(idx) IN
       IF CanReplace(s.bk[i].g, o.g)
       THEN Ret([s EXCEPT !.bk[i] = [k |-> o.k, g |-> o.g, sz |-> o.sz, ref |-> TRUE], !.mem = (@ + o.sz) - s.bk[i].sz], t, "done")
       ELSE Ret(s, t, "done")

Begin(s0, t, o) ==
  LET s == [s0 EXCEPT !.evs = @ \o <<[e |-> "inv", t |-> t, op |-> o]>>, !.l = NoLoc] IN
  CASE o.op = "get" -> Goto(s, "cache_rd")
    [] o.op = "rem" -> Goto(s, IF SplitRemove THEN "cache_rd" ELSE "cache_wr")
    [] o.op = "evict" -> Goto(s, "cache_evlock")
    [] o.op = "clear" -> Goto(s, "cache_evlock")
    [] o.op = "ins" -> IF o.sz > Prog.high \div 4 THEN Ret(s, t, "done")             \* "don't cache very large values"
                       ELSE IF s.mem + o.sz > Prog.high THEN Goto(s, "cache_evlock")
                       ELSE Goto(s, "cache_wr")

Do(t) ==
  LET s == S(t)  p == pc[t] IN
  IF p \in {"start", "between_ops"} THEN
       IF opi[t] < Len(Prog.threads[t]) THEN Begin(s, t, Prog.threads[t][opi[t] + 1]) ELSE Goto(s, "done")
  ELSE LET o == Op(t) IN
  CASE p = "cache_rd" ->
         LET idx == Match(s.bk, o.k, o.g) IN
         IF o.op = "get" THEN
              IF idx = {} THEN Ret(s, t, "miss")
              ELSE LET i == MinOf(idx) IN
                   Ret([s EXCEPT !.bk[i].ref = TRUE,
                                 !.fl = @ \cup (IF o.g # 0 /\ s.bk[i].g # o.g THEN {"wronggen"} ELSE {})], t, "hit")
         ELSE \* the split remove: position looked up under the shared lock
              IF idx = {} THEN Ret(s, t, "done") ELSE Goto([s EXCEPT !.l.pos = MinOf(idx)], "cache_wr")
    [] p = "cache_evlock" ->
         \* clear(): eviction_lock.lock() - only taken when free (Blocked(t) otherwise); evict_entries(): try_lock
         IF o.op = "clear" THEN Goto([s EXCEPT !.evl = t, !.l.cu = s.mem], "cache_wr") ELSE EvLock(s, t, o)
    [] p = "cache_wr" ->
         IF s.l.sweep THEN SweepSection(s, t, o)
         ELSE IF o.op = "ins" THEN InsertSection(s, t, o)
         ELSE IF o.op = "rem" THEN
              IF SplitRemove THEN
                   IF s.l.pos > Len(s.bk) THEN Ret([s EXCEPT !.fl = @ \cup {"oob"}], t, "done")
                   ELSE LET e == s.bk[s.l.pos] IN
                        Ret([s EXCEPT !.bk = RemoveAt(@, s.l.pos), !.mem = @ - e.sz,
                                      !.fl = @ \cup (IF e.k # o.k THEN {"staleposition"} ELSE {})], t, "done")
              ELSE LET idx == Match(s.bk, o.k, o.g) IN
                   IF idx = {} THEN Ret(s, t, "done")
                   ELSE LET i == MinOf(idx) IN Ret([s EXCEPT !.bk = RemoveAt(@, i), !.mem = @ - s.bk[i].sz], t, "done")
         ELSE IF o.op = "clear" THEN
              \* clear(): the bucket is emptied and the usage counter reduced by exactly what was removed (one step, see
              \* the head of the module); the eviction mutex is dropped when the call returns
              Ret([s EXCEPT !.bk = <<>>, !.mem = IF ClearSnapshot THEN (IF @ >= s.l.cu THEN @ - s.l.cu ELSE 0) ELSE @ - SumSz(s.bk),
                            !.evl = 0, !.fl = @ \cup (IF s.evl # t THEN {"evlock"} ELSE {})], t, "ok")
         ELSE Ret(s, t, "ok")

\* "an explicit remove is never followed by a hit", stated at the step in which the remove returns: no entry that the
\* call names is left (other threads can only re-insert through a call of their own, which comes later in any order)
RemoveFlags(t, r) ==
  IF pc[t] \in {"start", "between_ops", "done"} \/ r.pc # "between_ops" THEN {}
  ELSE IF Op(t).op = "rem" /\ Match(r.bk, Op(t).k, Op(t).g) # {} THEN {"removeleft"} ELSE {}

\* a blocking lock() on the eviction mutex while another thread holds it
Blocked(t) == IF pc[t] = "cache_evlock" THEN Op(t).op = "clear" /\ evl # 0 ELSE FALSE

Step(t) ==
  /\ pc[t] # "done"
  /\ ~Blocked(t)
  /\ LET r == Do(t) IN
     /\ bk' = r.bk /\ mem' = r.mem /\ evl' = r.evl
     /\ pc' = [pc EXCEPT ![t] = r.pc]
     /\ loc' = [loc EXCEPT ![t] = r.l]
     /\ opi' = [opi EXCEPT ![t] = IF pc[t] \in {"start", "between_ops"} /\ r.pc # "done" THEN @ + 1 ELSE @]
     /\ flags' = flags \cup r.fl \cup RemoveFlags(t, r)
     /\ hist' = hist \o r.evs \o <<[e |-> "step", t |-> t, at |-> r.pc]>>
  /\ UNCHANGED prog

\* the initialising calls run sequentially before the threads start (no sweep among them)
RECURSIVE InitBk(_, _)
InitBk(b, ops) == IF ops = <<>> THEN b
                  ELSE LET o == Head(ops)  idx == {i \in DOMAIN b : b[i].k = o.k} IN
                       InitBk(IF idx = {} THEN Append(b, [k |-> o.k, g |-> o.g, sz |-> o.sz, ref |-> TRUE])
                              ELSE [b EXCEPT ![MinOf(idx)] = [k |-> o.k, g |-> o.g, sz |-> o.sz, ref |-> TRUE]], Tail(ops))
Init ==
  /\ prog \in {Programs[i] : i \in 1 .. Len(Programs)}
  /\ bk = InitBk(<<>>, prog.init)
  /\ mem = SumSz(bk)
  /\ evl = 0
  /\ pc = [t \in 1 .. Len(prog.threads) |-> "start"]
  /\ opi = [t \in 1 .. Len(prog.threads) |-> 0]
  /\ loc = [t \in 1 .. Len(prog.threads) |-> NoLoc]
  /\ flags = {} /\ hist = <<>>

Next == \E t \in 1 .. NT : Step(t)
Spec == Init /\ [][Next]_vars

(* ------------------------------ invariants ------------------------------ *)
AllDone == \A t \in 1 .. NT : pc[t] = "done"
\* C16: the reported memory equals the total size of the entries held - in EVERY state, not only at quiescence
MemExact == mem = SumSz(bk)
\* what makes remove(key) remove "the" entry
UniqueKey == \A i, j \in DOMAIN bk : bk[i].k = bk[j].k => i = j
\* no flag: a generation-qualified hit serves that generation, a remove leaves nothing it names, no position is used
\* after the bucket changed, sweeping only under the eviction mutex
NoFlags == flags = {}
EvLockFree == AllDone => evl = 0
Final == [p |-> Prog.name, h |-> hist, fin |-> [ents |-> [i \in DOMAIN bk |-> [k |-> bk[i].k, g |-> bk[i].g, ref |-> bk[i].ref]], mem |-> mem]]
EmitBehaviour == AllDone => (IF EmitOneIn = 1 \/ RandomElement(1 .. EmitOneIn) = 1 THEN PrintT(ToJson(Final)) ELSE TRUE)
=============================================================================

----------------------------- MODULE MCMigration -----------------------------
(***************************************************************************)
(* Model checking of Migration.tla (C15): for EVERY image of a small       *)
(* family of legacy sources, both values of the opt-in and the three       *)
(* destination situations (absent / already there / appears while the      *)
(* migration runs), the migration of the specification                     *)
(*   - is faithful (MigrationFaithful), settled v3 (in the same formula),  *)
(*   - leaves the source alone and never replaces a foreign destination    *)
(*     (NonDestructive),                                                   *)
(*   - leaves nothing behind when it fails (FailureClean),                 *)
(*   - obeys the rule on ambiguous legacy markers (AmbiguityRule),         *)
(*   - succeeds whenever the read-only recovery does (MigrateTotal, the    *)
(*     non-vacuity statement).                                             *)
(* Family: 2 keys; 3 generations (an older duplicate g1 and an expired     *)
(* newest generation g2 of key 1, a two-block generation g3 of key 2 that  *)
(* needs three blocks in v3 when it comes from v1); every ordered          *)
(* selection of their extents; up to MaxFill one-block fillers (zero, legacy   *)
(* marker LM, pending marker, torn head) in the gaps; journal never        *)
(* written / CLEAR / ACTIVE over one extent (half written, completely      *)
(* written, or only its second block: a record reaching into the           *)
(* journal); formats 1 and 2 (plus a few v3 files, which are refused).     *)
(***************************************************************************)
EXTENDS Migration

CONSTANTS Mut,         \* "none" or a seeded fault of MigrateX / of the publication step
          MaxFill      \* at most this many non-empty fillers per source image

VARIABLES fmt, src0, allow, pre, pc, fsSrc, fsDst, fsTmp, res,
          appeared     \* history: a foreign destination exists
vars == <<fmt, src0, allow, pre, pc, fsSrc, fsDst, fsTmp, res, appeared>>

NK == 2
K == 1 .. NK
Now == 5
GensOf(f) ==
  << [k |-> 1, ts |-> 1, exp |-> 0, n |-> 1, n3 |-> 1],
     [k |-> 1, ts |-> 2, exp |-> IF f = 1 THEN 0 ELSE 1, n |-> 2, n3 |-> 2],
     [k |-> 2, ts |-> 1, exp |-> IF f = 1 THEN 0 ELSE 9, n |-> 2, n3 |-> IF f = 1 THEN 3 ELSE 2] >>

(* ------------------------------ source family ------------------------------ *)
Ext(f, g) == LET n == GensOf(f)[g].n IN <<H(g, n)>> \o [i \in 1 .. (n - 1) |-> T(g, i, "")]
Fill == {<<>>, <<Z>>, <<LM>>, <<M(1, 0)>>, <<Xh>>}
\* ordered selections of generations
Arr == {<<>>} \cup {<<a>> : a \in 1 .. 3}
       \cup {<<a, b>> : a, b \in 1 .. 3} \cup {<<a, b, c>> : a, b, c \in 1 .. 3}
Distinct(s) == \A i, j \in 1 .. Len(s) : i # j => s[i] # s[j]
Arrs == {a \in Arr : Distinct(a)}
\* fillers: one per gap (before, between, after), at most two of them non-empty
Fills(a) == {fs \in [1 .. (Len(a) + 1) -> Fill] : Cardinality({i \in DOMAIN fs : fs[i] # <<>>}) <= MaxFill}

RECURSIVE Cat(_, _, _, _)
Cat(f, a, fs, i) == IF i > Len(a) THEN fs[i] ELSE fs[i] \o Ext(f, a[i]) \o Cat(f, a, fs, i + 1)
RECURSIVE PosOf(_, _, _, _)        \* start (0-based offset) of the i-th extent
PosOf(f, a, fs, i) == IF i = 1 THEN Len(fs[1]) ELSE PosOf(f, a, fs, i - 1) + GensOf(f)[a[i - 1]].n + Len(fs[i])

JOpts(a) == {<<"zero", 0, "">>, <<"clear", 0, "">>}
            \cup {<<"act", i, m>> : i \in 1 .. Len(a), m \in {"torn", "intact", "tail"}}

Image(f, a, fs, jo) ==
  LET body == Cat(f, a, fs, 1)
      at(i) == DS + PosOf(f, a, fs, i)
      n(i) == GensOf(f)[a[i]].n
      torn(b) == jo[1] = "act" /\ jo[3] = "torn" /\ b >= at(jo[2]) /\ b < at(jo[2]) + n(jo[2])
      base == [b \in Blocks |-> IF b - DS + 1 <= Len(body) THEN body[b - DS + 1] ELSE Z]
      exts == IF jo[1] # "act" THEN <<>>
              ELSE IF jo[3] = "tail" THEN << <<at(jo[2]) + n(jo[2]) - 1, 1>> >>
              ELSE << <<at(jo[2]), n(jo[2])>> >>
  IN [blk |-> [b \in Blocks |->
                 IF ~torn(b) THEN base[b]
                 \* half-written extent: of two blocks the head arrived and the tail did not; a
                 \* single block is cut inside
                 ELSE IF n(jo[2]) = 1 THEN Xh ELSE IF b = at(jo[2]) THEN base[b] ELSE X],
      j |-> [s \in 0 .. 1 |-> IF jo[1] = "zero" THEN JZ
                              ELSE IF jo[1] = "clear" THEN (IF s = 0 THEN J(3, FALSE, <<>>) ELSE JZ)
                              ELSE (IF s = 0 THEN J(3, FALSE, <<>>) ELSE J(4, TRUE, exts))],
      m |-> [c \in 0 .. 1 |-> IF c = 0 THEN Mt(0, f, 0, 0) ELSE MZ]]

Fits(f, a, fs) == Len(Cat(f, a, fs, 1)) <= DE - DS
Valid(f, a, fs, jo) == jo[1] # "act" \/ jo[3] # "tail" \/ GensOf(f)[a[jo[2]]].n = 2
Sources(f) ==
  IF f = 3 THEN {Image(3, a, [i \in 1 .. (Len(a) + 1) |-> <<>>], <<"clear", 0, "">>) : a \in Arrs}
  ELSE UNION {UNION {{Image(f, a, fs, jo) : jo \in {x \in JOpts(a) : Valid(f, a, fs, x)}}
                       : fs \in {y \in Fills(a) : Fits(f, a, y)}} : a \in Arrs}

(* ------------------------------ file system ------------------------------ *)
NoFile == [present |-> FALSE, foreign |-> FALSE, img |-> EmptyImage]
Foreign == [present |-> TRUE, foreign |-> TRUE, img |-> EmptyImage]
NoRes == [ok |-> FALSE, err |-> "", amb |-> 0]

Init == /\ fmt \in 1 .. 3
        /\ src0 \in Sources(fmt)
        /\ allow = FALSE /\ pre = "none"
        /\ pc = "init" /\ fsSrc = src0
        /\ fsDst = NoFile /\ fsTmp = NoFile /\ res = NoRes
        /\ appeared = FALSE

\* the opt-in and the destination situation are chosen in a step of their own (so that the
\* workers share the work; the initial states are enumerated by one thread)
Choose == /\ pc = "init"
          /\ allow' \in BOOLEAN
          /\ pre' \in {"none", "before", "during"}
          /\ fsDst' = IF pre' = "before" THEN Foreign ELSE NoFile
          /\ appeared' = (pre' = "before")
          /\ pc' = "start"
          /\ UNCHANGED <<fmt, src0, fsSrc, fsTmp, res>>

Done(ok, err, amb) == pc' = "done" /\ res' = [ok |-> ok, err |-> err, amb |-> amb]
Cleanup == fsTmp' = IF Mut = "LeaveTemp" THEN fsTmp ELSE NoFile

\* the source is opened (read-only) and judged first, then the destination path is checked and
\* the sibling temporary file created
Start == /\ pc = "start"
         /\ LET m == MigrateX(fsSrc, GensOf(fmt), NK, allow, Now, Mut) IN
            IF ~m.ok THEN Done(FALSE, m.err, 0) /\ UNCHANGED <<fsDst, fsTmp>>
            ELSE IF fsDst.present THEN Done(FALSE, "DestinationExists", 0) /\ UNCHANGED <<fsDst, fsTmp>>
            ELSE /\ fsTmp' = [present |-> TRUE, foreign |-> FALSE, img |-> EmptyImage]
                 /\ pc' = "temp" /\ UNCHANGED <<fsDst, res>>
         /\ UNCHANGED <<fmt, src0, allow, pre, fsSrc, appeared>>

\* copy + flush + verification into the temporary file; meanwhile somebody else may create the
\* destination
Copy == /\ pc = "temp"
        /\ LET m == MigrateX(fsSrc, GensOf(fmt), NK, allow, Now, Mut) IN
           fsTmp' = [fsTmp EXCEPT !.img = m.dst]
        /\ fsDst' = IF pre = "during" THEN Foreign ELSE fsDst
        /\ appeared' = (appeared \/ pre = "during")
        /\ pc' = "copied"
        /\ UNCHANGED <<fmt, src0, allow, pre, fsSrc, res>>

\* publication by hard link: fails when the name is taken; then the temporary name is removed
Publish == /\ pc = "copied"
           /\ LET m == MigrateX(fsSrc, GensOf(fmt), NK, allow, Now, Mut) IN
              IF fsDst.present /\ Mut # "Overwrite"
              THEN Done(FALSE, "DestinationExists", 0) /\ Cleanup /\ UNCHANGED fsDst
              ELSE /\ fsDst' = [present |-> TRUE, foreign |-> FALSE, img |-> fsTmp.img]
                   /\ Cleanup /\ Done(TRUE, "", m.amb)
           /\ UNCHANGED <<fmt, src0, allow, pre, fsSrc, appeared>>

Next == Choose \/ Start \/ Copy \/ Publish
Spec == Init /\ [][Next]_vars

(* ------------------------------ properties ------------------------------ *)
AtEnd == pc = "done"
G == GensOf(fmt)

MigrationFaithful ==
  (AtEnd /\ res.ok) => /\ fsDst.present /\ ~fsDst.foreign
                       /\ Faithful(src0, fsDst.img, G, K, allow)
                       /\ DstIsV3(fsDst.img)
                       /\ DstMeta(src0, fsDst.img, G, K, allow)
NonDestructive ==
  /\ fsSrc = src0
  \* a destination somebody else created is still his, untouched, and the migration said no
  /\ appeared => fsDst = Foreign
  /\ (AtEnd /\ appeared) => ~res.ok
FailureClean ==
  AtEnd => /\ ~fsTmp.present
           /\ (~res.ok /\ pre = "none") => ~fsDst.present
AmbiguityRule ==
  (AtEnd /\ pre = "none") =>
     /\ (~allow /\ AmbiguousFails(src0, G, K)) => ~res.ok
     /\ (allow /\ AmbiguousAllowed(src0, G, K)) => (res.ok /\ res.amb = RecoverRO(src0, G, K, TRUE).amb)
MigrateTotal ==
  (AtEnd /\ pre = "none") =>
     LET r == RecoverRO(src0, G, K, allow) IN (r.ok /\ r.ver < 3) => res.ok
=============================================================================

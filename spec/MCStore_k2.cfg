CONSTANTS
  NKeys = 2  MaxT = 4  TtlUnit = 2  NearTop = 1
  Configs <- ConfMemLimit
  OpKinds <- FewKinds
  TLt <- NLt  TSucc <- NSucc  TAddTtl <- NAddTtl  TRemSecs <- NRemSecs
  TZero = 0  TtlNone = 0  TMaxV = 4
  Overhead = 10  MaxValueLen = 100  MaxKeyLen = 50  RecovMaxV1 = 40  RecovMax = 30
SPECIFICATION Spec
CONSTRAINT Bounded
INVARIANTS TypeOK ErrUnchanged LWW ReadLatest NoUseAfterExpiry NoEarlyLoss ExpiryExact TtlKeepsValue
           AutoIncreases ClockBoundsFloor MemBound RangeExact

---------------------------- MODULE MCStoreConc ----------------------------
(* StoreConc.tla over a family of programs read from the file named by the environment variable *)
(* SCPROGS (ndjson, one program per line; written by lib/scengine.py from the same op-variant      *)
(* alphabet the schedule enumerator of lib/concengine.py uses).                                    *)
EXTENDS StoreConc, IOUtils
ProgsFromEnv == ndJsonDeserialize(IOEnv.SCPROGS)
=============================================================================

CONSTANTS DS = 16  DE = 24  Mut = "none"  MaxFill = 2
SPECIFICATION Spec
INVARIANTS MigrationFaithful NonDestructive FailureClean AmbiguityRule MigrateTotal
CHECK_DEADLOCK FALSE

-------------------------------- MODULE Store --------------------------------
(***************************************************************************)
(* The sequential last-writer-wins contract of FeoxStore (properties C01,  *)
(* C11, C12, C13, C14; the reference every other model refines).           *)
(*                                                                         *)
(* One operator per public call maps (configuration, current record of the *)
(* key, clock, accounting, arguments) to the SET of outcomes the contract  *)
(* allows.  The set has more than one element only where the listed        *)
(* properties are silent (an expired record may or may not have been       *)
(* reaped; an automatic timestamp is any value inside its bounds).         *)
(*                                                                         *)
(* Time is abstract: the module is instantiated with small naturals for    *)
(* exhaustive model checking (MCStore) and with exact 64-bit arithmetic    *)
(* (U64 limbs) for validating recorded executions (TraceStore).            *)
(***************************************************************************)
EXTENDS Naturals, Integers, Sequences, FiniteSets

CONSTANTS TLt(_, _),        \* strict order on timestamps
          TSucc(_),         \* saturating successor
          TAddTtl(_, _),    \* base + ttl seconds, saturating (ttl a natural > 0)
          TRemSecs(_, _),   \* (exp - now) div one second, as a time value (exp > now)
          TZero, TMaxV,
          TtlNone           \* the ttl argument meaning "no expiry" (0 seconds)

CONSTANTS Overhead,         \* fixed per-record overhead in bytes
          MaxValueLen,      \* 4 MiB
          MaxKeyLen,        \* 100 KiB
          RecovMaxV1, RecovMax   \* longest key a persistent store can recover (v1 / v2,v3)

TLe(a, b) == a = b \/ TLt(a, b)
TMax2(a, b) == IF TLt(a, b) THEN b ELSE a

(* ------------------------------- values -------------------------------- *)
\* k: "b" opaque bytes (id), "i" 8-byte counter (n), "d" counter document {"n":n}, "none"
NoVal == [k |-> "none", id |-> 0, len |-> 0, n |-> 0]
IsCounter(v) == v.k = "i"
IsDoc(v) == v.k = "d"
CounterVal(x) == [k |-> "i", id |-> 0, len |-> 8, n |-> x]
DocLen(n) == IF n < 10 THEN 7 ELSE IF n < 100 THEN 8 ELSE 9
DocVal(x) == [k |-> "d", id |-> 0, len |-> DocLen(x), n |-> x]
\* a counter document with a padding member: {"n":x,"p":"aaa...a"} (`pad` a's; 7 more bytes of syntax); id = pad
DocValP(x, pad) == [k |-> "d", id |-> pad, len |-> DocLen(x) + (IF pad = 0 THEN 0 ELSE 7 + pad), n |-> x]
ValueSizeOK(v) == v.len > 0 /\ v.len <= MaxValueLen

(* ------------------------------- records ------------------------------- *)
NoRec == [p |-> FALSE, ts |-> TZero, exp |-> TZero, val |-> NoVal]
Rec(ts, exp, val) == [p |-> TRUE, ts |-> ts, exp |-> exp, val |-> val]

\* cfg: [pers, ttl, cache : BOOLEAN, fmt : 1..3, lim : Int (-1 = unlimited)]
Expired(cfg, r, now) == cfg.ttl /\ r.p /\ r.exp # TZero /\ TLt(r.exp, now)
Live(cfg, r, now) == r.p /\ ~Expired(cfg, r, now)
ExpOf(ts, ttl) == IF ttl = TtlNone THEN TZero ELSE TAddTtl(ts, ttl)
RecSize(klen, r) == IF r.p THEN Overhead + klen + r.val.len ELSE 0

(* ------------------------------- results ------------------------------- *)
R(tag, n, val, tt) == [tag |-> tag, n |-> n, val |-> val, tt |-> tt]
Err(e) == R(e, 0, NoVal, TZero)
OkBool(b) == R("bool", IF b THEN 1 ELSE 0, NoVal, TZero)
OkUnit == R("unit", 0, NoVal, TZero)
OkVal(v) == R("val", 0, v, TZero)
OkNum(x) == R("num", x, NoVal, TZero)
IsErr(r) == r.tag \notin {"bool", "unit", "val", "num", "none", "secs", "list"}

(* An outcome: result, new record of the key, whether an automatic timestamp was drawn,
   and the explicit timestamp folded into the clock (TZero = none). *)
Out(res, rec, draw, fold) == [res |-> res, rec |-> rec, draw |-> draw, fold |-> fold]

KeySizeBad(klen) == klen = 0 \/ klen > MaxKeyLen
NewKeyBad(cfg, klen) ==
  \/ KeySizeBad(klen)
  \/ /\ cfg.pers
     /\ klen > RecovMax
     /\ ~(cfg.fmt = 1 /\ klen <= RecovMaxV1)
TtlWriteUnsupported(cfg) == cfg.pers /\ cfg.fmt = 1
NoRoom(cfg, mem, need) == cfg.lim >= 0 /\ need > 0 /\ mem + need > cfg.lim
Growth(klen, cur, newval) ==
  LET new == Overhead + klen + newval.len  old == RecSize(klen, cur)
  IN IF new > old THEN new - old ELSE 0

\* Where the code removes an expired record on its way to an error, or leaves it, both are fine.
MaybeReaped(cfg, cur, now) == IF Expired(cfg, cur, now) THEN {cur, NoRec} ELSE {cur}

(***************************************************************************)
(* insert / insert_with_ttl (`withTtl` tells which entry point).           *)
(* auto: no explicit timestamp; t: the timestamp the write carries.        *)
(***************************************************************************)
InsertOut(cfg, cur, now, mem, klen, v, auto, t, ttl, withTtl) ==
  IF withTtl /\ ~cfg.ttl THEN {Out(Err("TtlNotEnabled"), cur, FALSE, TZero)}
  ELSE IF withTtl /\ TtlWriteUnsupported(cfg) THEN {Out(Err("Unsupported"), cur, FALSE, TZero)}
  ELSE IF NewKeyBad(cfg, klen) THEN {Out(Err("InvalidKeySize"), cur, FALSE, TZero)}
  ELSE IF ~ValueSizeOK(v) THEN {Out(Err("InvalidValueSize"), cur, FALSE, TZero)}
  ELSE
    LET exp == IF ttl # TtlNone /\ cfg.ttl THEN ExpOf(t, ttl) ELSE TZero
        new == Rec(t, exp, v)
    IN IF cur.p
       THEN IF TLe(t, cur.ts) THEN {Out(Err("OlderTimestamp"), cur, auto, TZero)}
            ELSE IF NoRoom(cfg, mem, Growth(klen, cur, v))
                 THEN {Out(Err("OutOfMemory"), cur, auto, TZero)}
            ELSE {Out(OkBool(FALSE), new, auto, IF auto THEN TZero ELSE t)}
       ELSE IF NoRoom(cfg, mem, Overhead + klen + v.len)
            THEN {Out(Err("OutOfMemory"), cur, auto, TZero)}
            ELSE {Out(OkBool(TRUE), new, auto, IF auto THEN TZero ELSE t)}

GetOut(cfg, cur, now, klen) ==
  IF KeySizeBad(klen) THEN {Out(Err("InvalidKeySize"), cur, FALSE, TZero)}
  ELSE IF Live(cfg, cur, now) THEN {Out(OkVal(cur.val), cur, FALSE, TZero)}
  ELSE {Out(Err("KeyNotFound"), cur, FALSE, TZero)}

GetSizeOut(cfg, cur, now, klen) ==
  IF KeySizeBad(klen) THEN {Out(Err("InvalidKeySize"), cur, FALSE, TZero)}
  ELSE IF cur.p THEN {Out(OkNum(cur.val.len), cur, FALSE, TZero)}
  ELSE {Out(Err("KeyNotFound"), cur, FALSE, TZero)}

ContainsOut(cfg, cur, now, klen) == {Out(OkBool(cur.p), cur, FALSE, TZero)}

DeleteOut(cfg, cur, now, klen, auto, t) ==
  IF KeySizeBad(klen) THEN {Out(Err("InvalidKeySize"), cur, FALSE, TZero)}
  ELSE IF ~cur.p THEN {Out(Err("KeyNotFound"), cur, auto, TZero)}
  ELSE IF TLe(t, cur.ts) THEN {Out(Err("OlderTimestamp"), cur, auto, TZero)}
  ELSE {Out(OkUnit, NoRec, auto, IF auto THEN TZero ELSE t)}

(* compare_and_swap: never compares an expired value; the timestamp is drawn only after
   the comparison succeeded. *)
CasOut(cfg, cur, now, mem, klen, expected, v, auto, t, ttl) ==
  IF ttl # TtlNone /\ TtlWriteUnsupported(cfg) THEN {Out(Err("Unsupported"), cur, FALSE, TZero)}
  ELSE IF NewKeyBad(cfg, klen) THEN {Out(Err("InvalidKeySize"), cur, FALSE, TZero)}
  ELSE IF ~ValueSizeOK(v) THEN {Out(Err("InvalidValueSize"), cur, FALSE, TZero)}
  ELSE IF ~Live(cfg, cur, now) \/ cur.val # expected THEN {Out(OkBool(FALSE), cur, FALSE, TZero)}
  ELSE IF TLe(t, cur.ts) THEN {Out(Err("OlderTimestamp"), cur, auto, TZero)}
  ELSE IF NoRoom(cfg, mem, Growth(klen, cur, v)) THEN {Out(Err("OutOfMemory"), cur, auto, TZero)}
  ELSE {Out(OkBool(TRUE), Rec(t, ExpOf(t, ttl), v), auto, IF auto THEN TZero ELSE t)}

(* atomic_increment: an expired counter is treated as absent (never v + d); the lazily
   retired generation leaves `now` as a lower bound for the re-creation's timestamp.
   sum: the saturated v + d supplied by the instantiation (64-bit in traces). *)
IncrOut(cfg, cur, now, mem, klen, d, sum, auto, t, ttl) ==
  IF ttl # TtlNone /\ TtlWriteUnsupported(cfg) THEN {Out(Err("Unsupported"), cur, FALSE, TZero)}
  ELSE IF NewKeyBad(cfg, klen) THEN {Out(Err("InvalidKeySize"), cur, FALSE, TZero)}
  ELSE IF ~auto /\ cur.p /\ TLe(t, cur.ts) THEN {Out(Err("OlderTimestamp"), cur, FALSE, TZero)}
  ELSE IF Expired(cfg, cur, now) \/ ~cur.p THEN
       \* (re-)creation
       \* the lazy retirement folds `now` into the key's clock shard
       IF Expired(cfg, cur, now) /\ ~auto /\ TLe(t, now)
       THEN {Out(Err("OlderTimestamp"), c, FALSE, now) : c \in MaybeReaped(cfg, cur, now)}
       ELSE IF NoRoom(cfg, mem - RecSize(klen, cur), Overhead + klen + 8)
       THEN {Out(Err("OutOfMemory"), c, auto, IF cur.p THEN now ELSE TZero)
               : c \in MaybeReaped(cfg, cur, now)}
       ELSE {Out(OkNum(d), Rec(t, ExpOf(t, ttl), CounterVal(d)), auto,
                 IF auto THEN TZero ELSE t)}
  ELSE IF cur.val.len # 8 THEN {Out(Err("InvalidOperation"), cur, FALSE, TZero)}
  ELSE IF TLe(t, cur.ts) THEN {Out(Err("OlderTimestamp"), cur, auto, TZero)}
  ELSE {Out(OkNum(sum), Rec(t, ExpOf(t, ttl), CounterVal(sum)), auto, IF auto THEN TZero ELSE t)}

InsertIfAbsentOut(cfg, cur, now, mem, klen, v, t) ==
  IF NewKeyBad(cfg, klen) THEN {Out(Err("InvalidKeySize"), cur, FALSE, TZero)}
  ELSE IF ~ValueSizeOK(v) THEN {Out(Err("InvalidValueSize"), cur, FALSE, TZero)}
  ELSE IF cur.p THEN {Out(OkBool(FALSE), cur, FALSE, TZero)}
  ELSE IF NoRoom(cfg, mem, Overhead + klen + v.len) THEN {Out(Err("OutOfMemory"), cur, FALSE, TZero)}
  ELSE {Out(OkBool(TRUE), Rec(t, TZero, v), TRUE, TZero)}

(* json_patch restricted to counter documents: patch = [test |-> n or -1, set |-> m].
   The patched value never derives from an expired value; expiry is dropped. *)
PatchOut(cfg, cur, now, mem, klen, patch, auto, t) ==
  IF KeySizeBad(klen) THEN {Out(Err("InvalidKeySize"), cur, FALSE, TZero)}
  ELSE IF ~cur.p THEN {Out(Err("KeyNotFound"), cur, auto, TZero)}
  ELSE IF TLe(t, cur.ts) THEN {Out(Err("OlderTimestamp"), cur, auto, TZero)}
  ELSE IF Expired(cfg, cur, now) THEN {Out(Err("KeyNotFound"), cur, auto, TZero)}
  ELSE IF ~IsDoc(cur.val) \/ (patch.test >= 0 /\ patch.test # cur.val.n)
       THEN {Out(Err("JsonPatchError"), cur, auto, TZero)}
  ELSE IF NewKeyBad(cfg, klen) THEN {Out(Err("InvalidKeySize"), cur, auto, TZero)}
  \* the RESULT of the patch is a value like any other: the size limit applies to it (only a patch can grow a value)
  ELSE IF DocValP(patch.set, cur.val.id).len > MaxValueLen THEN {Out(Err("InvalidValueSize"), cur, auto, TZero)}
  ELSE IF NoRoom(cfg, mem, Growth(klen, cur, DocValP(patch.set, cur.val.id)))
       THEN {Out(Err("OutOfMemory"), cur, auto, TZero)}
  ELSE {Out(OkUnit, Rec(t, TZero, DocValP(patch.set, cur.val.id)), auto, IF auto THEN TZero ELSE t)}

(* update_ttl / persist: the expiry is relative to NOW, the value is kept, the version moves
   past the old one; an expired key is not resurrected. *)
UpdateTtlOut(cfg, cur, now, klen, ttl, t) ==
  IF ~cfg.ttl THEN {Out(Err("TtlNotEnabled"), cur, FALSE, TZero)}
  ELSE IF TtlWriteUnsupported(cfg) THEN {Out(Err("Unsupported"), cur, FALSE, TZero)}
  ELSE IF KeySizeBad(klen) THEN {Out(Err("InvalidKeySize"), cur, FALSE, TZero)}
  ELSE IF ~Live(cfg, cur, now) THEN {Out(Err("KeyNotFound"), cur, FALSE, TZero)}
  ELSE IF cur.ts = TMaxV THEN {Out(Err("OlderTimestamp"), cur, TRUE, TZero)}
  ELSE {Out(OkUnit, Rec(t, ExpOf(now, ttl), cur.val), TRUE, TZero)}

GetTtlOut(cfg, cur, now, klen) ==
  IF ~cfg.ttl THEN {Out(Err("TtlNotEnabled"), cur, FALSE, TZero)}
  ELSE IF KeySizeBad(klen) THEN {Out(Err("InvalidKeySize"), cur, FALSE, TZero)}
  ELSE IF ~cur.p THEN {Out(Err("KeyNotFound"), cur, FALSE, TZero)}
  ELSE IF cur.exp = TZero THEN {Out(R("none", 0, NoVal, TZero), cur, FALSE, TZero)}
  ELSE IF TLe(cur.exp, now) THEN {Out(R("secs", 0, NoVal, TZero), cur, FALSE, TZero)}
  ELSE {Out(R("secs", 0, NoVal, TRemSecs(cur.exp, now)), cur, FALSE, TZero)}

(***************************************************************************)
(* Automatic timestamps (C12).  floor: the largest timestamp ever accepted  *)
(* or recovered for the key; seen: an upper bound of every clock shard.     *)
(* An automatic timestamp t satisfies floor < t <= max(now, seen + 1).      *)
(***************************************************************************)
AutoBound(now, seen) == TMax2(now, TSucc(seen))
AutoOK(t, floor, now, seen) == TLt(floor, t) /\ TLe(t, AutoBound(now, seen))
\* update_ttl additionally moves past the current version
SeenAfter(seen, now, draw, fold, accTs) ==
  LET s1 == IF draw THEN AutoBound(now, seen) ELSE seen
      s2 == IF fold # TZero /\ fold # TMaxV THEN TMax2(s1, fold) ELSE s1
  IN TMax2(s2, IF accTs = TMaxV THEN TZero ELSE accTs)

(* range_query over the ordered key universe 1..N: the `lim` smallest live keys in lo..hi *)
RECURSIVE RangeFrom(_, _, _, _, _, _)
RangeFrom(cfg, kv, now, i, hi, lim) ==
  IF lim = 0 \/ i > hi THEN <<>>
  ELSE IF Live(cfg, kv[i], now)
       THEN <<[k |-> i, val |-> kv[i].val]>> \o RangeFrom(cfg, kv, now, i + 1, hi, lim - 1)
       ELSE RangeFrom(cfg, kv, now, i + 1, hi, lim)
RangeResult(cfg, kv, now, lo, hi, lim) == RangeFrom(cfg, kv, now, lo, hi, lim)

(* accounting (C13) *)
RECURSIVE SumSizes(_, _, _)
SumSizes(kv, klen, i) == IF i = 0 THEN 0 ELSE RecSize(klen[i], kv[i]) + SumSizes(kv, klen, i - 1)
MemOf(kv, klen, n) == SumSizes(kv, klen, n)
CountOf(kv, n) == Cardinality({i \in 1 .. n : kv[i].p})
TtlCountOf(kv, n) == Cardinality({i \in 1 .. n : kv[i].p /\ kv[i].exp # TZero})
=============================================================================

\* quick tier, fresh device with the repaired start-up (fsync after the two metadata writes); expected: no violation
\* run: tlc -workers 8 -deadlock -noGenerateSpecTE -config MCWriteBehind_quick.cfg MCWriteBehind.tla   (inside /verif/spec, private -metadir)
CONSTANTS
  DS = 16  DE = 19
  NK = 2  MaxGen = 2  MaxTs = 2  Sizes = {1, 2}  JMax = 1  MaxFlush = 2
  RetireAny = TRUE  GhostTails = TRUE  Tears = 2
  FreshStart = TRUE  InitSync = TRUE
  SyncIntent = TRUE  SyncData = TRUE  SyncClear = TRUE
  JournalAll = TRUE  SuccTest = TRUE  SyncMarkers = TRUE  ClearSlot = TRUE  FlushGivesUp = TRUE
SPECIFICATION Spec
INVARIANTS TypeOK CrashSafe Partition ExactAtQuiescence AckMeansDurable JournalClearAtAck LayoutAtAck MetaMatches
CHECK_DEADLOCK FALSE

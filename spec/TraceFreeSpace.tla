--------------------------- MODULE TraceFreeSpace ---------------------------
(* Validates recorded executions of the real FreeSpaceManager against FreeSpace.tla.     *)
(* Every event is applied as a fact (R6); the verdict comes from the property formulas   *)
(* AllocOK / ReleaseRejectAtomic (action properties of FreeSpace) and ReportOK below.    *)
EXTENDS FreeSpace, Json, IOUtils

VARIABLES l,     \* index of the next event
          rep    \* statistics reported by the implementation after the last call

Rec == ndJsonDeserialize(IOEnv.TRACE)
tvars == <<free, last, l, rep>>

TInit == /\ free = Blocks /\ last = <<"init", 0, 0, "ok", 0>> /\ l = 1
         /\ rep = Stats(Blocks)

Ev == Rec[l]
Reported(e) == <<e.total, e.largest, e.chunks>>

TReset == /\ Ev.e = "reset"
          /\ free' = Blocks /\ last' = <<"reset", 0, 0, "ok", 0>>

TAlloc == /\ Ev.e = "alloc"
          /\ IF Ev.res = "ok"
             THEN /\ free' = free \ Range(Ev.start, Ev.n)
                  /\ last' = <<"alloc", Ev.n, 0, "ok", Ev.start>>
             ELSE /\ free' = free
                  /\ last' = <<"alloc", Ev.n, 0, Ev.res, 0>>

TRelease == /\ Ev.e = "release"
            /\ IF Ev.res = "ok"
               THEN free' = free \cup (Range(Ev.s, Ev.c) \cap Blocks)
               ELSE free' = free
            /\ last' = <<"release", Ev.s, Ev.c, Ev.res, 0>>

TNext == /\ l <= Len(Rec)
         /\ l' = l + 1
         /\ rep' = Reported(Ev)
         /\ (TReset \/ TAlloc \/ TRelease)

TSpec == TInit /\ [][TNext]_tvars

(* C06: after every call the reported free total, largest run and run count equal those
   of the true free set with all adjacent runs merged. *)
ReportOK == rep = Stats(free)

(* Errors are of the documented kind (an allocation error only for a zero request or no
   fitting run; a release error only for an invalid or overlapping range). *)
ErrKindOK ==
  /\ (last[1] = "alloc" /\ last[4] # "ok") => last[4] \in {"InvalidArgument", "OutOfSpace"}
  /\ (last[1] = "release" /\ last[4] # "ok") => last[4] \in {"InvalidArgument", "DuplicateKey"}

TraceAccepted ==
  IF TLCGet("stats").diameter = Len(Rec) + 1 THEN TRUE
  ELSE Print(<<"TRACE-REJECTED at event", TLCGet("stats").diameter>>, FALSE)
=============================================================================

CONSTANTS NS = 2 NW = 2 MaxEnt = 2 MaxFaults = 1 MaxSoft = 0 MaxPins = 1 FullAt = 2 NCallers = 1 MaxFinal = 4 ChanCap = 1
  AskAll = FALSE TickAll = TRUE TickWhenRet = TRUE RequeueFront = TRUE RetryAfterRetire = TRUE WaitTrue = TRUE
SPECIFICATION Spec
INVARIANTS TypeOK
PROPERTIES Drains FlushTerminates ClosesCleanly
CHECK_DEADLOCK FALSE

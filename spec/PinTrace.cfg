SPECIFICATION PSpec
INVARIANTS NoOverwriteWhilePinned
POSTCONDITION TraceAccepted
CHECK_DEADLOCK FALSE

SPECIFICATION PSpec
INVARIANTS NoOverwriteWhilePinned RetireProtocol
POSTCONDITION TraceAccepted
CHECK_DEADLOCK FALSE

\* seeded fault "LeaveTemp" of the migration model: TLC must report a violation of FailureClean
CONSTANTS DS = 16  DE = 24  Mut = "LeaveTemp"  MaxFill = 1
SPECIFICATION Spec
INVARIANTS FailureClean
CHECK_DEADLOCK FALSE

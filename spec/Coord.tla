------------------------------- MODULE Coord -------------------------------
(* The sharded write-behind HANDSHAKE of src/storage/write_buffer.rs: shard queues, the workers that own
   them (worker w owns the shards s with s % NW = w), the bounded request channels, the periodic
   coordinator, force_flush (the body of FeoxStore::flush) and shutdown with the workers' final flush.

   WriteBehind.tla models ONE shard and ONE worker down to the device; this module is its complement:
   several shards / workers / callers, the device abstracted to "written" (done) and "retired".  One
   action = one critical section of the code (a shard-mutex section, a channel operation, a retirement
   pass under retq.flush) or the code between two of them.

   Entries: "W" = Insert/Update entry (a record to write), "D" = Delete entry (an extent to retire).
     add_entries         Enq            (under the shard mutex; trigger_flush = try_send when full)
     drain_entries       WDrain         (under the shard mutex)
     process_write_batch WBatch         (D entries go to the retirement queue FIRST, whatever happens to
                                         the batch; W entries: written / soft retry / failed -> requeued
                                         in front)
     flush_worker_shards WRecv..WAfter  (visits EVERY owned shard even after a failure; result Ok(false),
                                         Ok(true) = "ask me again", Err)
     flush_pending_deletions  RP        (one retirement pass under retq.flush: all-or-nothing here, blocked
                                         while a reader pins an extent)
     coordinator         Tick           (count of every owned shard; worker 0 also for pending retirements;
                                         try_send: dropped when the channel is full)
     force_flush         FFBegin FFSend FFWait FFRetire FFReturn
     drop / close        Close, WSeeShutdown, final flush loop (same worker steps with final = TRUE)

   Switch constants = design mutations; TRUE everywhere is the code.  Each FALSE reproduces the design of a
   seeded change that an earlier round caught only through a story or a workload:
     AskAll            force_flush asks every worker (FALSE: only owners of a non-empty shard    = S8-C09)
     TickAll           coordinator looks at every owned shard (FALSE: only at shard w            = M20)
     TickWhenRet       pending retirements do not stop the wake loop (FALSE: break after worker 0 = S8-C19)
     RequeueFront      a failed batch goes back in front of its shard (FALSE: it is dropped)
     RetryAfterRetire  a retirement pass with retries makes force_flush ask every worker again
     WaitTrue          Ok(true) keeps the worker in force_flush's pending set                       *)
EXTENDS Naturals, Sequences, FiniteSets, TLC

CONSTANTS NS, NW, MaxEnt, MaxFaults, MaxSoft, MaxPins, FullAt, NCallers, MaxFinal, ChanCap,
          AskAll, TickAll, TickWhenRet, RequeueFront, RetryAfterRetire, WaitTrue

Shards  == 0 .. (NS - 1)
Workers == 0 .. (NW - 1)
Callers == 1 .. NCallers
Ent     == 1 .. MaxEnt
Owner(s) == s % NW
Owned(w) == {s \in Shards : Owner(s) = w}

VARIABLES nxt, kind, sh, q, hand, done, retq, retired, chan, wk, relcnt, resp, ff, pinned, budget, shutdown

vars == <<nxt, kind, sh, q, hand, done, retq, retired, chan, wk, relcnt, resp, ff, pinned, budget, shutdown>>

Range(f) == {f[i] : i \in DOMAIN f}
Min(S)   == CHOOSE x \in S : \A y \in S : x <= y
SelectSeq2(s, P(_)) == SelectSeq(s, P)

NoReq   == [c |-> 0, defer |-> FALSE]
IdleWk  == [pc |-> "recv", req |-> NoReq, todo |-> {}, cur |-> 0, err |-> "none", retries |-> FALSE, rel0 |-> 0,
            res |-> "none", final |-> FALSE, ftry |-> 0, failed |-> FALSE]
IdleFF  == [pc |-> "idle", pw |-> {}, tosend |-> {}, snap |-> {}]

Init ==
  /\ nxt = 1 /\ kind = [e \in Ent |-> "W"] /\ sh = [e \in Ent |-> 0]
  /\ q = [s \in Shards |-> <<>>] /\ hand = [w \in Workers |-> <<>>]
  /\ done = {} /\ retq = {} /\ retired = {}
  /\ chan = [w \in Workers |-> <<>>] /\ wk = [w \in Workers |-> IdleWk]
  /\ relcnt = 0 /\ resp = [c \in Callers |-> [w \in Workers |-> "none"]]
  /\ ff = [c \in Callers |-> IdleFF]
  /\ pinned = FALSE /\ budget = [faults |-> 0, softs |-> 0, pins |-> 0]
  /\ shutdown = FALSE

TrySend(ch, w, r) == IF Len(ch[w]) < ChanCap THEN [ch EXCEPT ![w] = Append(@, r)] ELSE ch

(* ---- clients ---- *)
Enq(s, k) ==
  /\ ~shutdown /\ nxt <= MaxEnt
  /\ kind' = [kind EXCEPT ![nxt] = k] /\ sh' = [sh EXCEPT ![nxt] = s]
  /\ q' = [q EXCEPT ![s] = Append(@, nxt)]
  /\ nxt' = nxt + 1
  /\ chan' = IF Len(q[s]) + 1 >= FullAt THEN TrySend(chan, Owner(s), NoReq) ELSE chan
  /\ UNCHANGED <<hand, done, retq, retired, wk, relcnt, resp, ff, pinned, budget, shutdown>>

Pin   == /\ ~pinned /\ ~shutdown /\ budget.pins < MaxPins /\ pinned' = TRUE /\ budget' = [budget EXCEPT !.pins = @ + 1]
         /\ UNCHANGED <<nxt, kind, sh, q, hand, done, retq, retired, chan, wk, relcnt, resp, ff, shutdown>>
Unpin == /\ pinned /\ pinned' = FALSE
         /\ UNCHANGED <<nxt, kind, sh, q, hand, done, retq, retired, chan, wk, relcnt, resp, ff, budget, shutdown>>

(* one retirement pass under retq.flush: [retq', retired', relcnt', retries] *)
RP == IF retq = {} THEN [rq |-> retq, rt |-> retired, rc |-> relcnt, retries |-> FALSE]
      ELSE IF pinned THEN [rq |-> retq, rt |-> retired, rc |-> relcnt, retries |-> TRUE]
      ELSE [rq |-> {}, rt |-> retired \cup retq, rc |-> relcnt + Cardinality(retq), retries |-> FALSE]

(* ---- workers ---- *)
WRecv(w) ==
  /\ wk[w].pc = "recv" /\ chan[w] # <<>>
  /\ wk' = [wk EXCEPT ![w] = [IdleWk EXCEPT !.pc = "shard", !.req = Head(chan[w]), !.todo = Owned(w), !.rel0 = relcnt]]
  /\ chan' = [chan EXCEPT ![w] = Tail(@)]
  /\ UNCHANGED <<nxt, kind, sh, q, hand, done, retq, retired, relcnt, resp, ff, pinned, budget, shutdown>>

WSeeShutdown(w) ==
  /\ wk[w].pc = "recv" /\ shutdown
  /\ wk' = [wk EXCEPT ![w] = [IdleWk EXCEPT !.pc = "shard", !.todo = Owned(w), !.rel0 = relcnt, !.final = TRUE,
                                            !.ftry = wk[w].ftry]]
  /\ UNCHANGED <<nxt, kind, sh, q, hand, done, retq, retired, chan, relcnt, resp, ff, pinned, budget, shutdown>>

WDrain(w) ==
  /\ wk[w].pc = "shard" /\ wk[w].todo # {}
  /\ LET s == Min(wk[w].todo) IN
       IF q[s] = <<>>
       THEN /\ wk' = [wk EXCEPT ![w].todo = @ \ {s}]
            /\ UNCHANGED <<q, hand>>
       ELSE /\ hand' = [hand EXCEPT ![w] = q[s]]
            /\ q' = [q EXCEPT ![s] = <<>>]
            /\ wk' = [wk EXCEPT ![w].pc = "batch", ![w].cur = s]
  /\ UNCHANGED <<nxt, kind, sh, done, retq, retired, chan, relcnt, resp, ff, pinned, budget, shutdown>>

IsW(e) == kind[e] = "W"
IsD(e) == kind[e] = "D"
\* outcome of a batch: R = the W entries that go back in front of the shard; e = error class
BatchDone(w, R, e, soft) ==
  LET s  == wk[w].cur
      Ws == {x \in Range(hand[w]) : IsW(x)}
      Ds == {x \in Range(hand[w]) : IsD(x)}
      back == SelectSeq(hand[w], LAMBDA x : x \in R)
  IN /\ retq' = retq \cup Ds
     /\ done' = done \cup (Ws \ R)
     /\ q' = [q EXCEPT ![s] = IF RequeueFront \/ soft THEN back \o @ ELSE @]
     /\ hand' = [hand EXCEPT ![w] = <<>>]
     /\ wk' = [wk EXCEPT ![w].pc = "shard", ![w].todo = @ \ {s},
                         ![w].retries = @ \/ R # {},
                         ![w].err = IF @ = "none" THEN e ELSE @]
WBatch(w) ==
  /\ wk[w].pc = "batch"
  /\ LET Ws == {x \in Range(hand[w]) : IsW(x)} IN
       \/ /\ BatchDone(w, {}, "none", FALSE) /\ UNCHANGED budget
       \/ /\ budget.softs < MaxSoft /\ Ws # {}
          /\ \E R \in (SUBSET Ws) \ {{}} : BatchDone(w, R, "none", TRUE)
          /\ budget' = [budget EXCEPT !.softs = @ + 1]
       \/ /\ budget.faults < MaxFaults /\ Ws # {}
          /\ \E e \in {"io", "nospace"} : BatchDone(w, Ws, e, FALSE)
          /\ budget' = [budget EXCEPT !.faults = @ + 1]
  /\ UNCHANGED <<nxt, kind, sh, retired, chan, relcnt, resp, ff, pinned, shutdown>>

WAfter(w) ==
  /\ wk[w].pc = "shard" /\ wk[w].todo = {}
  /\ LET r == RP
         flushRet == wk[w].final \/ ~wk[w].req.defer IN
       IF wk[w].err = "nospace"
       THEN /\ retq' = r.rq /\ retired' = r.rt /\ relcnt' = r.rc
            /\ wk' = [wk EXCEPT ![w].pc = "respond", ![w].res = IF r.rc # wk[w].rel0 THEN "t" ELSE "err"]
       ELSE IF wk[w].err = "none" /\ flushRet
       THEN /\ retq' = r.rq /\ retired' = r.rt /\ relcnt' = r.rc
            /\ wk' = [wk EXCEPT ![w].pc = "respond", ![w].res = IF wk[w].retries \/ r.retries THEN "t" ELSE "f"]
       ELSE /\ UNCHANGED <<retq, retired, relcnt>>
            /\ wk' = [wk EXCEPT ![w].pc = "respond",
                                ![w].res = IF wk[w].err # "none" THEN "err" ELSE IF wk[w].retries THEN "t" ELSE "f"]
  /\ UNCHANGED <<nxt, kind, sh, q, hand, done, chan, resp, ff, pinned, budget, shutdown>>

\* requests left in the channel of a worker that exits: their response senders are dropped
Orphans(w) == {chan[w][i].c : i \in DOMAIN chan[w]} \ {0}
WRespond(w) ==
  /\ wk[w].pc = "respond"
  /\ IF ~wk[w].final
     THEN /\ resp' = IF wk[w].req.c # 0 THEN [resp EXCEPT ![wk[w].req.c][w] = wk[w].res] ELSE resp
          /\ wk' = [wk EXCEPT ![w] = [IdleWk EXCEPT !.ftry = wk[w].ftry]]
          /\ UNCHANGED chan
     ELSE IF wk[w].res = "f" \/ wk[w].ftry + 1 >= MaxFinal
     THEN /\ wk' = [wk EXCEPT ![w] = [IdleWk EXCEPT !.pc = "exited", !.failed = wk[w].res # "f"]]
          /\ resp' = [c \in Callers |-> IF c \in Orphans(w) /\ resp[c][w] = "none"
                                        THEN [resp[c] EXCEPT ![w] = "chanerr"] ELSE resp[c]]
          /\ chan' = [chan EXCEPT ![w] = <<>>]
     ELSE /\ wk' = [wk EXCEPT ![w] = [IdleWk EXCEPT !.pc = "shard", !.todo = Owned(w), !.rel0 = relcnt,
                                                     !.final = TRUE, !.ftry = wk[w].ftry + 1]]
          /\ UNCHANGED <<resp, chan>>
  /\ UNCHANGED <<nxt, kind, sh, q, hand, done, retq, retired, relcnt, ff, pinned, budget, shutdown>>

(* ---- coordinator ---- *)
Looks(w)   == IF TickAll THEN Owned(w) ELSE {w} \cap Shards
Pending(w) == \E s \in Looks(w) : q[s] # <<>>
Wants(w)   == /\ (Pending(w) \/ (w = 0 /\ retq # {}))
              /\ (TickWhenRet \/ retq = {} \/ w = 0)
Tick ==
  /\ ~shutdown
  /\ chan' = [w \in Workers |-> IF Wants(w) /\ Len(chan[w]) < ChanCap THEN Append(chan[w], NoReq) ELSE chan[w]]
  /\ UNCHANGED <<nxt, kind, sh, q, hand, done, retq, retired, wk, relcnt, resp, ff, pinned, budget, shutdown>>

(* ---- force_flush ---- *)
NonEmptyOwners == {w \in Workers : \E s \in Owned(w) : q[s] # <<>>}
FFBegin(c) ==
  /\ ff[c].pc = "idle" /\ ~shutdown
  /\ LET pw == IF AskAll THEN Workers ELSE NonEmptyOwners IN
       ff' = [ff EXCEPT ![c] = [pc |-> IF pw = {} THEN "retire" ELSE "send", pw |-> pw, tosend |-> pw,
                                snap |-> 1 .. (nxt - 1)]]
  /\ resp' = [resp EXCEPT ![c] = [w \in Workers |-> "none"]]
  /\ UNCHANGED <<nxt, kind, sh, q, hand, done, retq, retired, chan, wk, relcnt, pinned, budget, shutdown>>

FFSend(c) ==
  /\ ff[c].pc = "send" /\ ff[c].tosend # {}
  /\ LET w == Min(ff[c].tosend) IN
       IF wk[w].pc = "exited"
       THEN /\ ff' = [ff EXCEPT ![c].pc = "ret_err"] /\ UNCHANGED chan
       ELSE /\ Len(chan[w]) < ChanCap
            /\ chan' = [chan EXCEPT ![w] = Append(@, [c |-> c, defer |-> TRUE])]
            /\ ff' = [ff EXCEPT ![c].tosend = @ \ {w}, ![c].pc = IF ff[c].tosend = {w} THEN "wait" ELSE "send"]
  /\ UNCHANGED <<nxt, kind, sh, q, hand, done, retq, retired, wk, relcnt, resp, pinned, budget, shutdown>>

FFWait(c) ==
  /\ ff[c].pc = "wait" /\ \A w \in ff[c].pw : resp[c][w] # "none"
  /\ IF \E w \in ff[c].pw : resp[c][w] \in {"err", "chanerr"}
     THEN ff' = [ff EXCEPT ![c].pc = "ret_err"]
     ELSE ff' = [ff EXCEPT ![c].pc = "retire",
                           ![c].pw = IF WaitTrue THEN {w \in ff[c].pw : resp[c][w] = "t"} ELSE {}]
  /\ UNCHANGED <<nxt, kind, sh, q, hand, done, retq, retired, chan, wk, relcnt, resp, pinned, budget, shutdown>>

FFRetire(c) ==
  /\ ff[c].pc = "retire"
  /\ LET r  == RP
         pw == IF r.retries /\ RetryAfterRetire THEN Workers ELSE ff[c].pw IN
       /\ retq' = r.rq /\ retired' = r.rt /\ relcnt' = r.rc
       /\ ff' = [ff EXCEPT ![c].pc = IF pw = {} THEN "ret_ok" ELSE "send", ![c].pw = pw, ![c].tosend = pw]
  /\ resp' = [resp EXCEPT ![c] = [w \in Workers |-> "none"]]
  /\ UNCHANGED <<nxt, kind, sh, q, hand, done, chan, wk, pinned, budget, shutdown>>

FFReturn(c) ==
  /\ ff[c].pc \in {"ret_ok", "ret_err"}
  /\ ff' = [ff EXCEPT ![c] = IdleFF]
  /\ UNCHANGED <<nxt, kind, sh, q, hand, done, retq, retired, chan, wk, relcnt, resp, pinned, budget, shutdown>>

(* ---- close: the store is dropped, no call is in flight ---- *)
Close ==
  /\ ~shutdown /\ ~pinned /\ \A c \in Callers : ff[c].pc = "idle"
  /\ shutdown' = TRUE
  /\ UNCHANGED <<nxt, kind, sh, q, hand, done, retq, retired, chan, wk, relcnt, resp, ff, pinned, budget>>

WorkerStep(w) == WRecv(w) \/ WSeeShutdown(w) \/ WDrain(w) \/ WBatch(w) \/ WAfter(w) \/ WRespond(w)
CallerStep(c) == FFBegin(c) \/ FFSend(c) \/ FFWait(c) \/ FFRetire(c) \/ FFReturn(c)
Next ==
  \/ \E s \in Shards, k \in {"W", "D"} : Enq(s, k)
  \/ Pin \/ Unpin \/ Tick \/ Close
  \/ \E w \in Workers : WorkerStep(w)
  \/ \E c \in Callers : CallerStep(c)

Fair ==
  /\ WF_vars(Tick) /\ WF_vars(Unpin)
  /\ \A w \in Workers : WF_vars(WorkerStep(w))
  /\ \A c \in Callers : WF_vars(FFSend(c) \/ FFWait(c) \/ FFRetire(c) \/ FFReturn(c))
Spec == Init /\ [][Next]_vars /\ Fair

(* ---------------- properties ---------------- *)
Issued == 1 .. (nxt - 1)
Places(e) ==
  (IF e \in Range(q[sh[e]]) THEN 1 ELSE 0) + (IF e \in Range(hand[Owner(sh[e])]) THEN 1 ELSE 0)
  + (IF e \in done THEN 1 ELSE 0) + (IF e \in retq THEN 1 ELSE 0) + (IF e \in retired THEN 1 ELSE 0)
Settled(e) == IF kind[e] = "W" THEN e \in done ELSE e \in retired

TypeOK ==
  /\ nxt \in 1 .. (MaxEnt + 1)
  /\ \A s \in Shards : \A i \in DOMAIN q[s] : q[s][i] \in Issued /\ sh[q[s][i]] = s
  /\ \A w \in Workers : Len(chan[w]) <= ChanCap
  /\ \A w \in Workers : wk[w].pc \in {"recv", "shard", "batch", "respond", "exited"}
  /\ \A c \in Callers : ff[c].pc \in {"idle", "send", "wait", "retire", "ret_ok", "ret_err"}

\* C02/C05 at the handshake: nothing is lost, duplicated or in two hands
Conservation == \A e \in Issued : Places(e) = 1
\* C02: an acknowledged flush covers every write and every retirement queued before it began
AckCoversAll == \A c \in Callers : ff[c].pc = "ret_ok" => \A e \in ff[c].snap : Settled(e)
\* C02 (clean close): when every worker has left its final flush without giving up, nothing is pending
CloseCovers ==
  (\A w \in Workers : wk[w].pc = "exited" /\ ~wk[w].failed) => \A e \in Issued : Settled(e)
\* per-shard order: what goes back goes in FRONT (entries of one key stay in order)
QueueSorted == \A s \in Shards : \A i, j \in DOMAIN q[s] : i < j => q[s][i] < q[s][j]
\* C19: a coordinator tick leaves a request with the owner of every non-empty shard (and with worker 0 for
\* pending retirements)
TickCoversA == [][Tick => /\ \A s \in Shards : q[s] # <<>> => chan'[Owner(s)] # <<>>
                          /\ retq # {} => chan'[0] # <<>>]_vars

\* C19 / C18 as liveness (fair workers, a reader that unpins, bounded faults)
Drains          == \A e \in Ent : (e \in Issued) ~> Settled(e)
FlushTerminates == \A c \in Callers : (ff[c].pc = "send") ~> (ff[c].pc \in {"ret_ok", "ret_err"})
ClosesCleanly   == shutdown ~> (\A w \in Workers : wk[w].pc = "exited")
=============================================================================

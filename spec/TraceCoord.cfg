CONSTANTS
  NS <- TNS
  NW <- TNW
  MaxEnt <- TMaxEnt
  NCallers <- TNCallers
  MaxFaults = 0 MaxSoft = 0 MaxPins = 0 FullAt = 2 MaxFinal = 4 ChanCap = 2
  AskAll = TRUE TickAll = TRUE TickWhenRet = TRUE RequeueFront = TRUE RetryAfterRetire = TRUE WaitTrue = TRUE
SPECIFICATION TSpec
INVARIANTS ConservationT NothingLost AckCoversAll CloseCovers DrainAll RequeueKept TickHonest NoLag RetireRespectsPins DoneMeansDone
POSTCONDITION TraceAccepted
CHECK_DEADLOCK FALSE

\* seeded fault "Replay" of the migration model: TLC must report a violation of MigrationFaithful
CONSTANTS DS = 16  DE = 24  Mut = "Replay"  MaxFill = 1
SPECIFICATION Spec
INVARIANTS MigrationFaithful
CHECK_DEADLOCK FALSE

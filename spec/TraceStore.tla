------------------------------ MODULE TraceStore ------------------------------
(***************************************************************************)
(* Validates recorded sequential executions of the real FeoxStore against  *)
(* the contract of Store.tla with exact 64-bit time (U64 limbs).           *)
(*                                                                         *)
(* Every event is applied as a FACT: the model adopts the implementation's *)
(* projected state (presence, version, expiry, value length of every key). *)
(* What the contract says about the step is evaluated into `flags`, one    *)
(* member per aspect; each property's check lists the invariants over      *)
(* `flags` that belong to it (rule R6: only property formulas give         *)
(* verdicts, and a defect in one aspect does not derail the others).       *)
(***************************************************************************)
EXTENDS Naturals, Integers, Sequences, FiniteSets, TLC, Json, IOUtils

U == INSTANCE U64

CONSTANTS Overhead

ULt(a, b) == U!Lt(a, b)
USucc(a) == U!Succ(a)
UAddTtl(b, ttl) == U!Add(b, U!MulE9(ttl))
URemSecs(e, n) == U!DivE9(U!Sub(e, n))
UZero == U!ZERO
UMax == U!MAXU

S == INSTANCE Store WITH TLt <- ULt, TSucc <- USucc, TAddTtl <- UAddTtl, TRemSecs <- URemSecs,
                         TZero <- UZero, TMaxV <- UMax, TtlNone <- UZero,
                         MaxValueLen <- 4194304, MaxKeyLen <- 102400,
                         RecovMaxV1 <- 4074, RecovMax <- 4066

VARIABLES kv,      \* sequence over the key universe: S!Rec / S!NoRec
          now, floor, seen, cfg, klen,
          pin,     \* keys deliberately pinned by an accepted explicit timestamp next to the maximum
          l,       \* next event
          flags    \* aspects of the last step that the contract does not allow

tvars == <<kv, now, floor, seen, cfg, klen, pin, l, flags>>

Rec == ndJsonDeserialize(IOEnv.TRACE)
Ev == Rec[l]
N == Len(klen)

T3(x) == <<x[1], x[2], x[3]>>                    \* JSON arrays -> tuples
NearMax(t) == ULt(<<18, 446744072, 709551615>>, t)   \* within 10^9 of u64::MAX
UnknownVal == [k |-> "unknown", id |-> 0, len |-> 0, n |-> 0]

\* the value length is always the implementation's (so that the accounting verdict is
\* independent of the result verdict)
\* force: the call reported an accepted mutation, so the value is the one it wrote even when the
\* version did not move (which the result verdict flags separately)
PostRecF(p, oldrec, newval, force) ==
  IF ~p.p THEN S!NoRec
  ELSE S!Rec(T3(p.ts), T3(p.exp),
             IF ~force /\ oldrec.p /\ oldrec.ts = T3(p.ts) /\ oldrec.val.len = p.vlen THEN oldrec.val
             ELSE IF newval.len = p.vlen THEN newval
             ELSE [UnknownVal EXCEPT !.len = p.vlen])
PostRec(p, oldrec, newval) == PostRecF(p, oldrec, newval, FALSE)

ConsistentWith(rec, p) ==
  /\ rec.p = p.p
  /\ rec.p => (rec.ts = T3(p.ts) /\ rec.val.len = p.vlen)

Res(e) == [tag |-> e.res.tag, n |-> e.res.n, val |-> e.res.val, tt |-> T3(e.res.tt)]

TInit == /\ l = 1 /\ kv = <<>> /\ now = UZero /\ floor = <<>> /\ seen = UZero
         /\ cfg = [pers |-> FALSE, ttl |-> FALSE, cache |-> FALSE, fmt |-> 3, lim |-> -1]
         /\ klen = <<>> /\ pin = <<>> /\ flags = {}

Mem == S!MemOf(kv, klen, N)

(* ------------------------------------------------------------------ reset / tick *)
TReset ==
  /\ Ev.e = "reset"
  /\ cfg' = Ev.cfg /\ klen' = Ev.klen /\ now' = T3(Ev.now)
  /\ kv' = [i \in 1 .. Len(Ev.klen) |-> S!NoRec]
  /\ floor' = [i \in 1 .. Len(Ev.klen) |-> UZero]
  /\ pin' = [i \in 1 .. Len(Ev.klen) |-> FALSE]
  /\ seen' = UZero
  /\ flags' = (IF Ev.overhead # Overhead THEN {"overhead"} ELSE {})
              \cup (IF Ev.post.len # 0 \/ Ev.post.mem # 0 THEN {"len", "mem"} ELSE {})

TTick == /\ Ev.e = "tick" /\ now' = T3(Ev.now) /\ flags' = {}
         /\ UNCHANGED <<kv, floor, seen, cfg, klen, pin>>

(* A clean reopen keeps the contents, except that expired keys are gone when TTL is enabled *)
TReopen ==
  LET c2 == Ev.cfg
      expect == [i \in 1 .. N |-> IF S!Expired(c2, kv[i], now) THEN S!NoRec ELSE kv[i]]
      newkv == [i \in 1 .. N |-> PostRec(Ev.post.recs[i], kv[i], UnknownVal)]
      bad == {i \in 1 .. N : ~(ConsistentWith(expect[i], Ev.post.recs[i])
                               /\ (expect[i].p => expect[i].exp = T3(Ev.post.recs[i].exp)))}
  IN
  /\ Ev.e = "reopen"
  /\ cfg' = c2 /\ kv' = newkv
  \* C12: automatic versions exceed "every timestamp recovered from disk" for the key - also the timestamp of a newest
  \* generation that recovery read and then dropped because it had expired while the store was closed (the driver
  \* flushes before it closes, so a key that was present is on the device)
  /\ floor' = [i \in 1 .. N |-> IF newkv[i].p THEN newkv[i].ts ELSE IF kv[i].p THEN kv[i].ts ELSE UZero]
  /\ pin' = [i \in 1 .. N |-> newkv[i].p /\ NearMax(newkv[i].ts)]
  /\ flags' = (IF bad # {} THEN {"reopen"} ELSE {})
              \cup (IF \E i \in bad : kv[i].exp # UZero THEN {"c11"} ELSE {})
              \cup (IF Ev.post.mem # S!MemOf(newkv, klen, N) THEN {"mem"} ELSE {})
              \cup (IF Ev.post.len # S!CountOf(newkv, N) THEN {"len"} ELSE {})
  /\ UNCHANGED <<now, seen, klen>>

(* a clean reopen of a file the store itself wrote must succeed *)
TReopenFail ==
  /\ Ev.e = "reopen_fail"
  /\ flags' = {"reopen"}
  /\ UNCHANGED <<cfg, kv, floor, pin, now, seen, klen>>

(* ------------------------------------------------------------------ keyed calls *)
KeyedOps == {"insert", "get", "get_size", "contains", "delete", "cas", "incr", "iia", "patch",
             "update_ttl", "get_ttl"}
AutoOps == {"iia", "update_ttl"}

Outcomes(op, e, cur, kl, t) ==
  CASE op = "insert" -> S!InsertOut(cfg, cur, now, Mem, kl, e.v, e.auto, t, T3(e.ttl), e.wttl)
    [] op = "get" -> S!GetOut(cfg, cur, now, kl)
    [] op = "get_size" -> S!GetSizeOut(cfg, cur, now, kl)
    [] op = "contains" -> S!ContainsOut(cfg, cur, now, kl)
    [] op = "delete" -> S!DeleteOut(cfg, cur, now, kl, e.auto, t)
    [] op = "cas" -> S!CasOut(cfg, cur, now, Mem, kl, e.x, e.v, e.auto, t, T3(e.ttl))
    [] op = "incr" -> S!IncrOut(cfg, cur, now, Mem, kl, e.d, cur.val.n + e.d, e.auto, t, T3(e.ttl))
    [] op = "iia" -> S!InsertIfAbsentOut(cfg, cur, now, Mem, kl, e.v, t)
    [] op = "patch" -> S!PatchOut(cfg, cur, now, Mem, kl, [test |-> e.pt, set |-> e.ps], e.auto, t)
    [] op = "update_ttl" -> S!UpdateTtlOut(cfg, cur, now, kl, T3(e.ttl), t)
    [] op = "get_ttl" -> S!GetTtlOut(cfg, cur, now, kl)

WrittenVal(op, e, cur) ==
  CASE op \in {"insert", "iia", "cas"} -> e.v
    [] op = "incr" -> S!CounterVal(e.res.n)
    [] op = "patch" -> S!DocValP(e.ps, IF cur.val.k = "d" THEN cur.val.id ELSE 0)
    [] op = "update_ttl" -> cur.val
    [] OTHER -> UnknownVal

TKeyed ==
  LET e == Ev  op == e.op  k == e.k
      cur == IF k = 0 THEN S!NoRec ELSE kv[k]
      kl == IF k = 0 THEN 0 ELSE klen[k]
      pk == IF k = 0 THEN [p |-> FALSE, ts |-> <<0, 0, 0>>, exp |-> <<0, 0, 0>>, vlen |-> 0]
            ELSE e.post.recs[k]
      isAuto == e.auto \/ op \in AutoOps
      newgen == pk.p /\ (~cur.p \/ T3(pk.ts) # cur.ts \/ pk.vlen # cur.val.len)
      fl == IF k = 0 THEN UZero ELSE floor[k]
      \* effective timestamp: explicit argument, or the version the store published; a failing
      \* automatic call carries a timestamp just above the key's floor (saturating)
      t == IF ~isAuto THEN T3(e.ts)
           ELSE IF newgen THEN T3(pk.ts)
           ELSE USucc(S!TMax2(fl, cur.ts))
      E == Outcomes(op, e, cur, kl, t)
      r == Res(e)
      byRes == {o \in E : o.res = r}
      good == {o \in byRes : ConsistentWith(o.rec, pk)}
      o1 == IF good # {} THEN CHOOSE o \in good : TRUE
            ELSE S!Out(r, PostRec(pk, cur, WrittenVal(op, e, cur)), isAuto,
                       IF ~isAuto /\ newgen THEN T3(e.ts) ELSE UZero)
      mutated == /\ ~S!IsErr(r)
                 /\ \/ op \in {"insert", "incr", "patch", "update_ttl"}
                    \/ (op \in {"cas", "iia"} /\ r.n = 1)
      newrec == PostRecF(pk, cur, WrittenVal(op, e, cur), mutated)
      newkv == [i \in 1 .. N |-> IF i = k THEN newrec ELSE PostRec(e.post.recs[i], kv[i], UnknownVal)]
      others == {i \in 1 .. N : i # k /\ newkv[i] # kv[i]}
      acc == IF newgen THEN T3(pk.ts) ELSE UZero
      fRes == IF byRes = {} THEN {"res"} ELSE {}
      fEff == IF byRes # {} /\ good = {} THEN {"eff"} ELSE {}
      fExp == IF good # {} /\ pk.p /\ (\A o \in good : o.rec.exp # T3(pk.exp)) THEN {"exp"} ELSE {}
      fOther == IF others # {} THEN {"other"} ELSE {}
      fC11 == IF (fRes \cup fEff) # {} /\ cur.p /\ cur.exp # UZero THEN {"c11"} ELSE {}
      \* C12: a published automatic version lies strictly above everything accepted for the key
      \* and never beyond what the clock can have seen; an automatic call is rejected as older
      \* only on a deliberately pinned key
      \* the lazy retirement of an expired counter folds `now` into the clock before the draw
      seenEff == IF op = "incr" /\ S!Expired(cfg, cur, now) THEN S!TMax2(seen, now) ELSE seen
      fTs == IF k # 0 /\ isAuto /\
                ( (newgen /\ ~S!AutoOK(T3(pk.ts), fl, now, seenEff) /\ ~pin[k])
                  \/ (r.tag = "OlderTimestamp" /\ ~pin[k]) )
             THEN {"ts"} ELSE {}
      fMem == IF e.post.mem # S!MemOf(newkv, klen, N) THEN {"mem"} ELSE {}
      fLen == IF e.post.len # S!CountOf(newkv, N) THEN {"len"} ELSE {}
      \* C13: an admitted write never pushes usage above the configured limit
      fLim == IF cfg.lim >= 0 /\ newgen /\ e.post.mem > cfg.lim /\ e.post.mem > Mem THEN {"limit"} ELSE {}
  IN
  /\ Ev.e = "call" /\ Ev.op \in KeyedOps
  /\ kv' = newkv
  /\ seen' = S!SeenAfter(seen, now, o1.draw, o1.fold, acc)
  /\ floor' = [i \in 1 .. N |-> IF i = k /\ ~S!IsErr(r)
                                 THEN S!TMax2(S!TMax2(floor[i], acc), o1.fold) ELSE floor[i]]
  /\ pin' = [i \in 1 .. N |-> pin[i] \/ (i = k /\ ~isAuto /\ ~S!IsErr(r) /\ NearMax(T3(e.ts))
                                          /\ (newgen \/ op = "delete"))]
  /\ flags' = fRes \cup fEff \cup fExp \cup fOther \cup fC11 \cup fTs \cup fMem \cup fLen \cup fLim
  /\ UNCHANGED <<now, cfg, klen>>

(* ------------------------------------------------------------------ whole-store calls *)
ItemsOf(e) == [i \in 1 .. Len(e.items) |-> [k |-> e.items[i].k, val |-> e.items[i].val]]

TRange ==
  LET e == Ev
      expect == S!RangeResult(cfg, kv, now, e.lo, e.hi, e.lim)
      newkv == [i \in 1 .. N |-> PostRec(e.post.recs[i], kv[i], UnknownVal)]
  IN
  /\ Ev.e = "call" /\ Ev.op = "range"
  /\ kv' = newkv
  \* a scan whose device reads met a damaged / truncated medium (stories mark the call `faulted`) may fail; whenever a
  \* scan answers, it answers with exactly the live keys of its window
  /\ flags' = (IF e.res.tag # "list" THEN (IF "faulted" \in DOMAIN e /\ e.faulted THEN {} ELSE {"range"})
               ELSE IF ItemsOf(e) # expect THEN {"range"} ELSE {})
              \cup (IF newkv # kv THEN {"other"} ELSE {})
              \* C11: a key that carries an expiry is shown by the scan although it has expired, or hidden
              \* although it has not
              \cup (IF e.res.tag = "list" /\ \E i \in 1 .. N :
                        /\ kv[i].p /\ kv[i].exp # UZero
                        /\ (\E j \in 1 .. Len(e.items) : e.items[j].k = i) # (\E j \in 1 .. Len(expect) : expect[j].k = i)
                  THEN {"c11"} ELSE {})
  /\ UNCHANGED <<now, floor, seen, cfg, klen, pin>>

(* flush changes nothing logically; a sweep may remove only expired generations *)
TFlushSweep ==
  LET e == Ev
      newkv == [i \in 1 .. N |-> PostRec(e.post.recs[i], kv[i], UnknownVal)]
      changed == {i \in 1 .. N : newkv[i] # kv[i]}
      legal == e.op = "sweep" /\ \A i \in changed : S!Expired(cfg, kv[i], now) /\ ~newkv[i].p
  IN
  /\ Ev.e = "call" /\ Ev.op \in {"flush", "sweep"}
  /\ kv' = newkv
  \* a flush fails only when it met an injected I/O failure (fault stories mark that call `faulted`)
  /\ flags' = (IF e.op = "flush" /\ S!IsErr(Res(e)) /\ ~("faulted" \in DOMAIN e /\ e.faulted) THEN {"res"} ELSE {})
              \cup (IF changed # {} /\ ~legal THEN {"other", "c11"} ELSE {})
              \cup (IF e.op = "sweep" /\ e.res.n # Cardinality(changed) THEN {"eff"} ELSE {})
              \cup (IF e.post.mem # S!MemOf(newkv, klen, N) THEN {"mem"} ELSE {})
              \cup (IF e.post.len # S!CountOf(newkv, N) THEN {"len"} ELSE {})
  /\ UNCHANGED <<now, floor, seen, cfg, klen, pin>>

TNext == /\ l <= Len(Rec)
         /\ l' = l + 1
         /\ (TReset \/ TTick \/ TReopen \/ TReopenFail \/ TKeyed \/ TRange \/ TFlushSweep)

TSpec == TInit /\ [][TNext]_tvars

(* ------------------------------ verdicts ------------------------------ *)
\* C01: results and logical contents are exactly the reference map's
ResultsMatch == flags \cap {"res", "eff", "other", "reopen", "overhead", "range"} = {}
\* C11: expiry arithmetic exact; nothing hidden early, nothing served late
ExpiryExact == flags \cap {"exp", "c11"} = {}
\* C12: automatic versions
AutoTsOK == "ts" \notin flags
\* C13: accounting
AccountingExact == flags \cap {"mem", "len", "limit"} = {}
\* C14: range queries
RangeExact == "range" \notin flags

TraceAccepted ==
  IF TLCGet("stats").diameter = Len(Rec) + 1 THEN TRUE
  ELSE Print(<<"TRACE-INCOMPLETE at event", TLCGet("stats").diameter>>, FALSE)
=============================================================================

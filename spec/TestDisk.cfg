\* unit tests of Disk.tla: tlc -config TestDisk.cfg TestDisk.tla
CONSTANTS DS = 16  DE = 22

--------------------------------- MODULE Pin ---------------------------------
(***************************************************************************)
(* C08 (second half) at design level: the reader-pin / retirement / reuse  *)
(* protocol on one record generation's extent.                             *)
(*                                                                         *)
(* Code it is shaped after (one action per critical section):              *)
(*   Record::acquire_extent     CAS loop: refuse when the RETIRED bit is   *)
(*                              set, else readers+1          (RdAcquire)   *)
(*   load_value_from_disk       load sector, pread, drop the guard,        *)
(*                              sector_holds_record identity check         *)
(*                              (RdLoad RdPread RdRelease RdIdent)         *)
(*   resolve_value              re-resolve up to a bound, then StaleExtent *)
(*   process_deletions          retire_extent() = fetch_or(RETIRED), THEN  *)
(*                              extent_has_readers() (RBit, RChk1); marker *)
(*                              write (RMark); second reader check before  *)
(*                              the blocks go back to the free list        *)
(*                              (RChk2, RRelease)                          *)
(*   write worker               allocate from the free list, write data,   *)
(*                              publish the sector and drop the in-memory  *)
(*                              value (FAlloc FWrite FPublish)             *)
(*                                                                         *)
(* The protocol itself (guards and effects on the per-generation word) is  *)
(* a set of operators over an explicit function G, so that PinTrace.tla    *)
(* applies the very same operators to generations it discovers in traces   *)
(* recorded from the implementation.                                       *)
(*                                                                         *)
(* Switches name the orderings the code relies on; every FALSE setting is  *)
(* a mutation model-checked in MCPin_mut_*.cfg (expected to fail or, for   *)
(* the documented redundant defences, expected to hold).                   *)
(***************************************************************************)
EXTENDS Naturals, Sequences, FiniteSets, TLC, PinProto

CONSTANTS NReaders,               \* reader threads (one read each)
          MaxGen,                 \* generations of the one key ever created
          Blocks,                 \* data blocks of the device
          MaxTries,               \* resolve_value retry bound
          BitBeforeCheck,         \* TRUE: retired bit is set BEFORE readers are counted
          RecheckAtRelease,       \* TRUE: readers are counted again before the blocks are freed
          \* AcquireRefusesRetired (declared in PinProto): TRUE: acquire_extent fails once the bit is set
          IdentityCheck           \* TRUE: bytes read are compared with the generation's identity

Readers == 1 .. NReaders
\* block contents: 0 = zero padding, 1..MaxGen = that generation's bytes, MaxGen+1 = a deletion marker
\* (all integers: TLC compares blk with blk' when it evaluates ENABLED <<A>>_vars)
Marker == MaxGen + 1
Zero == 0

(***************************************************************************)
(* The bounded design model.                                               *)
(***************************************************************************)
VARIABLES gens,    \* 1..ng -> generation word
          ng, cur, \* number of generations; current generation of the key (0 = absent)
          hist,    \* every value `cur' ever had, in order (history; for the read window)
          blk,     \* block -> Zero | Marker | generation whose bytes it holds
          free,    \* free blocks
          fl,      \* write worker: [pc, g, E]
          rt,      \* retirement pass: [pc, g]
          rd,      \* reader -> [pc, g, sec, bytes, tries, start, ok, res]
          bad      \* a block was written while a reader was between acquire and release on it
vars == <<gens, ng, cur, hist, blk, free, fl, rt, rd, bad>>

IdleRd == [pc |-> "idle", g |-> 0, sec |-> {}, bytes |-> {}, tries |-> 0, start |-> 0, ok |-> TRUE, res |-> "none"]
Pinned(r) == rd[r].pc \in {"load", "pread", "release"}
PinnedBlocks == UNION {gens[rd[r].g].ext : r \in {x \in Readers : Pinned(x)}}
ReadBlocks == UNION {rd[r].sec : r \in {x \in Readers : rd[x].pc \in {"pread", "release"}}}

Init ==
  /\ ng = 1 /\ cur = 1 /\ hist = <<1>>
  /\ \E b \in Blocks :
       /\ gens = <<LiveGen({b})>>
       /\ blk = [x \in Blocks |-> IF x = b THEN 1 ELSE Zero]
       /\ free = Blocks \ {b}
  /\ fl = [pc |-> "idle", g |-> 0, E |-> {}]
  /\ rt = [pc |-> "idle", g |-> 0]
  /\ rd = [r \in Readers |-> IdleRd]
  /\ bad = FALSE

Supersede(G, old) == IF old = 0 THEN G ELSE QueueF(G, old)

Put ==
  /\ ng < MaxGen
  /\ ng' = ng + 1 /\ cur' = ng + 1 /\ hist' = Append(hist, ng + 1)
  /\ gens' = Append(Supersede(gens, cur), NewGen)
  /\ UNCHANGED <<blk, free, fl, rt, rd, bad>>

Del ==
  /\ cur # 0 /\ cur' = 0 /\ hist' = Append(hist, 0)
  /\ gens' = Supersede(gens, cur)
  /\ UNCHANGED <<ng, blk, free, fl, rt, rd, bad>>

\* ---- write worker ----
Pending(g) == gens[g].mem /\ gens[g].ext = {} /\ gens[g].phase \in {"live", "queued"}
FAlloc ==
  /\ fl.pc = "idle"
  /\ \E g \in 1 .. ng : \E b \in free :
       /\ Pending(g)
       /\ fl' = [pc |-> "write", g |-> g, E |-> {b}]
       /\ free' = free \ {b}
  /\ UNCHANGED <<gens, ng, cur, hist, blk, rt, rd, bad>>
FWrite ==
  /\ fl.pc = "write"
  /\ blk' = [x \in Blocks |-> IF x \in fl.E THEN fl.g ELSE blk[x]]
  /\ bad' = (bad \/ fl.E \cap PinnedBlocks # {})
  /\ fl' = [fl EXCEPT !.pc = "publish"]
  /\ UNCHANGED <<gens, ng, cur, hist, free, rt, rd>>
FPublish ==
  /\ fl.pc = "publish"
  /\ gens' = [gens EXCEPT ![fl.g].ext = fl.E, ![fl.g].mem = FALSE]
  /\ fl' = [pc |-> "idle", g |-> 0, E |-> {}]
  /\ UNCHANGED <<ng, cur, hist, blk, free, rt, rd, bad>>

\* ---- retirement pass (one generation at a time; passes over different generations interleave) ----
RDrop(g) ==
  /\ rt.pc = "idle" /\ gens[g].phase = "queued" /\ gens[g].ext = {} /\ fl.g # g
  /\ gens' = [gens EXCEPT ![g].phase = "dropped"]
  /\ UNCHANGED <<ng, cur, hist, blk, free, fl, rt, rd, bad>>
RBegin(g) ==
  /\ rt.pc = "idle" /\ gens[g].ext # {}
  /\ \/ /\ gens[g].phase = "queued"
        /\ rt' = [pc |-> IF BitBeforeCheck THEN "bit" ELSE "chk1", g |-> g]
     \/ /\ gens[g].phase = "marked"                      \* marker durable in an earlier pass
        /\ rt' = [pc |-> "chk2", g |-> g]
  /\ UNCHANGED <<gens, ng, cur, hist, blk, free, fl, rd, bad>>
RBit ==
  /\ rt.pc = "bit"
  /\ gens' = BitF(gens, rt.g)
  /\ rt' = [rt EXCEPT !.pc = IF BitBeforeCheck THEN "chk1" ELSE "mark"]
  /\ UNCHANGED <<ng, cur, hist, blk, free, fl, rd, bad>>
RChk1 ==
  /\ rt.pc = "chk1"
  /\ IF HasReaders(gens, rt.g)
       THEN gens' = WaitF(gens, rt.g) /\ rt' = [pc |-> "idle", g |-> 0]
       ELSE /\ gens' = IF BitBeforeCheck THEN MarkDecideF(gens, rt.g) ELSE gens
            /\ rt' = [rt EXCEPT !.pc = IF BitBeforeCheck THEN "mark" ELSE "bit"]
  /\ UNCHANGED <<ng, cur, hist, blk, free, fl, rd, bad>>
RMark ==
  /\ rt.pc = "mark"
  /\ blk' = [x \in Blocks |-> IF x \in gens[rt.g].ext THEN Marker ELSE blk[x]]
  /\ bad' = (bad \/ gens[rt.g].ext \cap PinnedBlocks # {})
  /\ gens' = MarkedF(gens, rt.g)
  /\ rt' = [rt EXCEPT !.pc = "chk2"]
  /\ UNCHANGED <<ng, cur, hist, free, fl, rd>>
RChk2 ==
  /\ rt.pc = "chk2"
  /\ IF RecheckAtRelease /\ HasReaders(gens, rt.g)
       THEN rt' = [pc |-> "idle", g |-> 0]
       ELSE rt' = [rt EXCEPT !.pc = "rel"]
  /\ UNCHANGED <<gens, ng, cur, hist, blk, free, fl, rd, bad>>
RRelease ==
  /\ rt.pc = "rel"
  /\ free' = free \cup gens[rt.g].ext
  /\ gens' = ReleasedF(gens, rt.g)
  /\ rt' = [pc |-> "idle", g |-> 0]
  /\ UNCHANGED <<ng, cur, hist, blk, fl, rd, bad>>

\* ---- readers ----
InWindow(r, v) == \E i \in rd[r].start .. Len(hist) : hist[i] = v
Finish(r, res, ok) == rd' = [rd EXCEPT ![r].pc = "done", ![r].res = res, ![r].ok = ok]
Stale(r) ==
  IF rd[r].tries + 1 < MaxTries
    THEN rd' = [rd EXCEPT ![r].pc = "resolve", ![r].tries = @ + 1, ![r].sec = {}, ![r].bytes = {}]
    \* StaleExtent is legitimate only while the key is being rewritten
    ELSE Finish(r, "stale", Len(hist) > rd[r].start)

RdBegin(r) ==
  /\ rd[r].pc = "idle"
  /\ rd' = [rd EXCEPT ![r].pc = "resolve", ![r].start = Len(hist)]
  /\ UNCHANGED <<gens, ng, cur, hist, blk, free, fl, rt, bad>>
RdResolve(r) ==
  /\ rd[r].pc = "resolve"
  /\ IF cur = 0 THEN Finish(r, "notfound", TRUE)
     ELSE IF gens[cur].mem THEN Finish(r, "value", TRUE)
     ELSE rd' = [rd EXCEPT ![r].pc = "acquire", ![r].g = cur]
  /\ UNCHANGED <<gens, ng, cur, hist, blk, free, fl, rt, bad>>
RdAcquire(r) ==
  /\ rd[r].pc = "acquire"
  /\ IF CanAcquire(gens, rd[r].g)
       THEN gens' = AcquireF(gens, rd[r].g) /\ rd' = [rd EXCEPT ![r].pc = "load"]
       ELSE gens' = gens /\ Stale(r)
  /\ UNCHANGED <<ng, cur, hist, blk, free, fl, rt, bad>>
RdLoad(r) ==
  /\ rd[r].pc = "load"
  /\ rd' = [rd EXCEPT ![r].pc = "pread", ![r].sec = gens[rd[r].g].ext]
  /\ UNCHANGED <<gens, ng, cur, hist, blk, free, fl, rt, bad>>
RdPread(r) ==
  /\ rd[r].pc = "pread"
  /\ rd' = [rd EXCEPT ![r].pc = "release", ![r].bytes = {blk[b] : b \in rd[r].sec}]
  /\ UNCHANGED <<gens, ng, cur, hist, blk, free, fl, rt, bad>>
RdRelease(r) ==
  /\ rd[r].pc = "release"
  /\ gens' = ReleaseF(gens, rd[r].g)
  /\ rd' = [rd EXCEPT ![r].pc = "ident"]
  /\ UNCHANGED <<ng, cur, hist, blk, free, fl, rt, bad>>
RdIdent(r) ==
  /\ rd[r].pc = "ident"
  /\ IF rd[r].bytes = {rd[r].g} THEN Finish(r, "value", InWindow(r, rd[r].g))
     ELSE IF IdentityCheck THEN Stale(r)
     ELSE Finish(r, "garbage", FALSE)
  /\ UNCHANGED <<gens, ng, cur, hist, blk, free, fl, rt, bad>>

Next ==
  \/ Put \/ Del \/ FAlloc \/ FWrite \/ FPublish
  \/ \E g \in 1 .. ng : RDrop(g) \/ RBegin(g)
  \/ RBit \/ RChk1 \/ RMark \/ RChk2 \/ RRelease
  \/ \E r \in Readers : RdBegin(r) \/ RdResolve(r) \/ RdAcquire(r) \/ RdLoad(r) \/ RdPread(r)
                        \/ RdRelease(r) \/ RdIdent(r)

Fair ==
  /\ WF_vars(FAlloc) /\ WF_vars(FWrite) /\ WF_vars(FPublish)
  /\ WF_vars(RBit) /\ WF_vars(RChk1) /\ WF_vars(RMark) /\ WF_vars(RChk2) /\ WF_vars(RRelease)
  /\ \A g \in 1 .. MaxGen : SF_vars(g <= ng /\ (RDrop(g) \/ RBegin(g)))
  /\ \A r \in Readers : WF_vars(RdResolve(r) \/ RdAcquire(r) \/ RdLoad(r) \/ RdPread(r) \/ RdRelease(r) \/ RdIdent(r))

Spec == Init /\ [][Next]_vars
FairSpec == Spec /\ Fair

(***************************************************************************)
(* Properties.                                                             *)
(***************************************************************************)
TypeOK ==
  /\ ng \in 1 .. MaxGen /\ cur \in 0 .. ng /\ free \subseteq Blocks
  /\ \A g \in 1 .. ng : gens[g].ext \subseteq Blocks /\ gens[g].readers \in 0 .. NReaders
\* the word's count is the number of readers between acquire and release
CountExact == \A g \in 1 .. ng : gens[g].readers = Cardinality({r \in Readers : Pinned(r) /\ rd[r].g = g})
\* C08: "the device blocks of a generation are not overwritten while a reader is still reading them"
NoOverwriteWhilePinned == ~bad
\* ... nor handed back to the allocator
NoReuseWhilePinned == PinnedBlocks \cap free = {}
\* C08: a read returns a complete value of the window, not-found, or (only during a rewrite) StaleExtent
Genuine == \A r \in Readers : rd[r].pc = "done" => rd[r].ok
\* C05 flavour: a block is free, in flight, or owned by exactly one unreleased generation
OnDev(g) == gens[g].ext # {} /\ gens[g].phase # "released"
Partition ==
  /\ \A g1, g2 \in 1 .. ng : g1 # g2 /\ OnDev(g1) /\ OnDev(g2) => gens[g1].ext \cap gens[g2].ext = {}
  /\ \A g \in 1 .. ng : OnDev(g) => gens[g].ext \cap free = {} /\ gens[g].ext \cap fl.E = {}
  /\ fl.E \cap free = {}
\* the phase discipline PinTrace.tla checks on recorded traces holds in the design
PhaseDiscipline ==
  /\ \A g \in 1 .. ng : gens[g].phase \in {"tomark", "marked", "released"} => gens[g].retired
  /\ \A r \in Readers : Pinned(r) => PinAllowed(gens, rd[r].g)
\* the guards PinTrace.tla evaluates at ret_mark / release events hold at the design's corresponding steps
GuardsHold ==
  /\ rt.pc = "mark" => gens[rt.g].phase = (IF BitBeforeCheck THEN "tomark" ELSE "bit") /\ ~HasReaders(gens, rt.g)
  /\ rt.pc = "rel" => CanRelease(gens, rt.g)
\* liveness (FairSpec): every superseded generation is eventually released or dropped
Phase(g) == IF g <= ng THEN gens[g].phase ELSE "none"
RetireCompletes == \A g \in 1 .. MaxGen : (Phase(g) = "queued") ~> (Phase(g) \in {"released", "dropped"})
ReadersFinish == \A r \in Readers : (rd[r].pc = "resolve") ~> (rd[r].pc = "done")
=============================================================================

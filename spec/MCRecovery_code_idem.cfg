\* as MCRecovery_code, only RecoveryIdempotent: the counterexample runs to a completed second recovery
\* run: tlc -workers 8 -deadlock -noGenerateSpecTE -config MCRecovery_code_idem.cfg MCRecovery.tla   (inside /verif/spec, private -metadir)
CONSTANTS
  DS = 16  DE = 20
  JMax = 1  MaxCrashes = 2  OrderFix = FALSE  Tears = 0
  Sizes = {1, 2}  Now = 2  Exp = 1  WithJournal = TRUE  WithMarker = TRUE
SPECIFICATION Spec
INVARIANTS TypeOK NeverFails RepairsTouchNoLiveBlock RecoveryIdempotent
CHECK_DEADLOCK FALSE

-------------------------------- MODULE Disk --------------------------------
(***************************************************************************)
(* Abstract device, crash images and the documented-layout reader          *)
(* (`Recover`) shared by the write-behind model, the recovery model and    *)
(* the trace specifications (properties C02, C03, C04, C05, C10, C11).     *)
(*                                                                         *)
(* A device image is a record                                              *)
(*   [blk : DS..DE-1 -> content, j : 0..1 -> slot, m : {0,1} -> meta]      *)
(* Block contents (uniform records [t, g, n, i, look]):                    *)
(*   Z            all zero                                                 *)
(*   H(g, n)      head of generation g's extent of n blocks, token stamped *)
(*                for this sector over the whole extent                    *)
(*   T(g, i, lk)  continuation block i of g's extent; `lk` says what the   *)
(*                block looks like to a scanner that lands on it: ""       *)
(*                (nothing), "H" (a byte-exact valid one-block record      *)
(*                image for this sector: a ghost), "M" (a valid marker),   *)
(*                "Xh"/"Xm" (record / marker magic but invalid)            *)
(*   M(rem, st)   retirement marker valid for this sector, `rem` blocks    *)
(*                remaining in its extent, st = 1 complete / 0 pending     *)
(*   Xh, Xm, LM, X  invalid head, invalid marker, legacy all-zero marker,  *)
(*                anything else                                            *)
(* Journal slot: JZ (never written), JBad, or [gen, active, exts].         *)
(* Metadata copy: MZ, MBad, or [gen, ver, recs, size].                     *)
(***************************************************************************)
EXTENDS Naturals, Integers, Sequences, FiniteSets, TLC

CONSTANTS DS, DE           \* data area DS .. DE-1

Blocks == DS .. (DE - 1)

C(t, g, n, i, look) == [t |-> t, g |-> g, n |-> n, i |-> i, look |-> look]
Z == C("Z", 0, 0, 0, "")
H(g, n) == C("H", g, n, 0, "")
T(g, i, lk) == C("T", g, 0, i, lk)
M(rem, st) == C("M", 0, rem, st, "")
Xh == C("Xh", 0, 0, 0, "")
Xm == C("Xm", 0, 0, 0, "")
LM == C("LM", 0, 0, 0, "")
X == C("X", 0, 0, 0, "")

JZ == [z |-> TRUE, bad |-> FALSE, gen |-> 0, active |-> FALSE, exts |-> <<>>]
JBad == [z |-> FALSE, bad |-> TRUE, gen |-> 0, active |-> FALSE, exts |-> <<>>]
J(gen, active, exts) == [z |-> FALSE, bad |-> FALSE, gen |-> gen, active |-> active, exts |-> exts]
MZ == [z |-> TRUE, bad |-> FALSE, gen |-> 0, ver |-> 0, recs |-> 0, size |-> 0]
MBad == [z |-> FALSE, bad |-> TRUE, gen |-> 0, ver |-> 0, recs |-> 0, size |-> 0]
Mt(gen, ver, recs, size) == [z |-> FALSE, bad |-> FALSE, gen |-> gen, ver |-> ver, recs |-> recs, size |-> size]

EmptyImage == [blk |-> [b \in Blocks |-> Z], j |-> [s \in 0 .. 1 |-> JZ], m |-> [c \in 0 .. 1 |-> MZ]]

(* ------------------------------ pickers ------------------------------ *)
\* metadata: the valid copy with the larger generation; the backup wins only when strictly newer
MetaValid(x) == ~x.z /\ ~x.bad
MetaPick(m) ==
  IF MetaValid(m[0]) /\ MetaValid(m[1]) THEN (IF m[1].gen > m[0].gen THEN m[1] ELSE m[0])
  ELSE IF MetaValid(m[0]) THEN m[0]
  ELSE IF MetaValid(m[1]) THEN m[1]
  ELSE MBad
\* journal: the valid slot with the highest generation (ties: slot 1); no valid slot but a zero
\* one: empty journal; two non-zero invalid slots: error
JValid(x) == ~x.z /\ ~x.bad
JournalPick(j) ==
  IF JValid(j[0]) /\ JValid(j[1]) THEN (IF j[1].gen >= j[0].gen THEN j[1] ELSE j[0])
  ELSE IF JValid(j[0]) THEN j[0]
  ELSE IF JValid(j[1]) THEN j[1]
  ELSE IF j[0].z \/ j[1].z THEN JZ
  ELSE JBad

AllZero(img) == /\ \A b \in Blocks : img.blk[b] = Z
                /\ img.j[0].z /\ img.j[1].z /\ img.m[0].z /\ img.m[1].z

(* --------------------------- journal replay --------------------------- *)
\* Replay retires every block of every journaled extent; adjacent extents are coalesced and the
\* `remaining` count runs over the coalesced run.
InExts(exts, b) == \E i \in 1 .. Len(exts) : b >= exts[i][1] /\ b < exts[i][1] + exts[i][2]
JBlocks(exts) == {b \in Blocks : InExts(exts, b)}
RECURSIVE RunEnd(_, _)
RunEnd(S, b) == IF (b + 1) \in S THEN RunEnd(S, b + 1) ELSE b + 1
ApplyRetire(blk, exts) ==
  LET S == JBlocks(exts) IN
  [b \in Blocks |-> IF b \in S THEN M(RunEnd(S, b) - b, 1) ELSE blk[b]]

(* ------------------------------- scan ------------------------------- *)
\* gens: generation id -> [k, ts, exp, n]; ghost generations (never stored by the application)
\* have id 0 and are reported as such.
\* acc: [ok, win : key -> [g, at], losers : set of <<at, n>>, repairs : set of <<at, n>>]
What(c) == IF c.t = "T" THEN c.look ELSE c.t      \* how a scanner classifies the block it lands on

TailsMatch(blk, b, g, n) == \A i \in 1 .. (n - 1) : blk[b + i].t = "T" /\ blk[b + i].g = g /\ blk[b + i].i = i

RECURSIVE Scan(_, _, _, _, _, _)
Scan(blk, gens, fmt, allowAmb, b, acc) ==
  IF b >= DE \/ ~acc.ok THEN acc
  ELSE
    LET c == blk[b]  w == What(c) IN
    IF w = "M" THEN
         LET rem == IF c.t = "M" THEN c.n ELSE 1 IN
         IF rem < 1 \/ b + rem > DE THEN [acc EXCEPT !.ok = FALSE, !.err = "CorruptedRecord"]
         ELSE LET complete == /\ (IF c.t = "M" THEN c.i = 1 ELSE TRUE)
                              /\ \A i \in 1 .. (rem - 1) :
                                    blk[b + i].t = "M" /\ blk[b + i].n = rem - i /\ blk[b + i].i = 1
              IN Scan(blk, gens, fmt, allowAmb, b + rem,
                      IF complete THEN acc ELSE [acc EXCEPT !.repairs = @ \cup {<<b, rem>>}])
    ELSE IF w = "Xm" THEN [acc EXCEPT !.ok = FALSE, !.err = "CorruptedRecord"]
    ELSE IF w = "LM" THEN
         IF fmt >= 3 THEN [acc EXCEPT !.ok = FALSE, !.err = "CorruptedRecord"]
         ELSE IF allowAmb THEN Scan(blk, gens, fmt, allowAmb, b + 1, acc)
         ELSE [acc EXCEPT !.ok = FALSE, !.err = "AmbiguousLegacyTombstone"]
    ELSE IF w = "Xh" THEN
         IF fmt >= 3 THEN [acc EXCEPT !.ok = FALSE, !.err = "CorruptedRecord"]
         ELSE Scan(blk, gens, fmt, allowAmb, b + 1, acc)
    ELSE IF w = "H" THEN
         LET g == IF c.t = "H" THEN c.g ELSE 0          \* a ghost has no generation
             n == IF c.t = "H" THEN c.n ELSE 1
             inb == b + n <= DE
             valid == inb /\ (fmt < 3 \/ c.t # "H" \/ TailsMatch(blk, b, g, n))
         IN IF ~valid THEN
                 (IF fmt >= 3 THEN [acc EXCEPT !.ok = FALSE, !.err = "CorruptedRecord"]
                  ELSE Scan(blk, gens, fmt, allowAmb, b + 1, acc))
            ELSE IF g = 0 THEN
                 \* a ghost record surfaces: a key/generation the application never stored
                 Scan(blk, gens, fmt, allowAmb, b + n, [acc EXCEPT !.ghosts = @ \cup {b}])
            ELSE LET k == gens[g].k  cur == acc.win[k] IN
                 IF cur.g # 0 /\ gens[cur.g].ts > gens[g].ts
                 THEN Scan(blk, gens, fmt, allowAmb, b + n, [acc EXCEPT !.losers = @ \cup {<<b, n>>}])
                 ELSE Scan(blk, gens, fmt, allowAmb, b + n,
                           [acc EXCEPT !.win[k] = [g |-> g, at |-> b],
                                       !.losers = IF cur.g # 0 THEN @ \cup {<<cur.at, gens[cur.g].n>>} ELSE @])
    ELSE Scan(blk, gens, fmt, allowAmb, b + 1, acc)

(* ------------------------------ recovery ------------------------------ *)
\* Result: ok/err; win[k] = newest generation on the device (0 = none) before expiry is applied;
\* kv[k] = what the reopened store exposes; blk1 = data blocks after journal replay.
Recover(img, gens, keys, now, ttlOn, allowAmb) ==
  LET none == [k \in keys |-> [g |-> 0, at |-> 0]]
      fail(e) == [ok |-> FALSE, err |-> e, win |-> [k \in keys |-> 0], kv |-> [k \in keys |-> 0],
                  ghosts |-> {}, losers |-> {}, repairs |-> {}, ver |-> 0, fresh |-> FALSE,
                  winAt |-> none]
  IN
  IF AllZero(img) THEN [fail("") EXCEPT !.ok = TRUE, !.fresh = TRUE, !.ver = 3]
  ELSE
    LET meta == MetaPick(img.m) IN
    IF meta.bad \/ meta.z THEN fail("InvalidMetadata")
    ELSE
      LET jp == JournalPick(img.j) IN
      IF jp.bad THEN fail("CorruptedRecord")
      ELSE
        LET blk1 == IF jp.active THEN ApplyRetire(img.blk, jp.exts) ELSE img.blk
            acc0 == [ok |-> TRUE, err |-> "", win |-> none, losers |-> {}, repairs |-> {}, ghosts |-> {}]
            acc == Scan(blk1, gens, meta.ver, allowAmb, DS, acc0)
        IN IF ~acc.ok THEN fail(acc.err)
           ELSE [ok |-> TRUE, err |-> "", ver |-> meta.ver, fresh |-> FALSE,
                 win |-> [k \in keys |-> acc.win[k].g],
                 winAt |-> acc.win,
                 kv |-> [k \in keys |->
                           LET g == acc.win[k].g IN
                           IF g # 0 /\ ttlOn /\ gens[g].exp # 0 /\ now > gens[g].exp THEN 0 ELSE g],
                 ghosts |-> acc.ghosts, losers |-> acc.losers, repairs |-> acc.repairs]

(* ------------------------------ crash images ------------------------------ *)
\* pending: sequence of writes since the last completed fsync; a write is
\*   [kind |-> "d", at |-> sector, c |-> <<contents>>]   data blocks
\*   [kind |-> "j", slot |-> s, v |-> slot value]  /  [kind |-> "m", copy |-> c, v |-> meta value]
\* Units that may or may not have reached the platter: every data block individually (block
\* granular loss, reordering and tearing), every journal slot / metadata copy as a whole.
Units(pending) ==
  UNION {IF pending[i].kind = "d" THEN {<<i, o>> : o \in 0 .. (Len(pending[i].c) - 1)} ELSE {<<i, 0>>}
           : i \in 1 .. Len(pending)}

RECURSIVE ApplyUnits(_, _, _, _)
ApplyUnits(img, pending, S, i) ==
  IF i > Len(pending) THEN img
  ELSE LET w == pending[i] IN
       IF w.kind = "d" THEN
            ApplyUnits([img EXCEPT !.blk = [b \in Blocks |->
                            IF b >= w.at /\ b < w.at + Len(w.c) /\ <<i, b - w.at>> \in S
                            THEN w.c[b - w.at + 1] ELSE @[b]]], pending, S, i + 1)
       ELSE IF <<i, 0>> \notin S THEN ApplyUnits(img, pending, S, i + 1)
       ELSE IF w.kind = "j" THEN ApplyUnits([img EXCEPT !.j[w.slot] = w.v], pending, S, i + 1)
       ELSE ApplyUnits([img EXCEPT !.m[w.copy] = w.v], pending, S, i + 1)

\* everything lands (a completed fsync): the writes are applied in issue order
RECURSIVE PutBlocks(_, _, _, _)
PutBlocks(blk, at, c, i) ==
  IF i > Len(c) THEN blk
  ELSE PutBlocks(IF (at + i - 1) \in Blocks THEN [blk EXCEPT ![at + i - 1] = c[i]] ELSE blk, at, c, i + 1)
RECURSIVE FoldAll(_, _, _)
FoldAll(img, pending, i) ==
  IF i > Len(pending) THEN img
  ELSE LET w == pending[i] IN
       FoldAll(IF w.kind = "d" THEN [img EXCEPT !.blk = PutBlocks(@, w.at, w.c, 1)]
               ELSE IF w.kind = "j" THEN [img EXCEPT !.j[w.slot] = w.v]
               ELSE IF w.kind = "m" THEN [img EXCEPT !.m[w.copy] = w.v]
               ELSE img, pending, i + 1)
ApplyAll(img, pending) == FoldAll(img, pending, 1)
CrashImagesOf(img, pending, subsets) == {ApplyUnits(img, pending, S, 1) : S \in subsets}

(* ------------------------- torn units (intra-block cuts) ------------------------- *)
\* A unit of S that is additionally in Tn reached the platter only partly (cut at a 512-byte
\* boundary inside the block).  What the scanner then sees depends on the old and the new content:
\* a record head on either side leaves the record magic with a token that no longer verifies (Xh);
\* a marker's payload lies in the first 512 bytes, so a torn marker is either the old block or
\* the complete marker (both already covered by the subsets); anything else is junk (X).  A torn
\* journal slot fails its checksum (JBad); a metadata copy's payload lies in the first 512 bytes.
TornOver(old, new) == IF new.t = "H" \/ old.t = "H" THEN Xh ELSE IF new.t = "M" THEN old ELSE X

RECURSIVE ApplyUnitsT(_, _, _, _, _)
ApplyUnitsT(img, pending, S, Tn, i) ==
  IF i > Len(pending) THEN img
  ELSE LET w == pending[i] IN
       IF w.kind = "d" THEN
            ApplyUnitsT([img EXCEPT !.blk = [b \in Blocks |->
                            IF b >= w.at /\ b < w.at + Len(w.c) /\ <<i, b - w.at>> \in S
                            THEN (IF <<i, b - w.at>> \in Tn THEN TornOver(@[b], w.c[b - w.at + 1])
                                  ELSE w.c[b - w.at + 1])
                            ELSE @[b]]], pending, S, Tn, i + 1)
       ELSE IF <<i, 0>> \notin S THEN ApplyUnitsT(img, pending, S, Tn, i + 1)
       ELSE IF w.kind = "j" THEN ApplyUnitsT([img EXCEPT !.j[w.slot] = IF <<i, 0>> \in Tn THEN JBad ELSE w.v],
                                             pending, S, Tn, i + 1)
       ELSE ApplyUnitsT([img EXCEPT !.m[w.copy] = w.v], pending, S, Tn, i + 1)
=============================================================================

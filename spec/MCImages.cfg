\* C17 image generator, whole structured-damage space (sampled with -simulate num=N -seed S).
\* Slices are the same module with other constants (written per run by lib/checks/c17.py):
\*   data     FullBlk = TRUE   FullSlot = FALSE  FullMeta = FALSE   damage in the data area only
\*   journal  FullBlk = FALSE  FullSlot = TRUE   FullMeta = FALSE   undamaged data, damaged journal
\*   meta     FullBlk = FALSE  FullSlot = FALSE  FullMeta = TRUE    undamaged data, damaged metadata / size
\*   all      everything TRUE
\*   valid    everything FALSE, OnlyUndamaged = TRUE: images the store itself could have left
\*   pinned   Pin = TRUE, FullBlk = TRUE, Vers = {v}: exhaustive breadth-first enumeration of all
\*            33^4 = 1 185 921 data areas under a never-written journal and one valid metadata copy
CONSTANTS
  DS = 16  DE = 20
  FullBlk = TRUE  FullSlot = TRUE  FullMeta = TRUE
  Vers = {1, 2, 3}
  Sizes = {"ok", "short", "unal"}
  Pin = FALSE
  OnlyUndamaged = FALSE
SPECIFICATION Spec

\* seeded fault "Overwrite" of the migration model: TLC must report a violation of NonDestructive
CONSTANTS DS = 16  DE = 24  Mut = "Overwrite"  MaxFill = 1
SPECIFICATION Spec
INVARIANTS NonDestructive
CHECK_DEADLOCK FALSE

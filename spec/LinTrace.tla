------------------------------- MODULE LinTrace -------------------------------
(***************************************************************************)
(* TLC as a linearizability checker for recorded concurrent histories of   *)
(* the real store (C07, C08; concurrent parts of C11, C13, C14).           *)
(*                                                                         *)
(* Events (one global order, numbered under the same atomic counter):      *)
(*   inv  - a thread is about to call the store (arguments)                *)
(*   pub  - emitted INSIDE the guarded section that publishes a mutation   *)
(*          (key, version, expiry, kind: 1 create, 2 replace, 3 delete,    *)
(*          4 expiry removal); their order per key is the real order       *)
(*   res  - the call returned (result)                                     *)
(*   mem  - a sample of memory_usage()                                     *)
(* The publication order gives the linearization order of mutations; TLC   *)
(* checks that every publication is a legal last-writer-wins step, that    *)
(* every mutating call's result is what the contract (Store.tla) yields    *)
(* at its own publication point, and that every other result is explained  *)
(* by SOME state its key had between invocation and response - or is one   *)
(* of the two conservative refusals the property permits.                  *)
(***************************************************************************)
EXTENDS Naturals, Integers, Sequences, FiniteSets, TLC, Json, IOUtils

U == INSTANCE U64
CONSTANTS Overhead
ULt(a, b) == U!Lt(a, b)
USucc(a) == U!Succ(a)
UAddTtl(b, ttl) == U!Add(b, U!MulE9(ttl))
URemSecs(e, n) == U!DivE9(U!Sub(e, n))
UZero == U!ZERO
UMax == U!MAXU
S == INSTANCE Store WITH TLt <- ULt, TSucc <- USucc, TAddTtl <- UAddTtl, TRemSecs <- URemSecs,
                         TZero <- UZero, TMaxV <- UMax, TtlNone <- UZero,
                         MaxValueLen <- 4194304, MaxKeyLen <- 102400,
                         RecovMaxV1 <- 4074, RecovMax <- 4066

VARIABLES kv, now, cfg, klen, pend, l, flags
tvars == <<kv, now, cfg, klen, pend, l, flags>>

Rec == ndJsonDeserialize(IOEnv.TRACE)
Ev == Rec[l]
N == Len(klen)
T3(x) == <<x[1], x[2], x[3]>>
UnknownVal == [k |-> "unknown", id |-> 0, len |-> 0, n |-> 0]
NoOp == [on |-> FALSE]

\* a deleted key keeps the version it was deleted with only as a mark for refusals that raced with it
Gone(ts) == [p |-> FALSE, ts |-> ts, exp |-> UZero, val |-> S!NoVal]
Strip(r) == IF r.p THEN r ELSE S!NoRec

TInit == /\ l = 1 /\ kv = <<>> /\ now = UZero /\ klen = <<>> /\ pend = <<>> /\ flags = {}
         /\ cfg = [pers |-> FALSE, ttl |-> FALSE, cache |-> FALSE, fmt |-> 3, lim |-> -1]

InitRec(r) == IF r.p THEN S!Rec(T3(r.ts), T3(r.exp), r.val) ELSE S!NoRec

TReset == /\ Ev.e = "reset"
          /\ cfg' = Ev.cfg /\ klen' = Ev.klen /\ now' = T3(Ev.now)
          /\ kv' = [i \in 1 .. Len(Ev.klen) |-> InitRec(Ev.init[i])]
          /\ pend' = [t \in 1 .. Ev.threads |-> NoOp]
          /\ flags' = {}

KeyedOps == {"insert", "get", "get_size", "contains", "delete", "cas", "incr", "iia", "patch",
             "update_ttl", "get_ttl"}

\* A key is "unmodified for the whole query" only if no mutating call on it overlaps the scan: a
\* call that is still in flight may have published in the hash index but not yet in the ordered one.
Unstable == [p |-> FALSE, ts |-> UZero, exp |-> UZero, val |-> UnknownVal]
Mutating == {"insert", "delete", "cas", "incr", "iia", "patch", "update_ttl"}
TouchedBy(u, k) == pend[u].on /\ ((pend[u].op \in Mutating /\ pend[u].a.k = k) \/ pend[u].op = "sweep")
MarkScans(p, e) ==   \* pending scans learn that key e.k (or every key, for a sweep) is being modified
  [u \in 1 .. Len(p) |->
     IF p[u].on /\ p[u].op = "range" /\ (e.op \in Mutating \/ e.op = "sweep")
     THEN [p[u] EXCEPT !.seenAll = [k \in 1 .. N |->
               IF e.op = "sweep" \/ e.k = k THEN p[u].seenAll[k] \cup {Unstable} ELSE p[u].seenAll[k]]]
     \* a keyed call in flight learns that a mutating call on its key was invoked meanwhile
     ELSE IF p[u].on /\ p[u].op \in KeyedOps /\ e.op \in Mutating /\ p[u].a.k = e.k
          THEN [p[u] EXCEPT !.ovl = TRUE]
     ELSE p[u]]

TInv == /\ Ev.e = "inv"
        /\ pend' = [MarkScans(pend, Ev) EXCEPT ![Ev.t] =
             [on |-> TRUE, op |-> Ev.op, a |-> Ev,
              seen |-> IF Ev.op \in KeyedOps THEN {Strip(kv[Ev.k])} ELSE {},
              seenAll |-> IF Ev.op = "range"
                          THEN [i \in 1 .. N |-> {Strip(kv[i])}
                                  \cup (IF \E u \in 1 .. Len(pend) : u # Ev.t /\ TouchedBy(u, i) THEN {Unstable} ELSE {})
                                  \* a call still in flight has published in the hash index but possibly
                                  \* not yet in the ordered one: the scan may still meet the previous state
                                  \cup {Strip(pend[u].pre) : u \in {x \in 1 .. Len(pend) :
                                            x # Ev.t /\ pend[x].on /\ pend[x].op \in Mutating
                                            /\ pend[x].a.k = i /\ (pend[x].pubbed \/ pend[x].reaped)}}]
                          ELSE <<>>,
              npub |-> 0,                       \* publications on its key by OTHER calls meanwhile
              \* a mutating call of another thread on its key overlaps with it
              ovl |-> Ev.op \in KeyedOps /\ \E u \in 1 .. Len(pend) :
                         u # Ev.t /\ pend[u].on /\ pend[u].op \in Mutating /\ pend[u].a.k = Ev.k,
              pubbed |-> FALSE, reaped |-> FALSE, pre |-> S!NoRec, post |-> S!NoRec]]
        /\ flags' = {}
        /\ UNCHANGED <<kv, now, cfg, klen>>

\* the value a publishing call writes
Written(p, pre) ==
  LET a == p.a IN
  CASE p.op \in {"insert", "iia", "cas"} -> a.v
    [] p.op = "incr" -> IF pre.p /\ ~S!Expired(cfg, pre, now) /\ S!IsCounter(pre.val)
                        THEN S!CounterVal(pre.val.n + a.d) ELSE S!CounterVal(a.d)
    [] p.op = "patch" -> S!DocValP(a.ps, IF pre.val.k = "d" THEN pre.val.id ELSE 0)
    [] p.op = "update_ttl" -> pre.val
    [] OTHER -> UnknownVal

TPub ==
  LET t == Ev.t  k == Ev.k  pre == kv[k]  ts == T3(Ev.ts)  exp == T3(Ev.exp)
      p == pend[t]
      new == IF Ev.kind \in {1, 2} THEN S!Rec(ts, exp, IF p.on THEN Written(p, pre) ELSE UnknownVal)
             \* an expiry removal (kind 4) retires the generation at the present time: for the refusals that
             \* race with it, it is a delete stamped `now` (the code refuses explicit timestamps <= that instant)
             ELSE Gone(ts)
      \* C07: an accepted write never lands on a state carrying an equal or newer version; exactly
      \* one creator wins; C11: only an expired current generation is removed by expiry
      bad == CASE Ev.kind = 1 -> pre.p
               [] Ev.kind = 2 -> ~pre.p \/ ~ULt(pre.ts, ts)
               [] Ev.kind = 3 -> ~pre.p \/ ~ULt(pre.ts, ts)
               [] Ev.kind = 4 -> ~pre.p \/ ~S!Expired(cfg, pre, now)
  IN
  /\ Ev.e = "pub"
  /\ kv' = [kv EXCEPT ![k] = new]
  /\ pend' = [u \in 1 .. Len(pend) |->
       IF ~pend[u].on THEN pend[u]
       ELSE IF u = t THEN
            \* a call that lazily retired the expired generation itself and then re-creates the key
            \* is judged against the expired generation - unless somebody else published in between
            [pend[u] EXCEPT !.pubbed = (Ev.kind # 4), !.reaped = (Ev.kind = 4),
                            !.pre = IF Ev.kind = 4 THEN pre ELSE IF pend[u].reaped THEN pend[u].pre ELSE pre,
                            !.post = new, !.seen = @ \cup {new}]
       ELSE IF pend[u].op = "range" THEN [pend[u] EXCEPT !.seenAll[k] = @ \cup {new}]
       ELSE IF pend[u].op \in KeyedOps /\ pend[u].a.k = k
            THEN [pend[u] EXCEPT !.seen = @ \cup {new}, !.npub = @ + 1, !.reaped = FALSE]
       \* a flush in flight: publications on ANY key since it was invoked (it need not cover them)
       ELSE IF pend[u].op = "flush" THEN [pend[u] EXCEPT !.npub = @ + 1]
       ELSE pend[u]]
  /\ flags' = (IF bad THEN (IF Ev.kind = 4 THEN {"expire"} ELSE {"lww"}) ELSE {})
  /\ UNCHANGED <<now, cfg, klen>>

Res(e) == [tag |-> e.res.tag, n |-> e.res.n, val |-> e.res.val, tt |-> T3(e.res.tt)]

\* the contract evaluated on state `cur` with effective timestamp `t` (memory never the reason)
Outcomes(op, a, cur, kl, t) ==
  LET c2 == [cfg EXCEPT !.lim = -1] IN
  CASE op = "insert" -> S!InsertOut(c2, cur, now, 0, kl, a.v, a.auto, t, T3(a.ttl), a.wttl)
    [] op = "get" -> S!GetOut(c2, cur, now, kl)
    [] op = "get_size" -> S!GetSizeOut(c2, cur, now, kl)
    [] op = "contains" -> S!ContainsOut(c2, cur, now, kl)
    [] op = "delete" -> S!DeleteOut(c2, cur, now, kl, a.auto, t)
    [] op = "cas" -> S!CasOut(c2, cur, now, 0, kl, a.x, a.v, a.auto, t, T3(a.ttl))
    [] op = "incr" -> S!IncrOut(c2, cur, now, 0, kl, a.d, cur.val.n + a.d, a.auto, t, T3(a.ttl))
    [] op = "iia" -> S!InsertIfAbsentOut(c2, cur, now, 0, kl, a.v, t)
    [] op = "patch" -> S!PatchOut(c2, cur, now, 0, kl, [test |-> a.pt, set |-> a.ps], a.auto, t)
    [] op = "update_ttl" -> S!UpdateTtlOut(c2, cur, now, kl, T3(a.ttl), t)
    [] op = "get_ttl" -> S!GetTtlOut(c2, cur, now, kl)

SameRec(a, b) == a.p = b.p /\ (a.p => (a.ts = b.ts /\ a.exp = b.exp /\ a.val = b.val))

\* a keyed call that published: its result is the contract's at its own publication point
PubOK(p, r) ==
  LET a == p.a  kl == klen[a.k]
      t == IF p.post.p THEN p.post.ts ELSE (IF a.auto THEN USucc(p.pre.ts) ELSE T3(a.ts))
  IN \E o \in Outcomes(p.op, a, Strip(p.pre), kl, t) : o.res = r /\ SameRec(o.rec, Strip(p.post))

\* a keyed call that did not publish: explained by some state of its key during the call
ExplainedBy(p, r, s) ==
  LET a == p.a  kl == klen[a.k]
      t == IF a.auto \/ p.op \in {"iia", "update_ttl"} THEN USucc(s.ts) ELSE T3(a.ts)
  IN \E o \in Outcomes(p.op, a, s, kl, t) : o.res = r /\ (SameRec(o.rec, s) \/ (S!Expired(cfg, s, now) /\ ~o.rec.p))

Refusal(t, p, r) ==
  \* the two conservative refusals C07 permits, plus what memory pressure and concurrent
  \* rewriting of a persistent extent (C08) allow
  \/ /\ r.tag = "OlderTimestamp"
     /\ IF p.a.auto \/ p.op \in {"iia", "update_ttl"}
        \* an automatic call: something was published on the key while it ran, or a mutating call of
        \* another thread on the key overlapped with it (a timestamp accepted by that call may not have
        \* reached the version clock when this call drew its own)
        THEN p.npub > 0 \/ p.ovl
        ELSE \/ \E s \in p.seen : ~ULt(s.ts, T3(p.a.ts))         \* an equal-or-newer version was around
             \* "... when an accepted write or delete with an equal-or-newer timestamp was INVOKED
             \* before the rejection": a call of another thread on the same key that is still in flight
             \* (it has already acted on the key: something was published during this call) and carries
             \* such a timestamp - an automatic one is at least the present time
             \/ /\ p.npub > 0
                /\ \E u \in DOMAIN pend :
                      /\ u # t /\ pend[u].on /\ pend[u].op \in KeyedOps /\ pend[u].a.k = p.a.k
                      /\ pend[u].op \in {"insert", "delete", "cas", "incr", "patch", "iia", "update_ttl"}
                      /\ IF pend[u].a.auto \/ pend[u].op \in {"iia", "update_ttl"}
                         THEN ~ULt(now, T3(p.a.ts))
                         ELSE ~ULt(T3(pend[u].a.ts), T3(p.a.ts))
  \/ /\ p.op = "cas" /\ r.tag = "bool" /\ r.n = 0 /\ p.npub > 0
  \/ /\ r.tag = "OutOfMemory" /\ cfg.lim >= 0
     /\ p.op \in {"insert", "cas", "incr", "iia", "patch"}
  \/ /\ r.tag = "StaleExtent" /\ cfg.pers /\ p.npub > 0
     /\ p.op \in {"get", "cas", "incr", "patch"}

KeyedResOK(t, p, r) ==
  IF p.pubbed THEN PubOK(p, r)
  ELSE \/ \E s \in {Strip(x) : x \in p.seen} : ExplainedBy(p, r, s)
       \/ Refusal(t, p, r)

(* C14 under concurrency *)
ItemsOf(e) == [i \in 1 .. Len(e.items) |-> [k |-> e.items[i].k, val |-> e.items[i].val]]
RangeResOK(p, e) ==
  LET a == p.a  it == ItemsOf(e)  n == Len(it)
      lastK == IF n = 0 THEN 0 ELSE it[n].k
      window == IF n < a.lim THEN a.lo .. a.hi ELSE a.lo .. lastK
      stableLive(k) == Cardinality(p.seenAll[k]) = 1 /\ \A s \in p.seenAll[k] : S!Live(cfg, s, now)
      neverLive(k) == \A s \in p.seenAll[k] : ~S!Live(cfg, s, now)
  IN
  /\ e.res.tag = "list" /\ n <= a.lim
  /\ \A i \in 1 .. n : it[i].k \in a.lo .. a.hi
  /\ \A i \in 1 .. (n - 1) : it[i].k < it[i + 1].k
  /\ \A i \in 1 .. n : \E s \in p.seenAll[it[i].k] : S!Live(cfg, s, now) /\ s.val = it[i].val
  /\ \A k \in window : stableLive(k) => \E i \in 1 .. n : it[i].k = k
  /\ \A i \in 1 .. n : ~neverLive(it[i].k)

TRes ==
  LET t == Ev.t  p == pend[t]  r == Res(Ev) IN
  /\ Ev.e = "res"
  /\ pend' = [pend EXCEPT ![t] = NoOp]
  /\ flags' = IF ~p.on THEN {"protocol"}
              ELSE IF p.op \in KeyedOps THEN
                   (IF p.a.k = 0 THEN (IF r.tag = "InvalidKeySize" THEN {} ELSE {"lin"})
                    ELSE IF KeyedResOK(t, p, r) THEN {} ELSE {"lin"})
              ELSE IF p.op = "range" THEN (IF RangeResOK(p, Ev) THEN {} ELSE {"range"})
              \* a flush may fail (full device, I/O error) but never because the extent a deferred
              \* generation takes its bytes from has been retired under it: the flusher is a reader
              ELSE IF p.op = "flush" /\ r.tag = "StaleExtent" THEN {"source"}
              ELSE {}
  /\ UNCHANGED <<kv, now, cfg, klen>>

TMem == /\ Ev.e = "mem"
        /\ flags' = IF cfg.lim >= 0 /\ Ev.v > cfg.lim THEN {"limit"} ELSE {}
        /\ UNCHANGED <<kv, now, cfg, klen, pend>>

\* quiescent final state: both indexes and the accounting agree with the publication order
TFinal ==
  LET live == {i \in 1 .. N : kv[i].p} IN
  /\ Ev.e = "final"
  /\ flags' = (IF \E i \in 1 .. N :
                     \/ Ev.hash[i].p # kv[i].p
                     \/ (kv[i].p /\ T3(Ev.hash[i].ts) # kv[i].ts)
                     \/ (kv[i].p /\ kv[i].val.k # "unknown" /\ Ev.hash[i].vlen # kv[i].val.len)
               THEN {"final"} ELSE {})
              \cup (IF \E i \in 1 .. N : Ev.tree[i] # Ev.hash[i].p THEN {"index"} ELSE {})
              \cup (IF Ev.len # Cardinality(live) THEN {"len"} ELSE {})
              \cup (IF Ev.mem # S!MemOf([i \in 1 .. N |-> IF kv[i].p
                                           THEN [kv[i] EXCEPT !.val.len = Ev.hash[i].vlen] ELSE S!NoRec],
                                        klen, N)
                    THEN {"mem"} ELSE {})
  /\ UNCHANGED <<kv, now, cfg, klen, pend>>

\* a schedule the controller could not drive to completion (counted by the harness, no verdict)
TStall == Ev.e = "stall" /\ flags' = {} /\ UNCHANGED <<kv, now, cfg, klen, pend>>

\* persistent stores, after every thread returned and one more flush() returned: every block of
\* the data area is either offered by the free-space manager or occupied by a live generation
\* (every superseded, deleted or expired generation has been retired and released: C19)
\* the same accounting at the moment a flush() call returns Ok while no mutating call is in flight:
\* an acknowledged flush leaves no retirement behind (C02: an acknowledged delete never comes back)
TFState ==
  /\ Ev.e = "fstate"
  /\ flags' = IF /\ Ev.unwritten = 0 /\ Ev.free + Ev.live # Ev.data
                 /\ Ev.t \in DOMAIN pend /\ pend[Ev.t].on /\ pend[Ev.t].npub = 0     \* nothing was published after this flush began
                 /\ \A u \in DOMAIN pend : (pend[u].on /\ u # Ev.t) => pend[u].op \in {"get", "get_size", "contains", "flush", "range", "get_ttl"}
              THEN {"ackretire"} ELSE {}
  /\ UNCHANGED <<kv, now, cfg, klen, pend>>

TSettled ==
  /\ Ev.e = "settled"
  /\ flags' = IF Ev.unwritten = 0 /\ Ev.free + Ev.live # Ev.data THEN {"retire"} ELSE {}
  /\ UNCHANGED <<kv, now, cfg, klen, pend>>

TNext == /\ l <= Len(Rec) /\ l' = l + 1
         /\ (TReset \/ TInv \/ TPub \/ TRes \/ TMem \/ TFinal \/ TStall \/ TSettled \/ TFState)
TSpec == TInit /\ [][TNext]_tvars

(* ------------------------------ verdicts ------------------------------ *)
\* C07: histories are linearizable up to the permitted refusals; accepted writes are ordered
Linearizable == flags \cap {"lin", "lww", "final", "protocol"} = {}
\* C11: the sweeper / lazy expiry removes only the expired current generation
SweepSafe == "expire" \notin flags
\* C11/C14: at quiescence no live key is hidden from (or lingers in) the ordered index
NotHidden == "index" \notin flags
\* C13: usage never above the limit at any sampled instant, exact at quiescence
MemBound == flags \cap {"limit", "mem", "len"} = {}
\* C08: the extent a not yet durable TTL-only generation reads its bytes from is never retired
SourceKept == "source" \notin flags
\* C02: a flush() that returns Ok leaves no pending retirement behind
FlushAckComplete == "ackretire" \notin flags
\* C19: retirement completes once no reader holds the generation
RetireSettled == "retire" \notin flags
\* C14: scans
RangeStable == flags \cap {"range", "index"} = {}

TraceAccepted ==
  IF TLCGet("stats").diameter = Len(Rec) + 1 THEN TRUE
  ELSE Print(<<"TRACE-INCOMPLETE at event", TLCGet("stats").diameter>>, FALSE)
=============================================================================

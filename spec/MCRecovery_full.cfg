\* thorough tier: OrderFix, 5 data blocks, 3 crashes, one torn unit; expected: no violation
\* run: tlc -workers 8 -deadlock -noGenerateSpecTE -config MCRecovery_full.cfg MCRecovery.tla   (inside /verif/spec, private -metadir)
CONSTANTS
  DS = 16  DE = 21
  JMax = 1  MaxCrashes = 3  OrderFix = TRUE  Tears = 1
  Sizes = {1, 2}  Now = 2  Exp = 1  WithJournal = TRUE  WithMarker = TRUE
SPECIFICATION Spec
INVARIANTS TypeOK NeverFails RepairsTouchNoLiveBlock RecoveryIdempotent ImagesAgree
CHECK_DEADLOCK FALSE

------------------------------ MODULE FreeSpace ------------------------------
(***************************************************************************)
(* Contract of the free-space manager (property C06; reused by the        *)
(* write-behind and recovery models for C05).                              *)
(*                                                                         *)
(* The data area is the block range Lo .. Hi-1 (Lo = 16 in the code).      *)
(* `free` is the TRUE free set.  Which run an allocation is carved from    *)
(* is left open (any run that fits): the property constrains the result,   *)
(* not the placement policy.  `BestFit` names the policy the current code  *)
(* uses and is only used to generate deterministic behaviours.             *)
(***************************************************************************)
EXTENDS Naturals, FiniteSets, Sequences, TLC

CONSTANTS Lo, Hi, MaxReq, Policy
ASSUME Lo \in Nat /\ Hi \in Nat /\ Lo < Hi /\ Policy \in {"any", "bestfit"}

VARIABLES free,   \* set of free blocks
          last    \* <<op, a, b, result, start>> of the last call (observation)

fvars == <<free, last>>

Blocks == Lo .. (Hi - 1)
Range(s, n) == s .. (s + n - 1)

(* ---- derived statistics: the free set with all adjacent runs merged ---- *)
IsRunStart(F, b) == b \in F /\ (b - 1) \notin F
RunStarts(F) == {b \in F : IsRunStart(F, b)}
RECURSIVE RunLenFrom(_, _)
RunLenFrom(F, b) == IF b \in F THEN 1 + RunLenFrom(F, b + 1) ELSE 0
Runs(F) == {<<b, RunLenFrom(F, b)>> : b \in RunStarts(F)}
Total(F) == Cardinality(F)
Chunks(F) == Cardinality(RunStarts(F))
MaxOf(S) == IF S = {} THEN 0 ELSE CHOOSE x \in S : \A y \in S : y <= x
Largest(F) == MaxOf({r[2] : r \in Runs(F)})
Stats(F) == <<Total(F), Largest(F), Chunks(F)>>
Fits(F, n) == {r \in Runs(F) : r[2] >= n}

(* best fit: the run minimal in (size, start); allocation from its start *)
BestRun(F, n) == CHOOSE r \in Fits(F, n) :
                    \A q \in Fits(F, n) : r[2] < q[2] \/ (r[2] = q[2] /\ r[1] <= q[1])
(* every start an allocator may return: any position inside a run that fits *)
AnyStarts(F, n) == {s \in Blocks : Range(s, n) \subseteq F}

(* ---- result classification (shared with the trace specification) ---- *)
AllocErr(F, n) == IF n = 0 THEN "InvalidArgument"
                  ELSE IF Fits(F, n) = {} THEN "OutOfSpace" ELSE "ok"
ReleaseInvalid(s, c) == s < Lo \/ c = 0 \/ s >= Hi \/ s + c > Hi
ReleaseErr(F, s, c) == IF ReleaseInvalid(s, c) THEN "InvalidArgument"
                       ELSE IF Range(s, c) \cap F # {} THEN "DuplicateKey" ELSE "ok"

Init == free = Blocks /\ last = <<"init", 0, 0, "ok", 0>>

Alloc(n) ==
  LET e == AllocErr(free, n) IN
  IF e # "ok"
  THEN /\ free' = free
       /\ last' = <<"alloc", n, 0, e, 0>>
  ELSE \E s \in (IF Policy = "bestfit" THEN {BestRun(free, n)[1]} ELSE AnyStarts(free, n)) :
         /\ free' = free \ Range(s, n)
         /\ last' = <<"alloc", n, 0, "ok", s>>

Release(s, c) ==
  LET e == ReleaseErr(free, s, c) IN
  /\ free' = (IF e = "ok" THEN free \cup Range(s, c) ELSE free)
  /\ last' = <<"release", s, c, e, 0>>

Next == (\E n \in 0 .. MaxReq : Alloc(n))
        \/ (\E s \in (Lo - 1) .. Hi, c \in 0 .. MaxReq : Release(s, c))

Spec == Init /\ [][Next]_fvars

(* ------------------------------ properties ------------------------------ *)
TypeOK == free \subseteq Blocks

(* An allocation returns an in-bounds run of exactly the requested length that was free
   (hence overlaps no outstanding allocation), and fails only when nothing fits. *)
AllocOK ==
  [][ last'[1] = "alloc" =>
        LET n == last'[2]  r == last'[4]  s == last'[5] IN
          /\ (r = "ok") =>
               /\ n > 0 /\ Range(s, n) \subseteq Blocks /\ Range(s, n) \subseteq free
               /\ free' = free \ Range(s, n)
          /\ (r # "ok") => /\ free' = free
                           /\ (n = 0 \/ Fits(free, n) = {})
          /\ (n > 0 /\ Fits(free, n) # {}) => r = "ok" ]_fvars

(* A rejected release changes nothing; an accepted one adds exactly the range. *)
ReleaseRejectAtomic ==
  [][ last'[1] = "release" =>
        LET s == last'[2]  c == last'[3]  r == last'[4] IN
          /\ (r # "ok") => free' = free
          /\ (r = "ok") => /\ ~ReleaseInvalid(s, c) /\ Range(s, c) \cap free = {}
                           /\ free' = free \cup Range(s, c)
          /\ (ReleaseInvalid(s, c) \/ Range(s, c) \cap free # {}) => r # "ok" ]_fvars

(* The reported statistics are those of the merged free set (definitional here; checked
   against the implementation's reports in TraceFreeSpace). *)
StatsOK == /\ Total(free) = Cardinality(free)
           /\ Largest(free) <= Total(free)
           /\ (Chunks(free) <= 1 => Largest(free) = Total(free))
           /\ \A r \in Runs(free) : Range(r[1], r[2]) \subseteq free
                                    /\ (r[1] + r[2]) \notin free
=============================================================================

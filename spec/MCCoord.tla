---- MODULE MCCoord ----
EXTENDS Coord
\* state constraint for the liveness configuration (none needed: every counter is bounded by a constant)
====

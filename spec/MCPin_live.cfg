SPECIFICATION FairSpec
CONSTANTS
  NReaders = 1
  MaxGen = 3
  Blocks = {1, 2}
  MaxTries = 2
  BitBeforeCheck = TRUE
  RecheckAtRelease = TRUE
  AcquireRefusesRetired = TRUE
  IdentityCheck = TRUE
PROPERTIES RetireCompletes ReadersFinish
CHECK_DEADLOCK FALSE

\* one sorted list, capacity >= number of repairs (single journal transaction); expected: no violation
\* run: tlc -workers 8 -deadlock -noGenerateSpecTE -config MCRecovery_code_jmax4.cfg MCRecovery.tla   (inside /verif/spec, private -metadir)
CONSTANTS
  DS = 16  DE = 21
  JMax = 4  MaxCrashes = 2  OrderFix = FALSE  Tears = 0
  Sizes = {1, 2}  Now = 2  Exp = 1  WithJournal = TRUE  WithMarker = TRUE
SPECIFICATION Spec
INVARIANTS TypeOK NeverFails RepairsTouchNoLiveBlock RecoveryIdempotent ImagesAgree
CHECK_DEADLOCK FALSE

\* seeded model mutation: SyncClear = FALSE with up to TWO torn units per crash image: EXPECTED CrashSafe violation (both journal slots torn)
\* run: tlc -workers 8 -deadlock -noGenerateSpecTE -config MCWriteBehind_mut_SyncClear_tears2.cfg MCWriteBehind.tla   (inside /verif/spec, private -metadir)
CONSTANTS
  DS = 16  DE = 19
  NK = 2  MaxGen = 2  MaxTs = 2  Sizes = {1, 2}  JMax = 1  MaxFlush = 2
  RetireAny = TRUE  GhostTails = TRUE  Tears = 2
  FreshStart = FALSE  InitSync = TRUE
  SyncIntent = TRUE  SyncData = TRUE  SyncClear = FALSE
  JournalAll = TRUE  SuccTest = TRUE  SyncMarkers = TRUE  ClearSlot = TRUE  FlushGivesUp = TRUE
SPECIFICATION Spec
INVARIANTS TypeOK CrashSafe Partition ExactAtQuiescence AckMeansDurable JournalClearAtAck LayoutAtAck MetaMatches
CHECK_DEADLOCK FALSE

CONSTANTS
  Programs <- ProgsFromEnv
  Now = 2000  U = 50
  Overhead = 168  KLen = 2
SPECIFICATION Spec
INVARIANTS NoFlags QuiescentExact

--------------------------- MODULE MCWriteBehind ---------------------------
(* Model-checking wrapper of WriteBehind: all constants are set in the MCWriteBehind_*.cfg files. *)
EXTENDS WriteBehind
=============================================================================

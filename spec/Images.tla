------------------------------- MODULE Images -------------------------------
(***************************************************************************)
(* C17 - a GENERATOR of structured damaged device images and the outcome   *)
(* class the documented-layout reader (`Recover` of Disk.tla) assigns to   *)
(* each of them.                                                           *)
(*                                                                         *)
(* Device: DE-DS data blocks (4 in every shipped configuration), two       *)
(* journal slots, two metadata copies, plus two scenario parameters (TTL   *)
(* enabled, file size kind).  An image is built in DE-DS+6 steps, one      *)
(* component per step, so that                                             *)
(*   - breadth-first TLC enumerates a slice of the space exhaustively      *)
(*     (every full image has exactly one construction path and is printed  *)
(*     exactly once), and                                                  *)
(*   - `-simulate num=N` draws N images, every component uniformly from    *)
(*     its alphabet (the emitting step is deterministic, so a simulated    *)
(*     behaviour prints exactly one image).                                *)
(* The emitting step prints ONE line  <<"IMG", "<json>">>  holding the      *)
(* abstract image and `Pred`, the predicted outcome class without and with *)
(* `allow_ambiguous_legacy_recovery`.  The harness (`fxv images`) turns    *)
(* the abstract image into bytes and observes the real store.              *)
(*                                                                         *)
(* The alphabets refine Disk.tla's with a `tag` saying WHICH forgery a     *)
(* damaged element carries (the concretiser needs it to build the bytes;   *)
(* `Abs*` forget it again before `Recover` is applied):                    *)
(*   block  Z | H(g) | T(g,1,look) | Xh:tag | Xv:tag | M(rem,st) | M:tag    *)
(*          | Xm | LM | X                                                  *)
(*   slot   z | clear(gen) | active(gen,exts) | bad:tag                    *)
(*   meta   z | ok(ver,gen) | legacy(ver) | forged(ver,gen) | bad:tag      *)
(* JSON of one image:                                                      *)
(*   {"b": [[t,g,n,i,look,tag] per data block], "j": [[k,gen,exts] x 2],   *)
(*    "m": [[k,ver,gen] x 2], "ttl": bool, "size": "ok"|"short"|"unal",    *)
(*    "fmt": version of the metadata copy the reader picks (3 if none),    *)
(*    "ds", "de", "valid": every element is something the store writes,    *)
(*    "pred": [class, [generation exposed for k1, for k2], ghost records,  *)
(*    fresh], "predAmb": the same with allow_ambiguous_legacy_recovery}    *)
(*   class = "open" | "InvalidDevice" | "InvalidMetadata" |                *)
(*           "CorruptedRecord" | "AmbiguousLegacyTombstone"                *)
(* Size of the full space (SPACE line): |Blk|^4 * |Slot|^2 * |Meta|^2 * 2  *)
(* * |Size| = 33^4 * 25^2 * 18^2 * 2 * 3 = 1 440 894 015 000 images.       *)
(***************************************************************************)
EXTENDS Disk, Json

CONSTANTS FullBlk,    \* TRUE: whole block alphabet; FALSE: undamaged contents only
          FullSlot,   \* TRUE: whole slot alphabet;  FALSE: {never written, CLEAR}
          FullMeta,   \* TRUE: whole metadata alphabet; FALSE: valid copies only
          Sizes,      \* file size kinds (subset of {"ok", "short", "unal"})
          Vers,       \* format versions of the valid metadata copies (subset of 1..3)
          Pin,        \* TRUE: journal, second metadata copy and TTL fixed (exhaustive data slice)
          OnlyUndamaged \* TRUE: print only images every element of which the store itself writes

VARIABLES st, blk, j, m, ttl, size
vars == <<st, blk, j, m, ttl, size>>

NB == DE - DS

(* ------------------------------ generations ------------------------------ *)
\* two keys, two generations each; times are ranks (the harness scales them), Now = 5:
\*   g1 = k1 @1 one block          g2 = k1 @2 two blocks, expiry 9 (still alive)
\*   g3 = k2 @2 two blocks         g4 = k2 @3 one block,  expiry 4 (already expired)
\* format 1 has no expiry field.
GK == <<1, 1, 2, 2>>
GTs == <<1, 2, 2, 3>>
GExp == <<0, 9, 0, 4>>
GN == <<1, 2, 2, 1>>
Now == 5
NG == 4
Keys == 1 .. 2
Gens(fmt) == [g \in 1 .. NG |-> [k |-> GK[g], ts |-> GTs[g], exp |-> IF fmt = 1 THEN 0 ELSE GExp[g], n |-> GN[g]]]

(* ------------------------------- alphabets ------------------------------- *)
B(t, g, n, i, look, tag) == [t |-> t, g |-> g, n |-> n, i |-> i, look |-> look, tag |-> tag]
Bz == B("Z", 0, 0, 0, "", "")
Heads == {B("H", g, GN[g], 0, "", "") : g \in 1 .. NG}
Tails(looks) == {B("T", g, 0, 1, lk, "") : g \in {g \in 1 .. NG : GN[g] = 2}, lk \in looks}
\* heads that the reader must refuse.  tok: token wrong (v3) / non-zero (v1, v2); klen0, klenbig:
\* key length 0 / header longer than a block; vlen0, vlenbig: value length 0 / above the 4 MiB limit
\* or 2^64-1; ext: legal lengths but the extent leaves the device.  All but `tok` carry a re-stamped
\* (valid) token, so the bounds checks are what is exercised.
HeadTags == {"tok", "klen0", "klenbig", "vlen0", "vlenbig", "ext"}
BadHeads == {B("Xh", 0, 0, 0, "", tg) : tg \in HeadTags}
\* well-formed one-block records of a key nobody stored whose timestamp (tsmax: 2^64-1) or expiry
\* (expmax: 2^64-1) is forged; the token is valid, so the reader must accept them: ghosts
ForgedValid == {B("Xv", 0, 1, 0, "", tg) : tg \in {"tsmax", "expmax"}}
GoodMarks == {B("M", 0, rem, s, "", "") : rem \in 1 .. 2, s \in 0 .. 1}
\* markers with a VALID token and a forged remaining length: 0, past the device end, 2^64-1, and the two lengths at
\* which sector + length leaves the 64-bit range (2^64 - sector: wraps to 0; one more: wraps to 1), in both states
\* (a PENDING marker is repaired, a COMPLETE one is skipped: different arithmetic on the same field)
ForgedMarks == {B("M", 0, 0, 1, "", "rem0"), B("M", 0, NB + 5, 1, "", "rempast")}
               \cup {B("M", 0, NB + 5, ms, "", tg) : ms \in 0 .. 1, tg \in {"remmax", "remwrap", "remwrap1"}}
Junk == {B("Xm", 0, 0, 0, "", ""), B("LM", 0, 0, 0, "", ""), B("X", 0, 0, 0, "", "")}

BlkAll == {Bz} \cup Heads \cup Tails({"", "H", "M", "Xh", "Xm"}) \cup BadHeads \cup ForgedValid \cup GoodMarks \cup ForgedMarks \cup Junk
BlkBenign == {Bz} \cup Heads \cup Tails({""}) \cup {B("M", 0, rem, 1, "", "") : rem \in 1 .. 2}
BlkAlpha == IF FullBlk THEN BlkAll ELSE BlkBenign

S(k, gen, exts) == [k |-> k, gen |-> gen, exts |-> exts]
Sz == S("z", 0, <<>>)
\* in-range extent lists: single, two-block, whole data area, unsorted pair, adjacent pair, last block
ExtSets == {<< <<DS, 1>> >>, << <<DS + 1, 2>> >>, << <<DS, NB>> >>, << <<DS + 2, 1>>, <<DS, 1>> >>,
            << <<DS, 1>>, <<DS + 1, 1>> >>, << <<DE - 1, 1>> >>}
\* slots that the decoder must refuse although their checksum verifies (except `crc`): extent past
\* the device / below the data area / overlapping / of length 0; count = capacity+1, the first count
\* whose image would be longer than a slot (1532), 2^32-1; generation 0; unknown version
SlotTags == {"crc", "oorhi", "oorlo", "ovl", "zlen", "cnt1025", "cnt1532", "cntmax", "gen0", "ver9"}
SlotAll == {Sz} \cup {S("clear", g, <<>>) : g \in 1 .. 2} \cup {S("active", g, e) : g \in 1 .. 2, e \in ExtSets}
              \cup {S(tg, 2, <<>>) : tg \in SlotTags}
SlotBenign == {Sz} \cup {S("clear", g, <<>>) : g \in 1 .. 2}
SlotAlpha == IF Pin THEN {Sz} ELSE IF FullSlot THEN SlotAll ELSE SlotBenign

Mc(k, ver, gen) == [k |-> k, ver |-> ver, gen |-> gen]
Mz == Mc("z", 0, 0)
\* ok: checksummed copy as 0.6.0 writes it; legacy: pre-0.6 copy (no checksum, generation 0);
\* forged: checksummed v3 copy whose counters and device-size field are nonsense but inside the
\* accepted range (the reader does not use them).
MetaOkOf(V) == {Mc("ok", v, g) : v \in V, g \in 1 .. 2} \cup {Mc("legacy", v, 0) : v \in V \ {3}}
                 \cup (IF 3 \in V THEN {Mc("forged", 3, 2)} ELSE {})
MetaOk == MetaOkOf(Vers)
\* copies the reader must refuse: wrong signature, wrong checksum, block size # 4096, device size 0 /
\* above 1 TiB, version 4 / 0, version 3 without the checksum magic (all but `crc` re-stamped)
MetaTags == {"sig", "crc", "bs", "ds0", "dsbig", "ver4", "ver0", "nomagic"}
MetaBad == {Mc(tg, 3, 2) : tg \in MetaTags}
MetaAll == {Mz} \cup MetaOk \cup MetaBad
MetaAlpha(c) == IF Pin THEN (IF c = 0 THEN {Mc("ok", v, 1) : v \in Vers} ELSE {Mz})
                ELSE IF FullMeta THEN MetaAll ELSE MetaOk
\* file size kinds: ok = (DE) blocks; short = cut to the 16 reserved blocks; unal = 512 bytes more
SizeAlpha == IF Pin THEN {"ok"} ELSE Sizes
TtlAlpha == IF Pin THEN {TRUE} ELSE BOOLEAN

(* ------------------------- abstraction to Disk.tla ------------------------- *)
\* A head with a non-zero token is fatal for a v1/v2 scan that lands on it (like a bad marker in
\* every version); every other refused head is fatal in v3 and skipped in v1/v2 (Disk's Xh).
AbsBlk(c, fmt) ==
  IF c.t = "Xh" /\ c.tag = "tok" /\ fmt < 3 THEN Xm
  ELSE IF c.t = "Xv" THEN C("T", 0, 0, 0, "H")
  ELSE C(c.t, c.g, c.n, c.i, c.look)
AbsSlot(s) ==
  IF s.k = "z" THEN JZ ELSE IF s.k = "clear" THEN J(s.gen, FALSE, <<>>)
  ELSE IF s.k = "active" THEN J(s.gen, TRUE, s.exts) ELSE JBad
AbsMeta(x) ==
  IF x.k = "z" THEN MZ ELSE IF x.k \in {"ok", "legacy", "forged"} THEN Mt(x.gen, x.ver, 0, 0) ELSE MBad

Fmt(mm) == LET mp == MetaPick([c \in 0 .. 1 |-> AbsMeta(mm[c])]) IN IF MetaValid(mp) THEN mp.ver ELSE 3

\* Journal replay writes a complete marker with remaining = 1 on the last block of every coalesced
\* run.  A continuation block that already IS such a marker byte for byte (look "M") is therefore
\* left unchanged by the replay, and a head whose token covers it stays valid: Disk's ApplyRetire
\* would forget that, so such blocks are taken out of the replayed set (the marker written on the
\* blocks before it then ends one block earlier and the scan lands on the same positions).
JFix(ab, aj) ==
  LET jp == JournalPick(aj) IN
  IF jp.bad \/ ~jp.active THEN aj
  ELSE LET jb == JBlocks(jp.exts)
           keep == {b \in jb : ~(ab[b].t = "T" /\ ab[b].look = "M" /\ (b + 1) \notin jb)}
           exts == SelectSeq([i \in 1 .. NB |-> <<DS + i - 1, 1>>], LAMBDA e : e[1] \in keep)
       IN [s \in 0 .. 1 |-> IF s = 0 THEN J(1, TRUE, exts) ELSE JZ]

Cls(c, kv, gh, fresh) == <<c, kv, gh, fresh>>      \* class, exposed generation per key, ghosts, fresh

Pred(bb, jj, mm, tt, sz, amb) ==
  IF sz # "ok" THEN Cls("InvalidDevice", <<0, 0>>, 0, FALSE)
  ELSE LET fmt == Fmt(mm)
           ab == [b \in Blocks |-> AbsBlk(bb[b], fmt)]
           img == [blk |-> ab,
                   j |-> JFix(ab, [s \in 0 .. 1 |-> AbsSlot(jj[s])]),
                   m |-> [c \in 0 .. 1 |-> AbsMeta(mm[c])]]
           r == Recover(img, Gens(fmt), Keys, Now, tt, amb)
       IN IF r.ok THEN Cls("open", <<r.kv[1], r.kv[2]>>, Cardinality(r.ghosts), r.fresh)
          ELSE Cls(r.err, <<0, 0>>, 0, FALSE)

\* an image every element of which is something the store itself writes (records with their own
\* continuations, complete markers, CLEAR/never-written journal, valid metadata): the class of
\* such an image is a property of C03/C10, not only a prediction
Undamaged(bb, jj, mm, sz) ==
  /\ sz = "ok"
  /\ \A b \in Blocks :
        \/ bb[b].t = "Z"
        \/ bb[b].t = "H" /\ b + bb[b].n <= DE /\ \A i \in 1 .. (bb[b].n - 1) : bb[b + i] = B("T", bb[b].g, 0, i, "", "")
        \/ bb[b].t = "T" /\ bb[b].look = "" /\ b - bb[b].i >= DS /\ bb[b - bb[b].i].t = "H" /\ bb[b - bb[b].i].g = bb[b].g
        \/ bb[b].t = "M" /\ bb[b].tag = "" /\ bb[b].i = 1 /\ b + bb[b].n <= DE
              /\ \A i \in 1 .. (bb[b].n - 1) : bb[b + i] = B("M", 0, bb[b].n - i, 1, "", "")
  /\ \A s \in 0 .. 1 : jj[s].k \in {"z", "clear"}
  /\ \A c \in 0 .. 1 : mm[c].k \in {"ok", "legacy"}
  /\ mm[0].ver = mm[1].ver

\* compact JSON: block = [t, g, n, i, look, tag], slot = [k, gen, exts], meta = [k, ver, gen]
OB(c) == <<c.t, c.g, c.n, c.i, c.look, c.tag>>
OS(s) == <<s.k, s.gen, s.exts>>
OM(x) == <<x.k, x.ver, x.gen>>
Out == [b |-> [i \in 1 .. NB |-> OB(blk[DS + i - 1])], j |-> <<OS(j[0]), OS(j[1])>>, m |-> <<OM(m[0]), OM(m[1])>>,
        ttl |-> ttl, size |-> size, fmt |-> Fmt(m), ds |-> DS, de |-> DE,
        valid |-> Undamaged(blk, j, m, size),
        pred |-> Pred(blk, j, m, ttl, size, FALSE), predAmb |-> Pred(blk, j, m, ttl, size, TRUE)]

(* ------------------------------- generator ------------------------------- *)
Init == /\ st = 0
        /\ blk = [b \in Blocks |-> Bz]
        /\ j = [s \in 0 .. 1 |-> Sz]
        /\ m = [c \in 0 .. 1 |-> Mz]
        /\ ttl = FALSE
        /\ size = "ok"

PickBlk == /\ st < NB
           /\ \E c \in BlkAlpha : blk' = [blk EXCEPT ![DS + st] = c]
           /\ st' = st + 1 /\ UNCHANGED <<j, m, ttl, size>>
PickSlot == /\ st \in NB .. (NB + 1)
            /\ \E s \in SlotAlpha : j' = [j EXCEPT ![st - NB] = s]
            /\ st' = st + 1 /\ UNCHANGED <<blk, m, ttl, size>>
PickMeta == /\ st \in (NB + 2) .. (NB + 3)
            /\ \E x \in MetaAlpha(st - NB - 2) : m' = [m EXCEPT ![st - NB - 2] = x]
            /\ st' = st + 1 /\ UNCHANGED <<blk, j, ttl, size>>
PickScenario == /\ st = NB + 4
                /\ \E t \in TtlAlpha, z \in SizeAlpha : ttl' = t /\ size' = z
                /\ st' = st + 1 /\ UNCHANGED <<blk, j, m>>
\* deterministic: one successor, so exhaustive search and simulation both print each image once
Emit == /\ st = NB + 5
        /\ OnlyUndamaged => Undamaged(blk, j, m, size)
        /\ PrintT(<<"IMG", ToJson(Out)>>)
        /\ st' = st + 1 /\ UNCHANGED <<blk, j, m, ttl, size>>

Next == PickBlk \/ PickSlot \/ PickMeta \/ PickScenario \/ Emit
Spec == Init /\ [][Next]_vars

\* printed once: the generation table the concretiser uses and the factors of the space
Table == [gens |-> [g \in 1 .. NG |-> Gens(3)[g]], now |-> Now,
          nblk |-> Cardinality(BlkAll), nslot |-> Cardinality(SlotAll), nmeta |-> Cardinality({Mz} \cup MetaOkOf(1 .. 3) \cup MetaBad),
          nsize |-> 3, nttl |-> 2, blocks |-> NB,
          slice |-> [blk |-> Cardinality(BlkAlpha), slot |-> Cardinality(SlotAlpha),
                     meta0 |-> Cardinality(MetaAlpha(0)), meta1 |-> Cardinality(MetaAlpha(1)),
                     size |-> Cardinality(SizeAlpha), ttl |-> Cardinality(TtlAlpha)]]
ASSUME PrintT(<<"SPACE", ToJson(Table)>>)
=============================================================================

CONSTANTS Lo = 16  Hi = 22  MaxReq = 3  Policy = "any"
SPECIFICATION Spec
INVARIANTS TypeOK StatsOK
PROPERTIES AllocOK ReleaseRejectAtomic

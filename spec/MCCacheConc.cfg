CONSTANTS
  Programs <- ProgsLit
  GenTs <- Gts
  SplitRemove = FALSE
  ClearSnapshot = FALSE
  EmitOneIn = 1
SPECIFICATION Spec
CHECK_DEADLOCK FALSE
INVARIANTS MemExact UniqueKey NoFlags EvLockFree

SPECIFICATION TSpec
INVARIANT NoFreeInFlight
POSTCONDITION TraceAccepted
CHECK_DEADLOCK FALSE

\* thorough tier, fresh device with the repaired start-up; expected: no violation
\* run: tlc -workers 8 -deadlock -noGenerateSpecTE -config MCWriteBehind_full.cfg MCWriteBehind.tla   (inside /verif/spec, private -metadir)
CONSTANTS
  DS = 16  DE = 20
  NK = 2  MaxGen = 3  MaxTs = 2  Sizes = {1, 2}  JMax = 1  MaxFlush = 1
  RetireAny = TRUE  GhostTails = TRUE  Tears = 0
  FreshStart = TRUE  InitSync = TRUE
  SyncIntent = TRUE  SyncData = TRUE  SyncClear = TRUE
  JournalAll = TRUE  SuccTest = TRUE  SyncMarkers = TRUE  ClearSlot = TRUE  FlushGivesUp = TRUE
SPECIFICATION Spec
INVARIANTS TypeOK CrashSafe Partition ExactAtQuiescence AckMeansDurable JournalClearAtAck LayoutAtAck MetaMatches
CHECK_DEADLOCK FALSE

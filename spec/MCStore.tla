------------------------------- MODULE MCStore -------------------------------
(* Exhaustive model of the sequential contract over a small time domain.  The properties  *)
(* of C01/C11/C12/C13/C14 are stated over EVERY outcome the contract allows in every      *)
(* reachable state (state invariants quantified over all calls), so no observation        *)
(* variable is needed and the state space stays small.                                    *)
EXTENDS Store, TLC

CONSTANTS NKeys, MaxT, TtlUnit, Configs, NearTop, OpKinds
\* NearTop: explicit timestamps t with MaxT - NearTop <= t < MaxT are excluded (clock
\* saturation is a recorded finding, see DESIGN.md); MaxT itself (never folded) is included.

NLt(a, b) == a < b
NSucc(a) == IF a >= MaxT THEN MaxT ELSE a + 1
NAddTtl(b, ttl) == IF b + ttl * TtlUnit >= MaxT THEN MaxT ELSE b + ttl * TtlUnit
NRemSecs(e, n) == (e - n) \div TtlUnit

VARIABLES kv, now, floor, seen, cfg
vars == <<kv, now, floor, seen, cfg>>

Keys == 1 .. NKeys
KLen == [i \in Keys |-> i]               \* key i is i bytes long
Times == 0 .. MaxT
B1 == [k |-> "b", id |-> 1, len |-> 3, n |-> 0]
B2 == [k |-> "b", id |-> 2, len |-> 6, n |-> 0]
Vals == {B1, B2, CounterVal(1), DocVal(1)}
Mem == MemOf(kv, KLen, NKeys)

ExplicitTs == {t \in 1 .. MaxT : t = MaxT \/ t < MaxT - NearTop}
AutoSet(k) == LET ok == {t \in Times : AutoOK(t, floor[k], now, seen)}
              IN IF ok = {} THEN {AutoBound(now, seen)} ELSE ok
\* update_ttl: the automatic draw, moved past the current version
TtlTsSet(k) == {IF t > kv[k].ts THEN t ELSE NSucc(kv[k].ts) : t \in AutoSet(k)}

D(op, k) == [op |-> op, k |-> k, v |-> NoVal, x |-> NoVal, d |-> 0, auto |-> TRUE, ts |-> 0,
             ttl |-> 0, wttl |-> FALSE, lo |-> 0, hi |-> 0, lim |-> 0, pt |-> -1, ps |-> 0]

TsChoices(k) == {<<TRUE, t>> : t \in AutoSet(k)} \cup {<<FALSE, t>> : t \in ExplicitTs}

AllOps ==
     {[D("insert", k) EXCEPT !.v = v, !.auto = c[1], !.ts = c[2], !.ttl = ttl, !.wttl = (ttl > 0)]
         : k \in Keys, v \in Vals, c \in UNION {TsChoices(kk) : kk \in Keys}, ttl \in {0, 1}}
\cup {D("get", k) : k \in Keys}
\cup {D("get_size", k) : k \in Keys}
\cup {[D("delete", k) EXCEPT !.auto = c[1], !.ts = c[2]]
         : k \in Keys, c \in UNION {TsChoices(kk) : kk \in Keys}}
\cup {[D("cas", k) EXCEPT !.x = x, !.v = v, !.auto = c[1], !.ts = c[2], !.ttl = ttl]
         : k \in Keys, x \in {B1, CounterVal(1)}, v \in {B2}, c \in UNION {TsChoices(kk) : kk \in Keys},
           ttl \in {0, 1}}
\cup {[D("incr", k) EXCEPT !.d = 1, !.auto = c[1], !.ts = c[2], !.ttl = ttl]
         : k \in Keys, c \in UNION {TsChoices(kk) : kk \in Keys}, ttl \in {0, 1}}
\cup {[D("iia", k) EXCEPT !.v = v, !.ts = t] : k \in Keys, v \in {B1}, t \in UNION {AutoSet(kk) : kk \in Keys}}
\cup {[D("patch", k) EXCEPT !.pt = pt, !.ps = 2, !.auto = c[1], !.ts = c[2]]
         : k \in Keys, pt \in {-1, 1}, c \in UNION {TsChoices(kk) : kk \in Keys}}
\cup {[D("update_ttl", k) EXCEPT !.ttl = ttl, !.ts = t]
         : k \in Keys, ttl \in {0, 1}, t \in UNION {TtlTsSet(kk) : kk \in Keys}}
\cup {D("get_ttl", k) : k \in Keys}

\* the timestamp an op may carry: automatic ones must come from the key's own clock view
TsAllowed(op) ==
  CASE op.op \in {"insert", "delete", "cas", "incr", "patch"} ->
         (~op.auto \/ op.ts \in AutoSet(op.k))
    [] op.op = "iia" -> op.ts \in AutoSet(op.k)
    [] op.op = "update_ttl" -> op.ts \in TtlTsSet(op.k)
    [] OTHER -> TRUE

Sum(cur, d) == cur.val.n + d

Outcomes(op) ==
  LET k == op.k  cur == kv[k]  kl == KLen[k] IN
  CASE op.op = "insert" -> InsertOut(cfg, cur, now, Mem, kl, op.v, op.auto, op.ts, op.ttl, op.wttl)
    [] op.op = "get" -> GetOut(cfg, cur, now, kl)
    [] op.op = "get_size" -> GetSizeOut(cfg, cur, now, kl)
    [] op.op = "delete" -> DeleteOut(cfg, cur, now, kl, op.auto, op.ts)
    [] op.op = "cas" -> CasOut(cfg, cur, now, Mem, kl, op.x, op.v, op.auto, op.ts, op.ttl)
    [] op.op = "incr" -> IncrOut(cfg, cur, now, Mem, kl, op.d, Sum(cur, op.d), op.auto, op.ts, op.ttl)
    [] op.op = "iia" -> InsertIfAbsentOut(cfg, cur, now, Mem, kl, op.v, op.ts)
    [] op.op = "patch" -> PatchOut(cfg, cur, now, Mem, kl, [test |-> op.pt, set |-> op.ps], op.auto, op.ts)
    [] op.op = "update_ttl" -> UpdateTtlOut(cfg, cur, now, kl, op.ttl, op.ts)
    [] op.op = "get_ttl" -> GetTtlOut(cfg, cur, now, kl)

NewGen(cur, o) == o.rec.p /\ o.rec # cur
Apply(op, o) ==
  LET k == op.k  cur == kv[k]
      acc == IF NewGen(cur, o) THEN o.rec.ts ELSE TZero IN
  /\ kv' = [kv EXCEPT ![k] = o.rec]
  /\ seen' = SeenAfter(seen, now, o.draw, o.fold, acc)
  /\ floor' = [floor EXCEPT ![k] = IF IsErr(o.res) THEN @ ELSE TMax2(TMax2(@, acc), o.fold)]
  /\ UNCHANGED <<now, cfg>>

Step(op) == TsAllowed(op) /\ \E o \in Outcomes(op) : Apply(op, o)

Tick == now < MaxT - NearTop - 1 /\ now' = now + 1 /\ UNCHANGED <<kv, floor, seen, cfg>>
\* background / explicit sweep and recovery drop only expired generations
Reap(k) == /\ Expired(cfg, kv[k], now)
           /\ kv' = [kv EXCEPT ![k] = NoRec] /\ UNCHANGED <<now, floor, seen, cfg>>
\* clean reopen of a persistent store: expired keys vanish when TTL is enabled, the clock is
\* re-seeded from the recovered versions (seen stays an upper bound)
Reopen == /\ cfg.pers
          /\ kv' = [k \in Keys |-> IF Expired(cfg, kv[k], now) THEN NoRec ELSE kv[k]]
          \* recovery feeds the clock from every generation it reads, also from a newest one it then drops as expired
          /\ floor' = [k \in Keys |-> IF kv[k].p THEN kv[k].ts ELSE TZero]
          /\ UNCHANGED <<now, seen, cfg>>

Init == /\ kv = [k \in Keys |-> NoRec] /\ now = 1 /\ floor = [k \in Keys |-> 0] /\ seen = 0
        /\ cfg \in Configs
Next == (\E op \in {o \in AllOps : o.op \in OpKinds} : Step(op)) \/ Tick \/ (\E k \in Keys : Reap(k)) \/ Reopen
Spec == Init /\ [][Next]_vars

(* ------------------------------ properties ------------------------------ *)
TypeOK == /\ now \in Times /\ seen \in Times
          /\ \A k \in Keys : floor[k] \in Times /\ kv[k].ts \in Times /\ kv[k].exp \in Times

Legal(op) == TsAllowed(op)
LogicalSame(cur, rec) == \* what any later read returns is unchanged
  \/ rec = cur
  \/ (Expired(cfg, cur, now) /\ ~rec.p)

(* C01: an error leaves the logical contents unchanged *)
ErrUnchanged == \A op \in AllOps : Legal(op) =>
                  \A o \in Outcomes(op) : IsErr(o.res) => LogicalSame(kv[op.k], o.rec)
(* C01: a write or delete takes effect iff its timestamp is greater than the current one *)
LWW == \A op \in AllOps : Legal(op) =>
         \A o \in Outcomes(op) :
           LET cur == kv[op.k] IN
           /\ (cur.p /\ o.rec.p /\ o.rec # cur) => TLt(cur.ts, o.rec.ts)
           /\ (cur.p /\ ~o.rec.p /\ ~IsErr(o.res)) => TLt(cur.ts, op.ts)
           /\ (op.op \in {"insert", "delete"} /\ cur.p /\ ~op.auto /\ TLt(cur.ts, op.ts)
                 /\ ~NoRoom(cfg, Mem, Growth(KLen[op.k], cur, op.v))
                 /\ ~(op.wttl /\ (~cfg.ttl \/ TtlWriteUnsupported(cfg))))
               => ~IsErr(o.res)
           /\ (o.res.tag = "OlderTimestamp" /\ ~op.auto)
               => (cur.p /\ (TLe(op.ts, cur.ts) \/ (Expired(cfg, cur, now) /\ TLe(op.ts, now))))
(* C01/C11: reads return the latest accepted value, and nothing after its expiry instant *)
ReadLatest == \A op \in AllOps : Legal(op) =>
                \A o \in Outcomes(op) :
                  /\ (op.op = "get" /\ o.res.tag = "val")
                       => (kv[op.k].p /\ o.res.val = kv[op.k].val /\ ~Expired(cfg, kv[op.k], now))
                  /\ (op.op = "get" /\ Live(cfg, kv[op.k], now)) => o.res.tag = "val"
NoUseAfterExpiry ==
  \A op \in AllOps : (Legal(op) /\ Expired(cfg, kv[op.k], now)) =>
    \A o \in Outcomes(op) :
      /\ op.op = "get" => IsErr(o.res)
      /\ op.op = "cas" => o.res # OkBool(TRUE)
      /\ (op.op = "incr" /\ ~IsErr(o.res)) => o.res = OkNum(op.d)
      /\ op.op \in {"patch", "update_ttl"} => IsErr(o.res)
(* C11: never removed while unexpired except by delete; expiry arithmetic is exact *)
NoEarlyLoss == \A op \in AllOps : Legal(op) =>
                 \A o \in Outcomes(op) :
                   (kv[op.k].p /\ ~o.rec.p) => (op.op = "delete" \/ Expired(cfg, kv[op.k], now))
ExpiryExact == \A op \in AllOps : Legal(op) =>
                 \A o \in Outcomes(op) : NewGen(kv[op.k], o) =>
                   o.rec.exp = (CASE op.op = "update_ttl" -> ExpOf(now, op.ttl)
                                  [] op.op \in {"cas", "incr"} -> ExpOf(o.rec.ts, op.ttl)
                                  [] op.op = "insert" ->
                                       (IF op.ttl # TtlNone /\ cfg.ttl THEN ExpOf(o.rec.ts, op.ttl) ELSE TZero)
                                  [] OTHER -> TZero)
TtlKeepsValue == \A op \in AllOps : (Legal(op) /\ op.op = "update_ttl") =>
                   \A o \in Outcomes(op) : ~IsErr(o.res) => o.rec.val = kv[op.k].val
(* C12: automatic versions strictly increase along a key's generations and are never
   rejected as older unless the key was pinned at the maximum *)
AutoIncreases ==
  \A op \in AllOps : (Legal(op) /\ (op.auto \/ op.op \in {"iia", "update_ttl"})) =>
    \A o \in Outcomes(op) :
      /\ NewGen(kv[op.k], o) => TLt(floor[op.k], o.rec.ts) \/ floor[op.k] = TMaxV
      /\ o.res.tag = "OlderTimestamp" => floor[op.k] = TMaxV
ClockBoundsFloor == \A k \in Keys : floor[k] = TMaxV \/ TLe(floor[k], seen)
(* C13: admitted writes never push usage above the limit; refusals change nothing *)
MemBound == cfg.lim < 0 \/ \A op \in AllOps : Legal(op) =>
              \A o \in Outcomes(op) :
                (o.rec # kv[op.k] /\ RecSize(KLen[op.k], o.rec) > RecSize(KLen[op.k], kv[op.k]))
                   => Mem - RecSize(KLen[op.k], kv[op.k]) + RecSize(KLen[op.k], o.rec) <= cfg.lim
(* C14: the range result is exactly the live keys of the window, ascending, at most lim *)
RangeExact ==
  \A lo \in 1 .. NKeys + 1, hi \in 0 .. NKeys, lim \in 0 .. NKeys + 1 :
    LET r == RangeResult(cfg, kv, now, lo, hi, lim)
        live == {i \in lo .. hi : Live(cfg, kv[i], now)} IN
    /\ Len(r) = (IF Cardinality(live) < lim THEN Cardinality(live) ELSE lim)
    /\ \A i \in 1 .. Len(r) : r[i].k \in live /\ r[i].val = kv[r[i].k].val
    /\ \A i \in 1 .. Len(r) - 1 : r[i].k < r[i + 1].k
    /\ \A i \in 1 .. Len(r) : \A j \in live : j < r[i].k => \E m \in 1 .. i : r[m].k = j

Bounded == /\ \A k \in Keys : kv[k].val.n <= 3
           /\ seen < MaxT - NearTop        \* stay clear of clock saturation (artefact of a tiny domain)

Cf(p, t, f, l) == [pers |-> p, ttl |-> t, cache |-> FALSE, fmt |-> f, lim |-> l]
ConfMem == {Cf(FALSE, TRUE, 3, -1), Cf(FALSE, FALSE, 3, -1)}
ConfMemLimit == {Cf(FALSE, TRUE, 3, 30)}
AllKinds == {"insert", "get", "get_size", "delete", "cas", "incr", "iia", "patch", "update_ttl", "get_ttl"}
FewKinds == {"insert", "get", "delete", "incr"}
ConfPers == {Cf(TRUE, TRUE, 3, -1), Cf(TRUE, TRUE, 1, -1), Cf(TRUE, FALSE, 2, -1)}
=============================================================================

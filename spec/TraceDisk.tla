------------------------------ MODULE TraceDisk ------------------------------
(***************************************************************************)
(* Validates a recorded run of the real persistent store at the device     *)
(* level (properties C02, C03, C05, C10, crash part of C11).               *)
(*                                                                         *)
(* Facts replayed: accepted API mutations (per-key history), flush / drop  *)
(* acknowledgements, every device write projected onto the abstract block  *)
(* contents of Disk.tla by the independent decoder, every completed fsync, *)
(* and - for the crash images that were materialised - what the REAL       *)
(* recovery code exposed after reopening that image.                       *)
(*                                                                         *)
(* Verdicts (rule R6: only property formulas):                             *)
(*   CrashOpens / CrashWindow / CrashNoGhost : evaluated by TLC over EVERY *)
(*     crash image (subset of the un-synced blocks) of EVERY visited state *)
(*     with the abstract reader Recover;                                   *)
(*   RealOpens / RealWindow / RealNoGhost / RealCount : the same           *)
(*     statements about what the real recovery returned;                   *)
(*   AtAck* / Partition / MetaMatches : quiescent-point statements.        *)
(* RecConforms (real result = Recover's prediction) binds recovery.rs to   *)
(* the abstract reader; a failure is a deviation, reported separately.     *)
(***************************************************************************)
EXTENDS Disk, Json, IOUtils

CONSTANTS MaxExh      \* exhaustive subsets up to this many un-synced units

VARIABLES dur, pend, gens, hist, done, ack, fl, now, conf, l,
          cflags,     \* aspects of CrashSafe that fail in some crash image of the current state
          real,       \* last real-recovery observation (or NoReal)
          snap,       \* snapshot taken at the last acknowledged flush (or NoSnap)
          dropping, dropFailed,
          live0       \* blocks of the winners of the initial image (traces that start from a crashed device)

tvars == <<dur, pend, gens, hist, done, ack, fl, now, conf, l, cflags, real, snap, dropping, dropFailed, live0>>

Rec == ndJsonDeserialize(IOEnv.TRACE)
Ev == Rec[l]
Keys == 1 .. conf.nk
NoReal == [on |-> FALSE, units |-> {}, torn |-> {}, memok |-> TRUE, ok |-> TRUE, err |-> "", kv |-> <<>>, len |-> 0, extra |-> 0, now |-> 0,
           at |-> <<>>, nb |-> <<>>, free |-> {}]
NoSnap == [on |-> FALSE, recs |-> <<>>, free |-> <<>>, usage |-> 0, len |-> 0]

(* ---- JSON -> abstract values ---- *)
Cont(c) == C(c.t, c.g, c.n, c.i, c.look)
JV(v) == IF v.z THEN JZ ELSE IF v.bad THEN JBad
         ELSE J(v.gen, v.active, [i \in 1 .. Len(v.exts) |-> <<v.exts[i][1], v.exts[i][2]>>])
MV(v) == IF v.z THEN MZ ELSE IF v.bad THEN MBad ELSE Mt(v.gen, v.ver, v.recs, v.size)
Wr(w) == IF w.kind = "d" THEN [kind |-> "d", at |-> w.at, c |-> [i \in 1 .. Len(w.c) |-> Cont(w.c[i])],
                                slot |-> 0, copy |-> 0, v |-> JZ]
         ELSE IF w.kind = "j" THEN [kind |-> "j", at |-> 0, c |-> <<>>, slot |-> w.slot, copy |-> 0, v |-> JV(w.v)]
         ELSE IF w.kind = "m" THEN [kind |-> "m", at |-> 0, c |-> <<>>, slot |-> 0, copy |-> w.copy, v |-> MV(w.v)]
         ELSE [kind |-> "x", at |-> w.at, c |-> <<>>, slot |-> 0, copy |-> 0, v |-> JZ]

TInit == /\ l = 1 /\ dur = EmptyImage /\ pend = <<>> /\ gens = <<>>
         /\ hist = <<>> /\ done = <<>> /\ ack = <<>> /\ fl = <<>> /\ now = 0
         /\ conf = [fmt |-> 3, ttl |-> FALSE, nk |-> 0, cc |-> 1]
         /\ real = NoReal /\ snap = NoSnap /\ dropping = FALSE /\ dropFailed = FALSE
         /\ cflags = {} /\ live0 = {}

Same(vs) == UNCHANGED vs

TStart == /\ Ev.e = "init"
          /\ conf' = [fmt |-> Ev.fmt, ttl |-> Ev.ttl, nk |-> Ev.nk, cc |-> Ev.cc]
          /\ now' = Ev.now
          /\ hist' = [k \in 1 .. Ev.nk |-> <<0>>]
          /\ done' = [k \in 1 .. Ev.nk |-> 1]
          /\ ack' = [k \in 1 .. Ev.nk |-> 1]
          /\ dur' = EmptyImage /\ pend' = <<>> /\ gens' = <<>> /\ fl' = <<>>
          /\ real' = NoReal /\ snap' = NoSnap /\ dropping' = FALSE /\ dropFailed' = FALSE
          /\ live0' = {}

\* C04: the trace starts from a crashed device image; the contents the first complete recovery
\* reports (abstract reader) are the only state every later recovery may expose
ImgOf(j) == [blk |-> [b \in Blocks |-> Cont(j.blk[b - DS + 1])],
             j |-> [s \in 0 .. 1 |-> JV(j.j[s + 1])],
             m |-> [c \in 0 .. 1 |-> MV(j.m[c + 1])]]
TImage == /\ Ev.e = "image"
          /\ dur' = ImgOf(Ev.img) /\ pend' = <<>>
          /\ \E r \in {Recover(ImgOf(Ev.img), gens, Keys, now, conf.ttl, FALSE)} :
             /\ hist' = [k \in Keys |-> <<IF r.ok THEN r.win[k] ELSE 0>>]
             /\ live0' = IF r.ok THEN UNION {r.winAt[k].at .. (r.winAt[k].at + gens[r.win[k]].n - 1)
                                               : k \in {kk \in Keys : r.kv[kk] # 0}}
                          ELSE {}
          /\ done' = [k \in Keys |-> 1] /\ ack' = [k \in Keys |-> 1]
          /\ real' = NoReal /\ snap' = NoSnap
          /\ Same(<<gens, fl, now, conf, dropping, dropFailed>>)

TGen == /\ Ev.e = "gen"
        /\ gens' = Append(gens, [k |-> Ev.k, ts |-> Ev.ts, exp |-> Ev.exp, n |-> Ev.n])
        /\ real' = NoReal /\ snap' = NoSnap
        /\ Same(<<dur, pend, hist, done, ack, fl, now, conf, dropping, dropFailed>>)

TCall == /\ Ev.e = "call"
         /\ hist' = [hist EXCEPT ![Ev.k] = Append(@, Ev.g)]
         /\ real' = NoReal /\ snap' = NoSnap
         /\ Same(<<dur, pend, gens, done, ack, fl, now, conf, dropping, dropFailed>>)

TRet == /\ Ev.e = "ret"
        /\ done' = [done EXCEPT ![Ev.k] = Len(hist[Ev.k])]
        /\ real' = NoReal /\ snap' = NoSnap
        /\ Same(<<dur, pend, gens, hist, ack, fl, now, conf, dropping, dropFailed>>)

TTick == /\ Ev.e = "tick" /\ now' = Ev.now
         /\ real' = NoReal /\ snap' = NoSnap
         /\ Same(<<dur, pend, gens, hist, done, ack, fl, conf, dropping, dropFailed>>)

TWrite == /\ Ev.e = "w"
          /\ pend' = Append(pend, Wr(Ev.w))
          /\ real' = NoReal /\ snap' = NoSnap
          /\ Same(<<dur, gens, hist, done, ack, fl, now, conf, dropping, dropFailed>>)

TFsync == /\ Ev.e = "fsync"
          /\ dur' = ApplyAll(dur, pend) /\ pend' = <<>>
          /\ real' = NoReal /\ snap' = NoSnap
          /\ Same(<<gens, hist, done, ack, fl, now, conf, dropping, dropFailed>>)

\* every write and delete that completed before the flush call began is covered by its Ok
TFlushBegin == /\ Ev.e = "flush_begin"
               /\ fl' = Append(fl, done)
               /\ real' = NoReal /\ snap' = NoSnap
               /\ Same(<<dur, pend, gens, hist, done, ack, now, conf, dropping, dropFailed>>)

MaxN(a, b) == IF a > b THEN a ELSE b
SnapOf(s) == [on |-> TRUE,
              recs |-> [i \in 1 .. Len(s.recs) |-> [k |-> s.recs[i].k, g |-> s.recs[i].g, at |-> s.recs[i].at,
                                                     n |-> s.recs[i].n, resident |-> s.recs[i].resident]],
              free |-> [i \in 1 .. Len(s.free) |-> <<s.free[i][1], s.free[i][2]>>],
              usage |-> s.disk_usage, len |-> s.len]
TFlushEnd == /\ Ev.e = "flush_end"
             /\ ack' = IF Ev.ok THEN [k \in Keys |-> MaxN(ack[k], fl[Ev.id + 1][k])] ELSE ack
             /\ snap' = IF Ev.ok THEN SnapOf(Ev.snap) ELSE NoSnap
             /\ real' = NoReal
             /\ Same(<<dur, pend, gens, hist, done, fl, now, conf, dropping, dropFailed>>)

\* a clean close acknowledges like a flush, but only on a healthy device: when no worker
\* reported that its final flush failed
TDrop == \/ /\ Ev.e = "drop_begin" /\ dropping' = TRUE /\ dropFailed' = FALSE
            /\ fl' = Append(fl, done)
            /\ real' = NoReal /\ snap' = NoSnap
            /\ Same(<<dur, pend, gens, hist, done, ack, now, conf>>)
         \/ /\ Ev.e = "final_flush_fail" /\ dropFailed' = TRUE
            /\ real' = NoReal /\ snap' = NoSnap
            /\ Same(<<dur, pend, gens, hist, done, ack, fl, now, conf, dropping>>)
         \/ /\ Ev.e = "drop_end" /\ dropping' = FALSE
            /\ ack' = IF ~dropFailed THEN [k \in Keys |-> MaxN(ack[k], fl[Len(fl)][k])] ELSE ack
            /\ real' = NoReal /\ snap' = NoSnap
            /\ Same(<<dur, pend, gens, hist, done, fl, now, conf, dropFailed>>)
         \/ /\ Ev.e \in {"abandon", "refill", "reads", "fault", "heal", "autorej"}
            /\ real' = NoReal /\ snap' = NoSnap
            /\ Same(<<dur, pend, gens, hist, done, ack, fl, now, conf, dropping, dropFailed>>)

\* the process dies: some subset of the un-synced units reached the platter, everything volatile is
\* lost; the next session recovers this image and the per-key histories continue from there
TCrash == /\ Ev.e = "crash"
          /\ dur' = ApplyUnits(dur, pend, {<<Ev.units[i][1], Ev.units[i][2]>> : i \in 1 .. Len(Ev.units)}, 1)
          /\ pend' = <<>>
          /\ done' = [k \in Keys |-> Len(hist[k])]
          /\ dropping' = FALSE /\ dropFailed' = FALSE
          /\ real' = NoReal /\ snap' = NoSnap
          /\ Same(<<gens, hist, ack, fl, now, conf>>)

\* the restarted store's contents become the current state of every key
TAdopt == /\ Ev.e = "adopt"
          /\ hist' = [k \in Keys |-> Append(hist[k], IF Ev.kv[k] >= 0 THEN Ev.kv[k] ELSE 0)]
          /\ done' = [k \in Keys |-> Len(hist[k]) + 1]
          /\ real' = NoReal /\ snap' = NoSnap
          /\ Same(<<dur, pend, gens, ack, fl, now, conf, dropping, dropFailed>>)

\* C19: without any flush, everything completed `settle` ago must be durable and retired
TSettled == /\ Ev.e = "settled"
            /\ ack' = done
            /\ snap' = SnapOf(Ev.snap)
            /\ real' = NoReal
            /\ Same(<<dur, pend, gens, hist, done, fl, now, conf, dropping, dropFailed>>)

TRec == /\ Ev.e = "rec"
        /\ real' = [on |-> TRUE,
                    units |-> {<<Ev.units[i][1], Ev.units[i][2]>> : i \in 1 .. Len(Ev.units)},
                    torn |-> {<<Ev.torn[i][1], Ev.torn[i][2]>> : i \in 1 .. Len(Ev.torn)},
                    memok |-> Ev.res.memok,
                    ok |-> Ev.res.ok, err |-> Ev.res.err,
                    kv |-> [k \in Keys |-> Ev.res.kv[k]], len |-> Ev.res.len, extra |-> Ev.res.extra,
                    now |-> Ev.now,
                    at |-> [k \in Keys |-> IF Ev.res.ok THEN Ev.res.at[k] ELSE 0],
                    nb |-> [k \in Keys |-> IF Ev.res.ok THEN Ev.res.nb[k] ELSE 0],
                    free |-> UNION {Ev.res.free[i][1] .. (Ev.res.free[i][1] + Ev.res.free[i][2] - 1)
                                      : i \in 1 .. Len(Ev.res.free)}]
        /\ snap' = NoSnap
        /\ Same(<<dur, pend, gens, hist, done, ack, fl, now, conf, dropping, dropFailed>>)

(* ------------------------------ crash images ------------------------------ *)
UnitSeqOf(p) ==    \* units in issue order
  LET RECURSIVE Go(_)
      Go(i) == IF i > Len(p) THEN <<>>
               ELSE (IF p[i].kind = "d" THEN [o \in 1 .. Len(p[i].c) |-> <<i, o - 1>>] ELSE << <<i, 0>> >>)
                    \o Go(i + 1)
  IN Go(1)
SubsetsOf(p) ==
  LET us == UnitSeqOf(p)  n == Len(us)  U == {us[i] : i \in 1 .. n} IN
  IF n <= MaxExh THEN SUBSET U
  ELSE {{us[i] : i \in 1 .. q} : q \in 0 .. n}
       \cup {{us[i]} : i \in 1 .. n} \cup {U \ {us[i]} : i \in 1 .. n}

\* A journal slot image longer than one 512-byte sector (header 40 bytes + 8 per entry) can be torn:
\* the slot then fails its checksum.  One torn unit at a time.
TearMin == 60
\* A data block can tear inside the block too (512-byte sectors): the device observer flags the blocks where that is
\* observable - a record head (its first sector lands, the rest does not: the token no longer matches) and a marker
\* written over a head (everything but the first sector lands: the old header over zeroed contents).  Disk!TornOver
\* gives both the abstract block Xh.
Tearable(p, u) ==
  \/ p[u[1]].kind = "j" /\ ~p[u[1]].v.z /\ ~p[u[1]].v.bad /\ Len(p[u[1]].v.exts) >= TearMin
  \/ p[u[1]].kind = "d" /\ "tear" \in DOMAIN p[u[1]] /\ u[2] + 1 <= Len(p[u[1]].tear) /\ p[u[1]].tear[u[2] + 1]
TornSetsOf(p, S) == {{}} \cup {{u} : u \in {x \in S : Tearable(p, x)}}

Expd(g, t) == g # 0 /\ conf.ttl /\ gens[g].exp # 0 /\ t > gens[g].exp
InWindow(k, g) == \E i \in ack[k] .. Len(hist[k]) : hist[k][i] = g
\* what a reopened store may expose for k: a state of the window, or nothing when the state of the
\* window that recovery would pick has expired
Exposable(k, g, t) == InWindow(k, g) \/ (g = 0 /\ \E i \in ack[k] .. Len(hist[k]) : Expd(hist[k][i], t))

\* aspects of CrashSafe violated by some crash image of the given state
\* (bounded quantification over a singleton set binds the recovery result to a VALUE: TLC then
\*  evaluates Recover once per image instead of once per reference)
AspectsOf(r, hs, ak, gs, t, cf) ==
  IF ~r.ok THEN {"opens"}
  ELSE (IF \E k \in 1 .. cf.nk :
              ~(\/ \E i \in ak[k] .. Len(hs[k]) : hs[k][i] = r.win[k]
                \* the state of the window that recovery would pick has expired and was retired
                \/ (r.win[k] = 0 /\ \E i \in ak[k] .. Len(hs[k]) :
                       hs[k][i] # 0 /\ cf.ttl /\ gs[hs[k][i]].exp # 0 /\ t > gs[hs[k][i]].exp))
        THEN {"window"} ELSE {})
       \cup (IF r.ghosts # {} THEN {"ghost"} ELSE {})
FlagsOf(d, p, gs, hs, ak, t, cf) ==
  IF cf.nk = 0 THEN {} ELSE
  UNION {UNION {UNION {AspectsOf(r, hs, ak, gs, t, cf)
                         : r \in {Recover(IF Tn = {} THEN ApplyUnits(d, p, S, 1) ELSE ApplyUnitsT(d, p, S, Tn, 1),
                                          gs, 1 .. cf.nk, t, cf.ttl, FALSE)}}
                  : Tn \in TornSetsOf(p, S)}
         : S \in SubsetsOf(p)}

Changes == IF conf'.cc = 3 THEN FALSE                             \* only what the real recovery returned
           ELSE IF conf'.cc = 2 THEN Ev.e \in {"image", "fsync"}      \* durable states only
           ELSE IF conf'.cc = 4 THEN Ev.e \in {"flush_end", "drop_end", "settled"} \/ (Ev.e = "w" /\ Ev.w.kind = "j")
           ELSE IF conf'.cc = 1 THEN Ev.e \in {"init", "image", "crash", "adopt", "call", "tick", "w", "fsync", "flush_end", "drop_end", "settled"}
           ELSE Ev.e \in {"flush_end", "drop_end", "settled"}
TNext == /\ l <= Len(Rec) /\ l' = l + 1
         /\ (TStart \/ TGen \/ TCall \/ TRet \/ TTick \/ TWrite \/ TFsync \/ TFlushBegin \/ TFlushEnd
             \/ TDrop \/ TRec \/ TSettled \/ TImage \/ TCrash \/ TAdopt)
         /\ (IF Ev.e \in {"init", "image"} THEN TRUE ELSE live0' = live0)
         /\ cflags' = IF Changes THEN FlagsOf(dur', pend', gens', hist', ack', now', conf') ELSE cflags
TSpec == TInit /\ [][TNext]_tvars

Rv(img) == Recover(img, gens, Keys, now, conf.ttl, FALSE)
\* C03: after a crash at any instant the file can be reopened
CrashOpens == "opens" \notin cflags
\* C02/C03: every key carries a state of its history not older than the last acknowledged one
CrashWindow == "window" \notin cflags
\* C03: nothing the application did not store surfaces
CrashNoGhost == "ghost" \notin cflags

(* ------------------- the same, about the real recovery ------------------- *)
RealOpens == real.on => real.ok
RealWindow == (real.on /\ real.ok) => \A k \in Keys : real.kv[k] >= 0 /\ Exposable(k, real.kv[k], real.now)
RealNoGhost == (real.on /\ real.ok) => (real.extra = 0 /\ \A k \in Keys : real.kv[k] # -1)
RealCount == (real.on /\ real.ok) => real.len = Cardinality({k \in Keys : real.kv[k] # 0}) + real.extra
\* C13: after recovery memory_usage() equals the sum over the recovered records of
\* (record overhead + key length + value length)   (both sides read from the recovered store)
RealMem == (real.on /\ real.ok) => real.memok
\* C05: a store obtained by recovery from a crash image is exactly partitioned too
RealPartition ==
  (real.on /\ real.ok) =>
    \* every key the recovered store exposes, whether or not its contents could be identified; the
    \* extent length follows from the key and value lengths the store reports (documented layout)
    LET live == {k \in Keys : real.kv[k] # 0}
        ext(k) == real.at[k] .. (real.at[k] + real.nb[k] - 1) IN
    /\ \A k \in live : real.at[k] >= DS /\ real.at[k] + real.nb[k] <= DE /\ real.nb[k] >= 1
    /\ \A k \in live : real.kv[k] > 0 => real.nb[k] = gens[real.kv[k]].n
    /\ \A k1, k2 \in live : k1 # k2 => ext(k1) \cap ext(k2) = {}
    /\ \A k \in live : ext(k) \cap real.free = {}
    /\ (real.extra = 0) => (UNION {ext(k) : k \in live}) \cup real.free = Blocks
\* C05: a key's newest generation - acknowledged, nothing accepted for the key after it, not expired when the image is
\* recovered - has at least one complete copy on the durable device (a failed batch may have left a second one, which
\* recovery retires): the blocks of SOME copy have one owner, i.e. the store that recovery builds from any crash image does
\* not report every copy's blocks free
RealFreeNotLive ==
  (real.on /\ real.ok) =>
    \A k \in Keys :
      LET n == Len(hist[k]) IN
      (n > 0 /\ ack[k] = n /\ hist[k][n] > 0 /\ ~Expd(hist[k][n], real.now)) =>
        LET heads == {b \in Blocks : dur.blk[b].t = "H" /\ dur.blk[b].g = hist[k][n] /\ b + dur.blk[b].n <= DE} IN
        heads # {} => \E b \in heads : (b .. (b + dur.blk[b].n - 1)) \cap real.free = {}
\* conformance of recovery.rs with the abstract reader (a deviation, not a verdict)
RecConforms ==
  real.on =>
    \A r \in {Recover(ApplyUnitsT(dur, pend, real.units, real.torn, 1), gens, Keys, real.now, conf.ttl, FALSE)} :
    /\ r.ok = real.ok
    /\ r.ok => \A k \in Keys : r.kv[k] = real.kv[k]
    /\ ~r.ok => r.err = real.err

(* ------------------------- quiescent-point statements ------------------------- *)
Latest(k) == hist[k][Len(hist[k])]
\* C10: after flush() the independent reader finds exactly the live keys, a clear journal, and
\* metadata counters equal to the live totals
\* C10: every allocation-journal image the store WRITES decodes under the documented layout (the independent decoder
\* checks state, entry count, image length and the checksum over exactly the blocks the entries occupy); torn images
\* exist only in crash images, never as a complete write
JournalImagesValid == (l > 1 /\ Rec[l - 1].e = "w" /\ Rec[l - 1].w.kind = "j") => ~Rec[l - 1].w.v.bad
AtAckJournalClear == snap.on => ~JournalPick(dur.j).active /\ pend = <<>>
AtAckLayout == snap.on => \A r \in {Rv(dur)} : r.ok /\ \A k \in Keys : r.win[k] = Latest(k)
LiveBlocks == LET S == {i \in 1 .. Len(snap.recs) : TRUE} IN
              IF S = {} THEN 0 ELSE
              LET RECURSIVE Sum(_)
                  Sum(i) == IF i = 0 THEN 0 ELSE snap.recs[i].n + Sum(i - 1)
              IN Sum(Len(snap.recs))
MetaMatches == snap.on => LET m == MetaPick(dur.m) IN
                 /\ MetaValid(m) /\ m.recs = snap.len /\ m.size = LiveBlocks /\ snap.usage = LiveBlocks
\* C05: each data block belongs to exactly one live record's extent or to the free pool
ExtOf(r) == r.at .. (r.at + r.n - 1)
FreeSet == UNION {f[1] .. (f[1] + f[2] - 1) : f \in {snap.free[i] : i \in 1 .. Len(snap.free)}}
Partition ==
  snap.on =>
    LET R == {snap.recs[i] : i \in 1 .. Len(snap.recs)} IN
    /\ \A r \in R : r.at >= DS /\ r.at + r.n <= DE /\ r.g # 0 /\ ~r.resident
    /\ \A r1, r2 \in R : r1 # r2 => ExtOf(r1) \cap ExtOf(r2) = {}
    /\ \A r \in R : ExtOf(r) \cap FreeSet = {}
    /\ (UNION {ExtOf(r) : r \in R}) \cup FreeSet = Blocks
    /\ \A r \in R : r.g = Latest(r.k) /\ dur.blk[r.at] = H(r.g, r.n)
    /\ Len(snap.recs) = snap.len

\* C09: reads keep returning the latest accepted values while the device fails, and a flush on
\* the healed device succeeds (or reports that the file must be reopened)
LastEv == Rec[l - 1]
ReadsServe == (l > 1 /\ LastEv.e = "reads") => LastEv.bad = 0
HealWorks == (l > 1 /\ LastEv.e = "heal") => LastEv.ok
\* after an outage in which only record writes failed and every clean-up write succeeded (fault mode 3)
\* nothing is indeterminate and nothing has leaked: the next flush on the healthy device succeeds
\* (C05: space released by failed batches returns to the free pool exactly; C09: failures are contained)
OutageHeals == (l > 1 /\ LastEv.e = "heal" /\ LastEv.mode = 3) => LastEv.how = "flush"

\* C04: recovery's repairs only ever touch blocks that belong to no live record
\* (only the newest write needs checking in each state: the earlier ones were checked when issued)
RepairsSafe == Len(pend) > 0 =>
                 LET w == pend[Len(pend)] IN
                 w.kind = "d" => (w.at .. (w.at + Len(w.c) - 1)) \cap live0 = {}

\* C12 across crash recovery: an automatically versioned write is never rejected as older (the
\* drivers of this engine never pin a key at the maximum timestamp)
AutoNeverOlder == ~(l > 1 /\ LastEv.e = "autorej")

NoUnknownRegion == \A i \in 1 .. Len(pend) : pend[i].kind # "x"

TraceAccepted ==
  IF TLCGet("stats").diameter = Len(Rec) + 1 THEN TRUE
  ELSE Print(<<"TRACE-INCOMPLETE at event", TLCGet("stats").diameter>>, FALSE)
=============================================================================

\* seeded fault "AllowAlways" of the migration model: TLC must report a violation of AmbiguityRule
CONSTANTS DS = 16  DE = 24  Mut = "AllowAlways"  MaxFill = 1
SPECIFICATION Spec
INVARIANTS AmbiguityRule
CHECK_DEADLOCK FALSE

-------------------------------- MODULE Locks --------------------------------
(***************************************************************************)
(* C18: the lock skeleton.  Threads run straight-line lock programs        *)
(* ("words": sequences of <<op, lock>> with op "w" exclusive, "r" shared,  *)
(* "rel") that were OBSERVED in real executions of every engine (normal,   *)
(* full-device, failing-device, reader and flush-caller paths).  Every     *)
(* thread runs any observed word; TLC explores all interleavings and all   *)
(* assignments of words to threads and looks for a state in which some     *)
(* thread can never move again.                                            *)
(* Reader/writer locks are parking_lot locks: a waiting writer blocks new  *)
(* readers (writer preference) - modelled by the `wwait` set - which is    *)
(* what turns a recursive shared acquisition into a deadlock.              *)
(***************************************************************************)
EXTENDS Naturals, Sequences, FiniteSets, TLC

CONSTANTS Words,      \* set of observed words
          NThreads

Threads == 1 .. NThreads
VARIABLES prog, pc, wholder, rholders, wwait
lvars == <<prog, pc, wholder, rholders, wwait>>

LocksOf == UNION {{w[i][2] : i \in 1 .. Len(w)} : w \in Words}
Init == /\ prog \in [Threads -> Words]
        /\ pc = [t \in Threads |-> 1]
        /\ wholder = [l \in LocksOf |-> 0] /\ rholders = [l \in LocksOf |-> {}]
        /\ wwait = [l \in LocksOf |-> {}]
Done(t) == pc[t] > Len(prog[t])
Cur(t) == prog[t][pc[t]]
CanTake(t) ==
  LET o == Cur(t) IN
  CASE o[1] = "w" -> wholder[o[2]] = 0 /\ rholders[o[2]] = {}
    [] o[1] = "r" -> wholder[o[2]] = 0 /\ (wwait[o[2]] \ {t}) = {}
    [] OTHER -> TRUE
\* a thread that finds the lock busy registers as waiting (writers only matter)
Wait(t) == /\ ~Done(t) /\ ~CanTake(t) /\ Cur(t)[1] = "w" /\ t \notin wwait[Cur(t)[2]]
           /\ wwait' = [wwait EXCEPT ![Cur(t)[2]] = @ \cup {t}]
           /\ UNCHANGED <<prog, pc, wholder, rholders>>
Step(t) == /\ ~Done(t) /\ CanTake(t)
           /\ LET o == Cur(t) IN
              /\ wholder' = IF o[1] = "w" THEN [wholder EXCEPT ![o[2]] = t]
                            ELSE IF o[1] = "rel" /\ wholder[o[2]] = t THEN [wholder EXCEPT ![o[2]] = 0]
                            ELSE wholder
              /\ rholders' = IF o[1] = "r" THEN [rholders EXCEPT ![o[2]] = @ \cup {t}]
                             ELSE IF o[1] = "rel" THEN [rholders EXCEPT ![o[2]] = @ \ {t}]
                             ELSE rholders
              /\ wwait' = IF o[1] = "w" THEN [wwait EXCEPT ![o[2]] = @ \ {t}] ELSE wwait
           /\ pc' = [pc EXCEPT ![t] = @ + 1]
           /\ UNCHANGED prog
Next == \E t \in Threads : Step(t) \/ Wait(t)
Spec == Init /\ [][Next]_lvars

\* no reachable state in which unfinished threads exist but none of them can ever take its next lock
NoDeadlock == (\A t \in Threads : Done(t)) \/ (\E t \in Threads : ~Done(t) /\ CanTake(t))
=============================================================================

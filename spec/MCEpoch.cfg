CONSTANTS Readers = {1, 2}  MaxObj = 4  RepinEvery = 2  NBuf = 2  DeferOn = TRUE
SPECIFICATION Spec
INVARIANTS NoUseAfterDestroy SlotAlive HeldIsAlive

------------------------------ MODULE Migration ------------------------------
(***************************************************************************)
(* Offline migration v1/v2 -> v3 over the abstract device images of        *)
(* Disk.tla (property C15).                                                *)
(*                                                                         *)
(*  RecoverRO   the READ-ONLY reader migration applies to its source: an   *)
(*              ACTIVE allocation journal is virtualised (its extents are  *)
(*              skipped, nothing is replayed, nothing is repaired), TTL    *)
(*              filtering is off.  It is NOT Disk!Recover with replay: a   *)
(*              legacy head (no content binding) whose extent reaches into *)
(*              a journaled extent is accepted after a replay (its tail    *)
(*              has become marker blocks) but is `CorruptedRecord` for the *)
(*              read-only scan.  MCMigration_mut_Replay.cfg exhibits it.   *)
(*  Migrate     the migration as a function of the source image and the    *)
(*              opt-in: [ok |-> FALSE, dst |-> "absent"] or                *)
(*              [ok |-> TRUE, dst |-> v3 image].                           *)
(*  Faithful, DstIsV3, DstMeta, AmbiguousFails, AmbiguousAllowed           *)
(*              the property formulas, shared by the model checker         *)
(*              (MCMigration) and the trace validator (TraceMigration).    *)
(*                                                                         *)
(* gens : generation id -> [k, ts, exp, n, n3]; n = blocks of the legacy   *)
(* extent, n3 = blocks of the same record in format v3 (a v1 head has no   *)
(* expiry field, so a record can grow by one block).                       *)
(***************************************************************************)
EXTENDS Disk

(* ------------------------- read-only recovery ------------------------- *)
\* JB: the blocks of the ACTIVE journal's extents.  The scan never looks at them; a record whose
\* extent reaches into them is an error (journal_overlaps in recovery.rs).  Incomplete markers
\* are skipped, not queued for repair.
RECURSIVE ScanRO(_, _, _, _, _, _, _)
ScanRO(blk, gens, fmt, allowAmb, JB, b, acc) ==
  IF b >= DE \/ ~acc.ok THEN acc
  ELSE IF b \in JB THEN ScanRO(blk, gens, fmt, allowAmb, JB, RunEnd(JB, b), acc)
  ELSE
    LET c == blk[b]  w == What(c) IN
    IF w = "M" THEN
         LET rem == IF c.t = "M" THEN c.n ELSE 1 IN
         IF rem < 1 \/ b + rem > DE THEN [acc EXCEPT !.ok = FALSE, !.err = "CorruptedRecord"]
         ELSE ScanRO(blk, gens, fmt, allowAmb, JB, b + rem, acc)
    ELSE IF w = "Xm" THEN [acc EXCEPT !.ok = FALSE, !.err = "CorruptedRecord"]
    ELSE IF w = "LM" THEN
         IF fmt >= 3 THEN [acc EXCEPT !.ok = FALSE, !.err = "CorruptedRecord"]
         ELSE IF allowAmb THEN ScanRO(blk, gens, fmt, allowAmb, JB, b + 1, [acc EXCEPT !.amb = @ + 1])
         ELSE [acc EXCEPT !.ok = FALSE, !.err = "AmbiguousLegacyTombstone"]
    ELSE IF w = "Xh" THEN
         IF fmt >= 3 THEN [acc EXCEPT !.ok = FALSE, !.err = "CorruptedRecord"]
         ELSE ScanRO(blk, gens, fmt, allowAmb, JB, b + 1, acc)
    ELSE IF w = "H" THEN
         LET g == IF c.t = "H" THEN c.g ELSE 0
             n == IF c.t = "H" THEN c.n ELSE 1
             inb == b + n <= DE
             valid == inb /\ (fmt < 3 \/ c.t # "H" \/ TailsMatch(blk, b, g, n))
         IN IF ~valid THEN
                 (IF fmt >= 3 THEN [acc EXCEPT !.ok = FALSE, !.err = "CorruptedRecord"]
                  ELSE ScanRO(blk, gens, fmt, allowAmb, JB, b + 1, acc))
            ELSE IF (b .. (b + n - 1)) \cap JB # {} THEN [acc EXCEPT !.ok = FALSE, !.err = "CorruptedRecord"]
            ELSE IF g = 0 THEN
                 ScanRO(blk, gens, fmt, allowAmb, JB, b + n, [acc EXCEPT !.ghosts = @ \cup {b}])
            ELSE LET k == gens[g].k  cur == acc.win[k] IN
                 IF cur.g # 0 /\ gens[cur.g].ts > gens[g].ts
                 THEN ScanRO(blk, gens, fmt, allowAmb, JB, b + n, acc)
                 ELSE ScanRO(blk, gens, fmt, allowAmb, JB, b + n, [acc EXCEPT !.win[k] = [g |-> g, at |-> b]])
    ELSE ScanRO(blk, gens, fmt, allowAmb, JB, b + 1, acc)

\* Result: ok/err; ver = format version of the source; win[k] = newest generation of k on the
\* device (0 = none) - expired ones included, TTL is off; amb = legacy markers skipped by opt-in.
ROFail(keys, e) == [ok |-> FALSE, err |-> e, ver |-> 0, win |-> [k \in keys |-> 0], amb |-> 0, ghosts |-> {}]
RecoverRO(img, gens, keys, allowAmb) ==
  LET meta == MetaPick(img.m) IN
  IF meta.bad \/ meta.z THEN ROFail(keys, "InvalidMetadata")
  ELSE
    LET jp == JournalPick(img.j) IN
    IF jp.bad THEN ROFail(keys, "CorruptedRecord")
    ELSE
      LET JB == IF jp.active THEN JBlocks(jp.exts) ELSE {}
          acc0 == [ok |-> TRUE, err |-> "", win |-> [k \in keys |-> [g |-> 0, at |-> 0]], amb |-> 0, ghosts |-> {}]
          acc == ScanRO(img.blk, gens, meta.ver, allowAmb, JB, DS, acc0)
      IN IF ~acc.ok THEN ROFail(keys, acc.err)
         ELSE [ok |-> TRUE, err |-> "", ver |-> meta.ver, win |-> [k \in keys |-> acc.win[k].g],
               amb |-> acc.amb, ghosts |-> acc.ghosts]

\* the journal-replaying reader (what a read-write open of the same file would see), same shape
ReplayView(img, gens, keys, allowAmb) ==
  LET r == Recover(img, gens, keys, 0, FALSE, allowAmb) IN
  IF ~r.ok THEN ROFail(keys, r.err)
  ELSE [ok |-> TRUE, err |-> "", ver |-> r.ver, win |-> r.win, amb |-> 0, ghosts |-> r.ghosts]

(* --------------------------- property formulas --------------------------- *)
\* the destination holds, for every key, exactly the generation (same key, value, timestamp,
\* absolute expiry) the read-only recovery of the source selects - expired winners included - and
\* no other generation at all (so no older value can ever reappear)
Faithful(src, dst, gens, keys, allowAmb) ==
  LET s == RecoverRO(src, gens, keys, allowAmb)
      d == Recover(dst, gens, keys, 0, FALSE, FALSE)
  IN /\ s.ok /\ s.ver < 3
     /\ d.ok /\ ~d.fresh
     /\ \A k \in keys : d.kv[k] = s.win[k]
     /\ d.losers = {}
     /\ Cardinality(d.ghosts) = Cardinality(s.ghosts)

\* the destination is a well-formed, settled v3 file
DstIsV3(dst) ==
  /\ MetaValid(MetaPick(dst.m)) /\ MetaPick(dst.m).ver = 3
  /\ LET jp == JournalPick(dst.j) IN ~jp.bad /\ ~jp.active
  /\ \A b \in Blocks :
       LET c == dst.blk[b] IN
       /\ c.t \in {"Z", "H", "T"}
       /\ c.t = "H" => (c.n >= 1 /\ b + c.n <= DE /\ TailsMatch(dst.blk, b, c.g, c.n))
       /\ c.t = "T" => (b - c.i >= DS /\ dst.blk[b - c.i].t = "H" /\ dst.blk[b - c.i].g = c.g /\ dst.blk[b - c.i].n > c.i)

\* its metadata counters equal the live totals
RECURSIVE SumN3(_, _, _)
SumN3(gens, win, S) == IF S = {} THEN 0 ELSE LET k == CHOOSE x \in S : TRUE IN
                         (IF win[k] = 0 THEN 0 ELSE gens[win[k]].n3) + SumN3(gens, win, S \ {k})
DstMeta(src, dst, gens, keys, allowAmb) ==
  LET s == RecoverRO(src, gens, keys, allowAmb)  m == MetaPick(dst.m) IN
  s.ok => /\ m.recs = Cardinality({k \in keys : s.win[k] # 0}) + Cardinality(s.ghosts)
          /\ (s.ghosts = {} => m.size = SumN3(gens, s.win, keys))

\* the scan of the source reaches an ambiguous legacy marker
AmbiguousFails(src, gens, keys) == RecoverRO(src, gens, keys, FALSE).err = "AmbiguousLegacyTombstone"
AmbiguousAllowed(src, gens, keys) ==
  LET r == RecoverRO(src, gens, keys, TRUE) IN r.ok /\ r.ver < 3 /\ r.amb > 0

(* ------------------------- migration as a function ------------------------- *)
Absent(e) == [ok |-> FALSE, err |-> e, dst |-> "absent", amb |-> 0]

\* winners in key order, appended to a fresh v3 device from the first data block on
RECURSIVE WinSeq(_, _, _)
WinSeq(win, k, nk) == IF k > nk THEN <<>> ELSE (IF win[k] = 0 THEN <<>> ELSE <<win[k]>>) \o WinSeq(win, k + 1, nk)
RECURSIVE StartOf(_, _, _)
StartOf(gens, ws, i) == IF i = 1 THEN DS ELSE StartOf(gens, ws, i - 1) + gens[ws[i - 1]].n3
Need(gens, ws) == IF ws = <<>> THEN 0 ELSE StartOf(gens, ws, Len(ws)) + gens[ws[Len(ws)]].n3 - DS
\* unknown(g): the copy does not reproduce generation g exactly (a mutation), so the destination
\* holds a generation the application never stored (id 0)
BuildV3(gens, ws, unknown(_)) ==
  LET idx(b) == CHOOSE i \in 1 .. Len(ws) : b >= StartOf(gens, ws, i) /\ b < StartOf(gens, ws, i) + gens[ws[i]].n3
      used(b) == \E i \in 1 .. Len(ws) : b >= StartOf(gens, ws, i) /\ b < StartOf(gens, ws, i) + gens[ws[i]].n3
      gid(g) == IF unknown(g) THEN 0 ELSE g
      exts == [i \in 1 .. Len(ws) |-> <<StartOf(gens, ws, i), gens[ws[i]].n3>>]
  IN [blk |-> [b \in Blocks |->
                 IF ~used(b) THEN Z
                 ELSE LET i == idx(b)  s == StartOf(gens, ws, i) IN
                      IF b = s THEN H(gid(ws[i]), gens[ws[i]].n3) ELSE T(gid(ws[i]), b - s, "")],
      \* the write-behind protocol leaves ACTIVE (older) and CLEAR (newer) journal images
      j |-> [s \in 0 .. 1 |-> IF s = 1 THEN J(1, TRUE, exts) ELSE J(2, FALSE, <<>>)],
      m |-> [c \in 0 .. 1 |-> IF c = 0 THEN Mt(2, 3, Len(ws), Need(gens, ws)) ELSE Mt(1, 3, 0, 0)]]

Expired(gens, g, now) == g # 0 /\ gens[g].exp # 0 /\ now > gens[g].exp
NoGen(g) == FALSE

\* mut: "none" or one seeded fault (MCMigration_mut_*.cfg show that each is caught)
MigrateX(src, gens, nk, allow, now, mut) ==
  LET keys == 1 .. nk
      v0 == IF mut = "Replay" THEN ReplayView(src, gens, keys, allow)
            ELSE IF mut = "AllowAlways" THEN RecoverRO(src, gens, keys, TRUE)
            ELSE RecoverRO(src, gens, keys, allow)
      v == IF mut = "DropExpired" /\ v0.ok
           THEN [v0 EXCEPT !.win = [k \in keys |-> IF Expired(gens, v0.win[k], now) THEN 0 ELSE v0.win[k]]]
           ELSE v0
  IN
  IF ~v.ok THEN Absent(IF v.err = "AmbiguousLegacyTombstone" THEN "AmbiguousLegacyRecovery" ELSE v.err)
  ELSE IF v.ver >= 3 THEN Absent("CurrentFormat")
  ELSE
    LET ws == WinSeq(v.win, 1, nk) IN
    IF v.ghosts # {} THEN Absent("Unmodelled")          \* sources of the model carry declared generations only
    ELSE IF DS + Need(gens, ws) > DE THEN Absent("DestinationTooLarge")   \* (the real destination grows instead)
    ELSE
      LET lossy(g) == mut = "DropExpiryNoVerify" /\ gens[g].exp # 0
          tmp == IF mut = "DropExpiryNoVerify" THEN BuildV3(gens, ws, lossy) ELSE BuildV3(gens, ws, NoGen)
          d == Recover(tmp, gens, keys, 0, FALSE, FALSE)
          \* the temporary file is reopened and compared record for record with the source view
          verified == mut = "DropExpiryNoVerify" \/ (d.ok /\ d.ghosts = {} /\ \A k \in keys : d.kv[k] = v.win[k])
      IN IF ~verified THEN Absent("VerificationFailed")
         ELSE [ok |-> TRUE, err |-> "", dst |-> tmp, amb |-> v.amb]

Migrate(src, gens, nk, allow) == MigrateX(src, gens, nk, allow, 0, "none")
=============================================================================

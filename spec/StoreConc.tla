------------------------------ MODULE StoreConc ------------------------------
(***************************************************************************)
(* Fine-grained concurrent model of the store's public calls on ONE key    *)
(* (memory-only mode, TTL enabled): C07, and the concurrent parts of C11   *)
(* (sweeper / lazy expiry), C13 (reservation before publication).          *)
(*                                                                         *)
(* Structure mirrors the code: one model step = the stretch of code a      *)
(* thread executes between two scheduling points (`verif::sched(name)` in  *)
(* operations.rs, internal.rs, atomic.rs, json_patch.rs, ttl.rs,           *)
(* ttl_sweep.rs), so `pc[t]` is literally the name of the point at which   *)
(* thread t stands.  A hash-bucket guard section contains no scheduling    *)
(* point and is therefore one atomic step.  The points inside the ordered- *)
(* index updates (tree_xxx) and the version clock (clock_load) are walked    *)
(* through by the controller unless a program names them; here they are    *)
(* part of the enclosing step.                                             *)
(*                                                                         *)
(* The model is used three ways (lib/checks/c07.py, part `storeconc`):     *)
(*  1. TLC enumerates EVERY interleaving of small programs (no preemption  *)
(*     bound) and checks the design invariants below;                      *)
(*  2. every terminal behaviour is printed as a history in the vocabulary  *)
(*     of LinTrace.tla (inv / pub / res / mem / final) and judged by the   *)
(*     SAME oracle that judges recorded executions of the real store;      *)
(*  3. the behaviour's schedule (thread, point) is replayed step by step   *)
(*     on the real store under the controlled scheduler: the code must     *)
(*     arrive at the point the model predicts and return the predicted     *)
(*     result (conformance; deviations are recorded, the verdict on the    *)
(*     real history is LinTrace's).                                        *)
(*                                                                         *)
(* Time: naturals.  `Now` is the (held) virtual clock; one second is `U`   *)
(* units; lib/checks maps model instants to exact u64 nanoseconds.         *)
(***************************************************************************)
EXTENDS Naturals, Integers, Sequences, FiniteSets, TLC, Json

CONSTANTS Programs,     \* <<[name, init, threads, lim]>>: init = record of the key, threads = <<ops...>>
          Now, U,       \* virtual clock, units per second
          Overhead, KLen

VARIABLES prog,         \* the program of this behaviour (constant along it; kept in the state so that
                        \* the family is evaluated only in Init)
          cur,          \* hash index: generation id of the key (0 = vacant)
          tree,         \* ordered-index slot: generation id (0 = no entry)
          gens,         \* <<[ts, exp, val, retAt, succ]>> every generation ever published
          clock,        \* the key's version-clock shard
          mem, cnt,     \* memory_usage(), len()
          pc, opi, loc, \* per thread: scheduling point, index of the current op, locals
          flags,        \* design violations seen so far (must stay empty)
          hist          \* the history: inv / pub / res / step events in order
vars == <<prog, cur, tree, gens, clock, mem, cnt, pc, opi, loc, flags, hist>>

NoVal == [k |-> "none", id |-> 0, len |-> 0, n |-> 0]
CounterVal(x) == [k |-> "i", id |-> 0, len |-> 8, n |-> x]
DocLen(n) == IF n < 10 THEN 7 ELSE IF n < 100 THEN 8 ELSE 9
DocVal(x) == [k |-> "d", id |-> 0, len |-> DocLen(x), n |-> x]
R(tag, n, val) == [tag |-> tag, n |-> n, val |-> val]
Err(e) == R(e, 0, NoVal)
OkBool(b) == R("bool", IF b THEN 1 ELSE 0, NoVal)
OkUnit == R("unit", 0, NoVal)

Prog == prog
NT == Len(Prog.threads)
Op(t) == Prog.threads[t][opi[t]]
Max(a, b) == IF a > b THEN a ELSE b
ExpOf(base, ttl) == IF ttl = 0 THEN 0 ELSE base + ttl * U
NoLoc == [obs |-> 0, root |-> 0, ts |-> 0, exp |-> 0, nv |-> NoVal]

\* VersionClock::next (store/mod.rs): max(wall, last + 1)
ClockNext(c) == IF Now > c THEN Now ELSE c + 1

RECURSIVE RetTsOf(_, _)
\* Record::retirement_timestamp: the newest retirement along the successor chain
RetTsOf(gs, g) == IF g = 0 THEN 0 ELSE Max(gs[g].retAt, RetTsOf(gs, gs[g].succ))
SizeOf(val) == Overhead + KLen + val.len
ExpiredG(g) == g.exp # 0 /\ Now > g.exp

(* ---------- the shared state as a record, so that a step is a function ---------- *)
S(t) == [cur |-> cur, tree |-> tree, gens |-> gens, clock |-> clock, mem |-> mem, cnt |-> cnt,
         l |-> loc[t], pc |-> pc[t], evs |-> <<>>, fl |-> {}]
Goto(s, p) == [s EXCEPT !.pc = p]
Ret(s, t, r) == [s EXCEPT !.pc = "between_ops", !.evs = @ \o <<[e |-> "res", t |-> t, res |-> r]>>]
Pub(s, t, ts, exp, kind) ==
  [s EXCEPT !.evs = @ \o <<[e |-> "pub", t |-> t, ts |-> ts, exp |-> exp, kind |-> kind]>>]
NoRoom(s, need) == Prog.lim >= 0 /\ need > 0 /\ s.mem + need > Prog.lim
Growth(s, val) == LET new == SizeOf(val)  old == SizeOf(s.gens[s.cur].val)
                  IN IF new > old THEN new - old ELSE 0
NewGen(ts, exp, val) == [ts |-> ts, exp |-> exp, val |-> val, retAt |-> 0, succ |-> 0]

\* guarded replacement of the current generation (update_record_with_ttl*, replace_record_if_current,
\* atomic_increment, update_ttl): link the successor, swap both indexes, fold an explicit timestamp
Replace(s, t, ts, exp, val, observe) ==
  LET c == s.cur  g == Len(s.gens) + 1 IN
  [Pub(s, t, ts, exp, 2) EXCEPT
     !.gens = Append([s.gens EXCEPT ![c].succ = g], NewGen(ts, exp, val)),
     !.cur = g, !.tree = g,
     !.clock = IF observe /\ ts > @ THEN ts ELSE @,
     !.mem = @ + SizeOf(val) - SizeOf(s.gens[c].val),
     !.fl = @ \cup (IF ts <= s.gens[c].ts THEN {"lww"} ELSE {})]
\* vacant-entry creation
Create(s, t, ts, exp, val, observe) ==
  LET g == Len(s.gens) + 1 IN
  [Pub(s, t, ts, exp, 1) EXCEPT
     !.gens = Append(s.gens, NewGen(ts, exp, val)), !.cur = g, !.tree = g,
     !.clock = IF observe /\ ts > @ THEN ts ELSE @,
     !.mem = @ + SizeOf(val), !.cnt = @ + 1,
     !.fl = @ \cup (IF s.cur # 0 THEN {"twocreators"} ELSE {})]
\* removal: delete (kind 3), expiry (kind 4; `account` FALSE for the sweeper, which books it later)
Remove(s, t, ts, kind, observe, account) ==
  LET c == s.cur IN
  [Pub(s, t, ts, 0, kind) EXCEPT
     !.gens = [s.gens EXCEPT ![c].retAt = ts], !.cur = 0, !.tree = 0,
     !.clock = IF observe /\ ts > @ THEN ts ELSE @,
     !.mem = IF account THEN @ - SizeOf(s.gens[c].val) ELSE @,
     !.cnt = IF account THEN @ - 1 ELSE @,
     !.fl = @ \cup (IF kind = 3 /\ ts <= s.gens[c].ts THEN {"lww"} ELSE {})
              \cup (IF kind = 4 /\ ~ExpiredG(s.gens[c]) THEN {"expire"} ELSE {})]

(* ------------------------------ insert ------------------------------ *)
\* operations.rs insert*_internal: the optimistic read at the top of the loop
InsLoop(s, t) ==
  IF s.cur # 0
  THEN IF s.l.ts <= s.gens[s.cur].ts THEN Ret(s, t, Err("OlderTimestamp"))
       ELSE Goto([s EXCEPT !.l.obs = s.cur], "ins_read")
  ELSE Goto(s, "ins_create")
\* internal.rs update_record_with_ttl*: the guarded re-validation
UpdGuard(s, t, o) ==
  IF s.cur # 0 THEN
       IF s.l.obs # s.cur /\ s.l.ts <= RetTsOf(s.gens, s.l.obs) THEN Ret(s, t, Err("OlderTimestamp"))
       ELSE IF s.l.ts <= s.gens[s.cur].ts THEN Ret(s, t, Err("OlderTimestamp"))
       ELSE IF NoRoom(s, Growth(s, o.v)) THEN Ret(s, t, Err("OutOfMemory"))
       ELSE Goto(Replace(s, t, s.l.ts, s.l.exp, o.v, ~o.auto), "upd_post")
  ELSE IF s.l.ts <= RetTsOf(s.gens, s.l.obs) THEN Ret(s, t, Err("OlderTimestamp"))
       ELSE InsLoop(s, t)            \* KeyNotFound -> continue
InsCreate(s, t, o) ==
  IF NoRoom(s, SizeOf(o.v)) THEN Ret(s, t, Err("OutOfMemory"))
  ELSE IF s.cur = 0 THEN Goto(Create(s, t, s.l.ts, s.l.exp, o.v, ~o.auto), "ins_enq")
  ELSE InsLoop(s, t)                 \* Occupied -> continue (the reservation is dropped)

(* ------------------------------ increment ------------------------------ *)
IncLoop(s, t, o) ==
  IF s.cur = 0 THEN
       LET ra == RetTsOf(s.gens, s.l.root)
           drawn == ClockNext(s.clock)
           ts == IF o.auto THEN Max(drawn, ra + 1) ELSE o.ts
           s1 == [s EXCEPT !.clock = IF o.auto THEN drawn ELSE @, !.l.ts = ts]
       IN IF ts <= ra THEN Ret(s1, t, Err("OlderTimestamp")) ELSE Goto(s1, "inc_create")
  ELSE Goto([s EXCEPT !.l.obs = s.cur, !.l.root = IF @ = 0 THEN s.cur ELSE @], "inc_read")
IncRead(s, t, o) ==
  LET g == s.gens[s.l.obs] IN
  IF ~o.auto /\ o.ts <= g.ts THEN Ret(s, t, Err("OlderTimestamp"))
  ELSE IF ExpiredG(g) THEN Goto(s, "lazy_guard")
  ELSE IF g.val.len # 8 THEN Ret(s, t, Err("InvalidOperation"))
  ELSE LET drawn == ClockNext(s.clock) IN
       Goto([s EXCEPT !.clock = IF o.auto THEN drawn ELSE @,
                      !.l.ts = IF o.auto THEN drawn ELSE o.ts,
                      !.l.nv = CounterVal(g.val.n + o.d)], "inc_guard")
\* internal.rs retire_expired_if_current
LazyGuard(s, t, o) ==
  IF s.cur # 0 /\ s.cur = s.l.obs /\ s.gens[s.cur].exp # 0 /\ s.gens[s.cur].exp < Now
  THEN IncLoop(Remove(s, t, Now, 4, TRUE, TRUE), t, o)
  ELSE IncLoop(s, t, o)
IncCreate(s, t, o) ==
  IF s.cur # 0 THEN IncLoop(s, t, o)
  ELSE IF NoRoom(s, SizeOf(CounterVal(o.d))) THEN Ret(s, t, Err("OutOfMemory"))
  ELSE Ret(Create(s, t, s.l.ts, ExpOf(s.l.ts, o.ttl), CounterVal(o.d), ~o.auto), t, R("num", o.d, NoVal))
IncGuard(s, t, o) ==
  IF s.cur # 0 THEN
       IF s.cur # s.l.obs THEN
            IF ~o.auto /\ o.ts <= RetTsOf(s.gens, s.l.root) THEN Ret(s, t, Err("OlderTimestamp"))
            ELSE IncLoop(s, t, o)
       ELSE IF s.l.ts <= s.gens[s.cur].ts THEN Ret(s, t, Err("OlderTimestamp"))
       ELSE IF NoRoom(s, Growth(s, s.l.nv)) THEN Ret(s, t, Err("OutOfMemory"))
       ELSE Goto(Replace(s, t, s.l.ts, ExpOf(s.l.ts, o.ttl), s.l.nv, ~o.auto), "inc_post")
  ELSE IF ~o.auto /\ o.ts <= RetTsOf(s.gens, s.l.root) THEN Ret(s, t, Err("OlderTimestamp"))
       ELSE IncLoop(s, t, o)

(* ------------------------------ json_patch / compare_and_swap ------------------------------ *)
PatchLoop(s, t) ==
  IF s.cur = 0 THEN Ret(s, t, Err("KeyNotFound"))
  ELSE Goto([s EXCEPT !.l.obs = s.cur, !.l.root = IF @ = 0 THEN s.cur ELSE @], "jp_read")
JpRead(s, t, o) ==
  LET g == s.gens[s.l.obs] IN
  IF s.l.root # s.l.obs /\ s.l.ts <= RetTsOf(s.gens, s.l.root) THEN Ret(s, t, Err("OlderTimestamp"))
  ELSE IF s.l.ts <= g.ts THEN Ret(s, t, Err("OlderTimestamp"))
  ELSE IF ExpiredG(g) THEN Ret(s, t, Err("KeyNotFound"))
  ELSE IF g.val.k # "d" \/ (o.pt >= 0 /\ o.pt # g.val.n) THEN Ret(s, t, Err("JsonPatchError"))
  ELSE Goto([s EXCEPT !.l.nv = DocVal(o.ps)], "jp_apply")
\* atomic.rs replace_record_if_current (compare_and_swap and json_patch)
RepGuard(s, t, o) ==
  LET newval == IF o.op = "patch" THEN s.l.nv ELSE o.v
      notcur == IF o.op = "patch" THEN PatchLoop(s, t) ELSE Ret(s, t, OkBool(FALSE))
  IN IF s.cur = 0 \/ s.cur # s.l.obs THEN notcur
     ELSE IF s.l.ts <= s.gens[s.cur].ts THEN Ret(s, t, Err("OlderTimestamp"))
     ELSE IF NoRoom(s, Growth(s, newval)) THEN Ret(s, t, Err("OutOfMemory"))
     ELSE Goto(Replace(s, t, s.l.ts, IF o.op = "patch" THEN 0 ELSE ExpOf(s.l.ts, o.ttl), newval, ~o.auto), "rep_post")

(* ------------------------------ the first stretch of every call ------------------------------ *)
Begin(s0, t, o) ==
  LET drawn == ClockNext(s0.clock)
      \* calls that resolve their timestamp before anything else
      early == o.op \in {"insert", "delete", "patch"}
      ts == IF early THEN (IF o.auto THEN drawn ELSE o.ts) ELSE 0
      s == [s0 EXCEPT !.evs = @ \o <<[e |-> "inv", t |-> t, op |-> o]>>,
                      !.clock = IF early /\ o.auto THEN drawn ELSE @,
                      !.l = [NoLoc EXCEPT !.ts = ts, !.exp = IF o.op = "insert" /\ o.wttl THEN ExpOf(ts, o.ttl) ELSE 0]]
  IN CASE o.op = "insert" -> InsLoop(s, t)
       [] o.op = "delete" -> Goto(s, "del_guard")
       [] o.op = "get" -> IF s.cur = 0 THEN Ret(s, t, Err("KeyNotFound")) ELSE Goto([s EXCEPT !.l.obs = s.cur], "get_read")
       [] o.op = "contains" -> Ret(s, t, OkBool(s.cur # 0))
       [] o.op = "cas" -> IF s.cur = 0 THEN Ret(s, t, OkBool(FALSE)) ELSE Goto([s EXCEPT !.l.obs = s.cur], "cas_read")
       [] o.op = "incr" -> IncLoop(s, t, o)
       [] o.op = "iia" -> Goto(s, "iia_guard")
       [] o.op = "patch" -> PatchLoop(s, t)
       [] o.op = "update_ttl" -> Goto(s, "ttl_guard")
       [] o.op = "sweep" ->    \* ttl_sweep.rs sample_and_expire_batch: the sample, then the unguarded expiry test
            IF s.cur # 0 /\ s.gens[s.cur].exp # 0 /\ s.gens[s.cur].exp < Now
            THEN Goto([s EXCEPT !.l.obs = s.cur], "sweep_remove")
            ELSE Ret(s, t, R("num", 0, NoVal))

(* ------------------------------ one step of thread t ------------------------------ *)
Do(t) ==
  LET s == S(t)  p == pc[t] IN
  IF p \in {"start", "between_ops"} THEN
       IF opi[t] < Len(Prog.threads[t]) THEN Begin(s, t, Prog.threads[t][opi[t] + 1]) ELSE Goto(s, "done")
  ELSE LET o == Op(t) IN
  CASE p = "ins_read" -> Goto(s, "upd_guard")
    [] p = "upd_guard" -> UpdGuard(s, t, o)
    [] p = "upd_post" -> Ret(s, t, OkBool(FALSE))
    [] p = "ins_create" -> InsCreate(s, t, o)
    [] p = "ins_enq" -> Ret(s, t, OkBool(TRUE))
    [] p = "del_guard" ->
         IF s.cur = 0 THEN Ret(s, t, Err("KeyNotFound"))
         ELSE IF s.l.ts <= s.gens[s.cur].ts THEN Ret(s, t, Err("OlderTimestamp"))
         ELSE Goto(Remove(s, t, s.l.ts, 3, ~o.auto, TRUE), "del_post")
    [] p = "del_post" -> Goto(s, "del_enq")
    [] p = "del_enq" -> Ret(s, t, OkUnit)
    [] p = "get_read" ->
         IF ExpiredG(s.gens[s.l.obs]) THEN Ret(s, t, Err("KeyNotFound"))
         ELSE Goto([s EXCEPT !.l.nv = s.gens[s.l.obs].val], "get_resolved")
    [] p = "get_resolved" -> Ret(s, t, R("val", 0, s.l.nv))
    [] p = "cas_read" ->
         IF ExpiredG(s.gens[s.l.obs]) \/ s.gens[s.l.obs].val # o.x THEN Ret(s, t, OkBool(FALSE))
         ELSE Goto(s, "cas_cmp")
    [] p = "cas_cmp" ->
         LET drawn == ClockNext(s.clock) IN
         Goto([s EXCEPT !.clock = IF o.auto THEN drawn ELSE @, !.l.ts = IF o.auto THEN drawn ELSE o.ts], "rep_guard")
    [] p = "rep_guard" -> RepGuard(s, t, o)
    [] p = "rep_post" -> Ret(s, t, IF o.op = "patch" THEN OkUnit ELSE OkBool(TRUE))
    [] p = "inc_read" -> IncRead(s, t, o)
    [] p = "lazy_guard" -> LazyGuard(s, t, o)
    [] p = "inc_create" -> IncCreate(s, t, o)
    [] p = "inc_guard" -> IncGuard(s, t, o)
    [] p = "inc_post" -> Ret(s, t, R("num", s.l.nv.n, NoVal))
    [] p = "iia_guard" ->
         IF s.cur # 0 THEN Ret(s, t, OkBool(FALSE))
         ELSE IF NoRoom(s, SizeOf(o.v)) THEN Ret(s, t, Err("OutOfMemory"))
         ELSE LET drawn == ClockNext(s.clock) IN
              Ret(Create([s EXCEPT !.clock = drawn], t, drawn, 0, o.v, FALSE), t, OkBool(TRUE))
    [] p = "jp_read" -> JpRead(s, t, o)
    [] p = "jp_apply" -> Goto(s, "rep_guard")
    [] p = "ttl_guard" ->
         IF s.cur = 0 \/ ExpiredG(s.gens[s.cur]) THEN Ret(s, t, Err("KeyNotFound"))
         ELSE LET drawn == ClockNext(s.clock)
                  ts == Max(drawn, s.gens[s.cur].ts + 1) IN
              Goto(Replace([s EXCEPT !.clock = drawn], t, ts, ExpOf(Now, o.ttl), s.gens[s.cur].val, FALSE), "ttl_post")
    [] p = "ttl_post" -> Goto(s, "ttl_enq")
    [] p = "ttl_enq" -> Ret(s, t, OkUnit)
    [] p = "sweep_remove" ->
         IF s.cur # 0 /\ s.cur = s.l.obs /\ s.gens[s.cur].exp # 0 /\ s.gens[s.cur].exp < Now
         THEN Goto([Remove(s, t, Now, 4, FALSE, FALSE) EXCEPT !.l.nv = s.gens[s.cur].val], "sweep_post")
         ELSE Ret(s, t, R("num", 0, NoVal))
    [] p = "sweep_post" ->      \* note_expired_record: booked outside the guard
         Ret([s EXCEPT !.mem = @ - SizeOf(s.l.nv), !.cnt = @ - 1], t, R("num", 1, NoVal))

Step(t) ==
  /\ pc[t] # "done"
  /\ LET r == Do(t) IN
     /\ cur' = r.cur /\ tree' = r.tree /\ gens' = r.gens /\ clock' = r.clock
     /\ mem' = r.mem /\ cnt' = r.cnt
     /\ pc' = [pc EXCEPT ![t] = r.pc]
     /\ loc' = [loc EXCEPT ![t] = r.l]
     /\ opi' = [opi EXCEPT ![t] = IF pc[t] \in {"start", "between_ops"} /\ r.pc # "done" THEN @ + 1 ELSE @]
     /\ flags' = flags \cup r.fl \cup (IF Prog.lim >= 0 /\ r.mem > Prog.lim THEN {"limit"} ELSE {})
     /\ hist' = hist \o r.evs \o <<[e |-> "step", t |-> t, at |-> r.pc, mem |-> r.mem]>>
  /\ UNCHANGED prog

InitGens(init) == IF init.p THEN <<NewGen(init.ts, init.exp, init.val)>> ELSE <<>>
Init ==
  /\ prog \in {Programs[i] : i \in 1 .. Len(Programs)}
  /\ LET P == prog  n == Len(P.threads) IN
     /\ gens = InitGens(P.init)
     /\ cur = IF P.init.p THEN 1 ELSE 0
     /\ tree = cur
     /\ clock = IF P.init.p THEN P.init.ts ELSE 0       \* the initialising insert carried an explicit timestamp
     /\ mem = IF P.init.p THEN SizeOf(P.init.val) ELSE 0
     /\ cnt = IF P.init.p THEN 1 ELSE 0
     /\ pc = [t \in 1 .. n |-> "start"]
     /\ opi = [t \in 1 .. n |-> 0]
     /\ loc = [t \in 1 .. n |-> NoLoc]
  /\ flags = {} /\ hist = <<>>

Next == \E t \in 1 .. NT : Step(t)
Spec == Init /\ [][Next]_vars

(* ------------------------------ design invariants ------------------------------ *)
AllDone == \A t \in 1 .. NT : pc[t] = "done"
\* C07: no accepted write lands on an equal-or-newer version, one creator; C11: only an expired current
\* generation is removed by expiry; C13: usage never above the limit
NoFlags == flags = {}
\* C13/C14 at quiescence: both indexes agree, accounting exact
QuiescentExact ==
  AllDone => /\ tree = cur
             /\ cnt = (IF cur = 0 THEN 0 ELSE 1)
             /\ mem = (IF cur = 0 THEN 0 ELSE SizeOf(gens[cur].val))
\* one line per terminal behaviour: the history in LinTrace's vocabulary plus the schedule (step events)
Final == [p |-> Prog.name, h |-> hist,
          fin |-> [p |-> cur # 0, ts |-> IF cur = 0 THEN 0 ELSE gens[cur].ts,
                   vlen |-> IF cur = 0 THEN 0 ELSE gens[cur].val.len, tree |-> tree # 0, len |-> cnt, mem |-> mem]]
EmitBehaviour == AllDone => PrintT(ToJson(Final))
=============================================================================

-------------------------------- MODULE Cache --------------------------------
(***************************************************************************)
(* Unit-level contract of the read cache (property C16, cache part;        *)
(* src/core/cache.rs, type ClockCache), sequential calls only.             *)
(*                                                                         *)
(* Abstract state                                                          *)
(*   bk    bucket index -> sequence of entries [k, g, sz, ref] in the      *)
(*         order of the bucket's Vec (the CLOCK sweep walks buckets from   *)
(*         `hand`, each bucket front to back).  g is the generation tag:   *)
(*         0 = untagged, otherwise the identity of the Record the value    *)
(*         was read for (pointer identity of the Weak in the code).        *)
(*   hand  clock hand (bucket index)                                       *)
(*   mem   the memory usage the cache REPORTS (Statistics.cache_memory);   *)
(*         maintained by the same arithmetic as the code so that MemExact  *)
(*         is a statement, not a definition                                *)
(*   high, low   watermarks (adjustable at run time in the code)           *)
(*   gst   life-cycle state of every generation: "live" (refcount > 0),    *)
(*         "retired" (refcount = 0, still allocated), "dropped" (freed:    *)
(*         Weak::upgrade fails).  Only can_replace_generation reads it.    *)
(*   rm    history variable for RemoveThenMiss: per key <<all, tags>>:     *)
(*         which tags an explicit remove has made absent since the last    *)
(*         Insert call for that key                                        *)
(*   last  <<op, key, gen, size, result, served tag>> of the last call     *)
(*                                                                         *)
(* In Get/Remove the generation argument 0 means "no generation given"     *)
(* (ClockCache::get / ::remove); in Insert it means "untagged".            *)
(*                                                                         *)
(* What the code does and the property does not talk about (replacement    *)
(* policy of can_replace_generation, the oversize rule, the moment an      *)
(* insert decides to sweep) is modelled in the actions but constrained by  *)
(* no property formula.                                                    *)
(***************************************************************************)
EXTENDS Naturals, Sequences, FiniteSets, TLC

CONSTANTS Keys,       \* set of key ids (positive integers)
          NB,         \* number of buckets
          BucketOf,   \* function Keys -> 0 .. NB-1
          GensOf,     \* function Keys -> set of generation ids (positive) of that key
          GenTs,      \* function generation id -> timestamp of the generation
          Watch,      \* keys whose remove history is kept (RemoveThenMiss); Keys in general
          Sizes,      \* entry sizes an Insert may ask for
          WMs,        \* set of <<high, low>> watermark pairs SetWM may choose
          WM0         \* initial watermark pair

VARIABLES bk, hand, mem, high, low, gst, rm, last

cvars == <<bk, hand, mem, high, low, gst, rm, last>>

Buckets == 0 .. (NB - 1)
TagsOf(k) == {0} \cup GensOf[k]

(* ------------------------------ helpers -------------------------------- *)
RECURSIVE FlatFrom(_, _)
FlatFrom(b, i) == IF i >= NB THEN <<>> ELSE b[i] \o FlatFrom(b, i + 1)
Flat(b) == FlatFrom(b, 0)          \* all entries, bucket 0 first (= verif_entries order)

RECURSIVE SumSz(_)
SumSz(s) == IF s = <<>> THEN 0 ELSE Head(s).sz + SumSz(Tail(s))

RemoveAt(s, i) == SubSeq(s, 1, i - 1) \o SubSeq(s, i + 1, Len(s))
MinOf(S) == CHOOSE x \in S : \A y \in S : x <= y

(* the same entry (entries of a key other than the one a call names never change
   except for their reference bit) *)
Has(s, e) == \E j \in DOMAIN s : s[j].k = e.k /\ s[j].g = e.g /\ s[j].sz = e.sz
Unref(s) == SelectSeq(s, LAMBDA e : ~e.ref)

(* ------------------- the CLOCK sweep of evict_entries ------------------- *)
(* One bucket: entries front to back; a referenced entry loses its bit and stays, an
   unreferenced one is evicted; the walk stops as soon as usage <= low.              *)
RECURSIVE SweepBucket(_, _, _, _)
SweepBucket(done, rest, u, lw) ==
  IF rest = <<>> \/ u <= lw THEN <<done \o rest, u>>
  ELSE LET e == Head(rest) IN
       IF e.ref THEN SweepBucket(Append(done, [e EXCEPT !.ref = FALSE]), Tail(rest), u, lw)
       ELSE SweepBucket(done, Tail(rest), u - e.sz, lw)

(* Buckets from the hand; at most MAX_SCANS = 3 passes of NB bucket visits; the hand is
   advanced before a bucket is walked, so it ends one past the bucket where the target was
   reached.  Nothing happens (hand included) when usage <= low at the start.           *)
RECURSIVE SweepFrom(_, _, _, _, _)
SweepFrom(b, h, u, n, lw) ==
  IF u <= lw \/ n = 3 * NB THEN [bk |-> b, hand |-> h, mem |-> u]
  ELSE LET r == SweepBucket(<<>>, b[h], u, lw) IN
       SweepFrom([b EXCEPT ![h] = r[1]], (h + 1) % NB, r[2], n + 1, lw)
Sweep == SweepFrom(bk, hand, mem, 0, low)

(* ----------------------- can_replace_generation ------------------------ *)
CanReplace(k, cached, incoming) ==
  IF incoming = 0 THEN TRUE                          \* untagged inserts always replace
  ELSE IF gst[k][incoming] = "retired" THEN FALSE    \* refcount = 0
  ELSE IF cached = 0 THEN TRUE
  ELSE IF cached = incoming THEN TRUE
  ELSE \/ gst[k][cached] = "dropped"                 \* Weak::upgrade fails
       \/ gst[k][cached] = "retired"
       \/ GenTs[cached] < GenTs[incoming]

(* -------------------------------- actions ------------------------------- *)
Init == /\ bk = [b \in Buckets |-> <<>>]
        /\ hand = 0 /\ mem = 0
        /\ high = WM0[1] /\ low = WM0[2]
        /\ gst = [k \in Keys |-> [g \in GensOf[k] |-> "live"]]
        /\ rm = [k \in Keys |-> <<FALSE, {}>>]
        /\ last = <<"init", 0, 0, 0, "ok", 0>>

(* history of explicit removes (RemoveThenMiss); shared with TraceCache *)
RmAfterInsert(k) == [rm EXCEPT ![k] = <<FALSE, {}>>]      \* any Insert call discharges
RmAfterRemove(k, g) ==
  [rm EXCEPT ![k] = IF k \notin Watch THEN rm[k]
                    ELSE IF g = 0 THEN <<TRUE, {}>>
                    ELSE IF rm[k][1] THEN rm[k] ELSE <<FALSE, rm[k][2] \cup {g}>>]

Usable(k, g) == IF g = 0 THEN TRUE ELSE gst[k][g] # "dropped"   \* a call needs an Arc

Insert(k, t, sz) ==
  /\ Usable(k, t)
  /\ UNCHANGED <<high, low, gst>>
  /\ rm' = RmAfterInsert(k)
  /\ IF sz > high \div 4
     THEN /\ UNCHANGED <<bk, hand, mem>>              \* "don't cache very large values"
          /\ last' = <<"insert", k, t, sz, "toolarge", 0>>
     ELSE LET s   == IF mem + sz > high THEN Sweep
                     ELSE [bk |-> bk, hand |-> hand, mem |-> mem]
              b   == BucketOf[k]
              row == s.bk[b]
              idx == {i \in DOMAIN row : row[i].k = k}
          IN /\ hand' = s.hand
             /\ IF idx = {}
                THEN /\ bk' = [s.bk EXCEPT ![b] = Append(row, [k |-> k, g |-> t, sz |-> sz, ref |-> TRUE])]
                     /\ mem' = s.mem + sz
                     /\ last' = <<"insert", k, t, sz, "added", 0>>
                ELSE LET i == MinOf(idx) IN
                     IF CanReplace(k, row[i].g, t)
                     THEN /\ bk' = [s.bk EXCEPT ![b][i] = [k |-> k, g |-> t, sz |-> sz, ref |-> TRUE]]
                          /\ mem' = (s.mem + sz) - row[i].sz
                          /\ last' = <<"insert", k, t, sz, "replaced", 0>>
                     ELSE /\ bk' = s.bk /\ mem' = s.mem
                          /\ last' = <<"insert", k, t, sz, "refused", 0>>

Get(k, g) ==
  /\ Usable(k, g)
  /\ UNCHANGED <<hand, mem, high, low, gst, rm>>
  /\ LET b   == BucketOf[k]
         row == bk[b]
         idx == {i \in DOMAIN row : row[i].k = k /\ (g = 0 \/ row[i].g = g)}
     IN IF idx = {}
        THEN /\ bk' = bk /\ last' = <<"get", k, g, 0, "miss", 0>>
        ELSE LET i == MinOf(idx) IN
             /\ bk' = [bk EXCEPT ![b][i].ref = TRUE]
             /\ last' = <<"get", k, g, 0, "hit", row[i].g>>

(* record_entry(key, generation).value(): what update_ttl / persist read the bytes of the new
   generation from.  Exact generation only; the reference bit is not touched.               *)
Peek(k, g) ==
  /\ g # 0 /\ Usable(k, g)
  /\ UNCHANGED <<bk, hand, mem, high, low, gst, rm>>
  /\ LET row == bk[BucketOf[k]]
         idx == {i \in DOMAIN row : row[i].k = k /\ row[i].g = g}
     IN last' = IF idx = {} THEN <<"peek", k, g, 0, "miss", 0>> ELSE <<"peek", k, g, 0, "hit", row[MinOf(idx)].g>>

Remove(k, g) ==
  /\ Usable(k, g)
  /\ UNCHANGED <<hand, high, low, gst>>
  /\ rm' = RmAfterRemove(k, g)
  /\ LET b   == BucketOf[k]
         row == bk[b]
         idx == {i \in DOMAIN row : row[i].k = k /\ (g = 0 \/ row[i].g = g)}
     IN IF idx = {}
        THEN /\ UNCHANGED <<bk, mem>> /\ last' = <<"remove", k, g, 0, "absent", 0>>
        ELSE LET i == MinOf(idx) IN
             /\ bk' = [bk EXCEPT ![b] = RemoveAt(row, i)]
             /\ mem' = mem - row[i].sz
             /\ last' = <<"remove", k, g, 0, "removed", 0>>

Evict ==
  /\ UNCHANGED <<high, low, gst, rm>>
  /\ bk' = Sweep.bk /\ hand' = Sweep.hand /\ mem' = Sweep.mem
  /\ last' = <<"evict", 0, 0, 0, "ok", 0>>

Clear ==
  /\ UNCHANGED <<high, low, gst, rm>>
  /\ bk' = [b \in Buckets |-> <<>>]
  /\ mem' = mem - SumSz(Flat(bk))     \* the code subtracts what it found, bucket by bucket
  /\ hand' = 0
  /\ last' = <<"clear", 0, 0, 0, "ok", 0>>

(* verif_set_watermarks; the public adjust_watermarks is SetWM followed by Evict when
   usage exceeds the new high watermark. *)
SetWM(h, l) ==
  /\ <<high, low>> # <<h, l>>
  /\ high' = h /\ low' = l
  /\ UNCHANGED <<bk, hand, mem, gst, rm>>
  /\ last' = <<"setwm", h, l, 0, "ok", 0>>

Retire(k, g) ==
  /\ gst[k][g] = "live"
  /\ gst' = [gst EXCEPT ![k][g] = "retired"]
  /\ UNCHANGED <<bk, hand, mem, high, low, rm>>
  /\ last' = <<"retire", k, g, 0, "ok", 0>>

DropGen(k, g) ==
  /\ gst[k][g] # "dropped"
  /\ gst' = [gst EXCEPT ![k][g] = "dropped"]
  /\ UNCHANGED <<bk, hand, mem, high, low, rm>>
  /\ last' = <<"dropgen", k, g, 0, "ok", 0>>

Next == \/ \E k \in Keys : \E t \in TagsOf(k), sz \in Sizes : Insert(k, t, sz)
        \/ \E k \in Keys : \E g \in TagsOf(k) : Get(k, g) \/ Remove(k, g) \/ Peek(k, g)
        \/ Evict \/ Clear
        \/ \E w \in WMs : SetWM(w[1], w[2])
        \/ \E k \in Keys : \E g \in GensOf[k] : Retire(k, g) \/ DropGen(k, g)

Spec == Init /\ [][Next]_cvars

(* ------------------------------ properties ------------------------------ *)
(* All formulas below read only bk, mem, high, low, rm and last, so they can be evaluated
   unchanged on states rebuilt from executions of the real cache (TraceCache).          *)

(* C16: the reported memory equals the total size of the entries held. *)
MemExact == mem = SumSz(Flat(bk))

(* C16: a cached value is served only for the exact generation it was read for.  A hit
   serves an entry that was in the cache for that key; when the caller named a generation
   the entry served is tagged with exactly that generation (so an untagged entry is never
   served to a generation-qualified lookup).  An unqualified lookup may hit anything.   *)
HitOnlyExactGen ==
  [][ (last'[1] \in {"get", "peek"} /\ last'[5] = "hit") =>
        LET k == last'[2]  g == last'[3]  t == last'[6]  F == Flat(bk) IN
          /\ (g # 0 => t = g)
          /\ \E i \in DOMAIN F : F[i].k = k /\ F[i].g = t ]_cvars

(* C16: an explicit remove is never followed by a hit.  After Remove(k) every lookup of k
   misses, after Remove(k, gen) no lookup of k is served the entry tagged gen - until the
   next Insert call for k.  (Clear and eviction only remove, they discharge nothing.)    *)
Absent(k, t) == rm[k][1] \/ t \in rm[k][2]
RemoveThenMiss ==
  [][ (last'[1] \in {"get", "peek"} /\ last'[5] = "hit") => ~Absent(last'[2], last'[6]) ]_cvars

(* Entries of keys other than `xk` that are in s and no longer in s2. *)
Gone(s, s2, xk) == SelectSeq(s, LAMBDA e : e.k # xk /\ ~Has(s2, e))

(* C16: eviction brings usage down to the low watermark.
   The sweep makes at most MAX_SCANS = 3 passes; the first pass clears every reference bit
   it meets, so with no concurrent lookups the second pass finds only unreferenced entries
   and evicts until the target is reached: two passes always suffice and the strongest true
   statement for sequential calls is simply `usage <= low` afterwards (an empty cache has
   usage 0).  Under concurrency this weakens to "or three passes were made" / "or another
   sweep held the eviction lock (try_lock)", which is out of scope of the unit level.
   A sweep triggered inside Insert (usage + size > high) obeys the same bound for the usage
   before the new entry is added; it is recognised by its effect (an entry of another key
   disappeared): then what is left besides the inserted key's entry is <= low.
   A sweep only removes: survivors keep key, tag and size.                               *)
EvictToLow ==
  [][ /\ (last'[1] = "evict" =>
            /\ mem' <= low
            /\ \A j \in DOMAIN Flat(bk') : Has(Flat(bk), Flat(bk')[j]))
      /\ (last'[1] = "insert" /\ Gone(Flat(bk), Flat(bk'), last'[2]) # <<>>) =>
            SumSz(SelectSeq(Flat(bk'), LAMBDA e : e.k # last'[2])) <= low ]_cvars

(* C16: ... without evicting recently referenced entries when unreferenced ones suffice.
   If evicting only entries that are unreferenced at the start of the sweep would reach the
   low watermark (this includes usage <= low already: the empty set suffices), then no entry
   referenced at the start of the sweep is evicted.  True of the design because every bucket
   is visited once per pass and the first pass only clears the bits of referenced entries.
   For Insert the inserted key's own entry is exempt (it may be replaced).               *)
SecondChance ==
  [][ (last'[1] \in {"evict", "insert"}) =>
        LET F  == Flat(bk)
            xk == IF last'[1] = "insert" THEN last'[2] ELSE 0 IN
          (mem - SumSz(Unref(F)) <= low) =>
             \A i \in DOMAIN F : (F[i].ref /\ F[i].k # xk) => Has(Flat(bk'), F[i]) ]_cvars

(* "Recently referenced" is what the reference bit records: a hit leaves the served entry
   referenced, and an entry created or rewritten by Insert is referenced.               *)
TouchSetsRef ==
  [][ /\ (last'[1] = "get" /\ last'[5] = "hit") =>
            \E j \in DOMAIN Flat(bk') :
               LET e == Flat(bk')[j] IN e.k = last'[2] /\ e.g = last'[6] /\ e.ref
      /\ (last'[1] = "insert") =>
            \A j \in DOMAIN Flat(bk') :
               LET e == Flat(bk')[j] IN (e.k = last'[2] /\ ~Has(Flat(bk), e)) => e.ref ]_cvars

(* ... and nothing else does: the bit of an entry that stays in place flips from clear to set only when
   that entry was the one served by a hit or (re)written by Insert.  A lookup that MISSES - another
   generation of the key is cached - must not make the cached entry look recently referenced: the next
   sweep would spare it and evict an entry that really was.                                          *)
RefOnlyByTouch ==
  [][ \A j \in DOMAIN Flat(bk') :
        LET e == Flat(bk')[j] IN
          (e.ref /\ \E i \in DOMAIN Flat(bk) : LET o == Flat(bk)[i] IN o.k = e.k /\ o.g = e.g /\ o.sz = e.sz /\ ~o.ref) =>
             \/ (last'[1] = "get" /\ last'[5] = "hit" /\ e.k = last'[2] /\ e.g = last'[6])
             \/ (last'[1] = "insert" /\ e.k = last'[2]) ]_cvars

(* ---- statements about the design that the property does not demand (model only) ---- *)
(* The sweep stops at the first moment usage <= low: it never evicts more than needed. *)
EvictNoOvershoot ==
  [][ last'[1] = "evict" =>
        LET G == Gone(Flat(bk), Flat(bk'), 0) IN
          G # <<>> => \E i \in DOMAIN G : mem' + G[i].sz > low ]_cvars

(* At most one entry per key (what makes remove(key) remove "the" entry). *)
UniqueKey == \A i, j \in DOMAIN Flat(bk) : Flat(bk)[i].k = Flat(bk)[j].k => i = j

(* State form of RemoveThenMiss: an entry made absent by a remove is not in the cache. *)
RemovedAbsent == \A i \in DOMAIN Flat(bk) : ~Absent(Flat(bk)[i].k, Flat(bk)[i].g)

TypeOK == /\ hand \in Buckets /\ mem \in Nat /\ low <= high
          /\ \A b \in Buckets : \A i \in DOMAIN bk[b] :
               /\ bk[b][i].k \in Keys /\ BucketOf[bk[b][i].k] = b
               /\ bk[b][i].g \in TagsOf(bk[b][i].k) /\ bk[b][i].ref \in BOOLEAN
=============================================================================

----------------------------- MODULE TraceCache -----------------------------
(* Validates recorded executions of the real ClockCache (fxv cache) against the property   *)
(* formulas of Cache.tla.  Every event is applied as a FACT (R6): the abstract state after  *)
(* a call is rebuilt from what the implementation reported after that call - its entry list *)
(* (verif_entries: key, generation tag, size, reference bit, bucket), its reported memory   *)
(* (stats().memory_usage), watermarks and clock hand - and the call's result.  Nothing of   *)
(* Cache.tla's actions is used: the verdict comes only from MemExact, HitOnlyExactGen,      *)
(* RemoveThenMiss, EvictToLow, SecondChance and TouchSetsRef evaluated on the rebuilt       *)
(* states and steps.  The only spec-side bookkeeping is the remove history `rm`, which is a *)
(* function of the calls made, not of anything the implementation reported.                 *)
(*                                                                                           *)
(* Event (one JSON object per line):                                                        *)
(*   op    "init" | "insert" | "get" | "peek" | "remove" | "evict" | "clear" | "setwm" | "adjust"    *)
(*         | "newgen" | "retire" | "dropgen"                                                *)
(*   k, g  key id (1..nkeys) and generation id of the call (g = 0: none / untagged)         *)
(*   res   "hit" | "miss" for get, otherwise "ok"/"done"                                    *)
(*   vg    for a hit: generation id the served value was inserted for (decoded from the     *)
(*         value's header; 0 = untagged)                                                    *)
(*   mem, high, low, hand   reported after the call                                         *)
(*   ents  [{k, g, sz, ref (0/1), b (bucket)} ...] in bucket order, after the call          *)
(*   init additionally: nb (number of occupied buckets 0..nb-1), nkeys                      *)
(* Concurrent executions under the controlled scheduler (fxv conc, programs with `cachemode`) use the same   *)
(* vocabulary: the scheduling points stand in front of the lock acquisitions of the cache, every call's last *)
(* critical section and its return fall into one scheduler step, so the recorded sequence of calls IS the     *)
(* order of their critical sections; a sweep that ran inside an insert is its own "evict" event, and an      *)
(* evict_entries() call that found the eviction lock taken (or nothing to do) is "evict_try" (unconstrained). *)
EXTENDS Cache, Json, IOUtils

VARIABLE l      \* index of the next event

Rec == ndJsonDeserialize(IOEnv.TRACE)
tvars == <<bk, hand, mem, high, low, gst, rm, last, l>>

(* constants of Cache.tla taken from the trace's init event *)
TKeys == 1 .. Rec[1].nkeys
TNB == Rec[1].nb
TBucketOf == [k \in TKeys |-> (k - 1) % TNB]
TGensOf == [k \in TKeys |-> {}]
TWM0 == <<Rec[1].high, Rec[1].low>>

Ev == Rec[l]

ToEntry(e) == [k |-> e.k, g |-> e.g, sz |-> e.sz, ref |-> (e.ref = 1)]
RECURSIVE MapEntries(_)
MapEntries(s) == IF s = <<>> THEN <<>> ELSE <<ToEntry(Head(s))>> \o MapEntries(Tail(s))
Reported(es) == [b \in Buckets |-> MapEntries(SelectSeq(es, LAMBDA e : e.b = b))]

TInit == /\ bk = [b \in Buckets |-> <<>>]
         /\ hand = 0 /\ mem = 0
         /\ high = TWM0[1] /\ low = TWM0[2]
         /\ gst = <<>>
         /\ rm = [k \in Keys |-> <<FALSE, {}>>]
         /\ last = <<"start", 0, 0, 0, "ok", 0>>
         /\ l = 1

TNext ==
  /\ l <= Len(Rec)
  /\ l' = l + 1
  /\ bk' = Reported(Ev.ents)
  /\ mem' = Ev.mem /\ hand' = Ev.hand /\ high' = Ev.high /\ low' = Ev.low
  /\ gst' = gst
  /\ rm' = IF Ev.op = "init" THEN [k \in Keys |-> <<FALSE, {}>>]      \* concatenated runs: a fresh cache
           ELSE IF Ev.op = "insert" THEN RmAfterInsert(Ev.k)
           ELSE IF Ev.op = "remove" THEN RmAfterRemove(Ev.k, Ev.g)
           ELSE rm
  /\ last' = IF Ev.op \in {"get", "peek"} THEN <<Ev.op, Ev.k, Ev.g, 0, Ev.res, Ev.vg>>
             ELSE IF Ev.op = "insert" THEN <<"insert", Ev.k, Ev.g, Ev.vlen, "done", 0>>
             ELSE <<Ev.op, Ev.k, Ev.g, 0, Ev.res, 0>>

TSpec == TInit /\ [][TNext]_tvars

TraceAccepted ==
  IF TLCGet("stats").diameter = Len(Rec) + 1 THEN TRUE
  ELSE Print(<<"TRACE-REJECTED at event", TLCGet("stats").diameter>>, FALSE)
=============================================================================

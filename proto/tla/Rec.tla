---- MODULE Rec ----
\* Throw-away prototype: recovery as steps, crash inside recovery, expired winners, chunked retirement.
EXTENDS Naturals, Sequences, FiniteSets, TLC
CONSTANTS NB, JMax, MaxRuns, OrderFix      \* OrderFix: retire losers before expired winners
Keys == {"a", "b"}
\* static generations: 1,2 -> key a (2 newer, expired); 3 -> key b
G == [g \in 1..3 |-> IF g = 1 THEN [key |-> "a", ts |-> 1, exp |-> FALSE]
                     ELSE IF g = 2 THEN [key |-> "a", ts |-> 2, exp |-> TRUE]
                     ELSE [key |-> "b", ts |-> 1, exp |-> FALSE]]
Blocks == 1..NB
Z == [t |-> "Z", g |-> 0, at |-> 0, n |-> 0]
H(g, at) == [t |-> "H", g |-> g, at |-> at, n |-> 1]
M(at, rem) == [t |-> "M", g |-> 0, at |-> at, n |-> rem]
JNone == [gen |-> 0, act |-> FALSE, exts |-> {}]
VARIABLES dur, pend, pc, plan, jslot, first, runs
vars == <<dur, pend, pc, plan, jslot, first, runs>>

JPick(j) == IF j[0].gen >= j[1].gen THEN j[0] ELSE j[1]
Covers(exts, b) == \E e \in exts : b >= e[1] /\ b < e[1] + e[2]
ExtOf(exts, b) == CHOOSE e \in exts : b >= e[1] /\ b < e[1] + e[2]
ApplyRetire(blk, exts) == [b \in Blocks |-> IF Covers(exts, b) THEN LET e == ExtOf(exts, b) IN M(b, e[1] + e[2] - b) ELSE blk[b]]
NoWin == [g |-> 0, at |-> 0]
RECURSIVE Scan(_,_,_)
Scan(blk, b, acc) ==
  IF b > NB THEN acc
  ELSE IF blk[b].t = "M" THEN Scan(blk, b + blk[b].n, acc)
  ELSE IF blk[b].t = "H" THEN
       LET g == blk[b].g  k == G[g].key  c == acc.win[k] IN
       IF c.g # 0 /\ G[c.g].ts > G[g].ts THEN Scan(blk, b + 1, [acc EXCEPT !.losers = @ \cup {b}])
       ELSE Scan(blk, b + 1, [acc EXCEPT !.win[k] = [g |-> g, at |-> b], !.losers = IF c.g = 0 THEN @ ELSE @ \cup {c.at}])
  ELSE Scan(blk, b + 1, acc)
Effective(img) == LET jp == JPick(img.j) IN IF jp.act THEN ApplyRetire(img.blk, jp.exts) ELSE img.blk
ScanOf(img) == Scan(Effective(img), 1, [win |-> [k \in Keys |-> NoWin], losers |-> {}])
KV(img) == LET a == ScanOf(img) IN [k \in Keys |-> IF a.win[k].g # 0 /\ ~G[a.win[k].g].exp THEN a.win[k].g ELSE 0]
ExpiredAt(img) == LET a == ScanOf(img) IN {a.win[k].at : k \in {x \in Keys : a.win[x].g # 0 /\ G[a.win[x].g].exp}}

ApplyW(img, w) == IF w.kind = "j" THEN [img EXCEPT !.j[w.slot] = w.jc] ELSE [img EXCEPT !.blk[w.at] = w.c]
RECURSIVE ApplySub(_,_,_,_)
ApplySub(img, p, i, S) == IF i > Len(p) THEN img ELSE ApplySub(IF i \in S THEN ApplyW(img, p[i]) ELSE img, p, i + 1, S)
CrashImages == {ApplySub(dur, pend, 1, S) : S \in SUBSET (1..Len(pend))}

\* sorted list of single-block extents -> chunks of JMax (coalescing of adjacent blocks counts as one entry)
RECURSIVE SortSet(_)
SortSet(S) == IF S = {} THEN <<>> ELSE LET m == CHOOSE x \in S : \A y \in S : x <= y IN <<m>> \o SortSet(S \ {m})
RECURSIVE Coalesce(_)
Coalesce(sq) == IF Len(sq) <= 1 THEN [i \in 1..Len(sq) |-> <<sq[i], 1>>]
                ELSE LET rest == Coalesce(Tail(sq)) IN
                     IF rest[1][1] = sq[1] + 1 THEN <<<<sq[1], rest[1][2] + 1>>>> \o Tail(rest) ELSE <<<<sq[1], 1>>>> \o rest
RECURSIVE Chunks(_)
Chunks(sq) == IF sq = <<>> THEN <<>> ELSE LET n == IF Len(sq) < JMax THEN Len(sq) ELSE JMax IN
              <<{sq[i] : i \in 1..n}>> \o Chunks(SubSeq(sq, n + 1, Len(sq)))
PlanFor(img) == LET a == ScanOf(img) IN
                IF OrderFix THEN Chunks(Coalesce(SortSet(a.losers))) \o Chunks(Coalesce(SortSet(ExpiredAt(img))))
                ELSE Chunks(Coalesce(SortSet(a.losers \cup ExpiredAt(img))))

Placements == {f \in [1..3 -> 0..NB] : \A g1, g2 \in 1..3 : (g1 # g2 /\ f[g1] # 0) => f[g1] # f[g2]}
ImgOf(f) == [blk |-> [b \in Blocks |-> IF \E g \in 1..3 : f[g] = b THEN H(CHOOSE g \in 1..3 : f[g] = b, b) ELSE Z],
             j |-> [s \in 0..1 |-> JNone]]
Init == /\ \E f \in Placements : dur = ImgOf(f)
        /\ pend = <<>> /\ pc = "begin" /\ plan = <<>> /\ jslot = 1 /\ first = KV(dur) /\ runs = 1
NextSlot == 1 - jslot
JW(act, exts) == [kind |-> "j", slot |-> NextSlot, at |-> 0, c |-> Z, jc |-> [gen |-> JPick(dur.j).gen + 1, act |-> act, exts |-> exts]]
Sync(to) == /\ dur' = ApplySub(dur, pend, 1, 1..Len(pend)) /\ pend' = <<>> /\ pc' = to /\ UNCHANGED <<plan, jslot, first, runs>>
MarkersFor(exts) == LET bs == {b \in Blocks : Covers(exts, b)} IN
                    [i \in 1..Cardinality(bs) |-> LET b == SortSet(bs)[i]  e == ExtOf(exts, b) IN
                                                  [kind |-> "b", slot |-> 0, at |-> b, c |-> M(b, e[1] + e[2] - b), jc |-> JNone]]
Begin == /\ pc = "begin"
         /\ jslot' = (IF dur.j[0].gen >= dur.j[1].gen THEN 0 ELSE 1)
         /\ IF JPick(dur.j).act THEN pend' = MarkersFor(JPick(dur.j).exts) /\ pc' = "replay_fs" /\ UNCHANGED plan
            ELSE pend' = <<>> /\ pc' = "chunk" /\ plan' = PlanFor(dur)
         /\ UNCHANGED <<dur, first, runs>>
ReplayClear == /\ pc = "replay_clear" /\ pend' = <<JW(FALSE, {})>> /\ jslot' = NextSlot /\ pc' = "replay_fs2" /\ UNCHANGED <<dur, plan, first, runs>>
AfterReplay == /\ pc = "scan" /\ plan' = PlanFor(dur) /\ pc' = "chunk" /\ UNCHANGED <<dur, pend, jslot, first, runs>>
ChunkIntent == /\ pc = "chunk"
               /\ IF plan = <<>> THEN pc' = "done" /\ UNCHANGED <<pend, jslot>>
                  ELSE pend' = <<JW(TRUE, plan[1])>> /\ jslot' = NextSlot /\ pc' = "c_fs1"
               /\ UNCHANGED <<dur, plan, first, runs>>
ChunkMarkers == /\ pc = "c_mark" /\ pend' = MarkersFor(plan[1]) /\ pc' = "c_fs2" /\ UNCHANGED <<dur, plan, jslot, first, runs>>
ChunkClear == /\ pc = "c_clear" /\ pend' = <<JW(FALSE, {})>> /\ jslot' = NextSlot /\ pc' = "c_fs3" /\ UNCHANGED <<dur, plan, first, runs>>
ChunkDone == /\ pc = "c_next" /\ plan' = Tail(plan) /\ pc' = "chunk" /\ UNCHANGED <<dur, pend, jslot, first, runs>>
Crash == /\ pc # "done" /\ runs < MaxRuns
         /\ \E img \in CrashImages : dur' = img
         /\ pend' = <<>> /\ pc' = "begin" /\ plan' = <<>> /\ runs' = runs + 1 /\ UNCHANGED <<jslot, first>>
Next == Begin \/ (pc = "replay_fs" /\ Sync("replay_clear")) \/ ReplayClear \/ (pc = "replay_fs2" /\ Sync("scan")) \/ AfterReplay
        \/ ChunkIntent \/ (pc = "c_fs1" /\ Sync("c_mark")) \/ ChunkMarkers \/ (pc = "c_fs2" /\ Sync("c_clear"))
        \/ ChunkClear \/ (pc = "c_fs3" /\ Sync("c_next")) \/ ChunkDone \/ Crash
Spec == Init /\ [][Next]_vars
RecoveryIdempotent == \A img \in CrashImages : KV(img) = first
====

import subprocess, re
def seq(ops): return "<<" + ", ".join('<<"%s", "%s">>' % (o, l) for o, l in ops) + ">>"
W = lambda l: ("w", l); R = lambda l: ("r", l); U = lambda l: ("rel", l)
retire = [W("retq_flush"), W("retq_pending"), U("retq_pending"), W("dev"), U("dev"), W("free"), U("free"), W("retq_pending"), U("retq_pending"), U("retq_flush")]
batch_ok = [W("shard"), U("shard"), W("retq_pending"), U("retq_pending"), W("free"), U("free"), W("dev"), U("dev"), W("shard"), U("shard")]
batch_fail = [W("shard"), U("shard"), W("retq_pending"), U("retq_pending"), W("free"), U("free"), W("dev"), W("free"), U("free"), U("dev"), W("shard"), U("shard")]
batch_m22 = [W("shard"), U("shard"), W("retq_pending"), U("retq_pending"), W("free"), U("free"), W("free"), W("dev"), U("free"), U("dev"), W("shard"), U("shard")]
flush_meta = [W("meta"), R("free"), U("free"), W("dev"), U("dev"), U("meta")]
reader = [R("dev"), U("dev")]
recovery_like = [R("dev"), W("free"), U("free"), U("dev")]
def check(name, progs):
    body = " @@ ".join("%d :> %s" % (i+1, seq(p)) for i, p in enumerate(progs))
    open("MC.tla","w").write("---- MODULE MC ----\nEXTENDS Locks\nMCProgs == %s\n====\n" % body)
    open("MC.cfg","w").write("CONSTANT Progs <- MCProgs\nSPECIFICATION Spec\nINVARIANT NoDeadlock\nCHECK_DEADLOCK FALSE\n")
    out = subprocess.run(["tlc","-workers","4","-metadir","/tmp/lk/work","-cleanup","-noGenerateSpecTE","-config","MC.cfg","MC.tla"],capture_output=True,text=True).stdout
    m = re.search(r"(\d+) distinct states found", out)
    print(name, "->", "DEADLOCK REACHABLE" if "is violated" in out else ("ok" if "No error" in out else "??"), m.group(1) if m else "", "states")
check("current code: worker ok + worker fail + retire(flusher) + flush metadata + reader", [batch_ok, batch_fail + retire, retire + flush_meta, reader])
check("current code: two failing workers + reader", [batch_fail, batch_fail, reader])
check("M22: inverted worker vs failing worker", [batch_m22, batch_fail])
check("M22: two inverted workers only (harmless re-nesting)", [batch_m22, batch_m22])

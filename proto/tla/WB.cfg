CONSTANTS
  Keys = {"a", "b"}
  MaxGen = 3
  NB = 4
  MaxTs = 2
  Sizes = {1, 2}
  JMax = 2
SPECIFICATION Spec
INVARIANT CrashSafe
INVARIANT Partition
INVARIANT ExactAtQuiescence
CHECK_DEADLOCK FALSE

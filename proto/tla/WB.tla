---- MODULE WB ----
\* Throw-away prototype: one shard, one worker, journal protocol, retirement, crash images.
EXTENDS Naturals, Sequences, FiniteSets, TLC
CONSTANTS Keys, MaxGen, NB, MaxTs, Sizes, JMax

Blocks == 1..NB
Z == [t |-> "Z", g |-> 0, n |-> 0, at |-> 0, i |-> 0]
H(g,n,at) == [t |-> "H", g |-> g, n |-> n, at |-> at, i |-> 0]
T(g,i) == [t |-> "T", g |-> g, n |-> 0, at |-> 0, i |-> i]
M(at,rem) == [t |-> "M", g |-> 0, n |-> rem, at |-> at, i |-> 0]
JNone == [gen |-> 0, act |-> FALSE, exts |-> {}]
NoGen == [key |-> "", ts |-> 0, n |-> 0, live |-> FALSE, sector |-> 0, succ |-> 0, ret |-> FALSE]

VARIABLES cur, gen, ng, q, retq, free, wk, dur, pend, jpos, hist, ack, fl
vars == <<cur, gen, ng, q, retq, free, wk, dur, pend, jpos, hist, ack, fl>>

\* ---------- layout / recovery (pure) ----------
HeadValid(blk, b) == /\ blk[b].t = "H" /\ blk[b].at = b /\ b + blk[b].n - 1 <= NB
                     /\ \A i \in 1..(blk[b].n - 1) : blk[b+i] = T(blk[b].g, i)
MarkerValid(blk, b) == blk[b].t = "M" /\ blk[b].at = b /\ blk[b].n >= 1 /\ b + blk[b].n - 1 <= NB
JPick(j) == IF j[0].gen >= j[1].gen THEN j[0] ELSE j[1]
Covers(exts, b) == \E e \in exts : b >= e[1] /\ b < e[1] + e[2]
ExtOf(exts, b) == CHOOSE e \in exts : b >= e[1] /\ b < e[1] + e[2]
ApplyRetire(blk, exts) == [b \in Blocks |-> IF Covers(exts, b) THEN LET e == ExtOf(exts, b) IN M(b, e[1] + e[2] - b) ELSE blk[b]]
NoWin == [g |-> 0, at |-> 0]
RECURSIVE Scan(_,_,_)
Scan(blk, b, acc) ==
  IF b > NB THEN acc
  ELSE IF blk[b].t = "M" THEN IF MarkerValid(blk, b) THEN Scan(blk, b + blk[b].n, acc) ELSE [acc EXCEPT !.ok = FALSE]
  ELSE IF blk[b].t = "H" THEN
       IF ~HeadValid(blk, b) THEN [acc EXCEPT !.ok = FALSE]
       ELSE LET g == blk[b].g  k == gen[g].key  c == acc.win[k] IN
            IF c.g # 0 /\ gen[c.g].ts > gen[g].ts
            THEN Scan(blk, b + blk[b].n, acc)
            ELSE Scan(blk, b + blk[b].n, [acc EXCEPT !.win[k] = [g |-> g, at |-> b]])
  ELSE Scan(blk, b + 1, acc)
Recover(img) ==
  LET jp == JPick(img.j)
      blk1 == IF jp.act THEN ApplyRetire(img.blk, jp.exts) ELSE img.blk
  IN Scan(blk1, 1, [ok |-> TRUE, win |-> [k \in Keys |-> NoWin]])

ApplyW(img, w) ==
  IF w.kind = "j" THEN [img EXCEPT !.j[w.slot] = w.jc]
  ELSE [img EXCEPT !.blk = [b \in Blocks |-> IF b >= w.at /\ b < w.at + Len(w.c) THEN w.c[b - w.at + 1] ELSE @[b]]]
RECURSIVE ApplySub(_,_,_,_)
ApplySub(img, p, i, S) == IF i > Len(p) THEN img ELSE ApplySub(IF i \in S THEN ApplyW(img, p[i]) ELSE img, p, i + 1, S)
Tear(w) == [w EXCEPT !.c = SubSeq(w.c, 1, 1)]
Tearable == {x \in 1..Len(pend) : pend[x].kind = "b" /\ Len(pend[x].c) = 2}
CrashImages ==
  {ApplySub(dur, pend, 1, S) : S \in SUBSET (1..Len(pend))}
  \cup UNION {{ApplySub(dur, [pend EXCEPT ![i] = Tear(pend[i])], 1, S) : S \in {S2 \in SUBSET (1..Len(pend)) : i \in S2}} : i \in Tearable}

\* ---------- properties ----------
InWindow(k, g) == \E i \in ack[k]..Len(hist[k]) : hist[k][i] = g
CrashSafe == \A img \in CrashImages : LET r == Recover(img) IN r.ok /\ \A k \in Keys : InWindow(k, r.win[k].g)
Ext(g) == IF gen[g].sector = 0 THEN {} ELSE gen[g].sector..(gen[g].sector + gen[g].n - 1)
OnDisk == {g \in 1..ng : gen[g].sector # 0}
WSet == {wk.writes[i] : i \in 1..Len(wk.writes)}
Resv == UNION {w.at..(w.at + w.n - 1) : w \in {x \in WSet : x.at # 0}}
Partition == /\ \A g1, g2 \in OnDisk : g1 # g2 => Ext(g1) \cap Ext(g2) = {}
             /\ \A g \in OnDisk : Ext(g) \cap free = {}
             /\ Resv \cap free = {}
             /\ \A g \in OnDisk : Ext(g) \cap Resv = {}
Quiescent == q = <<>> /\ retq = {} /\ wk.pc = "idle" /\ pend = <<>>
ExactAtQuiescence == Quiescent => (UNION {Ext(g) : g \in OnDisk}) \cup free = Blocks
                                  /\ \A g \in OnDisk : gen[g].live

\* ---------- init ----------
Init ==
  /\ cur = [k \in Keys |-> 0] /\ gen = [g \in 1..MaxGen |-> NoGen] /\ ng = 0
  /\ q = <<>> /\ retq = {} /\ free = Blocks
  /\ wk = [pc |-> "idle", writes |-> <<>>, marks |-> {}, rel |-> {}]
  /\ dur = [blk |-> [b \in Blocks |-> Z], j |-> [s \in 0..1 |-> JNone]] /\ pend = <<>>
  /\ jpos = [gen |-> 0, slot |-> 1]
  /\ hist = [k \in Keys |-> <<0>>] /\ ack = [k \in Keys |-> 1]
  /\ fl = [on |-> FALSE, tgt |-> [k \in Keys |-> 1]]

\* ---------- API ----------
NewGen(k, n, ts) == [key |-> k, ts |-> ts, n |-> n, live |-> TRUE, sector |-> 0, succ |-> 0, ret |-> FALSE]
Put(k, n, ts) ==
  /\ ng < MaxGen
  /\ IF cur[k] = 0 THEN TRUE ELSE gen[cur[k]].ts < ts
  /\ LET g == ng + 1  o == cur[k] IN
     /\ ng' = g
     /\ gen' = [x \in 1..MaxGen |-> IF x = g THEN NewGen(k, n, ts)
                                   ELSE IF x = o THEN [gen[x] EXCEPT !.live = FALSE, !.succ = g] ELSE gen[x]]
     /\ cur' = [cur EXCEPT ![k] = g]
     /\ q' = IF o = 0 THEN Append(q, [op |-> "W", g |-> g]) ELSE q \o <<[op |-> "W", g |-> g], [op |-> "D", g |-> o]>>
     /\ hist' = [hist EXCEPT ![k] = Append(@, g)]
  /\ UNCHANGED <<retq, free, wk, dur, pend, jpos, ack, fl>>
Del(k) ==
  /\ cur[k] # 0
  /\ LET o == cur[k] IN
     /\ gen' = [gen EXCEPT ![o].live = FALSE]
     /\ cur' = [cur EXCEPT ![k] = 0]
     /\ q' = Append(q, [op |-> "D", g |-> o])
     /\ hist' = [hist EXCEPT ![k] = Append(@, 0)]
  /\ UNCHANGED <<ng, retq, free, wk, dur, pend, jpos, ack, fl>>

\* ---------- device ----------
NextJ == [gen |-> jpos.gen + 1, slot |-> 1 - jpos.slot]
JWrite(act, exts) == [kind |-> "j", slot |-> NextJ.slot, at |-> 0, c |-> <<>>, jc |-> [gen |-> NextJ.gen, act |-> act, exts |-> exts]]
BWrite(at, c) == [kind |-> "b", slot |-> 0, at |-> at, c |-> c, jc |-> JNone]
Synced == ApplySub(dur, pend, 1, 1..Len(pend))

\* ---------- worker: write batch ----------
RECURSIVE SuccOK(_)
SuccOK(g) == LET s == gen[g].succ IN
             IF s = 0 THEN TRUE
             ELSE IF gen[s].sector # 0 THEN TRUE
             ELSE IF gen[s].succ # 0 THEN SuccOK(s)
             ELSE ~gen[s].live
QSet == {q[i] : i \in 1..Len(q)}
WDrain ==
  /\ wk.pc = "idle" /\ q # <<>>
  /\ LET ws == SelectSeq(q, LAMBDA e : e.op = "W" /\ gen[e.g].sector = 0 /\ gen[e.g].live)
         ds == {e.g : e \in {x \in QSet : x.op = "D"}}
     IN /\ retq' = retq \cup {[g |-> g, marked |-> FALSE] : g \in ds}
        /\ wk' = [wk EXCEPT !.pc = IF ws = <<>> THEN "rclassify" ELSE "alloc",
                            !.writes = [i \in 1..Len(ws) |-> [g |-> ws[i].g, n |-> gen[ws[i].g].n, at |-> 0]]]
        /\ q' = <<>>
  /\ UNCHANGED <<cur, gen, ng, free, dur, pend, jpos, hist, ack, fl>>
RECURSIVE AllocAll(_,_,_)
AllocAll(ws, i, fr) ==
  IF i > Len(ws) THEN [ok |-> TRUE, ws |-> ws, fr |-> fr]
  ELSE LET n == ws[i].n
           runs == {r \in Blocks \X (1..NB) : /\ r[1] + r[2] - 1 <= NB
                                              /\ \A b \in r[1]..(r[1]+r[2]-1) : b \in fr
                                              /\ (r[1] = 1 \/ (r[1]-1) \notin fr) /\ ((r[1]+r[2]) \notin fr) /\ r[2] >= n}
       IN IF runs = {} THEN [ok |-> FALSE, ws |-> ws, fr |-> fr]
          ELSE LET r == CHOOSE r \in runs : \A o \in runs : r[2] < o[2] \/ (r[2] = o[2] /\ r[1] <= o[1])
               IN AllocAll([ws EXCEPT ![i].at = r[1]], i + 1, fr \ (r[1]..(r[1]+n-1)))
WAlloc ==
  /\ wk.pc = "alloc"
  /\ LET a == AllocAll(wk.writes, 1, free) IN
     IF a.ok THEN /\ free' = a.fr /\ wk' = [wk EXCEPT !.pc = "intent", !.writes = a.ws] /\ UNCHANGED q
     ELSE /\ UNCHANGED free
          /\ q' = [i \in 1..Len(wk.writes) |-> [op |-> "W", g |-> wk.writes[i].g]] \o q
          /\ wk' = [wk EXCEPT !.pc = "rclassify", !.writes = <<>>]
  /\ UNCHANGED <<cur, gen, ng, retq, dur, pend, jpos, hist, ack, fl>>
WIntent ==
  /\ wk.pc = "intent"
  /\ pend' = Append(pend, JWrite(TRUE, {<<w.at, w.n>> : w \in WSet}))
  /\ jpos' = NextJ
  /\ wk' = [wk EXCEPT !.pc = "fs1"]
  /\ UNCHANGED <<cur, gen, ng, q, retq, free, dur, hist, ack, fl>>
WFs(from, to) ==
  /\ wk.pc = from /\ dur' = Synced /\ pend' = <<>> /\ wk' = [wk EXCEPT !.pc = to]
  /\ UNCHANGED <<cur, gen, ng, q, retq, free, jpos, hist, ack, fl>>
DataW(w) == BWrite(w.at, IF w.n = 1 THEN <<H(w.g, 1, w.at)>> ELSE <<H(w.g, 2, w.at), T(w.g, 1)>>)
WData ==
  /\ wk.pc = "data"
  /\ pend' = pend \o [i \in 1..Len(wk.writes) |-> DataW(wk.writes[i])]
  /\ wk' = [wk EXCEPT !.pc = "fs2"]
  /\ UNCHANGED <<cur, gen, ng, q, retq, free, dur, jpos, hist, ack, fl>>
WClear(from, to) ==
  /\ wk.pc = from
  /\ pend' = Append(pend, JWrite(FALSE, {})) /\ jpos' = NextJ
  /\ wk' = [wk EXCEPT !.pc = to]
  /\ UNCHANGED <<cur, gen, ng, q, retq, free, dur, hist, ack, fl>>
WPublish ==
  /\ wk.pc = "publish"
  /\ gen' = [g \in 1..MaxGen |-> IF \E w \in WSet : w.g = g
                                  THEN [gen[g] EXCEPT !.sector = (CHOOSE w \in WSet : w.g = g).at]
                                  ELSE gen[g]]
  /\ wk' = [wk EXCEPT !.pc = "rclassify", !.writes = <<>>]
  /\ UNCHANGED <<cur, ng, q, retq, free, dur, pend, jpos, hist, ack, fl>>

\* ---------- retirement ----------
\* classify: any subset of eligible entries (at most JMax extents) is marked in this round
Eligible == {e \in retq : gen[e.g].sector # 0 /\ ~e.marked /\ SuccOK(e.g)}
Dropped == {e \in retq : gen[e.g].sector = 0}
RClassify ==
  /\ wk.pc = "rclassify"
  /\ IF retq \ Dropped = {} THEN
        /\ retq' = {} /\ wk' = [wk EXCEPT !.pc = "idle"] /\ UNCHANGED gen
     ELSE \E ms \in SUBSET Eligible :
        /\ Cardinality(ms) <= JMax
        /\ retq' = retq \ Dropped
        /\ gen' = [g \in 1..MaxGen |-> IF \E e \in ms : e.g = g THEN [gen[g] EXCEPT !.ret = TRUE] ELSE gen[g]]
        /\ wk' = [wk EXCEPT !.marks = {e.g : e \in ms},
                            !.pc = IF ms = {} THEN (IF \E e \in retq : e.marked THEN "release" ELSE "idle") ELSE "rintent"]
  /\ UNCHANGED <<cur, ng, q, free, dur, pend, jpos, hist, ack, fl>>
RIntent ==
  /\ wk.pc = "rintent"
  /\ pend' = Append(pend, JWrite(TRUE, {<<gen[g].sector, gen[g].n>> : g \in wk.marks}))
  /\ jpos' = NextJ /\ wk' = [wk EXCEPT !.pc = "rfs1"]
  /\ UNCHANGED <<cur, gen, ng, q, retq, free, dur, hist, ack, fl>>
MarkW(g) == BWrite(gen[g].sector, IF gen[g].n = 1 THEN <<M(gen[g].sector, 1)>> ELSE <<M(gen[g].sector, 2), M(gen[g].sector + 1, 1)>>)
RECURSIVE SetToSeq(_)
SetToSeq(S) == IF S = {} THEN <<>> ELSE LET x == CHOOSE x \in S : TRUE IN <<x>> \o SetToSeq(S \ {x})
RMarkers ==
  /\ wk.pc = "rmark"
  /\ pend' = pend \o [i \in 1..Cardinality(wk.marks) |-> MarkW(SetToSeq(wk.marks)[i])]
  /\ wk' = [wk EXCEPT !.pc = "rfs2"]
  /\ UNCHANGED <<cur, gen, ng, q, retq, free, dur, jpos, hist, ack, fl>>
RMarked ==
  /\ wk.pc = "rmarked"
  /\ retq' = {IF e.g \in wk.marks THEN [e EXCEPT !.marked = TRUE] ELSE e : e \in retq}
  /\ wk' = [wk EXCEPT !.pc = "release", !.marks = {}]
  /\ UNCHANGED <<cur, gen, ng, q, free, dur, pend, jpos, hist, ack, fl>>
RRelease ==
  /\ wk.pc = "release"
  /\ LET rs == {e \in retq : e.marked} IN
     /\ free' = free \cup UNION {Ext(e.g) : e \in rs}
     /\ retq' = retq \ rs
     /\ gen' = [g \in 1..MaxGen |-> IF \E e \in rs : e.g = g THEN [gen[g] EXCEPT !.sector = 0] ELSE gen[g]]
  /\ wk' = [wk EXCEPT !.pc = "idle"]
  /\ UNCHANGED <<cur, ng, q, dur, pend, jpos, hist, ack, fl>>

\* ---------- flush ----------
FlushBegin == /\ ~fl.on /\ fl' = [on |-> TRUE, tgt |-> [k \in Keys |-> Len(hist[k])]]
              /\ UNCHANGED <<cur, gen, ng, q, retq, free, wk, dur, pend, jpos, hist, ack>>
FlushAck == /\ fl.on /\ q = <<>> /\ retq = {} /\ wk.pc = "idle"
            /\ ack' = fl.tgt /\ fl' = [fl EXCEPT !.on = FALSE]
            /\ UNCHANGED <<cur, gen, ng, q, retq, free, wk, dur, pend, jpos, hist>>

Next ==
  \/ \E k \in Keys, n \in Sizes, ts \in 1..MaxTs : Put(k, n, ts)
  \/ \E k \in Keys : Del(k)
  \/ WDrain \/ WAlloc \/ WIntent \/ WFs("fs1", "data") \/ WData \/ WFs("fs2", "clear")
  \/ WClear("clear", "fs3") \/ WFs("fs3", "publish") \/ WPublish
  \/ RClassify \/ RIntent \/ WFs("rfs1", "rmark") \/ RMarkers \/ WFs("rfs2", "rclear")
  \/ WClear("rclear", "rfs3") \/ WFs("rfs3", "rmarked") \/ RMarked \/ RRelease
  \/ FlushBegin \/ FlushAck
Spec == Init /\ [][Next]_vars
====

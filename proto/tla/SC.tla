---- MODULE SC ----
\* Throw-away prototype: fine-grained steps of insert / delete / get / cas on ONE key,
\* threads run one op each; linearizability (with the two permitted deviations) checked at the end.
EXTENDS Naturals, Sequences, FiniteSets, TLC
CONSTANTS Threads, Prog, InitPresent, MaxGen   \* Prog : thread -> [op, v, ts, exp]  (ts = 0 means automatic)

VARIABLES cur, gen, ng, clock, pc, obs, ts, res, pub, inv, rsp, now
vars == <<cur, gen, ng, clock, pc, obs, ts, res, pub, inv, rsp, now>>
R(x) == <<x, 0>>
NoGen == [ts |-> 0, val |-> 0, live |-> FALSE, retAt |-> 0, succ |-> 0]
Max(a, b) == IF a > b THEN a ELSE b

RECURSIVE RetTs(_)
RetTs(g) == IF g = 0 THEN 0 ELSE Max(gen[g].retAt, RetTs(gen[g].succ))

Init ==
  /\ gen = [g \in 1..MaxGen |-> IF g = 1 /\ InitPresent THEN [ts |-> 2, val |-> 1, live |-> TRUE, retAt |-> 0, succ |-> 0] ELSE NoGen]
  /\ ng = IF InitPresent THEN 1 ELSE 0
  /\ cur = IF InitPresent THEN 1 ELSE 0
  /\ clock = IF InitPresent THEN 2 ELSE 0
  /\ pc = [t \in Threads |-> "start"] /\ obs = [t \in Threads |-> 0] /\ ts = [t \in Threads |-> 0]
  /\ res = [t \in Threads |-> R("-")] /\ pub = [t \in Threads |-> 0]
  /\ inv = [t \in Threads |-> 0] /\ rsp = [t \in Threads |-> 0] /\ now = 1

Done(t, r) == /\ res' = [res EXCEPT ![t] = r] /\ pc' = [pc EXCEPT ![t] = "done"] /\ rsp' = [rsp EXCEPT ![t] = now] /\ now' = now + 1
Step(t, p) == /\ pc' = [pc EXCEPT ![t] = p] /\ UNCHANGED <<res, rsp>> /\ now' = now + 1
Replace(t, c, v) ==  \* publish a new generation over c (c may be 0)
  LET g == ng + 1 IN
  /\ ng' = g
  /\ gen' = [x \in 1..MaxGen |-> IF x = g THEN [ts |-> ts[t], val |-> v, live |-> TRUE, retAt |-> 0, succ |-> 0]
                                ELSE IF x = c THEN [gen[x] EXCEPT !.live = FALSE, !.succ = g] ELSE gen[x]]
  /\ cur' = g /\ pub' = [pub EXCEPT ![t] = ts[t]]
  /\ clock' = IF Prog[t].ts # 0 THEN Max(clock, ts[t]) ELSE clock

Start(t) ==
  /\ pc[t] = "start" /\ inv' = [inv EXCEPT ![t] = now]
  /\ IF Prog[t].op \in {"insert", "delete"} /\ Prog[t].ts = 0
     THEN ts' = [ts EXCEPT ![t] = clock + 1] /\ clock' = clock + 1
     ELSE ts' = [ts EXCEPT ![t] = Prog[t].ts] /\ UNCHANGED clock
  /\ Step(t, CASE Prog[t].op = "insert" -> "I1" [] Prog[t].op = "delete" -> "D1" [] Prog[t].op = "get" -> "G1" [] Prog[t].op = "cas" -> "C1")
  /\ UNCHANGED <<cur, gen, ng, obs, pub>>

\* ---- insert (operations.rs:164-227, internal.rs:42-76)
I1(t) == /\ pc[t] = "I1" /\ obs' = [obs EXCEPT ![t] = cur]
         /\ IF cur # 0 /\ ts[t] <= gen[cur].ts THEN Done(t, R("Older")) ELSE Step(t, IF cur # 0 THEN "I2" ELSE "I4")
         /\ UNCHANGED <<cur, gen, ng, clock, ts, pub, inv>>
I2(t) == /\ pc[t] = "I2"
         /\ IF cur # 0 THEN
              IF (obs[t] # cur /\ ts[t] <= RetTs(obs[t])) \/ ts[t] <= gen[cur].ts
              THEN Done(t, R("Older")) /\ UNCHANGED <<cur, gen, ng, clock, pub>>
              ELSE Replace(t, cur, Prog[t].v) /\ Done(t, R("Updated"))
            ELSE IF ts[t] <= RetTs(obs[t]) THEN Done(t, R("Older")) /\ UNCHANGED <<cur, gen, ng, clock, pub>>
                 ELSE Step(t, "I1") /\ UNCHANGED <<cur, gen, ng, clock, pub>>
         /\ UNCHANGED <<obs, ts, inv>>
I4(t) == /\ pc[t] = "I4"
         /\ IF cur = 0 THEN Replace(t, 0, Prog[t].v) /\ Done(t, R("Created"))
            ELSE Step(t, "I1") /\ UNCHANGED <<cur, gen, ng, clock, pub>>
         /\ UNCHANGED <<obs, ts, inv>>
\* ---- delete (operations.rs:512-553): one guarded section
D1(t) == /\ pc[t] = "D1"
         /\ IF cur = 0 THEN Done(t, R("NotFound")) /\ UNCHANGED <<cur, gen, clock, pub>>
            ELSE IF ts[t] <= gen[cur].ts THEN Done(t, R("Older")) /\ UNCHANGED <<cur, gen, clock, pub>>
            ELSE /\ gen' = [gen EXCEPT ![cur].live = FALSE, ![cur].retAt = ts[t]]
                 /\ cur' = 0 /\ pub' = [pub EXCEPT ![t] = ts[t]]
                 /\ clock' = IF Prog[t].ts # 0 THEN Max(clock, ts[t]) ELSE clock
                 /\ Done(t, R("Deleted"))
         /\ UNCHANGED <<ng, obs, ts, inv>>
\* ---- get (memory mode: bucket read + resident value)
G1(t) == /\ pc[t] = "G1"
         /\ IF cur = 0 THEN Done(t, R("NotFound")) ELSE Done(t, <<"Val", gen[cur].val>>)
         /\ UNCHANGED <<cur, gen, ng, clock, obs, ts, pub, inv>>
\* ---- cas with automatic timestamp (atomic.rs:459-583)
C1(t) == /\ pc[t] = "C1" /\ obs' = [obs EXCEPT ![t] = cur]
         /\ IF cur = 0 \/ gen[cur].val # Prog[t].exp THEN Done(t, R("NoSwap")) ELSE Step(t, "C2")
         /\ UNCHANGED <<cur, gen, ng, clock, ts, pub, inv>>
C2(t) == /\ pc[t] = "C2" /\ ts' = [ts EXCEPT ![t] = clock + 1] /\ clock' = clock + 1 /\ Step(t, "C3")
         /\ UNCHANGED <<cur, gen, ng, obs, pub, inv>>
C3(t) == /\ pc[t] = "C3"
         /\ IF cur # obs[t] THEN Done(t, R("NoSwap")) /\ UNCHANGED <<cur, gen, ng, clock, pub>>
            ELSE IF ts[t] <= gen[cur].ts THEN Done(t, R("Older")) /\ UNCHANGED <<cur, gen, ng, clock, pub>>
            ELSE Replace(t, cur, Prog[t].v) /\ Done(t, R("Swapped"))
         /\ UNCHANGED <<obs, ts, inv>>

Next == \E t \in Threads : Start(t) \/ I1(t) \/ I2(t) \/ I4(t) \/ D1(t) \/ G1(t) \/ C1(t) \/ C2(t) \/ C3(t)
Spec == Init /\ [][Next]_vars

\* ---------- linearizability with the two permitted deviations ----------
S0 == IF InitPresent THEN [p |-> TRUE, ts |-> 2, val |-> 1] ELSE [p |-> FALSE, ts |-> 0, val |-> 0]
Accepted(t) == res[t][1] \in {"Updated", "Created", "Deleted", "Swapped"}
\* sequential semantics of op t (using its recorded published timestamp for automatic ones): <<result, nextstate>>
SeqRes(t, s) ==
  LET o == Prog[t]  w == IF pub[t] # 0 THEN pub[t] ELSE ts[t] IN
  CASE o.op = "insert" -> IF s.p /\ w <= s.ts THEN <<R("Older"), s>> ELSE <<IF s.p THEN R("Updated") ELSE R("Created"), [p |-> TRUE, ts |-> w, val |-> o.v]>>
    [] o.op = "delete" -> IF ~s.p THEN <<R("NotFound"), s>> ELSE IF w <= s.ts THEN <<R("Older"), s>> ELSE <<R("Deleted"), [p |-> FALSE, ts |-> 0, val |-> 0]>>
    [] o.op = "get"    -> IF s.p THEN <<<<"Val", s.val>>, s>> ELSE <<R("NotFound"), s>>
    [] o.op = "cas"    -> IF s.p /\ s.val = o.exp THEN (IF w <= s.ts THEN <<R("Older"), s>> ELSE <<R("Swapped"), [p |-> TRUE, ts |-> w, val |-> o.v]>>) ELSE <<R("NoSwap"), s>>
\* deviation witnesses
RefuseOlderOK(t) == res[t] = R("Older") /\ \E u \in Threads \ {t} : Accepted(u) /\ Prog[u].op # "get" /\ pub[u] >= ts[t] /\ inv[u] < rsp[t]
CasNoSwapOK(t) == Prog[t].op = "cas" /\ res[t] = R("NoSwap") /\ \E u \in Threads \ {t} : Accepted(u) /\ rsp[u] > inv[t] /\ inv[u] < rsp[t]
RECURSIVE Lin(_,_)
Lin(rem, s) ==
  IF rem = {} THEN TRUE
  ELSE \E t \in rem :
         /\ \A u \in rem \ {t} : ~(rsp[u] < inv[t])           \* real-time order
         /\ LET sr == SeqRes(t, s) IN
            \/ (sr[1] = res[t] /\ Lin(rem \ {t}, sr[2]))
            \/ (RefuseOlderOK(t) /\ Lin(rem \ {t}, s))
            \/ (CasNoSwapOK(t) /\ Lin(rem \ {t}, s))
AllDone == \A t \in Threads : pc[t] = "done"
Linearizable == AllDone => Lin(Threads, S0)
\* an accepted write never lands on an equal-or-newer timestamp
LWWStep == [][\A g \in 1..MaxGen : (cur' = g /\ cur # g /\ cur # 0) => gen'[g].ts > gen[cur].ts]_vars
====

---- MODULE Locks ----
\* Throw-away prototype: threads run straight-line programs of lock operations (as they would be
\* extracted from lock-event traces); TLC looks for a reachable state where some thread is stuck forever.
EXTENDS Naturals, Sequences, FiniteSets, TLC
CONSTANTS Progs          \* thread -> sequence of <<op, lock>>, op \in {"w","r","rel"}
Threads == DOMAIN Progs
VARIABLES pc, wholder, rholders
vars == <<pc, wholder, rholders>>
LocksOf == UNION {{Progs[t][i][2] : i \in 1..Len(Progs[t])} : t \in Threads}
Init == pc = [t \in Threads |-> 1] /\ wholder = [l \in LocksOf |-> 0] /\ rholders = [l \in LocksOf |-> {}]
Cur(t) == Progs[t][pc[t]]
CanStep(t) == pc[t] <= Len(Progs[t]) /\
              LET o == Cur(t) IN
              CASE o[1] = "w" -> wholder[o[2]] = 0 /\ rholders[o[2]] = {}
                [] o[1] = "r" -> wholder[o[2]] = 0
                [] o[1] = "rel" -> TRUE
Step(t) == /\ CanStep(t)
           /\ LET o == Cur(t) IN
              /\ wholder' = IF o[1] = "w" THEN [wholder EXCEPT ![o[2]] = t] ELSE IF o[1] = "rel" /\ wholder[o[2]] = t THEN [wholder EXCEPT ![o[2]] = 0] ELSE wholder
              /\ rholders' = IF o[1] = "r" THEN [rholders EXCEPT ![o[2]] = @ \cup {t}] ELSE IF o[1] = "rel" THEN [rholders EXCEPT ![o[2]] = @ \ {t}] ELSE rholders
           /\ pc' = [pc EXCEPT ![t] = @ + 1]
Next == \E t \in Threads : Step(t)
Spec == Init /\ [][Next]_vars
NoDeadlock == (\A t \in Threads : pc[t] > Len(Progs[t])) \/ (\E t \in Threads : CanStep(t))
====

import itertools, subprocess, re, sys, time
ops = {
 "insA": '[op |-> "insert", v |-> 7, ts |-> 0, exp |-> 0]',
 "ins1": '[op |-> "insert", v |-> 7, ts |-> 1, exp |-> 0]',
 "ins3": '[op |-> "insert", v |-> 8, ts |-> 3, exp |-> 0]',
 "ins5": '[op |-> "insert", v |-> 9, ts |-> 5, exp |-> 0]',
 "delA": '[op |-> "delete", v |-> 0, ts |-> 0, exp |-> 0]',
 "del3": '[op |-> "delete", v |-> 0, ts |-> 3, exp |-> 0]',
 "del4": '[op |-> "delete", v |-> 0, ts |-> 4, exp |-> 0]',
 "get":  '[op |-> "get", v |-> 0, ts |-> 0, exp |-> 0]',
 "cas1": '[op |-> "cas", v |-> 5, ts |-> 0, exp |-> 1]',
 "cas7": '[op |-> "cas", v |-> 6, ts |-> 0, exp |-> 7]',
}
names = list(ops)
tot_states = 0; n = 0; bad = []
t0 = time.time()
combos = list(itertools.combinations_with_replacement(names, 3)) if len(sys.argv) > 1 and sys.argv[1] == "3" else list(itertools.combinations_with_replacement(names, 2))
for combo in combos:
  for present in ("TRUE", "FALSE"):
    prog = " @@ ".join('%d :> %s' % (i+1, ops[o]) for i, o in enumerate(combo))
    mc = f"""---- MODULE MCSC ----
EXTENDS SC
MCProg == {prog}
MCThreads == 1..{len(combo)}
====
"""
    open("MCSC.tla","w").write(mc)
    open("MCSC.cfg","w").write(f"CONSTANTS\n Threads <- MCThreads\n Prog <- MCProg\n InitPresent = {present}\n MaxGen = {len(combo)+1}\nSPECIFICATION Spec\nINVARIANT Linearizable\nPROPERTY LWWStep\nCHECK_DEADLOCK FALSE\n")
    out = subprocess.run(["tlc","-workers","4","-metadir","/tmp/sc/work","-cleanup","-noGenerateSpecTE","-config","MCSC.cfg","MCSC.tla"],capture_output=True,text=True).stdout
    m = re.search(r"(\d+) states generated, (\d+) distinct", out)
    n += 1
    if m: tot_states += int(m.group(2))
    if "No error has been found" not in out:
        bad.append((combo, present)); print("PROBLEM", combo, present); print("\n".join(out.splitlines()[-40:]))
        if len(bad) > 2: sys.exit(1)
print(n, "programs", tot_states, "distinct states total", "%.1fs" % (time.time()-t0), "bad:", bad)

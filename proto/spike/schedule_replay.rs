// Schedule-replay spike: enumerate every interleaving (at scheduling-point granularity) of
// small two/three-thread programs on one key in the real store and judge each outcome.
use feoxdb::{FeoxError, FeoxStore};
use std::sync::{Arc, Mutex};
#[derive(Clone, Debug)]
enum Op { Ins(u8, Option<u64>), Del(Option<u64>), Cas(u8, u8), Get, Incr(i64), Range }
#[derive(Clone, Debug, PartialEq)]
enum Res { Created, Updated, Older, Deleted, NotFound, Swapped, NoSwap, Val(Vec<u8>), Num(i64), Keys(Vec<(Vec<u8>, Vec<u8>)>), Other(String) }
fn val(b: u8) -> Vec<u8> { vec![b; 8] }
fn run_op(s: &FeoxStore, op: &Op) -> Res {
    let k = b"k";
    let e = |e: FeoxError| match e { FeoxError::OlderTimestamp => Res::Older, FeoxError::KeyNotFound => Res::NotFound, o => Res::Other(format!("{o:?}")) };
    match op {
        Op::Ins(v, ts) => s.insert_with_timestamp(k, &val(*v), *ts).map(|c| if c { Res::Created } else { Res::Updated }).unwrap_or_else(e),
        Op::Del(ts) => s.delete_with_timestamp(k, *ts).map(|_| Res::Deleted).unwrap_or_else(e),
        Op::Cas(x, n) => s.compare_and_swap(k, &val(*x), &val(*n)).map(|b| if b { Res::Swapped } else { Res::NoSwap }).unwrap_or_else(e),
        Op::Get => s.get(k).map(Res::Val).unwrap_or_else(e),
        Op::Incr(d) => s.atomic_increment(k, *d).map(Res::Num).unwrap_or_else(e),
        Op::Range => s.range_query(b"a", b"z", 10).map(Res::Keys).unwrap_or_else(e),
    }
}
// sequential reference on one key: state = Option<(ts, value)>; auto timestamps use the published order
#[derive(Clone, Debug)]
struct Done { op: Op, res: Res, inv: usize, rsp: usize }
fn seq(op: &Op, st: &Option<(u64, Vec<u8>)>, auto: u64) -> (Res, Option<(u64, Vec<u8>)>) {
    match op {
        Op::Ins(v, ts) => { let t = ts.unwrap_or(auto); match st { Some((c, _)) if t <= *c => (Res::Older, st.clone()), Some(_) => (Res::Updated, Some((t, val(*v)))), None => (Res::Created, Some((t, val(*v)))) } }
        Op::Del(ts) => { let t = ts.unwrap_or(auto); match st { None => (Res::NotFound, None), Some((c, _)) if t <= *c => (Res::Older, st.clone()), Some(_) => (Res::Deleted, None) } }
        Op::Cas(x, n) => match st { Some((_, v)) if *v == val(*x) => (Res::Swapped, Some((auto, val(*n)))), _ => (Res::NoSwap, st.clone()) },
        Op::Get => match st { Some((_, v)) => (Res::Val(v.clone()), st.clone()), None => (Res::NotFound, None) },
        Op::Incr(d) => match st { Some((_, v)) => { let n = i64::from_le_bytes(v.clone().try_into().unwrap()).saturating_add(*d); (Res::Num(n), Some((auto, n.to_le_bytes().to_vec()))) } None => (Res::Num(*d), Some((auto, d.to_le_bytes().to_vec()))) },
        Op::Range => match st { Some((_, v)) => (Res::Keys(vec![(b"k".to_vec(), v.clone())]), st.clone()), None => (Res::Keys(vec![]), None) },
    }
}
fn linearizable(done: &[Done], init: &Option<(u64, Vec<u8>)>) -> bool {
    fn go(rem: &mut Vec<usize>, done: &[Done], st: &Option<(u64, Vec<u8>)>, auto: u64) -> bool {
        if rem.is_empty() { return true; }
        for i in 0..rem.len() {
            let t = rem[i];
            if rem.iter().any(|&u| u != t && done[u].rsp < done[t].inv) { continue; }
            let (r, ns) = seq(&done[t].op, st, auto);
            // permitted deviations: conservative Older with a concurrent accepted write; NoSwap with a concurrent modification
            let concurrent_mod = done.iter().enumerate().any(|(u, d)| u != t && matches!(d.res, Res::Created | Res::Updated | Res::Deleted | Res::Swapped | Res::Num(_)) && d.inv < done[t].rsp && d.rsp > done[t].inv);
            let ok_exact = r == done[t].res;
            let ok_dev = (done[t].res == Res::Older && concurrent_mod) || (done[t].res == Res::NoSwap && matches!(done[t].op, Op::Cas(..)) && concurrent_mod);
            for (ok, next) in [(ok_exact, ns.clone()), (ok_dev && !ok_exact, st.clone())] {
                if ok { let x = rem.remove(i); if go(rem, done, &next, auto + 1) { rem.insert(i, x); return true; } rem.insert(i, x); }
            }
        }
        false
    }
    let mut rem: Vec<usize> = (0..done.len()).collect();
    go(&mut rem, done, init, 1_000_000)
}
fn run_schedule(progs: &[Vec<Op>], init: Option<u8>, schedule: &[usize]) -> (Vec<Done>, Vec<Vec<usize>>, Option<Vec<u8>>) {
    // returns results, and for every decision point the set of runnable threads that were available (to extend the DFS)
    let store = Arc::new(FeoxStore::builder().hash_bits(4).build().unwrap());
    if let Some(v) = init { store.insert_with_timestamp(b"k", &val(v), Some(2)).unwrap(); }
    feoxdb::verif::enable();
    let clock = Arc::new(Mutex::new(0usize));
    let results: Arc<Mutex<Vec<Done>>> = Arc::new(Mutex::new(Vec::new()));
    let mut handles = Vec::new(); let mut ids = Vec::new();
    for p in progs.iter().cloned() {
        let (s, c, r) = (store.clone(), clock.clone(), results.clone());
        let h = std::thread::spawn(move || {
            feoxdb::verif::register_current(); feoxdb::verif::sched("start");
            for op in p { let inv = { let mut c = c.lock().unwrap(); *c += 1; *c }; let res = run_op(&s, &op); let rsp = { let mut c = c.lock().unwrap(); *c += 1; *c }; r.lock().unwrap().push(Done { op, res, inv, rsp }); feoxdb::verif::sched("between_ops"); }
            feoxdb::verif::finish_current();
        });
        ids.push(h.thread().id()); handles.push(h);
    }
    for id in &ids { feoxdb::verif::wait_parked(*id); }
    let mut alive: Vec<bool> = vec![true; progs.len()];
    let mut choices = Vec::new(); let mut pos = 0;
    while alive.iter().any(|a| *a) {
        let runnable: Vec<usize> = (0..alive.len()).filter(|i| alive[*i]).collect();
        let pick = if pos < schedule.len() { schedule[pos] } else { runnable[0] };
        choices.push(runnable.clone()); pos += 1;
        if feoxdb::verif::step(ids[pick]).is_none() { alive[pick] = false; }
    }
    for h in handles { h.join().unwrap(); }
    feoxdb::verif::disable();
    let fin = store.get(b"k").ok();
    let r = results.lock().unwrap().clone();
    (r, choices, fin)
}
fn explore(name: &str, progs: Vec<Vec<Op>>, init: Option<u8>) {
    // DFS over all schedules
    let mut stack: Vec<Vec<usize>> = vec![vec![]]; let mut n = 0; let mut bad = 0; let mut outcomes = std::collections::BTreeSet::new();
    while let Some(prefix) = stack.pop() {
        let (done, choices, fin) = run_schedule(&progs, init, &prefix);
        // extend: for every decision after the prefix where alternatives existed (default picked first runnable)
        for d in prefix.len()..choices.len() { for &alt in choices[d].iter().skip(1) { let mut p: Vec<usize> = prefix.clone(); for dd in prefix.len()..d { p.push(choices[dd][0]); } p.push(alt); stack.push(p); } }
        n += 1;
        let init_st = init.map(|v| (2u64, val(v)));
        let mut sorted = done.clone(); sorted.sort_by_key(|d| d.inv);
        outcomes.insert(format!("{:?} final={:?}", sorted.iter().map(|d| format!("{:?}->{:?}", d.op, d.res)).collect::<Vec<_>>(), fin.as_ref().map(|v| v[0])));
        if !linearizable(&done, &init_st) { bad += 1; if bad <= 3 { println!("  NOT LINEARIZABLE under schedule {:?}: {:?}", prefix, sorted.iter().map(|d| (format!("{:?}", d.op), format!("{:?}", d.res), d.inv, d.rsp)).collect::<Vec<_>>()); } }
    }
    println!("{name}: {n} schedules, {} distinct outcomes, {bad} non-linearizable", outcomes.len());
}
fn main() {
    let which = std::env::args().nth(1).unwrap_or("all".into());
    if which == "all" || which == "lin" {
        explore("ins(ts5) || ins(ts5) over ts2", vec![vec![Op::Ins(7, Some(5))], vec![Op::Ins(8, Some(5))]], Some(1));
        explore("ins(ts5) || del(ts4) over ts2", vec![vec![Op::Ins(7, Some(5))], vec![Op::Del(Some(4))]], Some(1));
        explore("cas(1->5) || ins(auto)", vec![vec![Op::Cas(1, 5)], vec![Op::Ins(8, None)]], Some(1));
        explore("cas(1->5) || cas(1->6)", vec![vec![Op::Cas(1, 5)], vec![Op::Cas(1, 6)]], Some(1));
        explore("incr || incr || get", vec![vec![Op::Incr(1)], vec![Op::Incr(2)], vec![Op::Get]], None);
        explore("ins;del || ins(ts3) || get", vec![vec![Op::Ins(7, Some(5)), Op::Del(Some(6))], vec![Op::Ins(8, Some(3))], vec![Op::Get]], Some(1));
    }
    if which == "all" || which == "range" {
        explore("range || ins(auto);ins(auto)", vec![vec![Op::Range], vec![Op::Ins(7, None), Op::Ins(8, None)]], Some(1));
    }
}

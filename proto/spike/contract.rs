// Contract spike: random sequential programs against the Appendix-E reference (virtual clock).
use feoxdb::{FeoxError, FeoxStore};
use rand::{rngs::StdRng, Rng, SeedableRng};
use std::collections::BTreeMap;
#[derive(Clone, Debug, PartialEq)]
struct Rec { ts: u64, val: Vec<u8>, exp: u64 }
const E9: u64 = 1_000_000_000;
const OVERHEAD: usize = 168;
fn err(e: &FeoxError) -> String { format!("{e:?}").split('(').next().unwrap().to_string() }
struct M { kv: BTreeMap<Vec<u8>, Rec>, now: u64, ttl: bool, seen: u64, floor: BTreeMap<Vec<u8>, u64> }
impl M {
    fn expired(&self, r: &Rec) -> bool { self.ttl && r.exp > 0 && self.now > r.exp }
    fn live(&self, k: &[u8]) -> Option<&Rec> { self.kv.get(k).filter(|r| !self.expired(r)) }
}
fn exp_of(ts: u64, ttl: u64) -> u64 { if ttl == 0 { 0 } else { ts.saturating_add(ttl.saturating_mul(E9)) } }
fn main() {
    let seed: u64 = std::env::args().nth(1).map(|s| s.parse().unwrap()).unwrap_or(1);
    let persistent = std::env::args().nth(2).map(|s| s == "p").unwrap_or(false);
    let steps: usize = std::env::args().nth(3).map(|s| s.parse().unwrap()).unwrap_or(3000);
    let mut rng = StdRng::seed_from_u64(seed);
    let path = format!("/dev/shm/c1_{seed}.feox");
    let _ = std::fs::remove_file(&path);
    let mut now: u64 = 1_000 * E9;
    feoxdb::verif::set_now(now);
    let build = |path: &str| { let b = FeoxStore::builder().hash_bits(6).enable_ttl(true).no_memory_limit();
        if persistent { b.device_path(path.to_string()).file_size(200 * 4096).enable_caching(true).build().unwrap() } else { b.build().unwrap() } };
    let mut store = build(&path);
    let mut m = M { kv: BTreeMap::new(), now, ttl: true, seen: 0, floor: BTreeMap::new() };
    let keys: Vec<Vec<u8>> = vec![b"a".to_vec(), b"ab".to_vec(), b"b".to_vec(), b"b\xff".to_vec(), b"c".to_vec()];
    let mut mism = 0usize; let mut counts: BTreeMap<&'static str, usize> = BTreeMap::new();
    macro_rules! bad { ($($a:tt)*) => {{ mism += 1; if mism <= 25 { println!("MISMATCH step {}: {}", STEP.with(|s| s.get()), format!($($a)*)); } }} }
    thread_local!(static STEP: std::cell::Cell<usize> = std::cell::Cell::new(0));
    for step in 0..steps {
        STEP.with(|s| s.set(step));
        // silent Reap: an expired key that the implementation no longer holds is dropped from the model
        let gone: Vec<Vec<u8>> = m.kv.iter().filter(|(k, r)| m.expired(r) && store.verif_record(k).is_none()).map(|(k, _)| k.clone()).collect();
        for k in gone { m.kv.remove(&k); }
        let k = keys[rng.random_range(0..keys.len())].clone();
        let ts_choice: Option<u64> = match rng.random_range(0..10) { 0..=5 => None, 6 => Some(rng.random_range(1..50)), 7 => Some(now - rng.random_range(0..3) * E9), 8 => Some(now + rng.random_range(1..4) * E9), _ => Some(m.kv.get(&k).map(|r| r.ts).unwrap_or(5)) };
        let ttl: u64 = [0, 0, 1, 2, 3][rng.random_range(0..5)];
        let val: Vec<u8> = match rng.random_range(0..4) { 0 => (rng.random_range(-5i64..50)).to_le_bytes().to_vec(), 1 => format!("{{\"n\":{}}}", rng.random_range(0..9)).into_bytes(), _ => { let n = rng.random_range(1..if persistent { 9000 } else { 60 }); let mut v = vec![b'a' + (step % 26) as u8; n]; v[0] = (step % 251) as u8; v } };
        let cur = m.kv.get(&k).cloned();
        let present = cur.is_some(); let e_state = cur.as_ref().map(|r| m.expired(r)).unwrap_or(false);
        let op = rng.random_range(0..20);
        let draws = ts_choice.is_none() && matches!(op, 0..=3 | 6 | 7..=13);
        let bound = m.now.max(m.seen + 1);
        if draws { m.seen = bound; }
        let name: &'static str;
        // helper to read back what the implementation published
        let snap = |store: &FeoxStore, k: &[u8]| store.verif_record(k);
        match op {
            0..=3 => { name = "insert"; let use_ttl = op == 3;
                let r = if use_ttl { store.insert_with_ttl_and_timestamp(&k, &val, ttl, ts_choice) } else { store.insert_with_timestamp(&k, &val, ts_choice) };
                let eff_ttl = if use_ttl { ttl } else { 0 };
                match (&r, &cur) {
                    (Err(e), Some(c)) if err(e) == "OlderTimestamp" => { if !(ts_choice.is_some() && ts_choice.unwrap() <= c.ts) { bad!("insert Older unexpected ts={ts_choice:?} cur={}", c.ts); } }
                    (Ok(created), _) => { let s = snap(&store, &k).unwrap(); let ts = s.0;
                        if let Some(t) = ts_choice { if ts != t { bad!("insert ts {} != explicit {}", ts, t); } if let Some(c) = &cur { if t <= c.ts { bad!("insert accepted ts {} <= cur {}", t, c.ts); } } }
                        else { let fl = *m.floor.get(&k).unwrap_or(&0); if ts <= fl || ts > bound { bad!("auto ts {} out of bounds floor {} bound {}", ts, fl, bound); } }
                        if *created != !present { bad!("insert created={} present={} e={}", created, present, e_state); }
                        if s.1 != exp_of(ts, eff_ttl) { bad!("insert exp {} != {}", s.1, exp_of(ts, eff_ttl)); }
                        m.kv.insert(k.clone(), Rec { ts, val: val.clone(), exp: s.1 }); m.seen = m.seen.max(ts); m.floor.insert(k.clone(), ts); }
                    (Err(e), _) => bad!("insert unexpected error {}", err(e)),
                } }
            4 | 5 => { name = "get"; let r = store.get(&k); match (r, m.live(&k)) { (Ok(v), Some(c)) => if v != c.val { bad!("get value differs key {:?}", k) }, (Err(e), None) if err(&e) == "KeyNotFound" => {}, (r, c) => bad!("get {:?} vs model {:?}", r.map(|v| v.len()).map_err(|e| err(&e)), c.map(|c| c.val.len())) } }
            6 => { name = "delete"; let r = store.delete_with_timestamp(&k, ts_choice);
                match (&r, &cur) { (Err(e), None) if err(e) == "KeyNotFound" => {}, (Err(e), Some(c)) if err(e) == "OlderTimestamp" && ts_choice.is_some() && ts_choice.unwrap() <= c.ts => {},
                    (Ok(()), Some(c)) => { if let Some(t) = ts_choice { if t <= c.ts { bad!("delete accepted ts {} <= {}", t, c.ts); } m.seen = m.seen.max(t); m.floor.insert(k.clone(), t); } else { let f = (*m.floor.get(&k).unwrap_or(&0)).max(c.ts); m.floor.insert(k.clone(), f); } m.kv.remove(&k); }
                    (r, c) => bad!("delete {:?} cur {:?}", r.as_ref().map_err(err), c.as_ref().map(|c| c.ts)) } }
            7 | 8 => { name = "cas"; let expected = if rng.random_bool(0.7) { cur.as_ref().map(|c| c.val.clone()).unwrap_or(b"x".to_vec()) } else { b"nope".to_vec() };
                let r = store.compare_and_swap_with_timestamp_and_ttl(&k, &expected, &val, ts_choice, ttl);
                let can = m.live(&k).map(|c| c.val == expected).unwrap_or(false);
                match (&r, can) { (Ok(false), false) => {}, (Ok(true), true) => { let s = snap(&store, &k).unwrap(); if let Some(t) = ts_choice { if t <= cur.as_ref().unwrap().ts { bad!("cas accepted old ts"); } }
                        if s.1 != exp_of(s.0, ttl) { bad!("cas exp {} != {}", s.1, exp_of(s.0, ttl)); } if ts_choice.is_none() && (s.0 <= *m.floor.get(&k).unwrap_or(&0) || s.0 > bound) { bad!("cas auto ts {} floor {:?} bound {}", s.0, m.floor.get(&k), bound); } m.kv.insert(k.clone(), Rec { ts: s.0, val: val.clone(), exp: s.1 }); m.seen = m.seen.max(s.0); m.floor.insert(k.clone(), s.0); }
                    (Err(e), true) if err(e) == "OlderTimestamp" && ts_choice.map(|t| t <= cur.as_ref().unwrap().ts).unwrap_or(false) => {},
                    (r, c) => bad!("cas {:?} can={} e={}", r.as_ref().map_err(err), c, e_state) } }
            9 | 10 => { name = "incr"; let d = rng.random_range(-3i64..10); let r = store.atomic_increment_with_timestamp_and_ttl(&k, d, ts_choice, ttl);
                let lv = m.live(&k).cloned();
                match (&r, &lv) {
                    (Ok(n), Some(c)) if c.val.len() == 8 => { let old = i64::from_le_bytes(c.val.clone().try_into().unwrap()); if *n != old.saturating_add(d) { bad!("incr {} != {}+{}", n, old, d); } }
                    (Ok(n), None) => { if *n != d { bad!("incr on absent/expired returned {} not {}", n, d); } }
                    (Err(e), Some(c)) if err(e) == "InvalidOperation" && c.val.len() != 8 => {}
                    (Err(e), _) if err(e) == "OlderTimestamp" && ts_choice.is_some() && (cur.as_ref().map(|c| ts_choice.unwrap() <= c.ts).unwrap_or(false) || (e_state && ts_choice.unwrap() <= m.now)) => {}
                    (r, c) => bad!("incr {:?} live {:?} e={} ts={:?} now={}", r.as_ref().map_err(err), c.as_ref().map(|c| (c.ts, c.val.len())), e_state, ts_choice, m.now) }
                if let Ok(n) = r { let s = snap(&store, &k).unwrap(); if s.1 != exp_of(s.0, ttl) { bad!("incr exp"); } m.kv.insert(k.clone(), Rec { ts: s.0, val: n.to_le_bytes().to_vec(), exp: s.1 }); m.seen = m.seen.max(s.0); m.floor.insert(k.clone(), s.0); }
                else if e_state && store.verif_record(&k).is_none() { m.kv.remove(&k); } }
            11 => { name = "iia"; let r = store.insert_if_absent(&k, &val); match (&r, present) { (Ok(true), false) => { let s = snap(&store, &k).unwrap(); m.kv.insert(k.clone(), Rec { ts: s.0, val: val.clone(), exp: 0 }); m.seen = m.seen.max(s.0); m.floor.insert(k.clone(), s.0); }, (Ok(false), true) => {}, (r, p) => bad!("iia {:?} present={}", r.as_ref().map_err(err), p) } }
            12 => { name = "patch"; let nv = rng.random_range(0..9); let patch = format!("[{{\"op\":\"replace\",\"path\":\"/n\",\"value\":{nv}}}]"); let r = store.json_patch_with_timestamp(&k, patch.as_bytes(), ts_choice);
                let lv = m.live(&k).cloned(); let is_doc = lv.as_ref().map(|c| c.val.starts_with(b"{\"n\":")).unwrap_or(false);
                match (&r, &cur) { (Err(e), None) if err(e) == "KeyNotFound" => {}
                    (Err(e), Some(c)) if err(e) == "OlderTimestamp" && ts_choice.map(|t| t <= c.ts).unwrap_or(false) => {}
                    (Err(e), Some(_)) if err(e) == "KeyNotFound" && e_state => {}
                    (Err(e), Some(_)) if err(e) == "JsonPatchError" && !e_state && !is_doc => {}
                    (Ok(()), Some(_)) if is_doc => { let s = snap(&store, &k).unwrap(); if s.1 != 0 { bad!("patch kept expiry"); } m.kv.insert(k.clone(), Rec { ts: s.0, val: format!("{{\"n\":{nv}}}").into_bytes(), exp: 0 }); m.seen = m.seen.max(s.0); m.floor.insert(k.clone(), s.0); }
                    (r, c) => bad!("patch {:?} cur {:?} e={} doc={}", r.as_ref().map_err(err), c.as_ref().map(|c| c.ts), e_state, is_doc) } }
            13 => { name = "update_ttl"; let r = store.update_ttl(&k, ttl); match (&r, m.live(&k).cloned()) { (Err(e), None) if err(e) == "KeyNotFound" => {}, (Ok(()), Some(c)) => { let s = snap(&store, &k).unwrap(); if s.0 <= c.ts { bad!("update_ttl ts not advanced"); } if s.1 != exp_of(m.now, ttl) { bad!("update_ttl exp {} != {}", s.1, exp_of(m.now, ttl)); } m.kv.insert(k.clone(), Rec { ts: s.0, val: c.val, exp: s.1 }); m.seen = m.seen.max(s.0); m.floor.insert(k.clone(), s.0); }, (r, c) => bad!("update_ttl {:?} live={}", r.as_ref().map_err(err), c.is_some()) } }
            14 => { name = "get_ttl"; let r = store.get_ttl(&k); match (&r, &cur) { (Err(e), None) if err(e) == "KeyNotFound" => {}, (Ok(None), Some(c)) if c.exp == 0 => {}, (Ok(Some(0)), Some(c)) if c.exp != 0 && m.now >= c.exp => {}, (Ok(Some(s)), Some(c)) if c.exp > m.now && *s == (c.exp - m.now) / E9 => {}, (r, c) => bad!("get_ttl {:?} cur {:?} now {}", r.as_ref().map_err(err), c.as_ref().map(|c| c.exp), m.now) } }
            15 => { name = "range"; let lim = rng.random_range(0..7usize); let (s, e) = (keys[rng.random_range(0..keys.len())].clone(), keys[rng.random_range(0..keys.len())].clone());
                let got = store.range_query(&s, &e, lim).unwrap(); let want: Vec<(Vec<u8>, Vec<u8>)> = m.kv.iter().filter(|(k, r)| **k >= s && **k <= e && !m.expired(r)).take(lim).map(|(k, r)| (k.clone(), r.val.clone())).collect();
                if got != want { bad!("range {:?}..{:?} lim {} got {:?} want {:?}", s, e, lim, got.iter().map(|x| x.0.clone()).collect::<Vec<_>>(), want.iter().map(|x| x.0.clone()).collect::<Vec<_>>()); } }
            16 => { name = "tick"; now += rng.random_range(1..25) * (E9 / 10); feoxdb::verif::set_now(now); m.now = now; }
            17 => { name = "flush"; if persistent { if let Err(e) = store.flush() { bad!("flush error {}", err(&e)); } } }
            18 => { name = "accounting"; let present_now: Vec<_> = m.kv.iter().filter(|(k, _)| store.verif_record(k).is_some()).collect();
                let want: usize = present_now.iter().map(|(k, r)| OVERHEAD + k.len() + r.val.len()).sum();
                if store.memory_usage() != want || store.len() != present_now.len() { bad!("mem {} want {} len {} want {}", store.memory_usage(), want, store.len(), present_now.len()); } }
            _ => { name = "reopen"; if persistent && rng.random_bool(0.15) { drop(store); store = build(&path); m.seen = 0; let exp: Vec<_> = m.kv.iter().filter(|(_, r)| m.expired(r)).map(|(k, _)| k.clone()).collect(); for k in exp { m.kv.remove(&k); }
                    m.floor = m.kv.iter().map(|(k, r)| (k.clone(), r.ts)).collect(); m.seen = m.kv.values().map(|r| r.ts).max().unwrap_or(0);
                    for (k, r) in &m.kv { match store.verif_record(k) { Some(s) if s.0 == r.ts && s.1 == r.exp && s.2 == r.val.len() => {}, other => bad!("reopen lost/changed {:?}: {:?} vs ts {} exp {}", k, other, r.ts, r.exp) } }
                    if store.len() != m.kv.len() { bad!("reopen len {} want {}", store.len(), m.kv.len()); } } }
        }
        *counts.entry(name).or_default() += 1;
    }
    println!("seed {seed} {} steps {} mismatches {} ops {:?}", if persistent { "persistent" } else { "memory" }, steps, mism, counts);
    std::mem::forget(store);
    let _ = std::fs::remove_file(&path);
    std::process::exit(if mism == 0 { 0 } else { 1 });
}

import json, sys, os, struct, itertools, subprocess, collections, time
BS = 4096
# ---------- independent layout decoder (written from the documented layout) ----------
def _tab():
    t = []
    for i in range(256):
        c = i
        for _ in range(8): c = (c >> 1) ^ 0x82F63B78 if c & 1 else c >> 1
        t.append(c)
    return t
T = _tab()
def crc32c(seed, data):
    c = seed ^ 0xFFFFFFFF
    for b in data: c = T[(c ^ b) & 0xFF] ^ (c >> 8)
    return c ^ 0xFFFFFFFF
def fold(c):
    t = ((c >> 16) ^ (c & 0xFFFF)) & 0xFFFF
    return t or 1
def record_token(sector, extent):
    c = crc32c(0, struct.pack("<Q", sector)); c = crc32c(c, extent[:2]); c = crc32c(c, b"\0\0"); c = crc32c(c, extent[4:])
    return fold(c)
def marker_token(sector, blk):
    return fold(crc32c(crc32c(0, struct.pack("<Q", sector)), blk[:16] + blk[18:19]))
def classify_block(img, b, nblocks):
    blk = img[b*BS:(b+1)*BS]
    if blk == bytes(BS): return ("Z",)
    if blk[:8] == b"\0DELETED":
        rem = struct.unpack("<Q", blk[8:16])[0]; tok = struct.unpack("<H", blk[16:18])[0]
        return ("M", rem, blk[18], tok == marker_token(b, blk))
    if blk[:2] == b"\xcd\xab":
        klen = struct.unpack("<H", blk[4:6])[0]
        if 0 < klen <= BS - 30:
            key = blk[6:6+klen]; vlen, ts, exp = struct.unpack("<QQQ", blk[6+klen:6+klen+24])
            n = -(-(30 + klen + vlen) // BS)
            tok = struct.unpack("<H", blk[2:4])[0]
            ok = b + n <= nblocks and tok == record_token(b, img[b*BS:(b+n)*BS])
            return ("H", key.decode("latin1"), ts, exp, vlen, n, ok)
        return ("Hbad",)
    return ("X",)
def decode_journal_slot(s):
    if s == bytes(len(s)): return ("JZ",)
    if s[:8] != b"\0FEOXAJ1": return ("JBad",)
    ver, chk = struct.unpack("<II", s[8:16]); gen, state, count, comp = struct.unpack("<QIII", s[16:36])
    if count > 1024 or gen == 0: return ("JBad",)
    size = -(-(40 + 8*count) // BS) * BS
    d = s[:size]
    c = crc32c(0, d[:12]); c = crc32c(c, b"\0"*4); c = crc32c(c, d[16:32]); c = crc32c(c, b"\0"*4); c = crc32c(c, d[36:])
    if c != chk or comp != (chk ^ 0xFFFFFFFF): return ("JBad",)
    exts = [struct.unpack("<II", s[40+8*i:48+8*i]) for i in range(count)]
    return ("J", gen, state, exts)
def decode_meta(blk):
    if blk[:8] != b"FEOX_SIG": return ("MBad",)
    ver = struct.unpack("<I", blk[8:12])[0]; recs, size, dev = struct.unpack("<QQQ", blk[16:40])
    res = blk[64:132]
    if res[:4] != b"FM3C": return ("MBad",)
    chk, comp = struct.unpack("<II", res[4:12]); gen = struct.unpack("<Q", res[12:20])[0]
    c = crc32c(0, blk[:8]); c = crc32c(c, blk[8:12]); c = crc32c(c, blk[16:24]); c = crc32c(c, blk[24:32]); c = crc32c(c, blk[32:40])
    c = crc32c(c, blk[40:44]); c = crc32c(c, blk[44:48]); c = crc32c(c, blk[48:56]); c = crc32c(c, blk[56:64]); c = crc32c(c, res[12:])
    if c != chk or comp != (chk ^ 0xFFFFFFFF): return ("MBad",)
    return ("Meta", gen, ver, recs, size)
def describe(img):
    nb = len(img)//BS
    out = {"meta": [decode_meta(img[0:BS]), decode_meta(img[7*BS:8*BS])], "j": [decode_journal_slot(img[BS:4*BS]), decode_journal_slot(img[4*BS:7*BS])], "blk": {}}
    for b in range(16, nb):
        c = classify_block(img, b, nb)
        if c != ("Z",): out["blk"][b] = c
    return out

# ---------- trace, crash images, oracle ----------
d = sys.argv[1]
ev = [json.loads(l) for l in open(f"{d}/trace.ndjson")]
pay = open(f"{d}/payload.bin","rb").read()
size = os.path.getsize(f"{d}/dev.feox"); nb = size//BS
final = open(f"{d}/dev.feox","rb").read()
def apply(img, w, nblocks=None):
    data = pay[w["off"]:w["off"]+w["len"]]
    if nblocks is not None: data = data[:nblocks*BS]
    o = w["sector"]*BS; img[o:o+len(data)] = data
# sanity: replaying every write reproduces the real file
img = bytearray(size)
for e in ev:
    if e["e"] == "w": apply(img, e)
assert bytes(img) == final, "replayed write log differs from the device file"
print("write log reproduces the device file byte for byte;", sum(1 for e in ev if e['e']=='w'), "writes,", sum(1 for e in ev if e['e']=='fsync'), "fsyncs")
fd = describe(final); print("final image:", json.dumps(fd)[:600])

hist = collections.defaultdict(lambda: [None]); acked = collections.defaultdict(int)  # per key list of states, index acked
images = []   # (name, bytes, cut_seq, snapshot of hist/ack)
durable = bytearray(size); pending = []; last_flush_ok = True
pend_since = None; flush_begin_len = None
def snapshot(): return ({k: list(v) for k, v in hist.items()}, dict(acked))
for i, e in enumerate(ev):
    k = e["e"]
    if k == "w": pending.append(e)
    elif k == "fsync":
        for w in pending: apply(durable, w)
        pending = []
    elif k == "put": hist[e["k"]].append((e["tag"], e["len"]))
    elif k == "del": hist[e["k"]].append(None)
    elif k == "flush_begin": flush_begin_len = {kk: len(v)-1 for kk, v in hist.items()}
    elif k == "flush_end" and e["ok"]:
        last_flush_ok = True
        for kk, n in flush_begin_len.items(): acked[kk] = max(acked[kk], n)
    elif k == "flush_end" and not e["ok"]: last_flush_ok = False
    elif k == "drop_end" and last_flush_ok:
        for kk, v in hist.items(): acked[kk] = len(v)-1
    # crash cut right after this event: every subset of pending, plus block-prefix tears of one multi-block member
    idx = range(len(pending))
    variants = []
    for r in range(len(pending)+1):
        for S in itertools.combinations(idx, r): variants.append((S, None))
    for t in idx:
        nblk = pending[t]["len"]//BS
        for cutb in range(1, nblk):
            for r in range(len(pending)):
                for S in itertools.combinations([x for x in idx if x != t], r): variants.append((tuple(sorted(S+(t,))), (t, cutb)))
    seen = set()
    for S, tear in variants:
        im = bytearray(durable)
        for x in S: apply(im, pending[x], tear[1] if tear and tear[0] == x else None)
        key = bytes(im)
        if key in seen: continue
        seen.add(key)
        images.append((f"cut{e['seq']:03d}_S{''.join(map(str,S)) or '-'}_{'t%d.%d'%tear if tear else 'n'}", key, e["seq"], snapshot()))
print(len(images), "crash images over", len(ev), "cut points")
# dedupe identical images at different cuts keep all (oracle differs), but recover each distinct byte image once
distinct = {}
for name, b, seq, snap in images: distinct.setdefault(b, name)
os.makedirs(f"{d}/img", exist_ok=True)
paths = {}
for b, name in distinct.items():
    p = f"{d}/img/{name}.feox"; open(p,"wb").write(b); paths[b] = p
t0 = time.time()
out = {}
plist = list(paths.values())
for i in range(0, len(plist), 40):
    r = subprocess.run(["/tmp/spike/h/target/release/recover"] + plist[i:i+40], capture_output=True, text=True)
    for line in r.stdout.splitlines():
        j = json.loads(line); out[j["img"]] = j
print(len(plist), "distinct images recovered by the real code in %.1fs" % (time.time()-t0))
viol = collections.Counter(); examples = {}
for name, b, seq, (h, a) in images:
    r = out[paths[b]]
    if not r.get("ok"):
        viol["reopen_failed:"+r.get("err","panic")] += 1; examples.setdefault("reopen_failed", (name, r, describe(b))); continue
    got = {x["k"]: (x["tag"], x["len"]) for x in r["recs"]}
    if r["len"] != len(r["recs"]): viol["len_mismatch"] += 1
    for x in r["recs"]:
        if not x["get_ok"]: viol["get_differs_from_range"] += 1
    for kk in set(h) | set(got):
        states = h.get(kk, [None]); lo = a.get(kk, 0)
        if got.get(kk) not in states[lo:]:
            viol["out_of_window"] += 1; examples.setdefault("out_of_window", (name, kk, got.get(kk), states, lo))
print("violations:", dict(viol))
for k, v in examples.items(): print("example", k, json.dumps(v, default=str)[:900])

expected = {k: (v[-1] if v else None) for k, v in hist.items()}
for e in ev:
    if e["e"] == "get":
        got = (e["tag"], e["len"]) if e["err"] is None else None
        if e["err"] not in (None, "KeyNotFound") or got != expected.get(e["k"]):
            print("READ-MISMATCH", e, "expected", expected.get(e["k"]))
print("flush results:", [e["ok"] for e in ev if e["e"] == "flush_end"], "faults:", [e["what"] for e in ev if e["e"] == "note"])

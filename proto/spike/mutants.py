import sys, os, shutil, subprocess, json, time, re
# each mutant: id, property, description, edits = [(file, old, new, occurrence (0-based) or 'all')]
M = [
("M01","C01/C07","insert accepts an equal timestamp (optimistic read and guarded check of the &[u8] path)",
  [("src/core/store/operations.rs","if timestamp <= existing_record.timestamp {","if timestamp < existing_record.timestamp {",0),
   ("src/core/store/internal.rs","if timestamp <= old_record_arc.timestamp {","if timestamp < old_record_arc.timestamp {",0)]),
("M02","C02","record batch is not fsynced before the journal is cleared (both I/O paths)",
  [("src/storage/io.rs","            self.flush()?;\n            return Ok(());\n        }\n\n        for chunk in writes.chunks(IOURING_MAX_BATCH)","            return Ok(());\n        }\n\n        for chunk in writes.chunks(IOURING_MAX_BATCH)",0),
   ("src/storage/io.rs","        }\n\n        self.flush()\n    }\n\n    pub fn read_metadata","        }\n\n        Ok(())\n    }\n\n    pub fn read_metadata",0)]),
("M03","C02/C03","journal clear is written but not fsynced before sectors are published",
  [("src/storage/io.rs","        let journal = encode_clear_allocation_journal(generation)?;\n        self.write_sectors_sync(self.journal_sector(slot), &journal)?;\n        self.flush()?;","        let journal = encode_clear_allocation_journal(generation)?;\n        self.write_sectors_sync(self.journal_sector(slot), &journal)?;",0)]),
("M04","C03","allocation intent is written but not fsynced before the data",
  [("src/storage/io.rs","        let journal = encode_active_allocation_journal(generation, extents)?;\n        self.write_sectors_sync(self.journal_sector(slot), &journal)?;\n        self.flush()?;","        let journal = encode_active_allocation_journal(generation, extents)?;\n        self.write_sectors_sync(self.journal_sector(slot), &journal)?;",0)]),
("M05","C03","the last extent of a multi-record batch is left out of the allocation journal",
  [("src/storage/write_buffer.rs","            .collect::<Vec<_>>();\n        let journal_active = !journal_extents.is_empty();","            .collect::<Vec<_>>();\n        let journal_extents = journal_extents[..journal_extents.len().saturating_sub(1).max(1).min(journal_extents.len())].to_vec();\n        let journal_active = !journal_extents.is_empty();",0)]),
("M06","C04","recovery retires stale extents without a journal transaction",
  [("src/core/store/recovery.rs","            disk.retire_extents(&retired_extents)?;","            if !retired_extents.is_empty() { disk.replay_allocation_journal(&retired_extents)?; }",0)]),
("M07","C05","recovery does not return single-block gaps between records to the free pool",
  [("src/core/store/recovery.rs","            if sector > last_end {\n                self.free_space","            if sector > last_end + 1 {\n                self.free_space",0)]),
("M08","C06","release does not merge with a following run that starts exactly at its end",
  [("src/storage/free_space.rs",".range(start..=end)",".range(start..end)",0)]),
("M09","C07","compare_and_swap / json_patch swap without checking that the generation read is still current",
  [("src/core/store/atomic.rs","                if !Arc::ptr_eq(old_record, expected) {\n                    return Ok(false);\n                }\n","",0)]),
("M10","C08","blocks of a retired extent are released without the second reader check",
  [("src/storage/write_buffer.rs","    for entry in release_operations {\n        if entry.record.extent_has_readers() {\n            retries.push(entry);\n            continue;\n        }\n        releasable.push(entry);","    for entry in release_operations {\n        releasable.push(entry);",0)]),
("M10b","C08","retirement markers are written without the first reader check",
  [("src/storage/write_buffer.rs","        entry.record.retire_extent();\n        if entry.record.extent_has_readers() {\n            retries.push(entry);\n            continue;\n        }\n","        entry.record.retire_extent();\n",0)]),
("M11","C09","a failed record batch releases its extents without scrubbing them",
  [("src/storage/write_buffer.rs","    } else if let Err(error) = disk_io.retire_extents(&extents) {","    } else if let Err(error) = disk_io.clear_allocation_journal() {",0)]),
("M11b","C09","flush reports success although the metadata write failed",
  [("src/core/store/persistence.rs","                disk_io.write().write_store_metadata(&mut metadata)?;\n            }\n        }\n        Ok(())","                let _ = disk_io.write().write_store_metadata(&mut metadata);\n            }\n        }\n        Ok(())",0)]),
("M12","C10","record token CRC seeded differently (symmetric in writer and recovery)",
  [("src/storage/seq_token.rs","    let mut crc = crc32c(0, &sector.to_le_bytes());\n    if data.len() >= SECTOR_HEADER_SIZE {","    let mut crc = crc32c(1, &sector.to_le_bytes());\n    if data.len() >= SECTOR_HEADER_SIZE {",0),
   ("src/core/store/recovery.rs","    let mut crc = crc32c(0, &sector.to_le_bytes());\n    crc = crc32c(crc, &head[..2]);","    let mut crc = crc32c(1, &sector.to_le_bytes());\n    crc = crc32c(crc, &head[..2]);",0)]),
("M13","C11","a key is hidden already at its expiry instant (>= instead of >)",
  [("src/core/store/operations.rs","                if now > ttl_expiry {","                if now >= ttl_expiry {",0)]),
("M13b","C11","update_ttl computes the expiry from the record timestamp instead of now",
  [("src/core/store/ttl.rs","                let expiry = ttl_expiry(now, ttl_seconds);","                let expiry = ttl_expiry(timestamp, ttl_seconds);",0)]),
("M14","C12","delete does not fold its explicit timestamp into the clock",
  [("src/core/store/operations.rs","                self.note_ttl_transition(record.ttl_expiry.load(Ordering::Acquire), 0);\n                self.observe_published_timestamp(key, timestamp, explicit_timestamp);","                self.note_ttl_transition(record.ttl_expiry.load(Ordering::Acquire), 0);",0)]),
("M15","C13","atomic_increment does not release memory when the counter replaces a larger value",
  [("src/core/store/atomic.rs","                    self.note_ttl_transition(old_expiry, new_expiry);\n                    if old_size > new_size {\n                        self.release_memory(old_size - new_size);\n                    }","                    self.note_ttl_transition(old_expiry, new_expiry);",0)]),
("M15b","C13","growing update reserves memory after publishing (limit can be exceeded)",
  [("src/core/store/internal.rs","                let reservation = self.reserve_memory(new_size.saturating_sub(old_size))?;\n                old_record_arc.link_successor(&new_record);","                self.stats.memory_usage.fetch_add(new_size.saturating_sub(old_size), Ordering::Relaxed);\n                let reservation = self.reserve_memory(0)?;\n                old_record_arc.link_successor(&new_record);",0)]),
("M16","C14","range_query counts skipped (expired/stale) entries towards the limit",
  [("src/core/store/range.rs","                Err(FeoxError::StaleExtent) | Err(FeoxError::KeyNotFound) => {\n                    cursor = entry.next();","                Err(FeoxError::StaleExtent) | Err(FeoxError::KeyNotFound) => {\n                    if results.len() + 1 >= limit { break; }\n                    cursor = entry.next();",0)]),
("M17","C15","migration publishes with rename (can replace a destination created meanwhile)",
  [("src/core/store/migration.rs","        fs::hard_link(&self.temporary, &self.destination).map_err(|source| {","        fs::rename(&self.temporary, &self.destination).map_err(|source| {",0)]),
("M17b","C15","migration verification compares keys and metadata but not values",
  [("src/core/store/migration.rs","            if !same_metadata\n                || source.resolve_value_ref(&source_record.key, &source_record)?\n                    != destination\n                        .resolve_value_ref(&destination_record.key, &destination_record)?\n            {","            if !same_metadata {",0)]),
("M18","C16","cache lookups ignore the generation tag",
  [("src/core/cache.rs","                (Some(expected), Some(cached)) => {\n                    std::ptr::eq(cached.as_ptr(), Arc::as_ptr(expected))\n                }","                (Some(_expected), Some(_cached)) => true,",0)]),
("M19","C17","journal slot decoding trusts the entry count",
  [("src/storage/allocation_journal.rs","    if generation == 0\n        || count > ALLOCATION_JOURNAL_MAX_ENTRIES\n","    if generation == 0\n",0)]),
("M20","C19","periodic coordinator only ever wakes worker 0",
  [("src/storage/write_buffer.rs","                    if pending || (worker_id == 0 && retirements_pending) {","                    if worker_id == 0 && (pending || retirements_pending) {",0)]),
("M21","C20","ordered-index slot frees the previous generation immediately instead of deferring",
  [("src/core/record.rs","                guard.defer_destroy(previous);","                drop(previous.into_owned());",0)]),
("M22","C18","failed-batch cleanup takes the free-space lock before the device work (inverted order)",
  [("src/storage/write_buffer.rs","        let mut disk_guard = disk_io.write();\n        for write in &prepared_writes {\n            mark_reservation_dirty(&write.entry);\n        }","        let _order = free_space.write();\n        let mut disk_guard = disk_io.write();\n        drop(_order);\n        for write in &prepared_writes {\n            mark_reservation_dirty(&write.entry);\n        }",0)]),

("M08b","C06","release accepts a range one block past the device and fails only after removing its neighbour",
  [("src/storage/free_space.rs","                Some(end) if end <= device_sectors => {}","                Some(end) if end <= device_sectors + 1 => {}",0)]),
("M08c","C06","allocation never uses an exactly fitting run",
  [("src/storage/free_space.rs",".range((sectors_needed, 0)..)",".range((sectors_needed + 1, 0)..)",0)]),
("M09b","C07","atomic_increment swaps without checking that the generation it read is still current",
  [("src/core/store/atomic.rs","                    if !Arc::ptr_eq(old_record, &source) {\n                        if explicit_timestamp\n                            .is_some_and(|timestamp| timestamp <= root.retirement_timestamp())\n                        {\n                            return Err(FeoxError::OlderTimestamp);\n                        }\n                        continue;\n                    }\n","",0)]),
("M09f","C01/C07","delete accepts a timestamp equal to the current one",
  [("src/core/store/operations.rs","                if timestamp <= record.timestamp {","                if timestamp < record.timestamp {",0)]),
("M10c","C08","reader unpins the extent before the pread instead of after",
  [("src/core/store/persistence.rs","        let data = disk_io.read_sectors_sync(sector, sectors_needed as u64)?;\n        drop(extent);","        drop(extent);\n        let data = disk_io.read_sectors_sync(sector, sectors_needed as u64)?;",0)]),
("M10d","C08","reader does not verify that the bytes read still belong to its generation",
  [("src/core/store/persistence.rs","        if !sector_holds_record(&data, &source) {\n            return Err(FeoxError::StaleExtent);\n        }\n\n        let offset","        let offset",0)]),
("M14b","C12","lazy expiry retirement does not fold its timestamp into the clock",
  [("src/core/store/internal.rs","                self.version_clock.observe(key, now);\n","",0)]),
("M14d","C12","insert_bytes creation does not fold its explicit timestamp into the clock",
  [("src/core/store/operations.rs","                    self.observe_published_timestamp(key, timestamp, explicit_timestamp);\n                    reservation.commit();\n                    if ttl_expiry > 0 {","                    reservation.commit();\n                    if ttl_expiry > 0 {",0)]),
("M14e","C12","compare_and_swap folds its explicit timestamp in before the guarded check (absorbed on failure)",
  [("src/core/store/atomic.rs","        let timestamp = self.resolve_timestamp(key, timestamp);\n        self.replace_record_if_current(","        let timestamp = self.resolve_timestamp(key, timestamp);\n        self.observe_published_timestamp(key, timestamp.0, timestamp.1);\n        self.replace_record_if_current(",0)]),
("M18b","C16","TTL update removes the cache entry without adjusting the cache memory counter",
  [("src/core/cache.rs","            let entry = self.bucket.remove(position);\n            self.stats\n                .cache_memory\n                .fetch_sub(entry.size, Ordering::Relaxed);","            let _entry = self.bucket.remove(position);",0)]),
("M18f","C16","eviction stops at the high watermark instead of the low one",
  [("src/core/cache.rs","        let target_usage = self.low_watermark.load(Ordering::Relaxed);","        let target_usage = self.high_watermark.load(Ordering::Relaxed);",0)]),
("M18g","C16","a disk read fills the cache untagged, so the entry survives the generation it was read for",
  [("src/core/store/operations.rs","                cache.insert_for_record(key.to_vec(), value.clone(), &source);\n            }\n        }\n\n        self.stats\n            .record_get(start.elapsed().as_nanos() as u64, cache_hit);\n        Ok(value.to_vec())","                cache.insert(key.to_vec(), value.clone());\n            }\n        }\n\n        self.stats\n            .record_get(start.elapsed().as_nanos() as u64, cache_hit);\n        Ok(value.to_vec())",0)]),
("M20b","C19","periodic coordinator ignores shards holding a single pending entry",
  [("src/storage/write_buffer.rs","                            sharded_buffers[shard_id].count.load(Ordering::Relaxed) > 0","                            sharded_buffers[shard_id].count.load(Ordering::Relaxed) > 1",0)]),
("M20c","C19","periodic coordinator never wakes a worker for pending retirements",
  [("src/storage/write_buffer.rs","                    if pending || (worker_id == 0 && retirements_pending) {","                    if pending || (worker_id == usize::MAX && retirements_pending) {",0)]),
]
def apply(root, edits):
    for f, old, new, occ in edits:
        p = os.path.join(root, f); s = open(p).read()
        n = s.count(old)
        if n == 0: raise SystemExit(f"pattern not found in {f}: {old[:60]!r}")
        idx = -1
        for _ in range(occ + 1): idx = s.index(old, idx + 1)
        s = s[:idx] + new + s[idx+len(old):]
        open(p, "w").write(s)
if __name__ == "__main__":
    only = set(sys.argv[1:])
    results = {}
    env = dict(os.environ, CARGO_TARGET_DIR="/tmp/mut/target", CARGO_NET_OFFLINE="true")
    for mid, prop, desc, edits in M:
        if only and mid not in only and "base" not in only: continue
        work = "/tmp/mut/work"
        subprocess.run(["rsync","-a","--delete","/tmp/mut/base/", work+"/"], check=True)
        apply(work, edits)
        t0 = time.time()
        b = subprocess.run(["cargo","nextest","run","--workspace","--no-fail-fast","--offline","--test-threads","8"], cwd=work, env=env, capture_output=True, text=True)
        out = b.stdout + b.stderr
        m = re.search(r"Summary \[.*?\] +(\d+) tests? run: (\d+) passed(?: \((\d+) (?:slow|flaky)[^)]*\))?(?:, (\d+) failed)?", out)
        failed = re.findall(r"^\s+FAIL \[.*?\] (.*)$", out, re.M)
        compiled = "error: could not compile" not in out and "error[E" not in out
        results[mid] = dict(prop=prop, desc=desc, compiled=compiled, summary=m.group(0) if m else None, failed=sorted(set(failed))[:8], secs=round(time.time()-t0))
        print(mid, prop, "compiled" if compiled else "NOCOMPILE", m.group(0) if m else out[-400:], sorted(set(failed))[:5], flush=True)
        json.dump(results, open("/tmp/mut/results.json","w"), indent=1)

//! Spike-only controlled scheduler: registered threads park at every `sched` point.
use std::collections::{HashMap, HashSet};
use std::sync::atomic::{AtomicBool, Ordering};
use std::sync::{Condvar, Mutex};
use std::thread::ThreadId;
#[derive(Default)]
struct State { arrivals: HashMap<ThreadId, (u64, &'static str)>, allowed: HashSet<ThreadId>, done: HashSet<ThreadId>, registered: HashSet<ThreadId> }
static ON: AtomicBool = AtomicBool::new(false);
static STATE: Mutex<Option<State>> = Mutex::new(None);
static CV: Condvar = Condvar::new();
pub fn enable() { *STATE.lock().unwrap() = Some(State::default()); ON.store(true, Ordering::SeqCst); }
pub fn disable() { ON.store(false, Ordering::SeqCst); *STATE.lock().unwrap() = None; CV.notify_all(); }
pub fn register_current() { if let Some(s) = STATE.lock().unwrap().as_mut() { s.registered.insert(std::thread::current().id()); } }
pub fn finish_current() { if let Some(s) = STATE.lock().unwrap().as_mut() { s.done.insert(std::thread::current().id()); } CV.notify_all(); }
#[inline]
pub fn sched(name: &'static str) {
    if !ON.load(Ordering::Relaxed) { return; }
    let id = std::thread::current().id();
    let mut g = STATE.lock().unwrap();
    match g.as_mut() { Some(s) if s.registered.contains(&id) => { let e = s.arrivals.entry(id).or_insert((0, name)); e.0 += 1; e.1 = name; } _ => return }
    CV.notify_all();
    loop {
        match g.as_mut() { None => return, Some(s) => if s.allowed.remove(&id) { return; } }
        g = CV.wait(g).unwrap();
    }
}
/// Let thread `id` run to its next scheduling point (returns its name) or to completion (None).
pub fn step(id: ThreadId) -> Option<&'static str> {
    let mut g = STATE.lock().unwrap();
    let before = g.as_ref().unwrap().arrivals.get(&id).map(|a| a.0).unwrap_or(0);
    g.as_mut().unwrap().allowed.insert(id);
    CV.notify_all();
    loop {
        { let s = g.as_ref().unwrap();
          if let Some(a) = s.arrivals.get(&id) { if a.0 > before { return Some(a.1); } }
          if s.done.contains(&id) { return None; } }
        g = CV.wait(g).unwrap();
    }
}
/// Wait until thread `id` has parked for the first time.
pub fn wait_parked(id: ThreadId) { let mut g = STATE.lock().unwrap(); while g.as_ref().unwrap().arrivals.get(&id).is_none() { g = CV.wait(g).unwrap(); } }

use feoxdb::FeoxStore;
fn fnv(b: &[u8]) -> u64 { let mut h = 0xcbf29ce484222325u64; for x in b { h ^= *x as u64; h = h.wrapping_mul(0x100000001b3); } h }
fn main() {
    // recover each image given on the command line, print one JSON line per image, never drop the stores
    unsafe { let mut set: libc::cpu_set_t = std::mem::zeroed(); libc::CPU_SET(0, &mut set); libc::CPU_SET(1, &mut set); libc::sched_setaffinity(0, std::mem::size_of::<libc::cpu_set_t>(), &set); }
    for path in std::env::args().skip(1) {
        let r = std::panic::catch_unwind(|| FeoxStore::builder().device_path(path.clone()).hash_bits(6).enable_caching(false).build());
        let line = match r {
            Err(_) => serde_json::json!({"img":path,"panic":true}),
            Ok(Err(e)) => serde_json::json!({"img":path,"err":format!("{e:?}")}),
            Ok(Ok(store)) => {
                let all = store.range_query(b"", &[0xffu8; 8], 1000).unwrap();
                let recs: Vec<_> = all.iter().map(|(k, v)| serde_json::json!({"k":String::from_utf8_lossy(k),"len":v.len(),"tag":v.get(1).copied().unwrap_or(0),"h":fnv(v).to_string(),"get_ok": store.get(k).map(|g| g == *v).unwrap_or(false)})).collect();
                let len = store.len();
                std::mem::forget(store);
                serde_json::json!({"img":path,"ok":true,"len":len,"recs":recs})
            }
        };
        println!("{}", line);
    }
    std::process::exit(0);
}

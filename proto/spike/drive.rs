use feoxdb::FeoxStore;
use std::io::Write;
use std::sync::{Arc, Mutex};
struct Log { tr: std::fs::File, pay: std::fs::File, off: u64, seq: u64 }
fn main() {
    let dir = std::env::args().nth(1).unwrap();
    let scenario = std::env::args().nth(2).unwrap_or("basic".into());
    // one shard / one worker: restrict visible CPUs before the store is built
    unsafe { let mut set: libc::cpu_set_t = std::mem::zeroed(); libc::CPU_SET(0, &mut set); libc::CPU_SET(1, &mut set); libc::sched_setaffinity(0, std::mem::size_of::<libc::cpu_set_t>(), &set); }
    let log = Arc::new(Mutex::new(Log { tr: std::fs::File::create(format!("{dir}/trace.ndjson")).unwrap(), pay: std::fs::File::create(format!("{dir}/payload.bin")).unwrap(), off: 0, seq: 0 }));
    let l2 = log.clone();
    feoxdb::verif::install(Box::new(move |_s, ev| {
        let mut l = l2.lock().unwrap();
        l.seq += 1; let seq = l.seq;
        let line = match ev {
            feoxdb::verif::Ev::Write { sector, data, path } => { let off = l.off; l.pay.write_all(data).unwrap(); l.off += data.len() as u64;
                serde_json::json!({"seq":seq,"e":"w","sector":sector,"len":data.len(),"off":off,"path":path}) }
            feoxdb::verif::Ev::Fsync => serde_json::json!({"seq":seq,"e":"fsync"}),
            feoxdb::verif::Ev::Publish { key, ts, sector, blocks } => serde_json::json!({"seq":seq,"e":"publish","k":String::from_utf8_lossy(key),"ts":ts.to_string(),"sector":sector,"n":blocks}),
            feoxdb::verif::Ev::Alloc { sector, blocks } => serde_json::json!({"seq":seq,"e":"alloc","sector":sector,"n":blocks}),
            feoxdb::verif::Ev::Release { sector, blocks } => serde_json::json!({"seq":seq,"e":"release","sector":sector,"n":blocks}),
            feoxdb::verif::Ev::Note { what } => serde_json::json!({"seq":seq,"e":"note","what":what}),
        };
        writeln!(l.tr, "{}", line).unwrap();
    }));
    let api = |v: serde_json::Value| { let mut l = log.lock().unwrap(); l.seq += 1; let mut v = v; v["seq"] = l.seq.into(); writeln!(l.tr, "{}", v).unwrap(); };
    let path = format!("{dir}/dev.feox");
    let store = FeoxStore::builder().device_path(path).file_size(28 * 4096).hash_bits(6).enable_caching(false).build().unwrap();
    api(serde_json::json!({"e":"opened"}));
    let val = |tag: u8, len: usize| -> Vec<u8> { let mut v = vec![tag; len]; v[0] = b'#'; v };
    let put = |k: &str, tag: u8, len: usize| { store.insert(k.as_bytes(), &val(tag, len)).unwrap(); api(serde_json::json!({"e":"put","k":k,"tag":tag,"len":len})); };
    let del = |k: &str| { store.delete(k.as_bytes()).unwrap(); api(serde_json::json!({"e":"del","k":k})); };
    let flush = || { api(serde_json::json!({"e":"flush_begin"})); let r = store.flush(); api(serde_json::json!({"e":"flush_end","ok":r.is_ok()})); };
    match scenario.as_str() {
        "basic" => {
            put("a", b'1', 100); put("b", b'2', 5000); flush();
            put("a", b'3', 6000); del("b"); flush();
            put("c", b'4', 50); put("a", b'5', 10);
            std::thread::sleep(std::time::Duration::from_millis(350)); // let the periodic flusher run
            api(serde_json::json!({"e":"idle"}));
            put("d", b'6', 9000); del("c");
        }
        "faulty" => {
            // same operations, but failures are data: record every result, then heal and check
            feoxdb::verif::force_sync(true);
            let plan = std::env::var("FAULT").unwrap_or_default();   // "<idx>:<mode>[:from]"
            let base = feoxdb::verif::io_calls() as i64;
            if !plan.is_empty() { let p: Vec<&str> = plan.split(':').collect(); feoxdb::verif::set_fault(base + p[0].parse::<i64>().unwrap(), p[1].parse().unwrap(), p.len() > 2); }
            put("a", b'1', 100); put("b", b'2', 5000); flush();
            put("a", b'3', 6000); del("b"); flush();
            put("c", b'4', 50); put("a", b'5', 10); flush();
            feoxdb::verif::clear_fault();
            api(serde_json::json!({"e":"healed","io_calls": feoxdb::verif::io_calls() as i64 - base}));
            flush();
            for k in ["a", "b", "c"] { let r = store.get(k.as_bytes()); api(serde_json::json!({"e":"get","k":k,"tag": r.as_ref().ok().map(|v| v[1]), "len": r.as_ref().ok().map(|v| v.len()), "err": r.as_ref().err().map(|e| format!("{e:?}"))})); }
        }
        _ => panic!("unknown scenario"),
    }
    api(serde_json::json!({"e":"drop_begin"}));
    drop(store);
    api(serde_json::json!({"e":"drop_end"}));
    feoxdb::verif::uninstall();
}

import subprocess, os, sys, json, concurrent.futures as cf
N = int(sys.argv[1]); modes = [1, 2]
def run(job):
    idx, mode, frm = job
    d = f"/dev/shm/spf/f{idx}_{mode}{'_from' if frm else ''}"
    subprocess.run(["rm","-rf",d]); os.makedirs(d)
    env = dict(os.environ, FAULT=f"{idx}:{mode}" + (":from" if frm else ""))
    r = subprocess.run(["/tmp/spike/h/target/release/drive", d, "faulty"], env=env, capture_output=True, text=True, timeout=120)
    if r.returncode != 0: return (job, "DRIVER-FAILED", r.stderr[-300:])
    c = subprocess.run(["python3", "/tmp/spike/crashcheck.py", d], capture_output=True, text=True, timeout=300)
    lines = [l for l in c.stdout.splitlines() if l.startswith(("violations", "example", "READ-MISMATCH", "flush results"))]
    if c.returncode != 0: lines.append("CHECK-ERROR " + c.stderr[-300:])
    subprocess.run(["rm","-rf",d+"/img"])
    return (job, "ok", lines)
jobs = [(i, m, False) for i in range(N) for m in modes] + [(i, 1, True) for i in range(0, N, 3)]
bad = 0
with cf.ThreadPoolExecutor(8) as ex:
    for job, st, lines in ex.map(run, jobs):
        v = [l for l in lines if l.startswith("violations")] if st == "ok" else []
        interesting = st != "ok" or any(l.startswith(("READ-MISMATCH","CHECK-ERROR")) for l in lines) or (v and v[0] != "violations: {}")
        fl = [l for l in lines if l.startswith("flush results")]
        print(job, st, (fl[0][:110] if fl else ""), "   <<<" if interesting else "")
        if interesting:
            bad += 1
            for l in lines: print("     ", l[:700])
print("runs", len(jobs), "interesting", bad)

"""C13 — memory accounting is exact and the limit is never exceeded by admitted writes.
Sequential part: exact equality after every call on every tier, incl. after recovery.
The instantaneous bound under racing writers is decided by the schedule engine (see c07)."""
import json
import os
import random

import vcommon as v
import seqchecks as q
from checks.c01 import q_replay

PROP = "C13"
INV = ["AccountingExact"]


def run(tier, seed):
    rd = v.run_dir("c13")
    fxv = v.build_harness()
    rng = random.Random(seed)
    mc = [q.mc_store(rd, "MCStore_k2.cfg", ["MemBound", "ErrUnchanged"])]
    for r in mc:
        if r.violation:
            p = v.save_replay("c13", "mc.out", r.out)
            return {"level": "model_checking", "coverage": {"evaluations": 1, "distinct_nontrivial": 2},
                    "violations": [{"what": "model: " + r.violation, "replay": p, "key": "mc"}]}
    n, steps = (20, 450) if tier == "quick" else (200, 900)
    jobs = q.make_jobs(rng, q.CONFIGS, n, steps, extra=["--bias", "mem"])
    for i in range(4 if tier == "quick" else 30):
        jobs.append(("tight_%d" % i, ["--seed", str(rng.randrange(1 << 30)), "--steps", str(steps),
                                      "--mode", rng.choice(["mem", "pers"]), "--ttl", "1", "--bias", "mem",
                                      "--lim", str(rng.choice([700, 1000, 1400, 3000]))]))
    viol, st = q.run_engine(PROP, tier, seed, INV, jobs, rd, fxv)
    # concurrent part: racing creators / growers / deleters against limits that admit only some of
    # them; memory_usage() sampled after every scheduler step and by a monitor thread (LinTrace MemBound)
    import concengine as ce
    from checks.c07 import collect
    cst = {"traces": 0, "states": 0, "transitions": 0, "schedules": 0, "stalls": 0, "events": 0}
    # and the calls that remove a generation outside the caller's own write path (sweeper, lazy expiry) against
    # every writer variant: what is released must be what was removed
    fam = ce.mem_family() + [x for x in ce.pair_family() if "sweep" in x[0] or x[0].startswith("expired|")]
    res = ce.run_dfs(fxv, rd, fam, "mem", maxsched=400 if tier == "quick" else 3000, preempt=2 if tier == "quick" else 3)
    collect(PROP, res, rd, ["MemBound"], viol, cst)
    # the same programs on the design model (StoreConc.tla): every interleaving, no preemption bound; the
    # behaviours replayed on the real store, usage sampled after every step
    from checks.c07 import storeconc_part
    two = [x for x in fam if len(x[1]["threads"]) == 2]
    scinfo = storeconc_part(tier, seed, rd, fxv, viol, cst, prop=PROP, inv=["MemBound"],
                            fam=(two if tier == "quick" else fam), nsample=12000)
    free = [("free_lim_%d" % i, ["--seed", str(rng.randrange(1 << 30)), "--threads", "4", "--ops", "25", "--keys", "3",
                                 "--rounds", "20", "--lim", str(rng.choice([400, 600, 900]))])
            for i in range(4 if tier == "quick" else 24)]
    collect(PROP, ce.run_free(fxv, rd, free), rd, ["MemBound"], viol, cst)
    # creators and deleters against a limit that admits half of them, unrecorded (peak usage only)
    storms = []
    for i in range(3 if tier == "quick" else 12):
        t = os.path.join(rd, "limitstorm_%d.ndjson" % i)
        rc, so, se = v.run_cmd([fxv, "conc", "--mode", "limitstorm", "--out", t, "--seed", str(rng.randrange(1 << 30)),
                                "--threads", str([8, 6, 12][i % 3]), "--millis", "1500" if tier == "quick" else "4000",
                                # every second storm: some threads keep asking for replacements that never fit (refused
                                # compare-and-swap / overwrite / patch): a refusal must not move the usage at all
                                "--growers", str([0, 3, 2][i % 3])], timeout=120)
        info = {}
        for line in so.splitlines():
            try:
                info.update(json.loads(line))
            except Exception:
                pass
        if rc == 0 and info.get("admitted", 0) < 1000:
            raise v.ToolError("vacuity: limit storm admitted only %s writes" % info.get("admitted"))
        storms.append({"trace": t, "rc": rc, "info": info, "stderr": v.clip_stderr(se, 1500), "tag": "limitstorm_%d" % i})
    collect(PROP, storms, rd, ["MemBound"], viol, cst)
    # recovery part: stores obtained by the real recovery from crash images (two generations of a key
    # with values of different lengths on the device, torn batches, retired extents)
    import crashengine as cre
    cjobs = []
    for i in range(6 if tier == "quick" else 40):
        cjobs.append(("rec%d" % i, ["--seed", str(rng.randrange(1 << 30)), "--steps", str(rng.choice([25, 35])),
                                     "--fmt", str([3, 3, 2, 1][i % 4]), "--blocks", str(rng.choice([40, 48])),
                                     "--cpus", "2", "--keys", str(rng.choice([3, 4])), "--ttl", "1", "--end", "leak",
                                     "--flushpct", "10", "--maximages", "600", "--cc", "3"]))
    cviol, crst, ctraces = cre.run_and_validate(PROP, fxv, rd, cjobs, ["RealMem"])
    viol += cviol
    st["traces"] += crst["traces"]; st["states"] += crst["states"]; st["transitions"] += crst["transitions"]
    rec_images = crst["images_real"]
    st["traces"] += cst["traces"]; st["states"] += cst["states"]; st["transitions"] += cst["transitions"]
    st["events"] += cst["events"]
    cov = q.coverage_dict(
        st, sum(r.distinct for r in mc), sum(r.generated for r in mc),
        "one trace = one seeded program (creates, growing/shrinking updates, deletes, expiries, sweeps, "
        "flushes, reopen) with memory_usage() and len() compared after EVERY call against the sum over "
        "present keys of (size_of::<Record>() + key length + value length); memory limits 700..9000 bytes",
        q.sample_events(st["sample_trace"]), extra={"concurrent_schedules": cst["schedules"], "recovered_stores_checked": rec_images, "storeconc": scinfo})
    return {"level": "model_checking", "coverage": cov, "violations": viol,
            "assumptions": ["per-record overhead read from size_of::<Record>() at run time"]}


def replay(path):
    return q_replay(path, INV)

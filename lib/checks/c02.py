"""C02 — acknowledged data survives any later crash (flush / clean close)."""
import random

import os
import vcommon as v
import crashengine as ce

PROP = "C02"
INV = ["CrashOpens", "CrashWindow", "RealOpens", "RealWindow"]


def jobs_for(rng, tier):
    jobs = []
    n = 20 if tier == "quick" else 120
    for i in range(n):
        fmt = [3, 3, 3, 2, 1][i % 5]
        jobs.append(("w%d" % i, ["--seed", str(rng.randrange(1 << 30)), "--steps", str(rng.choice([25, 35, 45])),
                                 "--fmt", str(fmt), "--blocks", str(rng.choice([40, 44, 52])),
                                 "--cpus", str(rng.choice([2, 2, 4, 8])), "--keys", str(rng.choice([3, 4, 5])),
                                 "--ttl", "1", "--end", rng.choice(["drop", "drop", "drop", "leak"]),
                                 "--flushpct", str(rng.choice([14, 14, 6, 3])),
                                 "--maximages", "1500" if tier == "quick" else "4000"] + ["--sessions", str(rng.choice([1, 3, 3, 4]))]))
    jobs += ce.full_device_jobs(rng, 8 if tier == "quick" else 48)
    jobs += ce.wide_batch_jobs(rng, 2 if tier == "quick" else 12)
    jobs += ce.huge_extent_jobs(rng, 1 if tier == "quick" else 6)
    jobs += ce.restart_wide_jobs(rng, 1 if tier == "quick" else 8)
    jobs += ce.max_value_jobs(rng, 1 if tier == "quick" else 3)
    return jobs


def run(tier, seed):
    rd = v.run_dir("c02")
    fxv = v.build_harness()
    rng = random.Random(seed)
    # MC: write-behind / journal / retirement protocol, every crash image of every reachable state
    mc_viol = []
    mcs = [ce.mc_model(rd, "MCWriteBehind", "MCWriteBehind_quick_warm.cfg" if tier == "quick" else "MCWriteBehind_full_warm.cfg",
                       ["CrashSafe", "AckMeansDurable"])]
    ce.mc_model(rd, "MCWriteBehind", "MCWriteBehind_mut_SyncData.cfg", expect_violation=True, timeout=300)
    mc_states = sum(r.distinct for r in mcs)
    mc_trans = sum(r.generated for r in mcs)
    for r in mcs:
        if r.violation:
            mc_viol.append({"what": "model: " + r.violation, "replay": v.save_replay(PROP.lower(), "mc.out", r.out[-5000:]), "key": "mc"})
    viol, st, traces = ce.run_and_validate(PROP, fxv, rd, jobs_for(rng, tier), INV)
    cov = {
        "states": st["states"] + mc_states, "transitions": st["transitions"] + mc_trans, "mc_states": mc_states,
        "traces_validated_against_impl": st["traces"],
        "evaluations": st["images_real"], "distinct_nontrivial": st["traces"],
        "rule": "one trace = one seeded workload (puts of 1-3 block values incl. values embedding valid "
                "record/marker images, deletes, TTL writes, TTL-only updates, increments, flushes, idle "
                "periods for the periodic flusher, clean drop or abandon) on a fresh v3 device or a legacy "
                "v1/v2 device with 1, 2 or 4 shards. At EVERY device event TLC evaluates CrashOpens/"
                "CrashWindow/CrashNoGhost over every subset of the un-synced blocks (exhaustive up to 6 "
                "units, prefixes/singles/complements beyond); `evaluations` = crash images materialised "
                "and reopened with the real recovery code (RealOpens/RealWindow/RealNoGhost/RealCount)",
        "samples": ce.sample_of(traces[0]) if traces else [],
        "max_unsynced_units": st["max_pending_units"], "generations": st["gens"],
    }
    # concurrent flush() callers while a reader keeps a superseded generation pinned: an Ok from any of
    # them means the retirement is on the device (FlushAckComplete, LinTrace)
    import concengine as cc
    from checks.c07 import collect
    cst = {"traces": 0, "states": 0, "transitions": 0, "schedules": 0, "stalls": 0, "events": 0}
    fam = cc.ack_flush_family()
    if tier == "quick":
        fam = [x for x in fam if "_multi_get_" in x[0] or "_single_range_" in x[0]]
    res = cc.run_dfs(fxv, rd, fam, "ackflush", chunk=3, maxsched=4, preempt=3, par=8)
    collect(PROP, res, rd, ["FlushAckComplete"], viol, cst)
    st["states"] += cst["states"]
    st["transitions"] += cst["transitions"]
    viol = mc_viol + viol
    # story: a fresh key is deleted while the write-behind worker has its first write in hand
    import seqengine as _sq
    _sv, _sn, _sst = _sq.run_stories(PROP, fxv, rd, "inflightstory", 2 if tier == "quick" else 10,
                                     "an acknowledged delete (flush Ok, clean close) is not durable: the key is back after the reopen")
    viol = viol + _sv
    # story: flush() is called while a background batch (woken by the periodic coordinator) is in the worker's hand and
    # that batch's record writes fail: an Ok from flush() means a crash right after it recovers the key
    import seqengine as _sqa
    _av, _an, _ast = _sqa.run_stories(PROP, fxv, rd, "ackstory", 2 if tier == "quick" else 8,
                                      "flush() acknowledged while the worker still had the batch in hand")
    viol = viol + _av
    # handshake of the sharded write-behind: recorded executions with several shards / workers / client threads (bursts
    # beyond one journal batch and beyond the 16 MiB buffer, a pinned reader, a clean close) judged by Coord.tla's own
    # formulas (TraceCoord.tla: NothingLost, AckCoversAll, CloseCovers, DrainAll)
    import coordengine as _co
    _cv, _ccov = _co.part(PROP, tier, rng, fxv, rd)
    viol = viol + _cv
    cov["coord"] = _ccov
    return {"level": "model_checking", "coverage": cov, "violations": viol,
            "assumptions": ["device observer sees every write and fsync (checked by the byte-for-byte replay in selftest)",
                            "block-granular loss/reordering of un-synced writes; journal slots and metadata copies atomic",
                            "independent decoder (harness/src/layout.rs) projects bytes to abstract contents"]}


def replay(path):
    import coordengine as _co
    if _co.is_coord(path):
        return _co.replay_main(PROP, path)
    if os.path.basename(path).startswith("ackflush_"):
        import concengine as cc
        r = cc.validate(v.run_dir("c02_replay"), path, ["FlushAckComplete"])
        if r.violation:
            print("VIOLATION property=%s replay=%s" % (PROP, path))
            return 1
        return 0
    import seqengine as _sq
    if _sq.is_story(path):
        return _sq.replay_story(PROP, path)
    return ce.replay(PROP, path, INV)

"""C06 — the free-space allocator never double-allocates, loses or fragments space.

1. MC: TLC explores FreeSpace.tla exhaustively (placement policy left open) and checks
   AllocOK, ReleaseRejectAtomic, StatsOK.
2. spec -> impl: TLC dumps the labelled state graph of the best-fit instance; a walk covering
   every (free set, call) pair of that graph is executed on the real FreeSpaceManager.
3. impl -> spec: the recorded executions (covering walk + seeded random sequences on larger
   devices) are validated by TLC against TraceFreeSpace.tla; the property formulas are
   evaluated after every real call.
"""
import json
import os
import random
import re
from collections import defaultdict, deque

import vcommon as v

PROP = "C06"


def parse_graph(dot):
    """Return (init, edges) with node -> (free frozenset) and labelled edges."""
    node_free = {}
    edges = []
    init = None
    node_re = re.compile(r'^(-?\d+) \[label="((?:[^"\\]|\\.)*)"(,|\])')
    edge_re = re.compile(r'^(-?\d+) -> (-?\d+) \[label="([^"]*)"')
    for line in open(dot):
        line = line.strip()
        m = edge_re.match(line)
        if m:
            edges.append((m.group(1), m.group(2), m.group(3)))
            continue
        m = node_re.match(line)
        if m:
            label = m.group(2)
            fm = re.search(r'free = (\{[^}]*\}|-?\d+\.\.-?\d+)', label)
            txt = fm.group(1)
            if txt.startswith("{"):
                fs = frozenset(int(x) for x in txt.strip("{}").split(",") if x.strip())
            else:
                a, b = txt.split("..")
                fs = frozenset(range(int(a), int(b) + 1))
            node_free[m.group(1)] = fs
            if "style = filled" in line and init is None:
                init = m.group(1)
    return init, node_free, edges


def covering_walk(init, node_free, edges):
    """A call sequence that takes every (free set, call label) pair of the graph once."""
    graph = defaultdict(dict)            # free -> label -> free'
    for a, b, lab in edges:
        graph[node_free[a]][lab] = node_free[b]
    todo = {(f, lab) for f in graph for lab in graph[f]}
    total = len(todo)
    cur = node_free[init]
    walk = []
    while todo:
        mine = [lab for lab in graph[cur] if (cur, lab) in todo]
        if mine:
            # prefer state-changing calls last so that self loops are exhausted in place
            mine.sort(key=lambda lab: (graph[cur][lab] != cur, lab))
            lab = mine[0]
            todo.discard((cur, lab))
            walk.append(lab)
            cur = graph[cur][lab]
            continue
        # breadth-first search for the nearest state with untaken calls
        prev = {cur: None}
        dq = deque([cur])
        target = None
        while dq:
            x = dq.popleft()
            if any((x, lab) in todo for lab in graph[x]):
                target = x
                break
            for lab, y in graph[x].items():
                if y not in prev:
                    prev[y] = (x, lab)
                    dq.append(y)
        if target is None:
            walk.append("Reset")
            cur = node_free[init]
            if not any((cur, lab) in todo for lab in graph[cur]):
                # unreachable remainder cannot happen in a graph explored from init
                break
            continue
        path = []
        x = target
        while prev[x] is not None:
            px, lab = prev[x]
            path.append(lab)
            x = px
        for lab in reversed(path):
            walk.append(lab)
        cur = target
    return walk, total, len(graph)


def walk_to_prog(walk):
    lines = []
    for lab in walk:
        m = re.match(r"(\w+)\(([^)]*)\)", lab)
        if lab == "Reset":
            lines.append({"op": "reset"})
        elif m.group(1) == "Alloc":
            lines.append({"op": "alloc", "n": int(m.group(2))})
        else:
            s, c = [int(x) for x in m.group(2).split(",")]
            lines.append({"op": "release", "s": s, "c": c})
    return lines


def validate_trace(rd, trace, hi, tag):
    cfg = os.path.join(rd, "TraceFS_%s.cfg" % tag)
    tmpl = open(os.path.join(v.SPEC, "TraceFreeSpace.cfg.tmpl")).read()
    open(cfg, "w").write(tmpl.replace("@HI@", str(hi)))
    r = v.run_tlc("TraceFreeSpace", cfg, rd, workers=1, timeout=900,
                  env_extra={"TRACE": trace}, depth_first=True, coverage=False, xmx="4g")
    return r


def describe_rejection(r, trace):
    m = None
    for m in re.finditer(r"/\\ l = (\d+)", r.out):
        pass
    idx = int(m.group(1)) if m else None
    ev = None
    if idx:
        lines = open(trace).read().splitlines()
        if 1 <= idx - 1 <= len(lines):
            ev = lines[idx - 2]
    return idx, ev


def run(tier, seed):
    rd = v.run_dir("c06")
    fxv = v.build_harness()
    violations = []
    samples = []
    states = transitions = 0
    # ---- 1. exhaustive model checking, placement policy open
    sizes = [6] if tier == "quick" else [6, 8]
    for n in sizes:
        cfg = os.path.join(rd, "MCFreeSpace_any_%d.cfg" % n)
        open(cfg, "w").write(open(os.path.join(v.SPEC, "MCFreeSpace_any.cfg")).read()
                             .replace("Hi = 22", "Hi = %d" % (16 + n)))
        r = v.run_tlc("MCFreeSpace", cfg, rd, workers=8, timeout=900)
        v.tlc_ok(r, "MCFreeSpace(any,%d)" % n)
        if r.violation:
            p = v.save_replay("c06", "mc_any_%d.out" % n, r.out)
            violations.append({"what": "model: %s (specification-level)" % r.violation,
                               "replay": p, "key": "mc"})
        for act in ("Alloc", "Release"):
            if r.coverage.get(act, (0, 0))[1] == 0:
                raise v.ToolError("vacuity: action %s never taken in MCFreeSpace" % act)
        states += r.distinct
        transitions += r.generated
        v.log("[C06] MC any n=%d: %d distinct states, %d transitions, %.1fs" %
              (n, r.distinct, r.generated, r.wall))
    # ---- 2. best-fit graph -> covering walk -> real allocator
    traces = []
    for n in sizes:
        cfg = os.path.join(rd, "MCFreeSpace_bf_%d.cfg" % n)
        open(cfg, "w").write(open(os.path.join(v.SPEC, "MCFreeSpace_bestfit.cfg")).read()
                             .replace("Hi = 22", "Hi = %d" % (16 + n)))
        dot = os.path.join(rd, "graph_%d.dot" % n)
        r = v.run_tlc("MCFreeSpace", cfg, rd, workers=4, timeout=900,
                      extra=["-dump", "dot,actionlabels", dot], coverage=False)
        v.tlc_ok(r, "MCFreeSpace(bestfit,%d)" % n)
        states += r.distinct
        transitions += r.generated
        init, node_free, edges = parse_graph(dot)
        walk, pairs, nstates = covering_walk(init, node_free, edges)
        os.remove(dot)
        prog = os.path.join(rd, "walk_%d.prog" % n)
        with open(prog, "w") as fh:
            for line in walk_to_prog(walk):
                fh.write(json.dumps(line) + "\n")
        trace = os.path.join(rd, "walk_%d.ndjson" % n)
        rc, so, se = v.run_cmd([fxv, "freespace", "--hi", str(16 + n), "--prog", prog,
                                "--slack", str([2048, 0, 1][n % 3]), "--out", trace], timeout=300)
        if rc != 0:
            raise v.ToolError("fxv freespace failed: " + se[-500:])
        traces.append((trace, 16 + n, "walk%d" % n, len(walk)))
        v.log("[C06] covering walk n=%d: %d free sets, %d (state,call) pairs, %d calls" %
              (n, nstates, pairs, len(walk)))
        samples.append({"kind": "covering-walk", "device_blocks": n, "pairs": pairs,
                        "first_calls": walk[:12]})
    # ---- 3. seeded random sequences on larger devices
    rng = random.Random(seed)
    nrand = 6 if tier == "quick" else 40
    for i in range(nrand):
        hi = 16 + rng.choice([12, 24, 48, 96] if tier == "quick" else [12, 24, 48, 96, 160, 240])
        calls = 1500 if tier == "quick" else 4000
        trace = os.path.join(rd, "rand_%d.ndjson" % i)
        rc, so, se = v.run_cmd([fxv, "freespace", "--hi", str(hi), "--seed",
                                str(rng.randrange(1 << 30)), "--calls", str(calls),
                                "--maxreq", str(rng.choice([3, 8, 20, 40])),
                                # device sizes that are not a whole number of blocks: the partial block is nobody's
                                "--slack", str([0, 1, 2048, 4095, 0, 512][i % 6]),
                                "--out", trace], timeout=300)
        if rc != 0:
            raise v.ToolError("fxv freespace (random) failed: " + se[-500:])
        traces.append((trace, hi, "rand%d" % i, calls))
    # ---- sparse use of large devices (long free run next to small holes: percentages round, runs do not)
    for i, nblk in enumerate([300, 1000] if tier == "quick" else [150, 300, 500, 1000, 2000, 4000]):
        trace = os.path.join(rd, "sparse_%d.ndjson" % i)
        calls = 600 if tier == "quick" else 1500
        rc, so, se = v.run_cmd([fxv, "freespace", "--hi", str(16 + nblk), "--seed", str(rng.randrange(1 << 30)),
                                "--calls", str(calls), "--maxreq", str([2, 5, 3][i % 3]), "--maxheld", str(3 + i % 4),
                                "--slack", "0", "--out", trace], timeout=300)
        if rc != 0:
            raise v.ToolError("fxv freespace (sparse) failed: " + se[-500:])
        traces.append((trace, 16 + nblk, "sparse%d" % i, calls))
    # ---- validate all traces with TLC
    def val(t):
        trace, hi, tag, n = t
        return t, validate_trace(rd, trace, hi, tag)
    validated = 0
    events = 0
    distinct = set()
    for t, r in v.parallel_map(val, traces, jobs=6):
        trace, hi, tag, n = t
        if r.violation:
            idx, ev = describe_rejection(r, trace)
            keep = v.save_replay("c06", os.path.basename(trace), open(trace).read())
            violations.append({
                "what": "%s at event %s of %s: %s" % (r.violation, idx, tag, ev),
                "replay": keep, "key": "%s %s" % (r.violation, ev)})
        else:
            v.tlc_ok(r, "TraceFreeSpace(%s)" % tag)
        validated += 1
        events += r.distinct
        states += r.distinct
        transitions += r.generated
        lines = open(trace).read().splitlines()
        distinct.add(hash(tuple(lines)))
        if tag.startswith("rand") and len(samples) < 4:
            samples.append({"kind": "random-trace", "hi": hi, "events": lines[1:6]})
    cov = {
        "states": states, "transitions": transitions,
        "traces_validated_against_impl": validated,
        "evaluations": events, "distinct_nontrivial": len(distinct),
        "rule": "one trace = one recorded call sequence on the real FreeSpaceManager; distinct by "
                "content hash; non-trivial = contains accepted allocations and releases",
        "samples": samples,
        "exhaustive": True,
        "explanation": "MC exhaustive for data areas of %s blocks (requests 0..3, every release "
                       "range incl. invalid); covering walk takes every (free set, call) pair of "
                       "the best-fit graph on the real allocator; random traces up to 240 blocks"
                       % sizes,
    }
    return {"level": "model_checking", "coverage": cov, "violations": violations,
            "assumptions": ["placement policy is unconstrained (any fitting run is accepted)",
                            "statistics compared: free total, largest run, run count"]}


def replay(path):
    rd = v.run_dir("c06_replay")
    lines = open(path).read().splitlines()
    hi = 22
    # device size is recoverable from the first reset event (total of a fresh device)
    first = json.loads(lines[0])
    hi = 16 + first["total"]
    r = validate_trace(rd, path, hi, "replay")
    print(r.out[-3000:])
    if r.violation:
        idx, ev = describe_rejection(r, path)
        print("rejected at event %s: %s" % (idx, ev))
        print("VIOLATION property=C06 replay=%s" % path)
        return 1
    return 0

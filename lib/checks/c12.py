"""C12 — automatic versions strictly increase per key across writes and restarts."""
import json
import os
import random

import vcommon as v
import seqchecks as q
import seqengine as s
from checks.c01 import q_replay

PROP = "C12"
INV = ["AutoTsOK"]
MCINV = ["AutoIncreases", "ClockBoundsFloor"]


def classify(trace, idx, ev, flags, key):
    """Name the clock-saturation signature precisely so that only it matches the recorded finding."""
    try:
        e = json.loads(ev)
    except Exception:
        return key
    if e.get("res", {}).get("tag") != "OlderTimestamp" or not (e.get("auto") or e.get("op") in ("iia", "update_ttl")):
        return key
    near = False
    k = e.get("k")
    for n, line in enumerate(open(trace), 1):
        if n >= idx:
            break
        try:
            p = json.loads(line)
        except Exception:
            continue
        if p.get("e") == "call" and not p.get("auto") and p.get("k") != k \
                and p.get("ts", [0, 0, 0])[0] == 18 and p["ts"][1] >= 446744072 \
                and not (p["ts"] == [18, 446744073, 709551615]) \
                and p["res"]["tag"] in ("bool", "unit", "num"):
            near = True
    if near:
        return "clock-saturation: automatic call rejected as older on a never-pinned key after an " \
               "explicit timestamp within 1e9 of u64::MAX was accepted on another key"
    return key


def run(tier, seed):
    rd = v.run_dir("c12")
    fxv = v.build_harness()
    rng = random.Random(seed)
    mc = [q.mc_store(rd, "MCStore_k1.cfg", MCINV)]
    if tier == "thorough":
        mc.append(q.mc_store(rd, "MCStore_k1pers.cfg", MCINV))
        mc.append(q.mc_store(rd, "MCStore_k2.cfg", MCINV))
    for r in mc:
        if r.violation:
            p = v.save_replay("c12", "mc.out", r.out)
            return {"level": "model_checking", "coverage": {"evaluations": 1, "distinct_nontrivial": 2},
                    "violations": [{"what": "model: " + r.violation, "replay": p, "key": "mc"}]}
    cfgs = [c for c in q.CONFIGS if c[0] in ("mem-ttl", "mem-limit", "pers-v3-cache", "pers-v3-limit",
                                             "pers-v2-cache", "pers-v1-cache", "mem-nottl")]
    n, steps = (21, 450) if tier == "quick" else (210, 900)
    jobs = q.make_jobs(rng, cfgs, n, steps)
    # tight memory limits make writes with future explicit timestamps fail (absorption test)
    for i in range(4 if tier == "quick" else 30):
        jobs.append(("tight_%d" % i, ["--seed", str(rng.randrange(1 << 30)), "--steps", str(steps),
                                      "--mode", "mem", "--ttl", "1", "--lim", str(rng.choice([700, 1000, 1400]))]))
    # explicit timestamps anywhere in the 64-bit range (around 2^63, 3*2^62, 2^64 - 2^40): memory and persistent with
    # clean reopens; few keys, so that automatic calls on the same key follow soon
    for i in range(6 if tier == "quick" else 40):
        mode = ["mem", "pers", "pers"][i % 3]
        jobs.append(("wide_%d" % i, ["--seed", str(rng.randrange(1 << 30)), "--steps", str(steps), "--mode", mode,
                                     "--ttl", str(i % 2), "--highpct", "6", "--fmt", str([3, 3, 2][i % 3]), "--cache", str(i % 2)]))
    viol, st = q.run_engine(PROP, tier, seed, INV, jobs, rd, fxv, classify=classify)
    # clock saturation next to u64::MAX (dedicated scenario, recorded finding)
    sat_traces = []
    for below in (1, 2):
        t = os.path.join(rd, "clocksat_%d.ndjson" % below)
        rc, so, se = v.run_cmd([fxv, "clocksat", "--out", t, "--below", str(below)], timeout=60)
        if rc != 0:
            raise v.ToolError("fxv clocksat failed: " + se[-400:])
        sat_traces.append(t)
    for t in sat_traces:
        for g in s.validate(rd, [t], INV, "sat_" + os.path.basename(t)[:-7]):
            r = g["r"]
            if r.violation and r.violation.startswith("invariant"):
                tt, i, ev, fl = s.explain(g)
                keep = v.save_replay("c12", os.path.basename(t), open(t).read())
                viol.append({"what": "%s flags=%s at event %s of %s: %s" %
                             (r.violation, fl, i, os.path.basename(t), s.short_event(ev)),
                             "replay": keep, "key": classify(t, i, ev, fl, "%s %s" % (r.violation, fl))})
            else:
                v.tlc_ok(r, "TraceStore(clocksat)")
            st["traces"] += 1
            st["events"] += g["events"]
    # crash recovery feeding the clock: multi-session crash workloads (explicit future versions, crash between
    # the replacement write and the retirement of the old generation, restart, automatic writes)
    import crashengine as ce
    cjobs = [("cr%d" % i, ["--seed", str(rng.randrange(1 << 30)), "--steps", "30", "--blocks", "44", "--cpus", "2",
                           "--keys", "3", "--ttl", "1", "--end", "leak", "--sessions", "4", "--maximages", "0",
                           "--cc", "0", "--flushpct", "10"] + (["--futurepct", "30"] if i % 2 else []))
             for i in range(12 if tier == "quick" else 80)]
    v3, st3, _ = ce.run_and_validate(PROP, fxv, rd, cjobs, ["AutoNeverOlder"])
    viol += v3
    st["traces"] += st3["traces"]
    st["states"] += st3["states"]
    st["transitions"] += st3["transitions"]
    cov = q.coverage_dict(
        st, sum(r.distinct for r in mc), sum(r.generated for r in mc),
        "one trace = one seeded program mixing automatic and explicit (past, future, equal, +1, "
        "u64::MAX) timestamps over all operation kinds, across flush and clean restart; memory-limited "
        "runs make calls with future explicit timestamps fail; plus the clock-saturation scenario",
        q.sample_events(st["sample_trace"]))
    return {"level": "model_checking", "coverage": cov, "violations": viol,
            "assumptions": ["upper bound of an automatic version: max(now, largest value any clock shard "
                            "can hold + 1); lower bound: every version accepted or recovered for the key",
                            "crash recovery feeding the clock is exercised by the crash engine (C03)"]}


def replay(path):
    return q_replay(path, INV)

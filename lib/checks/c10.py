"""C10 — the device file follows the documented v1/v2/v3 layout and stays compatible."""
import random

import vcommon as v
import crashengine as ce

PROP = "C10"
INV = ["AtAckJournalClear", "AtAckLayout", "MetaMatches", "NoUnknownRegion", "RecConforms", "JournalImagesValid"]


def run(tier, seed):
    rd = v.run_dir("c10")
    fxv = v.build_harness()
    rng = random.Random(seed)
    jobs = []
    n = 9 if tier == "quick" else 60
    for i in range(n):
        jobs.append(("l%d" % i, ["--seed", str(rng.randrange(1 << 30)), "--steps", str(rng.choice([40, 60])),
                                 "--fmt", str([3, 2, 1][i % 3]), "--blocks", str(rng.choice([40, 48])),
                                 "--cpus", str(rng.choice([2, 4])), "--keys", str(rng.choice([4, 5])),
                                 "--ttl", "1", "--end", "drop", "--longkeys", "1",
                                 "--maximages", "200" if tier == "quick" else "1000"]
                    + (["--sessions", "3", "--closedpct", "100" if i % 2 == 0 else "50"]
                       if i % 3 == 2 or i % 4 == 0 else [])))
    # devices that run full in the MIDDLE of a batch (some records of the batch got their extent, a later one did
    # not): the counters the next acknowledged flush persists still equal the live totals (MetaMatches)
    jobs += ce.full_device_jobs(rng, 4 if tier == "quick" else 24, maximages="100")
    jobs += ce.block_boundary_batch_jobs(rng, 3 if tier == "quick" else 8)
    viol, st, traces = ce.run_and_validate(PROP, fxv, rd, jobs, INV)
    # failing metadata writes: flush may only report success when the persisted counters are right
    base = ["--seed", str(rng.randrange(1 << 30)), "--steps", "25", "--fmt", "3", "--blocks", "40",
            "--cpus", "2", "--keys", "3", "--ttl", "1", "--end", "leak", "--forcesync", "1",
            "--flushpct", "25", "--maximages", "0"]
    b = ce.run_workloads(fxv, rd, [("mbase", base)])
    if b[0]["rc"] != 0:
        raise v.ToolError("baseline run failed: " + b[0]["stderr"][-300:])
    io = -1
    meta_idx = []
    for line in open(b[0]["trace"]):
        if '"e":"w"' in line or '"e":"fsync"' in line:
            io += 1
            if '"kind":"m"' in line:
                meta_idx += [io, io + 1]
    fjobs = []
    for i in meta_idx[2:(14 if tier == "quick" else 60)]:
        for mode in (1, 2):
            fjobs.append(("mf%d_%d" % (i, mode), base + ["--faultat", str(i), "--faultmode", str(mode)]))
    v2, st2, _ = ce.run_and_validate(PROP, fxv, rd, fjobs, ["AtAckJournalClear", "AtAckLayout", "MetaMatches"])
    viol += v2
    for k in ("traces", "states", "transitions", "flushes", "images_real"):
        st[k] += st2[k]
    cov = {
        "programs": st["traces"], "disagreements_checked": st["flushes"] + st["images_real"],
        "samples": ce.sample_of(traces[0]) if traces else [],
        "states": st["states"], "transitions": st["transitions"],
        "traces_validated_against_impl": st["traces"],
        "evaluations": st["flushes"] + st["images_real"], "distinct_nontrivial": st["traces"],
        "rule": "one program = one seeded workload on a v1, v2 or v3 device; every device write is decoded by "
                "the independent reader of the documented layout (harness/src/layout.rs: own CRC32C, token "
                "fold, marker, journal and metadata codecs) and projected onto Disk.tla contents; at every "
                "acknowledged flush TLC checks: journal clear, Recover(durable image) = exactly the live keys "
                "with the generations (value, timestamp, expiry) the application stored, metadata counters = "
                "live totals; and every crash image's real recovery equals the abstract reader's prediction",
    }
    # story: a fresh key is deleted while the write-behind worker has its first write in hand
    import seqengine as _sq
    _sv, _sn, _sst = _sq.run_stories(PROP, fxv, rd, "inflightstory", 2 if tier == "quick" else 10,
                                     "the file holds a record for a key deleted before the acknowledged flush")
    viol = viol + _sv
    return {"level": "translation_validation", "coverage": cov, "violations": viol,
            "assumptions": ["byte-level fidelity rests on the independent decoder (trusted base); a symmetric "
                            "change of the crate's encoder and decoder makes it classify writes as invalid"]}


def replay(path):
    import seqengine as _sq
    if _sq.is_story(path):
        return _sq.replay_story(PROP, path)
    return ce.replay(PROP, path, INV)

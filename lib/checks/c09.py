"""C09 — I/O failures are reported, contained and never destroy durable data.

Fault placements are enumerated: for each workload a fault-free run counts the device calls n
(every write and every fsync, synchronous path forced so that each is individually addressable),
then the workload is re-run once per (call index, fail-before / fail-after) and for persistent
failure from a sample of indices.  Every faulted run is recorded at device level and validated by
TLC (TraceDisk.tla): flush Ok only if everything before it is durable in every crash image
(CrashWindow with the acknowledgement), the device as it stands always recovers to a state no older
than the last acknowledged one (CrashOpens/CrashWindow/RealOpens/RealWindow at every event), reads
keep serving the latest accepted values (ReadsServe), and a flush on the healed device succeeds or
reports that the file must be reopened (HealWorks)."""
import json
import os
import random

import vcommon as v
import crashengine as ce

PROP = "C09"
INV = ["CrashOpens", "CrashWindow", "RealOpens", "RealWindow", "ReadsServe", "HealWorks", "OutageHeals"]


def run(tier, seed):
    rd = v.run_dir("c09")
    fxv = v.build_harness()
    rng = random.Random(seed)
    nwork = 1 if tier == "quick" else 6
    all_viol = []
    tot = {"traces": 0, "events": 0, "images_real": 0, "states": 0, "transitions": 0, "flushes": 0}
    placements = 0
    samples = []
    lockfiles = []
    for w in range(nwork):
        base = ["--seed", str(rng.randrange(1 << 30)), "--steps", str(22 if tier == "quick" else 35),
                "--fmt", "3", "--blocks", "40", "--cpus", "2", "--keys", "3", "--ttl", "1",
                "--end", "leak", "--forcesync", "1", "--flushpct", "22", "--maximages", "120"]
        res = ce.run_workloads(fxv, rd, [("base%d" % w, base)])
        if res[0]["rc"] != 0:
            raise v.ToolError("baseline fault-free run failed: " + res[0]["stderr"][-400:])
        n = res[0]["info"].get("io_calls", 0)
        if n < 10:
            raise v.ToolError("baseline run made only %d device calls" % n)
        jobs = []
        for i in range(n):
            for mode in (1, 2):
                tagj = "w%d_f%d_%d" % (w, i, mode)
                jobs.append((tagj, base + ["--faultat", str(i), "--faultmode", str(mode), "--lockout", os.path.join(rd, tagj + ".locks")]))
                lockfiles.append(os.path.join(rd, tagj + ".locks"))
        for i in sorted(rng.sample(range(n), min(n, 8 if tier == "quick" else 20))):
            jobs.append(("w%d_from%d" % (w, i), base + ["--faultat", str(i), "--faultmode", str(rng.choice([1, 2])),
                                                     "--faultfrom", "1"]))
        placements += len(jobs)
        viol, st, traces = ce.run_and_validate(PROP, fxv, rd, jobs, INV, par_tlc=10)
        all_viol += viol
        for k in tot:
            tot[k] += st.get(k, 0)
        if traces and not samples:
            for line in open(traces[len(traces) // 2]):
                if '"e":"fault"' in line or '"e":"heal"' in line or '"e":"flush_end"' in line:
                    samples.append(json.loads(line) if len(line) < 1500 else line[:200])
                if len(samples) >= 6:
                    break
    # determinate outage with a backlog of more than one journal batch (1024 entries) in a shard: every
    # record write of every batch fails (clean-up succeeds), the device heals, the next flush must make
    # the WHOLE backlog durable before it returns Ok
    ojobs = []
    for i in range(3 if tier == "quick" else 12):
        ojobs.append(("outage%d" % i, ["--seed", str(rng.randrange(1 << 30)), "--steps", str(rng.choice([6, 10])),
                                        "--fillers", str([1500, 1100, 2100, 1300][i % 4]), "--faultat", "0", "--faultmode", "3",
                                        "--forcesync", "1", "--keys", "3", "--cpus", "2", "--blocks", "2400", "--fmt", "3",
                                        "--ttl", "1", "--end", "drop", "--maximages", "60", "--cc", "0"]))
    # the same kind of outage starting in the middle of a workload, crash images at every device event:
    # whatever the failing batches leave behind, the last acknowledged state stays recoverable
    for i in range(4 if tier == "quick" else 16):
        ojobs.append(("midoutage%d" % i, ["--seed", str(rng.randrange(1 << 30)), "--steps", "40", "--faultat", str(rng.choice([25, 40, 60])),
                                           "--faultmode", "3", "--forcesync", "1", "--keys", "4", "--cpus", str([4, 8, 4, 16][i % 4]),
                                           "--blocks", "44", "--fmt", str([3, 2][i % 2]), "--ttl", "1", "--end", "drop", "--flushpct", "20",
                                           "--maximages", "400", "--cc", "1"]))
    # the outage begins right after the first acknowledged flush (durable generations exist), every later
    # overwrite goes through the Bytes variants: nothing the failing batches and the working retirements do
    # may cost a durable generation
    for i in range(6 if tier == "quick" else 20):
        ojobs.append(("durout%d" % i, ["--seed", str(rng.randrange(1 << 30)), "--steps", "40", "--faultat", "0", "--outageafterflush", "1",
                                        "--faultmode", "3", "--forcesync", "1", "--keys", "3", "--cpus", str([4, 8, 4, 16][i % 4]),
                                        "--blocks", "44", "--fmt", str([3, 2][i % 2]), "--ttl", "1", "--end", "drop", "--flushpct", "20",
                                        "--bytespct", str([100, 100, 40][i % 3]), "--maximages", "400", "--cc", "1"]))
    placements += len(ojobs)
    viol, st, traces = ce.run_and_validate(PROP, fxv, rd, ojobs, INV, par_tlc=6)
    all_viol += viol
    for k in tot:
        tot[k] += st.get(k, 0)
    # containment includes the locks: the nestings that the FAILURE paths take (scrub and release under the device
    # lock, quarantine, poison) together with those of the ordinary paths of the same runs (flush callers, metadata
    # step, retirement) - Locks.tla lets two threads run any two of the observed words in every interleaving: a
    # failure path that takes two locks in the opposite order of a healthy path would hang the next flush for good
    from checks import c18
    import collections
    words = collections.Counter()
    for lf in lockfiles:
        words.update(c18.words_of(lf))
    lock_states = 0
    if len(words) >= 4:
        lv, ls, lt = c18.lock_model(rd, words, threads=(2,), label="c09")
        lock_states = ls
        tot["states"] += ls
        tot["transitions"] += lt
        if lv:
            lv["what"] = "under an I/O failure: " + lv["what"]
            all_viol.append(lv)
    # fault story: the failed batch owns the head of a retired multi-block extent, another worker's
    # acknowledged record lies inside that extent; judged as a sequential history by TraceStore.tla
    import seqengine as sq
    sv, sn, sst = sq.run_stories(PROP, fxv, rd, "faultstory", 2 if tier == "quick" else 8,
                                 "after a determinate journal-write failure, a successful flush and a clean reopen "
                                 "the contents are not the accepted ones")
    all_viol += sv
    placements += sn
    tot["traces"] += sn
    tot["states"] += sst
    cov = {
        "evaluations": placements, "distinct_nontrivial": tot["traces"],
        "rule": "one case = one workload run with one fault placement: (device call index i, fail before the "
                "bytes are submitted | perform the call and then report failure), every i in 0..n-1 of the "
                "fault-free run, plus persistent failure from sampled indices; distinct by placement",
        "samples": samples,
        "states": tot["states"], "transitions": tot["transitions"],
        "traces_validated_against_impl": tot["traces"], "crash_images_reopened": tot["images_real"],
        "exhaustive": True,
    }
    # story: flush() is called while a background batch (woken by the periodic coordinator) is in the worker's hand and
    # that batch's record writes fail: an Ok from flush() means a crash right after it recovers the key
    import seqengine as _sqa
    _av, _an, _ast = _sqa.run_stories(PROP, fxv, rd, "ackstory", 2 if tier == "quick" else 8,
                                      "flush() acknowledged while the worker still had the batch in hand")
    all_viol += _av
    # handshake of the sharded write-behind under OUTAGES of record writes that last for several worker rounds (2..14
    # failed batches in a row, flush() called meanwhile by several threads): recorded executions judged by Coord.tla's own
    # formulas (TraceCoord.tla: NothingLost, RequeueKept, AckCoversAll, CloseCovers)
    import coordengine as _co
    _cv, _ccov = _co.part(PROP, tier, rng, fxv, rd)
    all_viol += _cv
    cov["coord"] = _ccov
    return {"level": "fault_enumeration", "coverage": cov, "violations": all_viol,
            "assumptions": ["fault decision hook in write_sectors_sync / flush; synchronous batch path forced",
                            "single faults and fail-from-i; pairs of faults not yet enumerated"]}


def replay(path):
    import coordengine as _co
    if _co.is_coord(path):
        return _co.replay_main(PROP, path)
    import seqengine as sq
    if sq.is_story(path):
        return sq.replay_story(PROP, path)
    return ce.replay(PROP, path, INV)

"""C16, cache part (unit level) — the read cache's accounting, generation tags, removes and
CLOCK eviction, checked on the cache itself with small watermarks.

1. MC: TLC explores spec/MCCache (Cache.tla, 3 keys / 2 buckets / 2 watermark settings)
   exhaustively and checks MemExact, HitOnlyExactGen, RemoveThenMiss, EvictToLow,
   SecondChance, TouchSetsRef, RefOnlyByTouch (+ the design lemmas EvictNoOvershoot, UniqueKey, RemovedAbsent).
2. impl -> spec: `fxv cache` drives the real ClockCache (real Arc<Record> generations, real
   watermarks of a few 64 KiB units) with one directed program and seeded random call
   sequences and records, after every call, the result and what the cache reports
   (memory_usage, watermarks, full entry list).  Every recording is validated by TLC against
   TraceCache.tla: events are applied as facts, the verdict comes only from the property
   formulas evaluated on the real states and steps.

A violation is only ever a property formula failing; TLC errors, timeouts, harness failures and
vacuous runs raise vcommon.ToolError.
"""
import json
import os
import random
import re
import shutil

import vcommon as v

UNIT = 64 * 1024
MC_ACTIONS = ("Insert", "Get", "Peek", "Remove", "Evict", "Clear", "SetWM", "Retire", "DropGen")
TRACE_PROPS = ("MemExact", "HitOnlyExactGen", "RemoveThenMiss", "EvictToLow", "SecondChance",
               "TouchSetsRef", "RefOnlyByTouch")


def directed_program(high):
    """The generation-guard / remove / second-chance stories as one fixed program."""
    q = high // 4
    s, h = q // 2, q - 512          # half and (almost) whole quarter-of-high entries
    p = []
    a = p.append
    # generation tags: exact-generation hits only
    a({"op": "newgen", "k": 1, "g": 1, "ts": 5})
    a({"op": "newgen", "k": 1, "g": 2, "ts": 7})
    a({"op": "newgen", "k": 1, "g": 3, "ts": 3})
    a({"op": "insert", "k": 1, "g": 1, "vlen": s})
    a({"op": "get", "k": 1, "g": 1})
    a({"op": "get", "k": 1, "g": 2})
    a({"op": "get", "k": 1, "g": 0})
    a({"op": "remove", "k": 1, "g": 2})      # other generation: nothing removed
    a({"op": "get", "k": 1, "g": 1})
    a({"op": "insert", "k": 1, "g": 3, "vlen": s})   # older generation: refused
    a({"op": "get", "k": 1, "g": 3})
    a({"op": "insert", "k": 1, "g": 2, "vlen": h})   # newer generation: replaces, grows
    a({"op": "get", "k": 1, "g": 1})
    a({"op": "get", "k": 1, "g": 2})
    a({"op": "retire", "g": 2})
    a({"op": "insert", "k": 1, "g": 3, "vlen": s})   # cached generation retired: replaced
    a({"op": "get", "k": 1, "g": 2})
    a({"op": "get", "k": 1, "g": 3})
    a({"op": "remove", "k": 1, "g": 3})
    a({"op": "get", "k": 1, "g": 3})
    a({"op": "get", "k": 1, "g": 0})
    a({"op": "insert", "k": 1, "g": 2, "vlen": s})   # retired generation into an empty slot
    a({"op": "get", "k": 1, "g": 2})
    a({"op": "dropgen", "g": 2})
    a({"op": "get", "k": 1, "g": 0})
    a({"op": "insert", "k": 1, "g": 0, "vlen": s})   # untagged over a dead tag
    a({"op": "get", "k": 1, "g": 1})
    a({"op": "remove", "k": 1, "g": 0})
    a({"op": "get", "k": 1, "g": 0})
    a({"op": "insert", "k": 1, "g": 0, "vlen": q + 4096})   # refused by the high/4 rule
    a({"op": "get", "k": 1, "g": 0})
    # fill over the high watermark: insert-triggered sweep, then second chance
    for k in (1, 2, 3, 4, 5):
        a({"op": "insert", "k": k, "g": 0, "vlen": h})
    a({"op": "evict"})                                  # everything referenced: bits cleared
    for k in (1, 2, 3, 4, 5, 6):
        a({"op": "get", "k": k, "g": 0})
    a({"op": "insert", "k": 6, "g": 0, "vlen": s})
    a({"op": "insert", "k": 4, "g": 0, "vlen": s})
    a({"op": "get", "k": 2, "g": 0})
    a({"op": "evict"})
    a({"op": "evict"})
    for k in (1, 2, 3, 4, 5, 6):
        a({"op": "get", "k": k, "g": 0})
    # lowered watermarks: sweep on the next insert
    a({"op": "setwm", "high": high // 2, "low": high // 8})
    a({"op": "insert", "k": 5, "g": 0, "vlen": s // 2})
    a({"op": "evict"})
    a({"op": "setwm", "high": high, "low": high // 2})
    for k in (1, 2, 3, 4, 5, 6):
        a({"op": "insert", "k": k, "g": 0, "vlen": s})
    a({"op": "clear"})
    for k in (1, 2, 3):
        a({"op": "get", "k": k, "g": 0})
    return p


def second_chance_instances(path):
    """Sweeps in which evicting only unreferenced entries reaches the low watermark and all of them
    are needed for it (the case the second-chance clause speaks about, at its boundary)."""
    n = 0
    prev = None
    for ln in open(path):
        e = json.loads(ln)
        if prev is not None and e["op"] == "evict" and prev.get("mem", 0) > prev.get("low", 0):
            un = [x for x in prev["ents"] if not x["ref"]]
            rest = prev["mem"] - sum(x["sz"] for x in un)
            if un and rest <= prev["low"] and any(rest + x["sz"] > prev["low"] for x in un):
                n += 1
        prev = e
    return n


def _trace_stats(path):
    lines = open(path).read().splitlines()
    hits = tagged_hits = sweeps = 0
    prev = None
    for ln in lines:
        e = json.loads(ln)
        if e["op"] == "get" and e["res"] == "hit":
            hits += 1
            if e["g"] != 0:
                tagged_hits += 1
        if prev is not None and e["op"] in ("evict", "insert"):
            before = {(x["k"], x["g"], x["sz"]) for x in prev["ents"] if x["k"] != e["k"]}
            after = {(x["k"], x["g"], x["sz"]) for x in e["ents"]}
            if before - after:
                sweeps += 1
        prev = e
    return lines, hits, tagged_hits, sweeps


def _brief(line):
    try:
        e = json.loads(line)
    except Exception:
        return line[:200]
    e["ents"] = ["k%s/g%s/%s%s" % (x["k"], x["g"], x["sz"], "*" if x["ref"] else "")
                 for x in e.get("ents", [])]
    e.pop("rawhand", None)
    return json.dumps(e, sort_keys=True)


def _rejected_event(r, lines):
    m = None
    for m in re.finditer(r"/\\ l = (\d+)", r.out):
        pass
    if not m:
        return None, None
    idx = int(m.group(1)) - 1            # state l = n is the state after event n-1
    ev = _brief(lines[idx - 1]) if 1 <= idx <= len(lines) else None
    return idx, ev


def run_cache_unit(tier, seed, rd, fxv):
    os.makedirs(rd, exist_ok=True)
    violations = []
    samples = []
    states = transitions = 0

    # ---- 1. exhaustive model checking of the cache contract
    r = v.run_tlc("MCCache", "MCCache.cfg", os.path.join(rd, "mc"), workers=8, timeout=900)
    v.tlc_ok(r, "MCCache")
    if r.violation:
        p = v.save_replay("c16", "mc_cache.out", r.out)
        violations.append({"what": "model: %s (specification-level)" % r.violation,
                           "replay": p, "key": "mc-cache " + r.violation})
    else:
        for act in MC_ACTIONS:
            if r.coverage and r.coverage.get(act, (0, 0))[1] == 0:
                raise v.ToolError("vacuity: action %s never taken in MCCache" % act)
    states += r.distinct
    transitions += r.generated
    v.log("[C16/cache] MC: %d distinct states, %d transitions, %.1fs" %
          (r.distinct, r.generated, r.wall))
    samples.append({"kind": "mc", "module": "MCCache", "distinct": r.distinct,
                    "transitions": r.generated})

    # ---- 2. recordings of the real cache
    rng = random.Random(seed)
    ntr, calls = (6, 400) if tier == "quick" else (40, 1500)
    wms = [(4 * UNIT, 2 * UNIT), (4 * UNIT, UNIT), (6 * UNIT, 3 * UNIT), (8 * UNIT, 2 * UNIT)]
    jobs = []          # (tag, trace path, argv)
    prog = os.path.join(rd, "directed.prog")
    with open(prog, "w") as fh:
        for line in directed_program(4 * UNIT):
            fh.write(json.dumps(line) + "\n")
    jobs.append(("directed", os.path.join(rd, "directed.ndjson"),
                 ["--prog", prog, "--nkeys", "6", "--nb", "3",
                  "--high", str(4 * UNIT), "--low", str(2 * UNIT)]))
    for i in range(ntr):
        high, low = wms[i % len(wms)] if i < len(wms) else rng.choice(wms)
        nkeys, nb = rng.choice([(4, 2), (6, 3), (8, 3), (8, 2), (10, 4)])
        jobs.append(("rand%d" % i, os.path.join(rd, "rand_%d.ndjson" % i),
                     ["--seed", str(rng.randrange(1 << 30)), "--calls", str(calls),
                      "--high", str(high), "--low", str(low),
                      "--nkeys", str(nkeys), "--nb", str(nb)]))
    panicked = set()
    for tag, trace, argv in jobs:
        rc, so, se = v.run_cmd([fxv, "cache", "--out", trace] + argv, timeout=300)
        if rc != 0:
            if "panicked at" in (se or "") and v.panic_in_code_under_test(se):
                # a panic inside the cache (e.g. the usage counter driven below zero: the harness is built with
                # overflow checks, as the crate's own test profile is) is a result, not a tool error
                keep = v.save_replay("c16", "cache_%s_panic.txt" % tag,
                                     "fxv cache --out <trace> %s\n%s" % (" ".join(argv), v.clip_stderr(se, 3000)))
                m = re.search(r"panicked at [^\n]*\n[^\n]*", se)
                violations.append({"what": "the cache panics under the call sequence %s (%s): %s"
                                           % (tag, " ".join(argv), (m.group(0) if m else se[-300:]).replace("\n", " ")),
                                   "replay": keep, "key": "cache panic"})
                panicked.add(tag)
                continue
            raise v.ToolError("fxv cache (%s) failed rc=%s: %s" % (tag, rc, (se or so)[-500:]))
    jobs = [j for j in jobs if j[0] not in panicked]

    # ---- 3. validate every recording with TLC
    def val(job):
        tag, trace, argv = job
        return job, v.run_tlc("TraceCache", "TraceCache.cfg", os.path.join(rd, "tlc_" + tag),
                              workers=1, timeout=900, env_extra={"TRACE": trace},
                              depth_first=True, coverage=False, xmx="2g")

    events = hits = tagged_hits = sweeps = 0
    sc_instances = sum(second_chance_instances(t) for _, t, _ in jobs)
    for job, r in v.parallel_map(val, jobs, jobs=6):
        tag, trace, argv = job
        lines, h, th, sw = _trace_stats(trace)
        prop = None
        if r.violation:
            m = re.search(r"(?:invariant|action property) (\w+)", r.violation)
            prop = m.group(1) if m else None
        if prop in TRACE_PROPS:
            idx, ev = _rejected_event(r, lines)
            keep = v.save_replay("c16", "cache_" + os.path.basename(trace), open(trace).read())
            violations.append({
                "what": "%s fails at event %s of %s (%s): %s" %
                        (prop, idx, tag, " ".join(argv), ev),
                "replay": keep,
                "key": "cache %s %s" % (prop, json.loads(lines[idx - 1])["op"] if idx else "?")})
        else:
            v.tlc_ok(r, "TraceCache(%s)" % tag)
            if r.violation:          # e.g. a bare postcondition failure: not a property verdict
                raise v.ToolError("TraceCache(%s): trace not consumed (%s) without a property "
                                  "formula failing" % (tag, r.violation))
            if r.distinct != len(lines) + 1:
                raise v.ToolError("TraceCache(%s): %d states for %d events" %
                                  (tag, r.distinct, len(lines)))
        events += len(lines)
        hits += h
        tagged_hits += th
        sweeps += sw
        states += r.distinct
        transitions += r.generated
        if len(samples) < 5:
            samples.append({"kind": "trace", "tag": tag, "args": " ".join(argv),
                            "events": len(lines), "hits": h, "sweeps_that_evicted": sw,
                            "first_events": [_brief(x) for x in lines[1:4]]})
    if not violations and sc_instances == 0:
        raise v.ToolError("vacuity: no sweep in which unreferenced entries (all of them needed) suffice")
    if not violations and (hits == 0 or tagged_hits == 0 or sweeps == 0):
        raise v.ToolError("vacuity: recordings contain %d hits (%d generation-qualified), "
                          "%d evicting sweeps" % (hits, tagged_hits, sweeps))
    v.log("[C16/cache] %d recordings, %d events, %d hits (%d generation-qualified), "
          "%d evicting sweeps, %d violations" %
          (len(jobs), events, hits, tagged_hits, sweeps, len(violations)))
    return {"violations": violations, "states": states, "transitions": transitions,
            "traces": len(jobs), "events": events, "samples": samples,
            "hits": hits, "tagged_hits": tagged_hits, "evicting_sweeps": sweeps}


def replay_cache(path):
    """Re-validate a saved recording; returns 1 when a property formula fails."""
    rd = v.run_dir("c16_cache_replay")
    r = v.run_tlc("TraceCache", "TraceCache.cfg", rd, workers=1, timeout=900,
                  env_extra={"TRACE": path}, depth_first=True, coverage=False, xmx="2g")
    print(r.out[-3000:])
    if r.violation:
        idx, ev = _rejected_event(r, open(path).read().splitlines())
        print("rejected at event %s: %s" % (idx, ev))
        print("VIOLATION property=C16 replay=%s" % path)
        return 1
    v.tlc_ok(r, "TraceCache(replay)")
    return 0


# ------------------------------------------------------------------------------------------------------
# concurrent part: cache calls of several threads interleaved at the cache's lock acquisitions
# ------------------------------------------------------------------------------------------------------
CPOINTS = ["cache_rd", "cache_wr", "cache_evlock", "between_ops"]


def _cprog(init, threads, high=1 << 20, low=1 << 19, nkeys=6):
    gens = [[g, k, 10 + g] for k in range(1, 5) for g in (k * 10 + 1, k * 10 + 2)]
    return {"cfg": {"cachemode": True, "high": high, "low": low, "nkeys": nkeys, "pers": False, "ttl": True, "lim": -1},
            "keys": ["k1"], "gens": gens, "init": init, "threads": threads, "points": CPOINTS}


def conc_family(rng, tier):
    """Two- and three-thread programs on keys that share ONE bucket: position-dependent removals against
    removals / insertions / sweeps of the neighbours, generation-qualified calls, every thread ends by looking up
    what it removed."""
    I = lambda k, g=0, n=100: {"op": "c_ins", "k": k, "g": g, "vlen": n}
    G = lambda k, g=0: {"op": "c_get", "k": k, "g": g}
    R = lambda k, g=0: {"op": "c_rem", "k": k, "g": g}
    E = {"op": "c_evict"}
    full = [I(1), I(2), I(3), I(4)]
    tagged = [I(1, 11), I(2, 21), I(3, 31)]
    progs = []
    # removals of neighbours in one bucket (the Vec shifts under a position found earlier)
    for a, b in ((3, 1), (4, 2), (2, 1), (4, 1)):
        progs.append(("rmrm_%d%d" % (a, b), _cprog(full, [[R(a), G(a)], [R(b), G(b)]])))
        progs.append(("rmins_%d%d" % (a, b), _cprog(full, [[R(a), G(a)], [R(b), I(b, 0, 60), G(b)]])))
    progs.append(("rmrmrm", _cprog(full, [[R(4), G(4)], [R(2), G(2)], [R(1), G(1)]])))
    # generation-qualified removal / lookup against a re-insert of the same key under another generation
    progs.append(("gen_swap", _cprog(tagged, [[R(1, 11), G(1, 11), G(1)], [I(1, 12, 80), G(1, 12)]])))
    progs.append(("gen_rm_other", _cprog(tagged, [[R(2, 21), G(2, 21)], [R(1, 11), I(1, 12, 70), G(1, 11)]])))
    # sweeps against removals, insertions and lookups: small watermarks (an entry must stay below high/4 to be cached
    # at all): five entries of ~190 bytes are 940 bytes, a sixth exceeds high = 1000 and sweeps down to low = 450
    small = dict(high=1000, low=450, nkeys=6)
    five = [I(1), I(2), I(3), I(4), I(5)]
    progs.append(("evict_rm", _cprog(five, [[E, G(1)], [R(3), G(3)]], **small)))
    progs.append(("ins_sweep_rm", _cprog(five, [[I(6), G(6)], [R(2), G(2)]], **small)))
    progs.append(("ins_sweep_ins", _cprog(five, [[I(6), G(6)], [I(2, 0, 60), G(2)]], **small)))
    progs.append(("evict_evict", _cprog(five, [[E], [E, G(2)]], **small)))
    progs.append(("touch_evict", _cprog(five, [[G(1), G(2)], [E, G(1)]], **small)))
    # clear() against calls that land in a bucket the sweep of clear() has not reached yet / has already passed
    C = {"op": "c_clear"}
    progs.append(("clear_ins", _cprog(full, [[C, G(1)], [I(5), G(5)]])))
    progs.append(("clear_rm", _cprog(full, [[C, G(2)], [R(2), G(2)]])))
    progs.append(("clear_insrm", _cprog(tagged, [[C], [I(1, 12, 80), R(2, 21), G(1, 12)]])))
    progs.append(("clear_evict", _cprog(five, [[C, G(1)], [I(6), G(6)]], **small)))
    if tier != "quick":
        for a in (1, 2, 3):
            progs.append(("rm_ins_ev_%d" % a, _cprog(five, [[R(a), G(a)], [I(6), G(6)], [E]], **small)))
    return progs


def run_cache_conc(tier, seed, rd, fxv):
    """DFS over the interleavings (at the lock acquisitions of the watched bucket) of the family; the recorded
    critical-section order is validated by TraceCache.tla.  Returns dict(violations, traces, events, schedules)."""
    rng = random.Random(seed)
    fam = conc_family(rng, tier)
    out = {"violations": [], "traces": 0, "events": 0, "schedules": 0, "states": 0, "transitions": 0, "programs": len(fam)}

    def one(item):
        name, p = item
        pf = os.path.join(rd, "cc_%s.prog" % name)
        open(pf, "w").write(json.dumps(p) + "\n")
        trace = os.path.join(rd, "cc_%s.ndjson" % name)
        rc, so, se = v.run_cmd([fxv, "conc", "--mode", "dfs", "--prog", pf, "--out", trace,
                                "--maxsched", "150" if tier == "quick" else "1500", "--preempt", "2" if tier == "quick" else "3"],
                               timeout=600)
        info = {}
        for line in so.splitlines():
            try:
                info.update(json.loads(line))
            except Exception:
                pass
        if "panicked at" in (se or "") and v.panic_in_code_under_test(se):
            # a panic inside the cache (e.g. a stale position past the end of the bucket) is a result
            return name, trace, info, ("panic", v.clip_stderr(se, 1500), True)
        if rc != 0:
            return name, trace, info, ("fail", v.clip_stderr(se, 1500), False)
        r = v.run_tlc("TraceCache", "TraceCache.cfg", os.path.join(rd, "tlc_cc_" + name), workers=1, timeout=900,
                      env_extra={"TRACE": trace}, depth_first=True, coverage=False, xmx="2g")
        return name, trace, info, r
    for name, trace, info, r in v.parallel_map(one, fam, jobs=8):
        out["schedules"] += info.get("schedules", 0)
        if isinstance(r, tuple):
            kind, se, loc = r
            if loc:
                keep = v.save_replay("c16", "cacheconc_%s.stderr" % name, se)
                out["violations"].append({"what": "cache calls racing in one bucket: panic in the code under test (%s): %s"
                                                  % (name, se[-300:]), "replay": keep, "key": "cacheconc panic"})
                continue
            raise v.ToolError("fxv conc (cache program %s) failed: %s" % (name, se[-400:]))
        lines = open(trace).read().splitlines()
        prop = None
        if r.violation:
            m = re.search(r"(?:invariant|action property) (\w+)", r.violation)
            prop = m.group(1) if m else None
        if prop in TRACE_PROPS:
            idx, ev = _rejected_event(r, lines)
            keep = v.save_replay("c16", "cacheconc_" + os.path.basename(trace), open(trace).read())
            out["violations"].append({"what": "%s fails at event %s of the interleaved cache program %s: %s" % (prop, idx, name, ev),
                                      "replay": keep, "key": "cacheconc %s" % prop})
        else:
            v.tlc_ok(r, "TraceCache(conc %s)" % name)
            if r.violation:
                raise v.ToolError("TraceCache(conc %s): trace not consumed (%s)" % (name, r.violation))
        out["traces"] += 1
        out["events"] += len(lines)
        out["states"] += r.distinct
        out["transitions"] += r.generated
    return out


# ------------------------------------------------------------------------------------------------------
# CacheConc.tla: the concurrent design of the cache, every interleaving on the model, replayed on the real cache
# ------------------------------------------------------------------------------------------------------
ENTRY_OVERHEAD = 88      # size_of::<CacheEntry>() + key bytes, nominal: the programs keep 50 bytes of margin at every watermark test


def _model_op(o):
    name = {"c_ins": "ins", "c_get": "get", "c_rem": "rem", "c_evict": "evict", "c_clear": "clear"}[o["op"]]
    return {"op": name, "k": o.get("k", 0), "g": o.get("g", 0), "sz": (o.get("vlen", 0) + ENTRY_OVERHEAD) if name == "ins" else 0}


def _tla(x):
    import scengine
    return scengine.tla(x)


def run_cache_model(tier, seed, rd, fxv, split_remove=False, emit_one_in=1, timeout=900):
    """TLC over the family on CacheConc.tla; returns (TlcResult, behaviours, model programs, source programs)."""
    fam = conc_family(random.Random(seed), tier)
    if tier == "quick":
        # half of the family per run on the model (every program within two consecutive seeds); the DFS part runs all
        fam = [x for i, x in enumerate(fam) if (i + seed) % 2 == 0 or x[0] in ("rmrm_31", "ins_sweep_rm")]
    mprogs, src = [], {}
    for name, p in fam:
        mprogs.append({"name": name, "init": [_model_op(o) for o in p["init"]], "high": p["cfg"]["high"], "low": p["cfg"]["low"],
                       "threads": [[_model_op(o) for o in ops] for ops in p["threads"]]})
        src[name] = p
    sd = os.path.join(rd, "cachemodel" + ("_mut" if split_remove else ""))
    os.makedirs(sd, exist_ok=True)
    shutil.copy(os.path.join(v.SPEC, "CacheConc.tla"), sd)
    with open(os.path.join(sd, "CCRun.tla"), "w") as fh:
        fh.write("---- MODULE CCRun ----\n\\* generated by lib/checks/c16_cache.py\nEXTENDS CacheConc\nProgsLit == %s\n"
                 "Gts == [g \\in 0 .. 60 |-> g]\n====\n" % _tla(mprogs))
    with open(os.path.join(sd, "CCRun.cfg"), "w") as fh:
        fh.write("CONSTANTS\n  Programs <- ProgsLit\n  GenTs <- Gts\n  SplitRemove = %s\n  ClearSnapshot = FALSE\n  EmitOneIn = %d\nSPECIFICATION Spec\n"
                 "CHECK_DEADLOCK FALSE\nINVARIANTS MemExact UniqueKey NoFlags EvLockFree EmitBehaviour\n"
                 % ("TRUE" if split_remove else "FALSE", emit_one_in))
    # thorough: the three-thread programs make tens of millions of histories (the history is part of the state)
    r = v.run_tlc("CCRun", "CCRun.cfg", rd, workers=8 if tier == "quick" else 12, timeout=timeout, coverage=False,
                  xmx="8g" if tier == "quick" else "28g", spec_dir=sd)
    # behaviours stay where TLC printed them: only the program name and the position of each line are kept here (the
    # thorough tier prints millions of behaviours; decoding all of them took tens of gigabytes), `decode_behaviour`
    # turns the sampled ones into records
    beh = []
    for m in re.finditer(r'^"\{.*$', r.out, re.M):
        nm = re.search(r'\\"p\\":\\"(\w+)\\"', m.group(0))
        if nm:
            beh.append({"p": nm.group(1), "_at": (m.start(), m.end())})
    return r, beh, mprogs, src


def decode_behaviour(r, b):
    return json.loads(json.loads(r.out[b["_at"][0]:b["_at"][1]]))


def cache_model_part(tier, seed, rd, fxv):
    """Design invariants over every interleaving; the SplitRemove variant must fail; sampled behaviours replayed on
    the real cache (arrivals at the lock points, hit / miss per lookup, the final bucket); the real executions are
    judged by TraceCache.tla.  Returns (violations, info)."""
    import scengine
    viol = []
    r, beh, mprogs, src = run_cache_model(tier, seed, rd, fxv, emit_one_in=8 if tier == "quick" else 16,
                                           timeout=900 if tier == "quick" else 2400)
    if r.timeout or (r.error and not r.violation):
        raise v.ToolError("CacheConc model checking failed: %s %s" % (r.error, r.out[-500:]))
    info = {"programs": len(mprogs), "model_states": r.distinct, "model_behaviours_emitted": len(beh), "design_violation": r.violation}
    rm, _, _, _ = run_cache_model(tier, seed, rd, fxv, split_remove=True, emit_one_in=1000000, timeout=300)
    if not rm.violation:
        raise v.ToolError("CacheConc with SplitRemove = TRUE was accepted (the model is vacuous)")
    if not beh:
        raise v.ToolError("CacheConc produced no behaviour: " + r.out[-400:])
    sel = [decode_behaviour(r, b) for b in scengine.sample(beh, 1500 if tier == "quick" else 20000, seed)]
    r.out = r.out[-4000:]
    items = [(src[b["p"]], b) for b in sel]
    res = scengine.replay(fxv, rd, "cachemodel", items, par=8, chunk=300)
    dev, examples, conform, traces, events = {}, [], 0, 0, 0
    for g in res:
        if g["rc"] != 0 and not g["got"]:
            if "panicked at" in g["stderr"] and v.panic_in_code_under_test(g["stderr"]):
                keep = v.save_replay("c16", "cachemodel_panic.txt", g["stderr"])
                viol.append({"what": "replayed CacheConc schedule: panic in the code under test: " + g["stderr"][-300:], "replay": keep, "key": "cacheconc panic"})
                continue
            raise v.ToolError("fxv conc --mode replay (cache) failed: " + g["stderr"][-400:])
        lines = open(g["trace"]).read().splitlines()
        bounds = [x["first_event"] for x in g["got"]] + [len(lines) + 1]
        for j, ((p, b), got) in enumerate(zip(g["group"], g["got"])):
            evs = [json.loads(x) for x in lines[bounds[j] - 1:bounds[j + 1] - 1]]
            d = []
            arr = [[h["t"] - 1, h["at"]] for h in b["h"] if h["e"] == "step"]
            if got.get("stalled"):
                d.append("stall")
            if [list(a) for a in got["arrivals"]] != arr:
                d.append("cf")
            want = {}
            for h in b["h"]:
                if h["e"] == "res" and h["res"] in ("hit", "miss"):
                    want.setdefault(h["t"], []).append(h["res"])
            have = {}
            for e in evs:
                if e.get("op") == "get" and e.get("t"):
                    have.setdefault(e["t"], []).append(e["res"])
            if want != have:
                d.append("res")
            fin = [[x["k"], x["g"]] for x in b["fin"]["ents"]]
            if evs and [[x["k"], x["g"]] for x in evs[-1]["ents"]] != fin:
                d.append("final")
            if d:
                dev[",".join(d)] = dev.get(",".join(d), 0) + 1
                if len(examples) < 4:
                    examples.append({"program": b["p"], "deviation": d, "schedule": arr, "arrived": got.get("arrivals")})
            else:
                conform += 1
        del g["group"]
        # the real executions, judged by the property formulas
        rt = v.run_tlc("TraceCache", "TraceCache.cfg", os.path.join(rd, "tlc_cm_%s" % os.path.basename(g["trace"])), workers=1,
                       timeout=900, env_extra={"TRACE": g["trace"]}, depth_first=True, coverage=False, xmx="2g")
        prop = None
        if rt.violation:
            m = re.search(r"(?:invariant|action property) (\w+)", rt.violation)
            prop = m.group(1) if m else None
        if prop in TRACE_PROPS:
            idx, ev = _rejected_event(rt, lines)
            keep = v.save_replay("c16", "cachemodel_" + os.path.basename(g["trace"]), open(g["trace"]).read())
            viol.append({"what": "%s fails at event %s of a replayed CacheConc schedule: %s" % (prop, idx, ev), "replay": keep,
                         "key": "cacheconc %s" % prop})
        else:
            v.tlc_ok(rt, "TraceCache(cache model replay)")
            if rt.violation:
                raise v.ToolError("TraceCache(cache model replay): trace not consumed (%s)" % rt.violation)
        traces += 1
        events += len(lines)
    info.update({"replayed": len(items), "conforming": conform, "deviations": dev, "deviation_examples": examples,
                 "traces": traces, "events": events})
    return viol, info

"""C04 — recovery is idempotent, restartable and never discards a live record.

Crash images of real workloads are reopened with the real recovery code while the device observer
records recovery's OWN writes (journal replay, retirement of stale duplicates, expired winners and
pending markers).  Each such recovery becomes a trace that starts from the crashed image: TLC
replays recovery's writes on the abstract device and checks at every step, over every crash image
of recovery itself, that the abstract reader still yields exactly the contents the first complete
recovery reports (CrashOpens/CrashWindow with the window pinned to that single state), that the
repairs touch no block of a live record (RepairsSafe), and that the real code, started again on
each materialised nested image, exposes the same contents (RealOpens/RealWindow/RealCount)."""
import glob
import os
import random

import vcommon as v
import crashengine as ce

PROP = "C04"
INV = ["CrashOpens", "CrashWindow", "CrashNoGhost", "RealOpens", "RealWindow", "RealNoGhost", "RealCount",
       "RepairsSafe", "RealPartition"]


def run(tier, seed):
    rd = v.run_dir("c04")
    fxv = v.build_harness()
    rng = random.Random(seed)
    n = 8 if tier == "quick" else 50
    jobs = []
    for i in range(n):
        jobs.append(("r%d" % i, ["--seed", str(rng.randrange(1 << 30)), "--steps", str(rng.choice([40, 55])),
                                 "--fmt", str([3, 3, 2, 1][i % 4]), "--blocks", str(rng.choice([40, 44])),
                                 "--cpus", "2", "--keys", str(rng.choice([3, 4])), "--ttl", "1",
                                 "--end", "leak", "--flushpct", "10", "--maximages", "700",
                                 "--nested", "10" if tier == "quick" else "25"]))
    # records that fill their last block exactly, packed next to each other on a small device: the extent
    # arithmetic of the repairs (stale duplicates, pending markers) at its boundary
    for i in range(4 if tier == "quick" else 20):
        jobs.append(("x%d" % i, ["--seed", str(rng.randrange(1 << 30)), "--steps", "45", "--fmt", str([3, 2, 1, 3][i % 4]),
                                 "--blocks", str(rng.choice([27, 30])), "--cpus", "2", "--keys", "3", "--ttl", "1",
                                 "--end", "leak", "--flushpct", "30", "--maximages", "600", "--edges", "85", "--exact", "1",
                                 "--nested", "10" if tier == "quick" else "25"]))
    jobs += ce.full_device_jobs(rng, 4 if tier == "quick" else 24, extra=["--nested", "10" if tier == "quick" else "25"], maximages="500")
    # MC: recovery as interruptible steps (journal replay, scan, retirement in chunks of JMax), crashes at
    # any point, nested; the variant with the pre-fix retirement order must fail (model sanity)
    mcr = ce.mc_model(rd, "MCRecovery", "MCRecovery_quick.cfg" if tier == "quick" else "MCRecovery_full.cfg")
    ce.mc_model(rd, "MCRecovery", "MCRecovery_code.cfg", expect_violation=True, timeout=600)
    res = ce.run_workloads(fxv, rd, jobs)
    viol = []
    if mcr.violation:
        viol.append({"what": "model: " + mcr.violation, "replay": v.save_replay("c04", "mc.out", mcr.out[-5000:]), "key": "mc"})
    nested = []
    for x in res:
        if x["rc"] != 0:
            if v.panic_in_code_under_test(x["stderr"]):
                p = v.save_replay("c04", x["tag"] + ".args.json", {"args": x["args"], "stderr": x["stderr"]})
                viol.append({"what": "panic: " + x["stderr"][-300:], "replay": p, "key": "panic"})
                continue
            raise v.ToolError("fxv crash failed: " + x["stderr"][-400:])
        nested += sorted(glob.glob(x["trace"][:-7] + ".nested*.ndjson"))
    if not nested:
        raise v.ToolError("no recovery in these workloads wrote anything (vacuous run)")
    st = {"states": 0, "transitions": 0, "images": 0}

    def val(t):
        return t, ce.validate(rd, t, INV)
    for t, r in v.parallel_map(val, nested, jobs=10):
        st["states"] += r.distinct
        st["transitions"] += r.generated
        st["images"] += sum(1 for line in open(t) if '"e":"rec"' in line)
        if r.violation and r.violation.startswith("invariant"):
            what, key, idx = ce.classify_violation(r, t)
            keep = v.save_replay("c04", os.path.basename(t), open(t).read())
            viol.append({"what": what, "replay": keep, "key": key})
        elif r.violation:
            raise v.ToolError("TraceDisk: " + r.out[-500:])
        else:
            v.tlc_ok(r, "TraceDisk(nested)")
    # a recovery with more than 1024 non-adjacent repairs (the journal is written in chunks): expired
    # newest generations at lower sectors than their older generations; recovery's writes are cut at
    # every fsync boundary and every durable state is recovered again by the real code
    shm = v.shm_dir("c04chunk")
    try:
        ct = os.path.join(rd, "chunked.ndjson")
        rc, so, se = v.run_cmd([fxv, "chunkrec", "--dir", shm, "--out", ct, "--keys", "1100",
                                "--cc", "3" if tier == "quick" else "2"], timeout=600)
    finally:
        import shutil
        shutil.rmtree(shm, ignore_errors=True)
    if rc != 0:
        raise v.ToolError("fxv chunkrec failed: " + se[-400:])
    r = ce.validate(rd, ct, (["RealOpens", "RealWindow", "RealCount", "RepairsSafe"] if tier == "quick" else INV), timeout=3000)
    st["states"] += r.distinct
    st["transitions"] += r.generated
    st["images"] += sum(1 for line in open(ct) if '"e":"rec"' in line)
    if r.violation and r.violation.startswith("invariant"):
        what, key, idx = ce.classify_violation(r, ct)
        # keep a compact replay: the driver arguments reproduce the whole scenario
        keep = v.save_replay("c04", "chunked.args.json", {"cmd": "fxv chunkrec --keys 1100", "info": so[-400:], "what": what[:600]})
        viol.append({"what": "recovery interrupted between journal chunks: " + what[:500], "replay": keep,
                     "key": "chunked-retirement " + r.violation})
    elif r.violation:
        raise v.ToolError("TraceDisk(chunked): " + r.out[-400:])
    else:
        v.tlc_ok(r, "TraceDisk(chunked)")
    nested.append(ct)
    # a recovery must not act on a STALE journal image: sessions that begin with a multi-sector intent right after a
    # quiescent restart (the slot the first image after an open goes to; torn variants of that image; what the other
    # slot still holds) - every crash image is recovered by the abstract reader and by the real code
    v2, st2, tr2 = ce.run_and_validate(PROP, fxv, rd, ce.restart_wide_jobs(rng, 2 if tier == "quick" else 8), ce.CRASH_INV + ce.REAL_INV)
    viol += v2
    st["states"] += st2["states"]
    st["transitions"] += st2["transitions"]
    st["images"] += st2["images_real"]
    kinds = {}
    for t in nested:
        for line in open(t):
            if '"e":"w"' in line:
                k = "journal" if '"kind":"j"' in line else ("markers" if '"t":"M"' in line else "other")
                kinds[k] = kinds.get(k, 0) + 1
    cov = {
        "states": st["states"] + mcr.distinct, "transitions": st["transitions"] + mcr.generated, "mc_states": mcr.distinct,
        "traces_validated_against_impl": len(nested),
        "evaluations": st["images"], "distinct_nontrivial": len(nested),
        "rule": "one trace = one real recovery of a crash image of a real workload whose recovery wrote to "
                "the device (distinct by the sequence of its writes); `evaluations` = nested crash images "
                "(subsets of recovery's un-synced blocks at each of its device events) that were reopened "
                "by the real recovery again",
        "samples": ce.sample_of(nested[0]),
        "recovery_writes_by_kind": kinds,
    }
    # opening WITHOUT writing: the read-only recovery (what an offline migration reads) of a crash image of a
    # legacy device must report the contents the read-write recovery of the same image reports (MigFaithful,
    # TraceMigration.tla) - journals are masked there, not replayed
    from checks import c15
    mjobs = [("ro%d" % i, ["--seed", str(rng.randrange(1 << 30)), "--synth", "0", "--workloads", "1" if tier == "quick" else "2",
                           "--crashimgs", str(10 if tier == "quick" else 24), "--steps", str(rng.choice([30, 45, 60])),
                           "--blocks", str(rng.choice([48, 56])), "--threads", "4"])
             for i in range(4 if tier == "quick" else 20)]
    ro_cases = 0
    for x in c15.run_jobs(fxv, rd, mjobs):
        if x["rc"] != 0:
            if x["rc"] == 3 or v.panic_in_code_under_test(x["stderr"]):
                pth = v.save_replay("c04", x["tag"] + ".args.json", {"args": x["args"], "stderr": x["stderr"]})
                viol.append({"what": "read-only recovery panicked or hung: " + x["stderr"][-300:], "replay": pth, "key": "ro panic"})
                continue
            raise v.ToolError("fxv migrate failed rc=%s %s" % (x["rc"], x["stderr"][-500:]))
        r = c15.validate(rd, x["trace"], ["MigFaithful"])
        ro_cases += x["info"].get("cases", 0)
        if r.violation and r.violation.startswith("invariant"):
            inv, what = c15.describe(r, x["trace"])
            keep = v.save_replay("c04", "ro_" + os.path.basename(x["trace"]), open(x["trace"]).read())
            viol.append({"what": "read-only and read-write recovery of one image disagree: " + what, "replay": keep, "key": "ro " + inv})
        elif r.violation:
            raise v.ToolError("TraceMigration(%s): %s" % (x["tag"], r.violation))
        else:
            v.tlc_ok(r, "TraceMigration(%s)" % x["tag"])
    cov["read_only_recovery_cases"] = ro_cases
    return {"level": "model_checking", "coverage": cov, "violations": viol,
            "assumptions": ["virtual clock held fixed across the nested recoveries",
                            "nesting depth 2 (recovery of a crashed recovery)"]}


def replay(path):
    if os.path.basename(path).startswith("ro_"):
        from checks import c15
        r = c15.validate(v.run_dir("c04_replay"), path, ["MigFaithful"])
        if r.violation:
            print("VIOLATION property=C04 replay=%s" % path)
            return 1
        return 0
    return ce.replay(PROP, path, INV)

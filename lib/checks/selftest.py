"""bin/check selftest: binding demonstrations.  A specification nothing binds to the code accepts anything: each
demonstration takes a recording of the REAL code that the specification accepts, corrupts ONE recorded field (or one
model-generated expectation) and shows that the same TLC run now rejects it, naming the property formula.

  1. sequential store trace (TraceStore.tla):   a call's result is changed           -> ResultsMatch
  2. concurrent cache trace (TraceCache.tla):   a miss after a remove becomes a hit  -> RemoveThenMiss
                                                the reported memory is changed        -> MemExact
  3. ScanConc behaviour as a LinTrace history:  an item is dropped from a scan result -> RangeStable
  4. CacheConc.tla with SplitRemove = TRUE (the design mutation) must violate NoFlags
  5. write-behind handshake (TraceCoord.tla):   a publication event is removed          -> NothingLost / ConservationT
                                                a drain reports one entry less          -> DrainAll
                                                a publication moves behind a flush Ok   -> AckCoversAll
  6. Coord.tla: each of the six switch mutations must violate its property
Exit 0 when every corruption is rejected (and every original accepted), 2 otherwise (a selftest never prints VIOLATION)."""
import json
import os
import random

import vcommon as v


def _first(lines, pred):
    for i, l in enumerate(lines):
        try:
            e = json.loads(l)
        except Exception:
            continue
        if pred(e):
            return i, e
    return None, None


def run(seed):
    rd = v.run_dir("selftest")
    fxv = v.build_harness()
    ok = True

    def report(name, accepted_original, rejected_by):
        nonlocal ok
        good = accepted_original and rejected_by
        ok = ok and bool(good)
        print("%-58s original accepted: %-5s corrupted rejected by: %s" % (name, accepted_original, rejected_by or "NOTHING"), flush=True)

    # ---- 1. sequential store trace
    import seqengine as sq
    res = sq.run_programs(fxv, rd, [("st", ["--seed", str(seed), "--steps", "120", "--mode", "mem", "--ttl", "1"])])
    t = res[0]["trace"]
    g = sq.validate(rd, [t], sq.ALL_INV, "st_orig", chunk=1)[0]
    lines = open(t).read().splitlines()
    i, e = _first(lines, lambda e: e.get("e") == "call" and e.get("op") == "get" and e["res"]["tag"] == "val")
    bad = None
    if i is not None:
        e["res"] = {"tag": "KeyNotFound", "n": 0, "val": {"k": "none", "id": 0, "len": 0, "n": 0}, "tt": [0, 0, 0]}
        lines2 = list(lines)
        lines2[i] = json.dumps(e)
        t2 = os.path.join(rd, "st_corrupt.ndjson")
        open(t2, "w").write("\n".join(lines2) + "\n")
        g2 = sq.validate(rd, [t2], sq.ALL_INV, "st_bad", chunk=1)[0]
        bad = g2["r"].violation
    report("TraceStore: a successful get turned into KeyNotFound", not g["r"].violation, bad)

    # ---- 2. concurrent cache trace
    from checks import c16_cache
    fam = dict(c16_cache.conc_family(random.Random(seed), "quick"))
    pf = os.path.join(rd, "cc.prog")
    open(pf, "w").write(json.dumps(fam["rmrm_31"]) + "\n")
    ct = os.path.join(rd, "cc.ndjson")
    rc, so, se = v.run_cmd([fxv, "conc", "--mode", "dfs", "--prog", pf, "--out", ct, "--maxsched", "20", "--preempt", "2"], timeout=300)
    if rc != 0:
        raise v.ToolError("fxv conc failed: " + se[-300:])

    def tc(path, tag):
        return v.run_tlc("TraceCache", "TraceCache.cfg", os.path.join(rd, "tlc_" + tag), workers=1, timeout=600,
                         env_extra={"TRACE": path}, depth_first=True, coverage=False, xmx="2g")
    r0 = tc(ct, "cc_orig")
    lines = open(ct).read().splitlines()
    i, e = _first(lines, lambda e: e.get("op") == "get" and e.get("res") == "miss" and e.get("t"))
    e.update({"res": "hit", "vk": e["k"], "vg": 0, "vser": 1, "vlen": 100})
    l2 = list(lines)
    l2[i] = json.dumps(e)
    open(os.path.join(rd, "cc_hit.ndjson"), "w").write("\n".join(l2) + "\n")
    r1 = tc(os.path.join(rd, "cc_hit.ndjson"), "cc_hit")
    report("TraceCache (interleaved): miss after remove turned into a hit", not r0.violation and not r0.error, r1.violation)
    i, e = _first(lines, lambda e: e.get("op") == "remove")
    e["mem"] += 1
    l3 = list(lines)
    l3[i] = json.dumps(e)
    open(os.path.join(rd, "cc_mem.ndjson"), "w").write("\n".join(l3) + "\n")
    r2 = tc(os.path.join(rd, "cc_mem.ndjson"), "cc_mem")
    report("TraceCache (interleaved): reported memory off by one", not r0.violation and not r0.error, r2.violation)

    # ---- 3. a ScanConc behaviour as a LinTrace history
    import scanengine as se_
    import concengine as ce
    name, p = se_.family("quick")[0]
    mp = se_.model_program(name, p)
    r, beh = se_.run_model(rd, "self", [mp], shared=True, workers=4, timeout=600)
    b = next(x for x in beh if any(h["e"] == "res" and h["items"] for h in x["h"]))
    f0 = se_.write_model_histories(rd, "self_orig", [mp], [b])[0]
    a0 = ce.validate(rd, f0, ["RangeStable", "Linearizable"])
    for h in b["h"]:
        if h["e"] == "res" and h["items"]:
            h["items"] = h["items"][1:]
            h["res"]["n"] -= 1
            break
    f1 = se_.write_model_histories(rd, "self_bad", [mp], [b])[0]
    a1 = ce.validate(rd, f1, ["RangeStable", "Linearizable"])
    report("LinTrace: first item dropped from a scan result (ScanConc behaviour)", not a0.violation and not a0.error, a1.violation)

    # ---- 4. the design mutation of CacheConc.tla
    rm, _, _, _ = c16_cache.run_cache_model("quick", seed, rd, fxv, split_remove=True, emit_one_in=1000000, timeout=300)
    r4, _, _, _ = c16_cache.run_cache_model("quick", seed, rd, fxv, split_remove=False, emit_one_in=1000000, timeout=900)
    report("CacheConc.tla: SplitRemove = TRUE", not r4.violation and not r4.error, rm.violation)
    # ---- 5. the write-behind handshake (TraceCoord.tla): one recorded fact corrupted at a time
    import coordengine as co
    raw = os.path.join(rd, "self_coord.raw.ndjson")
    _shm = v.shm_dir("selfcoord")
    rc, so, se2 = v.run_cmd([fxv, "coord", "--kind", "mixed", "--cpus", "4", "--seed", str(seed + 11), "--steps", "50", "--out", raw,
                             "--dir", _shm], timeout=240)
    import shutil as _sh
    _sh.rmtree(_shm, ignore_errors=True)
    if rc != 0:
        raise v.ToolError("fxv coord failed in the selftest: " + se2[-300:])
    t0 = os.path.join(rd, "coord_self.ndjson")
    co.rename(raw, t0)
    lines = open(t0).read().splitlines()

    def coord_run(ls, tag):
        t = os.path.join(rd, "coord_self_%s.ndjson" % tag)
        open(t, "w").write("\n".join(ls) + "\n")
        return v.run_tlc("TraceCoord", "TraceCoord.cfg", os.path.join(rd, "tlc_coord_" + tag), workers=1, timeout=300,
                         env_extra={"TRACE": t}, coverage=False, xmx="2g")
    c0 = coord_run(lines, "orig")
    acc = not c0.violation and not c0.error
    i, e = _first(lines, lambda e: e.get("e") == "pub")
    c1 = coord_run(lines[:i] + lines[i + 1:], "nopub")
    report("TraceCoord: one publication event removed (hook dropped)", acc, c1.violation)
    i, e = _first(lines, lambda e: e.get("e") == "drain" and e.get("n", 0) >= 2)
    e2 = dict(e, n=e["n"] - 1)
    c2 = coord_run(lines[:i] + [json.dumps(e2)] + lines[i + 1:], "drain")
    report("TraceCoord: a drain reports one entry less than the shard held", acc, c2.violation)
    i, e = _first(lines, lambda e: e.get("e") == "flush_end" and e.get("ok") == 1)
    j = max(k for k in range(i) if json.loads(lines[k]).get("e") == "flush_begin" and json.loads(lines[k]).get("c") == e["c"])
    # an entry enqueued before that flush began, whose publication is moved behind the acknowledgement
    k, pe = _first(lines[:j], lambda x: x.get("e") == "enq" and x.get("k") == "W")
    pi, pev = _first(lines, lambda x: x.get("e") in ("pub", "skip") and x.get("id") == pe["id"])
    if pi is not None and pi < i:
        moved = lines[:pi] + lines[pi + 1:i + 1] + [lines[pi]] + lines[i + 1:]
        c3 = coord_run(moved, "ack")
        report("TraceCoord: a publication moved behind the flush acknowledgement", acc, c3.violation)
    # ---- 6. the design mutations of Coord.tla
    for m in co.MUTS:
        rmu = v.run_tlc("MCCoord", "MCCoord_mut_%s.cfg" % m, os.path.join(rd, "coordmc"), workers=4, timeout=900, coverage=False, xmx="8g")
        report("Coord.tla: %s = FALSE" % m, True, rmu.violation)
    print("selftest " + ("ok" if ok else "FAILED"), flush=True)
    return 0 if ok else 2

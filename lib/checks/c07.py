"""C07 — concurrent operations on a key are atomic and timestamp-ordered (linearizable)."""
import os
import random

import vcommon as v
import concengine as ce
import scengine as sc

PROP = "C07"
INV = ["Linearizable"]


def collect(prop, results, rd, inv, viol, st):
    def val(x):
        return x, ce.validate(rd, x["trace"], inv)
    ok = []
    for x in results:
        if x["rc"] == 3 or "hang" in x["info"]:
            p = v.save_replay(prop.lower(), os.path.basename(x.get("prog", x["trace"])) + ".hang.json", {"info": x["info"]})
            viol.append({"what": "schedule did not terminate (watchdog): %s" % x["info"], "replay": p, "key": "hang"})
        elif x["rc"] != 0:
            if v.panic_in_code_under_test(x["stderr"]):
                p = v.save_replay(prop.lower(), os.path.basename(x["trace"]) + ".panic.txt", x["stderr"])
                viol.append({"what": "panic: " + x["stderr"][-300:], "replay": p, "key": "panic"})
            else:
                raise v.ToolError("fxv conc failed: " + x["stderr"][-500:])
        else:
            # a program thread that panicked inside the code under test ends its schedule as a stall (the controller
            # discards the history); the panic itself is the result
            if "panicked at" in (x.get("stderr") or "") and v.panic_in_code_under_test(x["stderr"]):
                p = v.save_replay(prop.lower(), os.path.basename(x["trace"]) + ".panic.txt", x["stderr"])
                viol.append({"what": "panic in a call of the code under test: " + v.clip_stderr(x["stderr"], 400)[:400], "replay": p, "key": "panic"})
            ok.append(x)
    for x, r in v.parallel_map(val, ok, jobs=10):
        st["traces"] += 1
        st["states"] += r.distinct
        st["transitions"] += r.generated
        st["schedules"] += x["info"].get("schedules", x["info"].get("rounds", 0))
        st["stalls"] += x["info"].get("stalls", 0)
        st["events"] += x["info"].get("events", 0)
        if r.violation and r.violation.startswith("invariant"):
            idx, fl, hist = ce.explain(r, x["trace"])
            keep = v.save_replay(prop.lower(), os.path.basename(x["trace"]), open(x["trace"]).read())
            viol.append({"what": "%s flags=%s at event %s: %s" % (r.violation, fl, idx, ce.brief(hist)),
                         "replay": keep, "key": "%s %s" % (r.violation, fl)})
        elif r.violation:
            raise v.ToolError("LinTrace: %s %s" % (r.violation, r.out[-500:]))
        else:
            v.tlc_ok(r, "LinTrace")
    return ok


def storeconc_family(tier, seed):
    rng = random.Random(seed + 77)
    pairs = ce.pair_family()
    fam = sc.chain_family() + ce.aba_family()
    mem = ce.mem_family()
    if tier == "quick":
        rng.shuffle(pairs)
        fam += pairs[:500] + [x for x in mem if len(x[1]["threads"]) == 2]
    else:
        fam += pairs + mem + ce.triple_family(rng, 4)
    return fam


def storeconc_part(tier, seed, rd, fxv, viol, st, prop=PROP, inv=None, fam=None, nsample=24000):
    """StoreConc.tla: every interleaving of the program families on the design model (TLC), the model's
    behaviours judged by LinTrace, and their schedules replayed on the real store (spec -> impl).
    `inv`: the property formulas of LinTrace that give the verdict on the REAL histories (the caller's own)."""
    inv = inv or INV
    if fam is None:
        fam = storeconc_family(tier, seed)
    mprogs, src = [], {}
    for name, p in fam:
        m = sc.model_program(name, p)
        if m and name not in src:
            mprogs.append(m)
            src[name] = p
    r, beh = sc.run_model(rd, "sc", mprogs, workers=12, timeout=5000)
    info = {"programs": len(mprogs), "model_states": r.distinct, "model_behaviours": len(beh),
            "model_wall_s": round(r.wall, 1), "design_violation": None}
    if r.timeout or (r.error and not r.violation):
        raise v.ToolError("StoreConc model checking failed: %s %s" % (r.error, r.out[-600:]))
    if r.violation:
        # a design-level counterexample: recorded; the verdict comes from the replay on the real store
        info["design_violation"] = r.violation
    if not beh:
        raise v.ToolError("StoreConc produced no behaviour: " + r.out[-600:])
    sel = sc.sample(beh, nsample if tier == "quick" else 300000, seed)
    # (a) the model's own behaviours, judged by the oracle that judges the implementation
    files = sc.write_model_histories(rd, "sc", mprogs, sel, chunk=4000)
    rejected = 0
    for f, rr in zip(files, v.parallel_map(lambda f: ce.validate(rd, f, INV + ["SweepSafe", "MemBound", "NotHidden"]), files, jobs=10)):
        if rr.violation and rr.violation.startswith("invariant"):
            rejected += 1
            info.setdefault("model_rejections", []).append(ce.brief(ce.explain(rr, f)[2]))
        elif rr.violation or rr.error:
            raise v.ToolError("LinTrace on model behaviours: %s %s" % (rr.violation or rr.error, rr.out[-500:]))
    info["model_histories_judged"] = len(sel)
    info["model_history_files_rejected"] = rejected
    # (b) the same behaviours as schedules on the real store
    items = [(src[b["p"]], b) for b in sel]
    res = sc.replay(fxv, rd, "sc", items)
    dev = {}
    examples = []
    conform = 0
    for g in res:
        for (p, b), got in zip(g["group"], g["got"]):
            d = sc.compare(b, got)
            if d:
                dev[",".join(d)] = dev.get(",".join(d), 0) + 1
                if len(examples) < 5:
                    examples.append({"program": b["p"], "deviation": d, "schedule": [[h["t"], h["at"]] for h in b["h"] if h["e"] == "step"],
                                     "arrived": got.get("arrivals")})
            else:
                conform += 1
        del g["group"]
    info.update({"replayed": len(items), "conforming": conform, "deviations": dev, "deviation_examples": examples})
    # the verdict on what the real store did is LinTrace's
    collect(prop, res, rd, inv, viol, st)
    return info


def run(tier, seed):
    rd = v.run_dir("c07")
    fxv = v.build_harness()
    rng = random.Random(seed)
    viol = []
    st = {"traces": 0, "states": 0, "transitions": 0, "schedules": 0, "stalls": 0, "events": 0}
    fam = ce.pair_family()
    if tier == "quick":
        rng.shuffle(fam)
        special = lambda n: "_eq" in n or "insb_" in n
        fam = [x for x in fam if special(x[0])][:110] + [x for x in fam if not special(x[0])][:230]
    else:
        fam += ce.triple_family(rng, 150)
    fam += ce.aba_family()
    fam += ce.clock_family()
    # two calls racing on a key that does not exist yet, with the points BETWEEN the two index publications as
    # decision points: whoever creates the key has published it in the hash index and stands in front of the
    # ordered-index insert while the other call runs (creation must be one step for every creating call)
    creators = ("incr", "incr2", "iia", "ins_auto", "ins_new", "insb_auto", "ins_ttl", "patch", "cas", "ttl", "del_auto", "get")
    tpoints = ["tree_insert", "tree_publish", "tree_remove", "ins_create", "ins_read", "inc_create", "iia_guard", "inc_guard",
               "upd_guard", "rep_guard", "ttl_guard", "del_guard"]
    cfam = []
    for n, p in ce.pair_family():
        parts = n.split("|")
        if parts[0] == "absent" and len(parts) == 3 and (parts[1] in creators[:7] or parts[2] in creators[:7]) \
                and parts[1] in creators and parts[2] in creators:
            cfam.append(("tree|" + n, dict(p, points=tpoints)))
    if tier == "quick":
        rng.shuffle(cfam)
        cfam = [x for x in cfam if "|incr" in x[0] or "|iia" in x[0]][:8] + cfam[:4]
    fam += cfam
    res = ce.run_dfs(fxv, rd, fam, "pairs", maxsched=300 if tier == "quick" else 1500,
                     preempt=2 if tier == "quick" else 3)
    ok = collect(PROP, res, rd, INV, viol, st)
    pfam = ce.pers_lww_family()
    if tier == "quick":
        pfam = [x for x in pfam if "|n|" in x[0]]
    pres = ce.run_dfs(fxv, rd, pfam, "perslww", chunk=1, maxsched=120 if tier == "quick" else 600, preempt=2, par=8)
    ok += collect(PROP, pres, rd, INV, viol, st)
    free = []
    n = 6 if tier == "quick" else 40
    for i in range(n):
        free.append(("free_mem_%d" % i, ["--seed", str(rng.randrange(1 << 30)), "--threads", str(rng.choice([2, 3, 4])),
                                         "--ops", "25", "--keys", str(rng.choice([1, 2])), "--rounds", "25"]))
    for i in range(n // 2):
        free.append(("free_pers_%d" % i, ["--seed", str(rng.randrange(1 << 30)), "--threads", "3", "--ops", "20",
                                          "--keys", "2", "--rounds", "8", "--pers", "1", "--blocks", "48",
                                          "--cache", str(i % 2)]))
    fres = ce.run_free(fxv, rd, free)
    collect(PROP, fres, rd, INV, viol, st)
    scinfo = storeconc_part(tier, seed, rd, fxv, viol, st)
    sample = []
    if ok:
        for line in open(ok[0]["trace"]):
            if '"e":"mem"' not in line:
                sample.append(line.strip()[:220])
            if len(sample) >= 8:
                break
    cov = {
        "states": st["states"], "transitions": st["transitions"],
        "traces_validated_against_impl": st["traces"],
        "evaluations": st["schedules"], "distinct_nontrivial": st["schedules"],
        "rule": "one case = one schedule: a two-thread program (every pair of 17 operation variants - "
                "automatic/explicit older/newer timestamps, TTL, CAS, increment, insert-if-absent, patch, "
                "TTL update, sweep - on a key that is absent / bytes / counter / document / expired) executed "
                "on the real store under the controlled scheduler, all interleavings at scheduling-point "
                "granularity with at most 2 (quick) or 3 preemptions; plus free-running histories of 2-4 "
                "threads (memory-only and persistent with the flusher running). Distinct by (program, schedule).",
        "samples": sample, "programs": len(fam), "stalled_schedules": st["stalls"], "events": st["events"],
        "storeconc": scinfo,
    }
    return {"level": "model_checking", "coverage": cov, "violations": viol,
            "assumptions": ["publication events are emitted inside the guarded sections (hook), so their order "
                            "per key is the real order of mutations",
                            "scheduling points (hooks) delimit the steps; finer interleavings inside a step "
                            "are not steered"]}


def replay(path):
    rd = v.run_dir("c07_replay")
    r = ce.validate(rd, path, INV)
    if r.violation:
        idx, fl, hist = ce.explain(r, path)
        print("rejected flags=%s at event %s: %s" % (fl, idx, ce.brief(hist)))
        print("VIOLATION property=%s replay=%s" % (PROP, path))
        return 1
    print("accepted")
    return 0

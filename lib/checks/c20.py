"""C20 — the safe API is memory safe under every interleaving.

What the specification decides: Epoch.tla model-checks the reclamation protocol of the ordered-index
slots (swap + deferred destruction under epoch pins, periodic repin) and the in-flight write-buffer
rule (NoUseAfterDestroy, HeldIsAlive); the same model with deferral switched off must fail (sanity).
What it cannot decide is observed: the schedules, free-running histories, fault plans, crash
workloads and shutdown scenarios that the other engines generate are re-executed by the SAME harness
built with AddressSanitizer; any sanitizer report or abnormal termination is a violation."""
import json
import os
import random
import shutil

import vcommon as v
import concengine as ce

PROP = "C20"


def asan_run(cmd, timeout=600):
    # detect_stack_use_after_scope=0: the scope markers rustc emits for iterator temporaries produced a report INSIDE
    # the harness's own scheduler loop (std `Vec::extend` over a filtered slice iterator, thread T0, unchanged tree): a
    # false positive of the instrumentation, not a memory error.  The heap checks (use-after-free, double free, overflow)
    # are what C20's reclamation and buffer rules are about and stay on.
    env = dict(os.environ, ASAN_OPTIONS="detect_leaks=0:abort_on_error=0:halt_on_error=1:detect_stack_use_after_scope=0")
    rc, so, se = v.run_cmd(cmd, timeout=timeout, env=env)
    report = None
    if "AddressSanitizer" in se or "AddressSanitizer" in so:
        i = se.find("AddressSanitizer")
        report = se[max(0, i - 100):i + 4000]
        # a report whose stacks never enter the crate under test is a problem of the harness, not a result
        if "feoxdb" not in se[i:i + 20000]:
            raise v.ToolError("AddressSanitizer report inside the harness only: " + report[:600])
    return rc, so, se, report


def run(tier, seed):
    rd = v.run_dir("c20")
    rng = random.Random(seed)
    viol = []
    # ---- model
    r = v.run_tlc("Epoch", "MCEpoch.cfg", rd, workers=6, timeout=600)
    v.tlc_ok(r, "Epoch")
    if r.violation:
        p = v.save_replay("c20", "epoch.out", r.out)
        viol.append({"what": "model: " + r.violation, "replay": p, "key": "mc"})
    for act in ("Swap", "Collect", "Load", "Deref", "Repin", "EnterFails", "Leak"):
        if r.coverage.get(act, (0, 0))[1] == 0:
            raise v.ToolError("vacuity: Epoch action %s never taken" % act)
    r2 = v.run_tlc("Epoch", "MCEpoch_nodefer.cfg", rd, workers=2, timeout=300, coverage=False)
    if not r2.violation:
        raise v.ToolError("Epoch model sanity: destroying immediately must violate NoUseAfterDestroy")
    mc_states, mc_trans = r.distinct, r.generated
    # ---- in-flight write buffers: a failing io_uring_enter with writes queued (BufTrace.tla)
    fxv = v.build_harness()
    shm0 = v.shm_dir("c20u")
    buf_traces = 0
    buf_events = 0
    try:
        for i in range(4 if tier == "quick" else 16):
            t = os.path.join(rd, "uring_%d.ndjson" % i)
            rc, so, se = v.run_cmd([fxv, "uringfault", "--dir", shm0, "--out", t, "--values", str([6, 3, 10, 1][i % 4]),
                                    "--vlen", str([3 << 20, 1 << 20, 200000, 4 << 20][i % 4]), "--at", str([0, 0, 0, 0][i % 4]),
                                    "--cpus", str([2, 4][i % 2])], timeout=120)
            if rc != 0:
                if v.panic_in_code_under_test(se):
                    p = v.save_replay("c20", "uring_%d.panic.txt" % i, se[-1500:])
                    viol.append({"what": "panic in uringfault", "replay": p, "key": "panic"})
                    continue
                raise v.ToolError("fxv uringfault failed rc=%s: %s" % (rc, (se or so)[-400:]))
            info = json.loads(so.strip().splitlines()[-1])
            if info.get("enter_calls", 0) < 1 or info.get("events", 0) < 2:
                raise v.ToolError("vacuity: uringfault did not reach io_uring_enter (%s)" % info)
            rb = v.run_tlc("BufTrace", "BufTrace.cfg", rd, workers=1, timeout=300, env_extra={"TRACE": t},
                           depth_first=True, coverage=False, xmx="1g")
            buf_traces += 1
            buf_events += info["events"]
            mc_extra = rb.distinct
            if rb.violation and rb.violation.startswith("invariant"):
                keep = v.save_replay("c20", os.path.basename(t), open(t).read())
                viol.append({"what": "write buffer freed while the kernel may still own it (%s; flush -> %s)" % (rb.violation, info.get("flush")),
                             "replay": keep, "key": "buffer freed in flight"})
            elif rb.violation:
                raise v.ToolError("BufTrace: " + rb.out[-400:])
            else:
                v.tlc_ok(rb, "BufTrace")
    finally:
        shutil.rmtree(shm0, ignore_errors=True)
    # ---- re-execution under AddressSanitizer
    fxa = v.build_harness(asan=True)
    shm = v.shm_dir("c20")
    runs = []
    fam = ce.range_family() + [p for p in ce.pair_family() if p[0].split("|")[1] in ("ins_auto", "del_auto", "incr", "cas", "ttl", "sweep")
                               or p[0].split("|")[2] in ("get", "sweep", "ttl")]
    rng.shuffle(fam)
    fam = fam[:120 if tier == "quick" else 600]
    for gi in range(0, len(fam), 30):
        pf = os.path.join(rd, "asan_%d.prog" % gi)
        with open(pf, "w") as fh:
            for name, p in fam[gi:gi + 30]:
                fh.write(json.dumps(p) + "\n")
        runs.append(("dfs_%d" % gi, [fxa, "conc", "--mode", "dfs", "--prog", pf, "--out", os.path.join(rd, "asan_%d.ndjson" % gi),
                                     "--maxsched", "120" if tier == "quick" else "600", "--preempt", "2"]))
    from checks import c08
    pfam = c08.family()
    rng.shuffle(pfam)
    for gi in range(0, 8 if tier == "quick" else 24, 2):
        pf = os.path.join(rd, "asanp_%d.prog" % gi)
        with open(pf, "w") as fh:
            for name, p in pfam[gi:gi + 2]:
                fh.write(json.dumps(p) + "\n")
        runs.append(("dfsp_%d" % gi, [fxa, "conc", "--mode", "dfs", "--prog", pf, "--out", os.path.join(rd, "asanp_%d.ndjson" % gi),
                                      "--maxsched", "30", "--preempt", "2", "--dir", shm]))
    for i in range(4 if tier == "quick" else 20):
        runs.append(("free_%d" % i, [fxa, "conc", "--mode", "free", "--out", os.path.join(rd, "asanf_%d.ndjson" % i), "--dir", shm,
                                     "--seed", str(rng.randrange(1 << 30)), "--threads", "4", "--ops", "30", "--keys", "3",
                                     "--rounds", "10", "--pers", str(i % 2), "--blocks", "40", "--cache", str((i // 2) % 2)]))
    for i in range(3 if tier == "quick" else 12):   # scans against continuous replacement, scanners stalled inside their calls
        runs.append(("scanstorm_%d" % i, [fxa, "conc", "--mode", "scanstorm", "--out", os.path.join(rd, "asans_%d.ndjson" % i),
                                          "--seed", str(rng.randrange(1 << 30)), "--millis", "2500" if tier == "quick" else "6000",
                                          "--keys", str([16, 700, 64][i % 3]), "--stallmask", str([63, 31, 127][i % 3])]))
    # scans against REMOVAL and re-creation of the keys under their cursor (delete + insert), long keys that differ in their
    # last bytes only (a scan's comparisons are slow, the cursor stays on a node for long); no stalls: raw speed
    for i in range(3 if tier == "quick" else 10):
        runs.append(("delstorm_%d" % i, [[fxa, fxv, fxa][i % 3], "conc", "--mode", "scanstorm", "--out", os.path.join(rd, "asand_%d.ndjson" % i),
                                         "--seed", str(rng.randrange(1 << 30)), "--millis", "2500" if tier == "quick" else "6000",
                                         "--keys", str([2, 3, 6][i % 3]), "--klen", str([90000, 40000, 60000][i % 3]), "--writers", "0",
                                         "--deleters", str([1, 2, 2][i % 3]), "--scanners", "3", "--stallmask", "0", "--stallus", "0"]))
    # readers spinning on hot keys of a persistent store while a writer replaces them and flushes: every read races with
    # the flush worker releasing the value of the generation it has just written
    for i in range(2 if tier == "quick" else 6):
        runs.append(("readstorm_%d" % i, [fxa, "conc", "--mode", "readstorm", "--dir", shm, "--millis", "2500" if tier == "quick" else "6000",
                                          "--readers", str([6, 10][i % 2]), "--keys", str([1, 3][i % 2]), "--cache", str(i % 2)]))
    # the crate's other safe public type with unsafe inside: the aligned I/O buffer, through safe calls only
    for i in range(2 if tier == "quick" else 8):
        runs.append(("api_%d" % i, [fxa, "apisurface", "--seed", str(rng.randrange(1 << 30)), "--rounds", "300"]))
    # a hot key: one key overwritten far faster than the write buffer flushes - the chain of superseded generations
    # is released in one go when the newest one becomes durable (plain build too: sanitizer frames are larger)
    for i in range(1 if tier == "quick" else 3):
        runs.append(("hotkey_%d" % i, [fxa, "hotkey", "--dir", shm, "--burst", str([120000, 300000, 60000][i % 3]), "--rounds", "2"]))
        runs.append(("hotkeyp_%d" % i, [fxv, "hotkey", "--dir", shm, "--burst", str([250000, 500000, 120000][i % 3]), "--rounds", "2"]))
    for i in range(6 if tier == "quick" else 40):
        d = os.path.join(shm, "cr%d" % i)
        os.makedirs(d, exist_ok=True)
        args = [fxa, "crash", "--dir", d, "--out", os.path.join(rd, "asanc_%d.ndjson" % i), "--seed", str(rng.randrange(1 << 30)),
                "--steps", "40", "--blocks", "44", "--cpus", str(rng.choice([2, 4, 8])), "--maximages", "60",
                "--end", rng.choice(["drop", "drop", "leak"])]
        if i % 2:
            args += ["--forcesync", "1", "--faultat", str(rng.randrange(5, 60)), "--faultmode", str(rng.choice([1, 2])),
                     "--faultfrom", str(rng.choice([0, 0, 1]))]
        runs.append(("crash_%d" % i, args))

    def one(job):
        tag, cmd = job
        rc, so, se, report = asan_run(cmd)
        return tag, cmd, rc, so, se, report
    try:
        results = v.parallel_map(one, runs, jobs=8)
    finally:
        shutil.rmtree(shm, ignore_errors=True)
    schedules = 0
    samples = []
    for tag, cmd, rc, so, se, report in results:
        for line in so.splitlines():
            try:
                info = json.loads(line)
                schedules += info.get("schedules", 0) + info.get("rounds", 0) + info.get("images", 0)
            except Exception:
                pass
        if report:
            p = v.save_replay("c20", tag + ".asan.txt", "CMD: %s\n%s" % (" ".join(cmd), report))
            viol.append({"what": "AddressSanitizer report in %s: %s" % (tag, report[:300].replace("\n", " ")),
                         "replay": p, "key": "asan"})
        elif rc < 0 or rc in (134, 139):
            p = v.save_replay("c20", tag + ".crash.txt", "CMD: %s\nrc=%s\n%s" % (" ".join(cmd), rc, se[-1500:]))
            viol.append({"what": "abnormal termination (rc=%s) of %s" % (rc, tag), "replay": p, "key": "abort"})
        elif rc == 4:
            p = v.save_replay("c20", tag + ".foreign.txt", "CMD: %s\n%s" % (" ".join(cmd), so[-500:]))
            viol.append({"what": ("a safe buffer call reported a capacity its allocation does not back in %s: %s" if tag.startswith("api_") else
                                  "a scan returned a key with another key's bytes in %s: %s") % (tag, so[-200:]), "replay": p, "key": "foreign value"})
        elif rc == 3:
            p = v.save_replay("c20", tag + ".hang.txt", "CMD: %s\n%s" % (" ".join(cmd), so[-500:]))
            viol.append({"what": "hang in %s" % tag, "replay": p, "key": "hang"})
        elif rc != 0:
            if v.panic_in_code_under_test(se):
                p = v.save_replay("c20", tag + ".panic.txt", se[-1500:])
                viol.append({"what": "panic in %s" % tag, "replay": p, "key": "panic"})
            else:
                raise v.ToolError("%s failed rc=%s: %s" % (tag, rc, se[-400:]))
        if len(samples) < 5:
            samples.append({"run": tag, "cmd": " ".join(cmd[1:8])})
    cov = {
        "evaluations": schedules, "distinct_nontrivial": len(runs),
        "rule": "one case = one schedule / free-running round / crash-image recovery executed by the "
                "AddressSanitizer build of the harness (scan x update/delete/expiry schedules, reader/writer "
                "schedules on persistent stores, free-running mixes with the flusher, crash workloads with "
                "and without injected I/O faults, clean drop and abandon); distinct_nontrivial counts the "
                "distinct program groups",
        "samples": samples,
        "inflight_buffer_traces": buf_traces, "inflight_buffer_events": buf_events,
        "states": mc_states, "transitions": mc_trans,
    }
    return {"level": "exploration", "coverage": cov, "violations": viol,
            "assumptions": ["memory safety is observed by AddressSanitizer on the explored executions, not derived "
                            "by TLC; Epoch.tla only model-checks the reclamation protocol's design",
                            "system allocator (feature system-alloc), detect_leaks off (intentional leaks of stores)"]}


def replay(path):
    print(open(path).read()[:3000])
    return 0
